import MsPack.Chm.Headers
import MsPack.Spec.CabEncode
/-
The CHM *directory* writer the C03 header round-trip theorem is stated against
(`Proofs/Props/C03Headers.lean`), kept in the model library so that it can be executed.

`encodeChm` lays out what a CHM writer produces for a file without index chunks:

    ITSF header (56 bytes)            signature, version, header length, 1, timestamp (big endian),
                                      language id, the two GUIDs
    header section table              offset/length of header section 0, offset/length of header
                                      section 1, and (version 3 only) the offset of content section 0
    header section 0 (24 bytes)       0x1FE, 0, file length (64 bit), 0, 0
    header section 1 = ITSP header    signature, version 1, header length 84, 0x0A, chunk size,
      (84 bytes)                      density, depth 1, index root -1, first PMGL 0, last PMGL n-1,
                                      -1, number of chunks n, language id, GUID, 0x54, -1, -1, -1
      followed by n PMGL chunks       signature, length of free space + quickref area, 0, previous
                                      chunk number (-1 for the first), next chunk number (-1 for the
                                      last), the entries (name length, name, section, offset, length;
                                      the four numbers ENCINT-coded), zero padding, and in the last
                                      two bytes the number of entries
    content section 0                 any bytes

The quick-reference area is just the 2-byte entry count (its offsets are only used by `fast_find`,
not by the listing).
-/
namespace MsPack.Chm
open MsPack MsPack.Generated
open MsPack.Oab (enc32)
open MsPack.Cab (enc16)

/-- 64-bit little endian -/
def enc64 (n : Nat) : Bytes := enc32 (n % 4294967296) ++ enc32 (n / 4294967296)

/-- 32-bit big endian (the ITSF timestamp is read with `EndGetM32`) -/
def enc32BE (n : Nat) : Bytes :=
  [UInt8.ofNat (n / 16777216 % 256), UInt8.ofNat (n / 65536 % 256), UInt8.ofNat (n / 256 % 256), UInt8.ofNat (n % 256)]

/-! ## ENCINT writer: 7-bit groups, most significant first, shortest coding -/

/-- `k` groups of 7 bits of `n`, most significant first -/
def encintGroups : Nat → Nat → List Nat
  | 0, _ => []
  | k + 1, n => encintGroups k (n / 128) ++ [n % 128]

/-- the `j + 1`-byte ENCINT of `n`: continuation bit on all bytes but the last -/
def putEncintN (j n : Nat) : Bytes :=
  (encintGroups j (n / 128)).map (fun d => UInt8.ofNat (d + 128)) ++ [UInt8.ofNat (n % 128)]

/-- how many continuation bytes the shortest coding of `n` needs (at most `fuel`) -/
def encintExtra : Nat → Nat → Nat
  | 0, _ => 0
  | fuel + 1, n => if n < 128 then 0 else encintExtra fuel (n / 128) + 1

/-- the shortest ENCINT of `n` (`n < 2^63`: at most 9 bytes) -/
def putEncint (n : Nat) : Bytes := putEncintN (encintExtra 8 n) n

/-! ## directory entries and PMGL chunks -/

structure EntrySpec where
  name   : Bytes
  sec    : Nat
  offset : Nat
  length : Nat
  deriving Repr, DecidableEq

def encEntry (e : EntrySpec) : Bytes :=
  putEncint e.name.length ++ (e.name ++ (putEncint e.sec ++ (putEncint e.offset ++ putEncint e.length)))

/-- what `chmd_read_headers` keeps in `chm->files`: names of at least two bytes whose first two bytes are
    not NUL, except the directory entries (offset 0, length 0, name ending in '/') -/
def EntrySpec.isFile (e : EntrySpec) : Bool :=
  decide (¬ (e.name.length < 2 ∨ byteAt e.name 0 = 0 ∨ byteAt e.name 1 = 0)) &&
  decide (¬ (e.offset = 0 ∧ e.length = 0 ∧ byteAt e.name (e.name.length - 1) = 0x2F))

def EntrySpec.listed (e : EntrySpec) : CFile :=
  { name := e.name, sec := e.sec, offset := Int.ofNat e.offset, length := Int.ofNat e.length }

def encEntries (es : List EntrySpec) : Bytes := es.flatMap encEntry

/-- chunk number `i` of `total` -/
def encChunk (chunkSize total i : Nat) (es : List EntrySpec) : Bytes :=
  (enc32 0x4C474D50 ++ enc32 (chunkSize - 20 - (encEntries es).length) ++ enc32 0 ++
   enc32 (if i = 0 then 0xFFFFFFFF else i - 1) ++ enc32 (if i + 1 = total then 0xFFFFFFFF else i + 1)) ++
  (encEntries es ++ (List.replicate (chunkSize - 22 - (encEntries es).length) 0 ++ enc16 es.length))

def encChunks (chunkSize total : Nat) : Nat → List (List EntrySpec) → Bytes
  | _, [] => []
  | i, c :: cs => encChunk chunkSize total i c ++ encChunks chunkSize total (i + 1) cs

/-! ## the file -/

structure ChmSpec where
  version   : Nat                         -- 2 or 3
  timestamp : Nat
  language  : Nat
  chunkSize : Nat
  density   : Nat
  chunks    : List (List EntrySpec)       -- the PMGL chunks, each with its entries
  content   : Bytes                       -- content section 0
  deriving Repr

namespace ChmSpec

def numChunks (s : ChmSpec) : Nat := s.chunks.length
/-- length of ITSF header + header section table = offset of header section 0 -/
def hs0Offset (s : ChmSpec) : Nat := if s.version = 3 then 96 else 88
/-- offset of header section 1 (the ITSP header) -/
def hs1Offset (s : ChmSpec) : Nat := s.hs0Offset + 24
/-- offset of the first chunk (`chm->dir_offset`) -/
def dirOffset (s : ChmSpec) : Nat := s.hs1Offset + 84
/-- offset of content section 0 -/
def sec0Offset (s : ChmSpec) : Nat := s.dirOffset + s.chunkSize * s.numChunks
def fileLength (s : ChmSpec) : Nat := s.sec0Offset + s.content.length

/-- every directory entry, in file order -/
def entries (s : ChmSpec) : List EntrySpec := s.chunks.flatten

end ChmSpec

def guidBytes : Bytes := chmGuids.map UInt8.ofNat

/-- {5D02926A-212E-11D0-9DF9-00A0C922E6EC} -/
def itspGuid : Bytes :=
  [0x6A, 0x92, 0x02, 0x5D, 0x2E, 0x21, 0xD0, 0x11, 0x9D, 0xF9, 0x00, 0xA0, 0xC9, 0x22, 0xE6, 0xEC]

def encItsf (s : ChmSpec) : Bytes :=
  (enc32 0x46535449 ++ enc32 s.version ++ enc32 s.hs0Offset ++ enc32 1 ++ enc32BE s.timestamp ++ enc32 s.language) ++
  guidBytes

/-- the first 32 bytes of the header section table (all of it for version 2) -/
def encHst (s : ChmSpec) : Bytes :=
  enc64 s.hs0Offset ++ enc64 24 ++ enc64 s.hs1Offset ++ enc64 (84 + s.chunkSize * s.numChunks)

/-- the version 3 extension of the header section table -/
def encHst3 (s : ChmSpec) : Bytes := if s.version = 3 then enc64 s.sec0Offset else []

def encHs0 (s : ChmSpec) : Bytes := enc32 0x1FE ++ enc32 0 ++ enc64 s.fileLength ++ enc32 0 ++ enc32 0

def encItsp (s : ChmSpec) : Bytes :=
  (enc32 0x50535449 ++ enc32 1 ++ enc32 84 ++ enc32 0x0A ++ enc32 s.chunkSize ++ enc32 s.density ++ enc32 1 ++
   enc32 0xFFFFFFFF ++ enc32 0 ++ enc32 (s.numChunks - 1) ++ enc32 0xFFFFFFFF ++ enc32 s.numChunks ++ enc32 s.language) ++
  (itspGuid ++ (enc32 0x54 ++ enc32 0xFFFFFFFF ++ enc32 0xFFFFFFFF ++ enc32 0xFFFFFFFF))

def encodeChm (s : ChmSpec) : Bytes :=
  encItsf s ++ (encHst s ++ (encHst3 s ++ (encHs0 s ++ (encItsp s ++
    (encChunks s.chunkSize s.numChunks 0 s.chunks ++ s.content)))))

/-! ## well-formedness (the premises of the round-trip theorem) -/

/-- one entry: section 0 or 1, offset and length fit an `off_t` (63 bits), and the name is not a system
    file's (does not start with "::"; system files go to another list and are not covered here) -/
def EntrySpec.wf (e : EntrySpec) : Prop :=
  e.sec ≤ 1 ∧ e.offset < 9223372036854775808 ∧ e.length < 9223372036854775808 ∧
  ¬ (byteAt e.name 0 = 0x3A ∧ byteAt e.name 1 = 0x3A)

/-- the entries of a chunk leave room for the 20-byte chunk header and the 2-byte entry count -/
def chunkFits (chunkSize : Nat) (es : List EntrySpec) : Prop :=
  22 + (encEntries es).length ≤ chunkSize ∧ es.length < 65536

/-- version 2 or 3; 32-bit header fields; chunk size at most 8192 and 1..100000 chunks (the limits
    `chmd_read_headers` enforces); every chunk's entries fit in it; the file is shorter than 2^63 bytes -/
def ChmSpec.wf (s : ChmSpec) : Prop :=
  (s.version = 2 ∨ s.version = 3) ∧ s.timestamp < 4294967296 ∧ s.language < 4294967296 ∧ s.density < 4294967296 ∧
  s.chunkSize ≤ 8192 ∧ s.chunks ≠ [] ∧ s.chunks.length ≤ 100000 ∧ s.content.length < 4611686018427387904 ∧
  (∀ c ∈ s.chunks, chunkFits s.chunkSize c ∧ ∀ en ∈ c, en.wf)

/-- what `open()` reports for `encodeChm s` (the theorem `C03_headers_roundtrip`) -/
def ChmSpec.listed (s : ChmSpec) (filename : String) : Header :=
  { filename, length := Int.ofNat s.fileLength, version := s.version, timestamp := s.timestamp,
    language := s.language, dirOffset := Int.ofNat s.dirOffset, numChunks := s.numChunks,
    chunkSize := s.chunkSize, density := s.density, depth := 1, indexRoot := 0xFFFFFFFF,
    firstPmgl := 0, lastPmgl := s.numChunks - 1, sec0Offset := Int.ofNat s.sec0Offset,
    files := (s.entries.filter EntrySpec.isFile).map EntrySpec.listed }

end MsPack.Chm
