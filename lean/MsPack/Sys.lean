import MsPack.Basic
/-
The caller-supplied `mspack_system` as a state machine: in-memory files, a ledger of live
allocations and open handles, a fault plan ("fail the k-th call of this kind"), and a monitor that
records every use of the interface the documentation forbids.  This is the Lean twin of the
harness's instrumented system (harness/sys.c); API-level effect models run in `Sys.M`.
-/
namespace MsPack.Sys
open MsPack

inductive Kind | alloc | open_ | read | write | seek
  deriving DecidableEq, Repr

inductive Mode | read | write
  deriving DecidableEq, Repr

structure Handle where
  id   : Nat
  name : String
  mode : Mode
  pos  : Nat
  /-- write handles: the bytes accepted so far, newest first; they become the file at `close`.
      Output handles are append-only here (libmspack never seeks an output handle), which keeps a
      one-byte `write` O(1) when the model is executed. -/
  out  : Bytes := []
  deriving Repr

/-- misuse of the interface (what the harness prints as MONITOR lines) -/
inductive Misuse
  | freeUnknown (id : Nat)        -- free of something never allocated or already freed
  | closeUnknown (id : Nat)       -- close of something never opened or already closed
  | useClosed (id : Nat)          -- read/write/seek on a handle that is not open
  | badMode (id : Nat)            -- read on a write handle or the reverse
  deriving Repr, DecidableEq

structure Counts where
  alloc : Nat := 0
  open_ : Nat := 0
  read  : Nat := 0
  write : Nat := 0
  seek  : Nat := 0
  deriving Repr

def Counts.get (c : Counts) : Kind → Nat
  | .alloc => c.alloc | .open_ => c.open_ | .read => c.read | .write => c.write | .seek => c.seek

def Counts.bump (c : Counts) : Kind → Counts
  | .alloc => { c with alloc := c.alloc + 1 } | .open_ => { c with open_ := c.open_ + 1 }
  | .read => { c with read := c.read + 1 } | .write => { c with write := c.write + 1 }
  | .seek => { c with seek := c.seek + 1 }

structure World where
  files       : List (String × Bytes) := []
  liveAllocs  : List Nat := []
  liveHandles : List Handle := []
  nextId      : Nat := 0
  counts      : Counts := {}
  /-- (kind, k): the k-th call (1-based) of that kind fails -/
  plan        : List (Kind × Nat) := []
  misuse      : List Misuse := []
  deriving Repr

abbrev M := StateM World

/-! The primitives are written as explicit state-passing functions (`M α = World → α × World`)
so that their effect on the ledger can be read off (and proved) by unfolding. -/

/-- count the call; `true` = the fault plan makes it fail -/
def tick (k : Kind) : M Bool := fun w =>
  let c := w.counts.bump k
  (w.plan.contains (k, c.get k), { w with counts := c })

def note (m : Misuse) : M Unit := fun w => ((), { w with misuse := m :: w.misuse })

/-- `sys->alloc`: id of the new block, `none` = NULL -/
def alloc : M (Option Nat) := fun w =>
  let (failed, w) := tick .alloc w
  if failed then (none, w)
  else (some w.nextId, { w with nextId := w.nextId + 1, liveAllocs := w.nextId :: w.liveAllocs })

/-- `sys->free(p)`; `none` = NULL (allowed) -/
def free (p : Option Nat) : M Unit := fun w =>
  match p with
  | none => ((), w)
  | some id =>
    if w.liveAllocs.contains id then ((), { w with liveAllocs := w.liveAllocs.erase id })
    else note (.freeUnknown id) w

/-- `sys->open(sys, name, mode)`; reading a missing file fails like a host would -/
def open_ (name : String) (mode : Mode) : M (Option Nat) := fun w =>
  let (failed, w) := tick .open_ w
  if failed then (none, w)
  else if mode = .read ∧ (w.files.lookup name).isNone then (none, w)
  else
    let files := if mode = .write then (name, []) :: w.files.filter (·.1 ≠ name) else w.files
    (some w.nextId, { w with nextId := w.nextId + 1, files := files,
                             liveHandles := ⟨w.nextId, name, mode, 0, []⟩ :: w.liveHandles })

def findHandle (w : World) (id : Nat) : Option Handle := w.liveHandles.find? (·.id = id)

/-- `sys->close(fh)` -/
def close (id : Nat) : M Unit := fun w =>
  match findHandle w id with
  | some h =>
    let files := if h.mode = .write then (h.name, h.out.reverse) :: w.files.filter (·.1 ≠ h.name) else w.files
    ((), { w with liveHandles := w.liveHandles.filter (·.id ≠ id), files := files })
  | none => note (.closeUnknown id) w

/-- replace the handle with this id (position update) -/
def setHandle (h : Handle) (w : World) : World :=
  { w with liveHandles := w.liveHandles.map fun x => if x.id = h.id then h else x }

/-- `sys->read(fh, buf, n)`: the bytes delivered, `none` = a negative return -/
def read (id : Nat) (n : Nat) : M (Option Bytes) := fun w =>
  let (failed, w) := tick .read w
  match findHandle w id with
  | none => (none, (note (.useClosed id) w).2)
  | some h =>
    if h.mode ≠ .read then (none, (note (.badMode id) w).2)
    else if failed then (none, w)
    else
      let data := (((w.files.lookup h.name).getD []).drop h.pos).take n
      (some data, setHandle { h with pos := h.pos + data.length } w)

/-- `sys->write(fh, buf, n)`: bytes accepted, `none` = a negative return (a planned failure
    accepts nothing) -/
def write (id : Nat) (bs : Bytes) : M (Option Nat) := fun w =>
  let (failed, w) := tick .write w
  match findHandle w id with
  | none => (none, (note (.useClosed id) w).2)
  | some h =>
    if h.mode ≠ .write then (none, (note (.badMode id) w).2)
    else if failed then (none, w)
    else
      (some bs.length, setHandle { h with pos := h.pos + bs.length, out := bs.reverse ++ h.out } w)

/-- `sys->seek(fh, off, MSPACK_SYS_SEEK_START)`: `true` = failure (non-zero return) -/
def seekStart (id : Nat) (off : Nat) : M Bool := fun w =>
  let (failed, w) := tick .seek w
  match findHandle w id with
  | none => (true, (note (.useClosed id) w).2)
  | some h =>
    if failed then (true, w) else (false, setHandle { h with pos := off } w)

/-- `sys->seek(fh, off, MSPACK_SYS_SEEK_CUR)`: `true` = failure (non-zero return).  A resulting
    offset below zero is refused with the position unchanged (as the harness's system does; the only
    backward relative seeks libmspack makes — kwajd_read_headers, `i + 1 - len` right after a read of
    `len` bytes — cannot get there); beyond the end is allowed. -/
def seekCur (id : Nat) (off : Int) : M Bool := fun w =>
  let (failed, w) := tick .seek w
  match findHandle w id with
  | none => (true, (note (.useClosed id) w).2)
  | some h =>
    if failed then (true, w)
    else if (h.pos : Int) + off < 0 then (true, w)
    else (false, setHandle { h with pos := ((h.pos : Int) + off).toNat } w)

/-- nothing is live and nothing was misused -/
def World.clean (w : World) : Prop := w.liveAllocs = [] ∧ w.liveHandles = [] ∧ w.misuse = []

end MsPack.Sys
