import MsPack.Basic
/-
The caller-supplied `mspack_system` as a state machine: in-memory files, a ledger of live
allocations and open handles, a fault plan ("fail the k-th call of this kind"), and a monitor that
records every use of the interface the documentation forbids.  This is the Lean twin of the
harness's instrumented system (harness/sys.c); API-level effect models run in `Sys.M`.
-/
namespace MsPack.Sys
open MsPack

inductive Kind | alloc | open_ | read | write | seek
  deriving DecidableEq, Repr

inductive Mode | read | write
  deriving DecidableEq, Repr

structure Handle where
  id   : Nat
  name : String
  mode : Mode
  pos  : Nat
  deriving Repr

/-- misuse of the interface (what the harness prints as MONITOR lines) -/
inductive Misuse
  | freeUnknown (id : Nat)        -- free of something never allocated or already freed
  | closeUnknown (id : Nat)       -- close of something never opened or already closed
  | useClosed (id : Nat)          -- read/write/seek on a handle that is not open
  | badMode (id : Nat)            -- read on a write handle or the reverse
  deriving Repr, DecidableEq

structure Counts where
  alloc : Nat := 0
  open_ : Nat := 0
  read  : Nat := 0
  write : Nat := 0
  seek  : Nat := 0
  deriving Repr

def Counts.get (c : Counts) : Kind → Nat
  | .alloc => c.alloc | .open_ => c.open_ | .read => c.read | .write => c.write | .seek => c.seek

def Counts.bump (c : Counts) : Kind → Counts
  | .alloc => { c with alloc := c.alloc + 1 } | .open_ => { c with open_ := c.open_ + 1 }
  | .read => { c with read := c.read + 1 } | .write => { c with write := c.write + 1 }
  | .seek => { c with seek := c.seek + 1 }

structure World where
  files       : List (String × Bytes) := []
  liveAllocs  : List Nat := []
  liveHandles : List Handle := []
  nextId      : Nat := 0
  counts      : Counts := {}
  /-- (kind, k): the k-th call (1-based) of that kind fails -/
  plan        : List (Kind × Nat) := []
  misuse      : List Misuse := []
  deriving Repr

abbrev M := StateM World

/-- count the call; `true` = the fault plan makes it fail -/
def tick (k : Kind) : M Bool := do
  let w ← get
  let c := w.counts.bump k
  set { w with counts := c }
  return w.plan.contains (k, c.get k)

def note (m : Misuse) : M Unit := modify fun w => { w with misuse := m :: w.misuse }

/-- `sys->alloc`: id of the new block, `none` = NULL -/
def alloc : M (Option Nat) := do
  if ← tick .alloc then return none
  let w ← get
  let id := w.nextId
  set { w with nextId := id + 1, liveAllocs := id :: w.liveAllocs }
  return some id

/-- `sys->free(p)`; `none` = NULL (allowed) -/
def free (p : Option Nat) : M Unit := do
  match p with
  | none => pure ()
  | some id =>
    let w ← get
    if w.liveAllocs.contains id then set { w with liveAllocs := w.liveAllocs.erase id }
    else note (.freeUnknown id)

/-- `sys->open(sys, name, mode)`; reading a missing file fails like a host would -/
def open_ (name : String) (mode : Mode) : M (Option Nat) := do
  if ← tick .open_ then return none
  let w ← get
  match mode, w.files.lookup name with
  | .read, none => return none
  | _, _ =>
    let id := w.nextId
    let files := if mode = .write then (name, []) :: w.files.filter (·.1 ≠ name) else w.files
    set { w with nextId := id + 1, files := files, liveHandles := ⟨id, name, mode, 0⟩ :: w.liveHandles }
    return some id

def findHandle (w : World) (id : Nat) : Option Handle := w.liveHandles.find? (·.id = id)

/-- `sys->close(fh)` -/
def close (id : Nat) : M Unit := do
  let w ← get
  match findHandle w id with
  | some _ => set { w with liveHandles := w.liveHandles.filter (·.id ≠ id) }
  | none => note (.closeUnknown id)

def setHandle (h : Handle) : M Unit :=
  modify fun w => { w with liveHandles := w.liveHandles.map fun x => if x.id = h.id then h else x }

/-- `sys->read(fh, buf, n)`: the bytes delivered, `none` = a negative return -/
def read (id : Nat) (n : Nat) : M (Option Bytes) := do
  let failed ← tick .read
  let w ← get
  match findHandle w id with
  | none => note (.useClosed id); return none
  | some h =>
    if h.mode ≠ .read then note (.badMode id); return none
    else if failed then return none
    else
      let data := ((w.files.lookup h.name).getD []).drop h.pos |>.take n
      setHandle { h with pos := h.pos + data.length }
      return some data

/-- `sys->write(fh, buf, n)`: bytes accepted, `none` = a negative return (a planned failure
    accepts nothing) -/
def write (id : Nat) (bs : Bytes) : M (Option Nat) := do
  let failed ← tick .write
  let w ← get
  match findHandle w id with
  | none => note (.useClosed id); return none
  | some h =>
    if h.mode ≠ .write then note (.badMode id); return none
    else if failed then return none
    else
      let old := (w.files.lookup h.name).getD []
      let new := old.take h.pos ++ bs ++ old.drop (h.pos + bs.length)
      set { w with files := (h.name, new) :: w.files.filter (·.1 ≠ h.name) }
      setHandle { h with pos := h.pos + bs.length }
      return some bs.length

/-- `sys->seek(fh, off, MSPACK_SYS_SEEK_START)`: `true` = failure (non-zero return) -/
def seekStart (id : Nat) (off : Nat) : M Bool := do
  let failed ← tick .seek
  let w ← get
  match findHandle w id with
  | none => note (.useClosed id); return true
  | some h =>
    if failed then return true
    else setHandle { h with pos := off }; return false

/-- nothing is live and nothing was misused -/
def World.clean (w : World) : Prop := w.liveAllocs = [] ∧ w.liveHandles = [] ∧ w.misuse = []

end MsPack.Sys
