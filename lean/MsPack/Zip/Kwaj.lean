import MsPack.Zip.Inflate
/-
mszipd.c: `mszipd_decompress_kwaj(zip)` — KWAJ method 4.  A sequence of blocks, each
`u16 block_len`, `'C' 'K'`, one deflate stream inflated into the 32 KiB window, which is then
written out (`bytes_output` bytes); a `block_len` of 0 ends the file.  `block_len` is only
compared with 0.

`READ_BITS` here is the generic readbits.h one: when `read_input` fails the macro returns
`zip->error` (`MSPACK_ERR_READ`, set by `read_input`).
-/
namespace MsPack.Zip
open MsPack MsPack.Generated
variable {σ : Type} (S : Src σ)

/-- from `RESTORE_BITS` to just before `inflate`: `false` = `block_len == 0` (the `break`) -/
def kwajBlockHead : ZM σ Bool := do
  -- align to bytestream, read block_len
  modify fun st => { st with bits := st.bits.drop (st.bits.length % 8) }
  let lo ← readBits S 8
  let hi ← readBits S 8
  let blockLen := lo ||| (hi <<< 8)
  if blockLen = 0 then pure false else
  -- read "CK" header
  let c ← readBits S 8
  if c ≠ 0x43 then throw (.sys .dataformat)
  let k ← readBits S 8
  if k ≠ 0x4B then throw (.sys .dataformat)
  -- inflate block
  modify fun st => { st with windowPosn := 0, bytesOutput := 0 }
  pure true

/-- the `for (;;)` of `mszipd_decompress_kwaj`; `fuel` bounds inflate's loops, `n` the blocks -/
def kwajLoop (fuel : Nat) : Nat → St σ → Array UInt8 → Except Fault (Out σ)
  | 0, _, _ => .error .hang
  | n + 1, st, w =>
    match (kwajBlockHead S).run.run st with
    | (.error (.fault f), _) => .error f
    | (.error .inf, st) => .ok ⟨.decrunch, w.toList, st⟩        -- (the head never throws `inf`)
    | (.error (.sys e), st) => .ok ⟨e, w.toList, st⟩
    | (.ok false, st) => .ok ⟨.ok, w.toList, st⟩
    | (.ok true, st) =>
      match runInflate S fuel st with
      | .error f => .error f
      | .ok (.sys e, st) => .ok ⟨e, w.toList, { st with error := e }⟩
      | .ok (.inf, st) => .ok ⟨.decrunch, w.toList, { st with error := .decrunch }⟩
      | .ok (.ok, st) =>
        -- write inflated block: `write(output, &zip->window[0], zip->bytes_output)`
        if st.bytesOutput > st.window.size then .error (.oob "zip->window[0..bytes_output)") else
        kwajLoop fuel n st (w ++ st.window.extract 0 st.bytesOutput)

/-- `mszipd_decompress_kwaj(zip)` on a host whose `write` never fails -/
def decompressKwaj (fuel : Nat) (st : St σ) : Except Fault (Out σ) :=
  kwajLoop S fuel fuel st #[]

end MsPack.Zip
