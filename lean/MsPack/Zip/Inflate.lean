import MsPack.Huff
import MsPack.Generated.Tables
import MsPack.Generated.Consts
/-
mszipd.c: the LSB-first bit reader instance of readbits.h, `zip_read_lens`, `inflate`,
`mszipd_decompress` (CAB) and `mszipd_decompress_kwaj`.

Bit buffer: the C keeps `bit_buffer`/`bits_left`; the model keeps the list of those bits, next
bit first (`PEEK_BITS n` = first `n` bits, least significant first; `INJECT_BITS(byte, 8)` appends
the byte's bits, least significant first).  Refill policy is the C's: `ENSURE_BITS(n)` pulls whole
bytes while fewer than `n` bits are buffered; `read_input` asks the source for `inbuf_size` bytes,
fakes two zero bytes at the first end of input and fails at the second.
-/
namespace MsPack.Zip
open MsPack MsPack.Generated

inductive Halt
  | inf                 -- a negative INF_ERR_* code from inflate
  | sys (e : Err)       -- a positive MSPACK_ERR_* code
  | fault (f : Fault)
  deriving Repr, DecidableEq

structure St (σ : Type) where
  src        : σ
  inbufSize  : Nat
  inbuf      : Bytes := []
  inputEnd   : Bool := false
  bits       : List Bool := []
  window     : Array UInt8
  windowPosn : Nat := 0
  bytesOutput : Nat := 0
  litLens    : List Nat := []
  distLens   : List Nat := []
  error      : Err := .ok
  pending    : Bytes := []      -- `o_ptr .. o_end`
  repair     : Bool := false

/-- state survives a `throw` (the C returns an error code with the stream state as it is) -/
abbrev ZM (σ : Type) := ExceptT Halt (StateM (St σ))

variable {σ : Type} (S : Src σ)

def byteBits (b : UInt8) : List Bool := (List.range 8).map fun i => b.toNat.testBit i
def bitsVal (bs : List Bool) : Nat := bs.foldr (fun b acc => acc * 2 + (if b then 1 else 0)) 0

/-- `read_input` -/
def readInput : ZM σ Unit := do
  let st ← get
  match S.read st.src st.inbufSize with
  | .error f => throw (.fault f)
  | .ok (none, src) => set { st with src := src, error := .read }; throw (.sys .read)
  | .ok (some [], src) =>
    if st.inputEnd then set { st with src := src, error := .read }; throw (.sys .read)
    else set { st with src := src, inbuf := [0, 0], inputEnd := true }
  | .ok (some got, src) => set { st with src := src, inbuf := got }

/-- `READ_IF_NEEDED; *i_ptr++` -/
def nextByte : ZM σ UInt8 := do
  if (← get).inbuf.isEmpty then readInput S
  let st ← get
  match st.inbuf with
  | b :: rest => set { st with inbuf := rest }; pure b
  | [] => throw (.fault (.oob "inbuf"))   -- unreachable: readInput leaves a non-empty buffer

/-- `ENSURE_BITS(n)`, n ≤ 16 -/
def ensureBits (n : Nat) : Nat → ZM σ Unit
  | 0 => pure ()
  | fuel + 1 => do
    if (← get).bits.length < n then
      let b ← nextByte S
      modify fun st => { st with bits := st.bits ++ byteBits b }
      ensureBits n fuel
    else pure ()

def removeBits (n : Nat) : ZM σ Unit := modify fun st => { st with bits := st.bits.drop n }

/-- `READ_BITS(val, n)` -/
def readBits (n : Nat) : ZM σ Nat := do
  ensureBits S n 3
  let v := bitsVal ((← get).bits.take n)
  removeBits n
  pure v

/-- `READ_HUFFSYM`: 16 bits are ensured first, then the symbol's own length is removed -/
def readHuffSym (c : Huff.Canon) : ZM σ Nat := do
  ensureBits S 16 3
  match Huff.decode c (← get).bits with
  | some (sym, len) => removeBits len; pure sym
  | none => throw .inf      -- HUFF_ERROR

/-- `zip_read_lens`: the code-length code (19 symbols, 7-bit direct table) and the run-length
    coded literal/length + distance code lengths -/
def readLensLoop (blCanon : Huff.Canon) (total : Nat) : Nat → List Nat → Nat → ZM σ (List Nat)
  | 0, _, _ => throw (.fault .hang)
  | fuel + 1, lens, last => do
    if lens.length ≥ total then pure lens else
    ensureBits S 7 2
    match Huff.decode blCanon ((← get).bits.take 7) with
    | none => throw (.fault (.uninit "bl_table entry"))   -- unreachable for an accepted 7-bit-complete code
    | some (code, len) =>
      removeBits len
      if code < 16 then readLensLoop blCanon total fuel (lens ++ [code]) code
      else
        let (nb, base, val) := if code = 16 then (2, 3, last) else if code = 17 then (3, 3, 0) else (7, 11, 0)
        if code > 18 then throw .inf else
        let run := (← readBits S nb) + base
        if lens.length + run > total then throw .inf
        else readLensLoop blCanon total fuel (lens ++ List.replicate run val) last

def zipReadLens : ZM σ Unit := do
  let litCodes := (← readBits S 5) + 257
  let distCodes := (← readBits S 5) + 1
  let bitlenCodes := (← readBits S 4) + 4
  if litCodes > zipLITERAL_MAXSYMBOLS then throw .inf
  if distCodes > zipDISTANCE_MAXSYMBOLS then throw .inf
  -- bl_len[bitlen_order[i]] for i < bitlen_codes, the rest 0
  let rec rd : Nat → List (Nat × Nat) → ZM σ (List (Nat × Nat))
    | 0, acc => pure acc
    | k + 1, acc => do
      let i := bitlenCodes - (k + 1)
      let v ← readBits S 3
      rd k ((zipBitlenOrder.getD i 0, v) :: acc)
  let pairs ← rd bitlenCodes []
  let blLen := (List.range 19).map fun s => (pairs.lookup s).getD 0
  match Huff.build 7 blLen with
  | none => throw .inf
  | some c =>
    -- lengths above 7 cannot occur (3-bit fields), so the 7-bit table is a direct lookup
    let lens ← readLensLoop S c (litCodes + distCodes) (litCodes + distCodes + 1) [] 0
    modify fun st => { st with
      litLens := lens.take litCodes ++ List.replicate (zipLITERAL_MAXSYMBOLS - litCodes) 0,
      distLens := (lens.drop litCodes).take distCodes ++ List.replicate (zipDISTANCE_MAXSYMBOLS - distCodes) 0 }

/-- `zip->flush_window(zip, n)` = `mszipd_flush_window` -/
def flushWindow (n : Nat) : ZM σ Unit := do
  let st ← get
  let bo := st.bytesOutput + n
  set { st with bytesOutput := bo }
  if bo > zipFRAME_SIZE then throw .inf

/-- `FLUSH_IF_NEEDED` -/
def flushIfNeeded : ZM σ Unit := do
  if (← get).windowPosn = zipFRAME_SIZE then
    flushWindow zipFRAME_SIZE
    modify fun st => { st with windowPosn := 0 }

def putByte (b : UInt8) : ZM σ Unit := do
  let st ← get
  if h : st.windowPosn < st.window.size then
    set { st with window := st.window.set st.windowPosn b, windowPosn := st.windowPosn + 1 }
  else throw (.fault (.oob "window"))
  flushIfNeeded

/-- stored block payload: copied in runs limited by the input buffer and by the window end -/
def copyStored : Nat → Nat → ZM σ Unit
  | 0, _ => throw (.fault .hang)
  | fuel + 1, length => do
    if length = 0 then pure () else
    if (← get).inbuf.isEmpty then readInput S
    let st ← get
    let run := min (min length st.inbuf.length) (zipFRAME_SIZE - st.windowPosn)
    let chunk := st.inbuf.take run
    let w := chunk.foldl (fun (acc : Array UInt8 × Nat) b => (acc.1.setIfInBounds acc.2 b, acc.2 + 1)) (st.window, st.windowPosn)
    set { st with inbuf := st.inbuf.drop run, window := w.1, windowPosn := st.windowPosn + run }
    flushIfNeeded
    copyStored fuel (length - run)

/-- the match copy (both the short and the long loop of the C copy byte by byte, front to back,
    with the source index wrapping at the frame size) -/
def copyMatch : Nat → Nat → ZM σ Unit
  | 0, _ => pure ()
  | length + 1, matchPosn => do
    let st ← get
    let b := st.window.getD matchPosn 0
    putByte b
    copyMatch length ((matchPosn + 1) % zipFRAME_SIZE)

/-- the symbol loop of a Huffman block -/
def huffBlock (lit dist : Huff.Canon) : Nat → ZM σ Unit
  | 0 => throw (.fault .hang)
  | fuel + 1 => do
    let code ← readHuffSym S lit
    if code < 256 then
      putByte (UInt8.ofNat code)
      huffBlock lit dist fuel
    else if code = 256 then pure ()
    else
      let c := code - 257
      if c ≥ 29 then throw .inf
      let length := (← readBits S (zipLitExtrabits.getD c 0)) + zipLitLengths.getD c 0
      let dc ← readHuffSym S dist
      if dc ≥ 30 then throw .inf
      let distance := (← readBits S (zipDistExtrabits.getD dc 0)) + zipDistOffsets.getD dc 0
      let st ← get
      let matchPosn := (if distance > st.windowPosn then zipFRAME_SIZE else 0) + st.windowPosn - distance
      copyMatch length matchPosn
      huffBlock lit dist fuel

def fixedLitLens : List Nat :=
  List.replicate 144 8 ++ List.replicate 112 9 ++ List.replicate 24 7 ++ List.replicate 8 8
def fixedDistLens : List Nat := List.replicate 32 5

/-- `inflate` -/
def inflate : Nat → ZM σ Unit
  | 0 => throw (.fault .hang)
  | fuel + 1 => do
    let lastBlock ← readBits S 1
    let blockType ← readBits S 2
    if blockType = 0 then
      -- to the byte boundary, then the four length bytes: first from the bit buffer
      modify fun st => { st with bits := st.bits.drop (st.bits.length % 8) }
      let st ← get
      let nbuf := st.bits.length / 8
      if nbuf > 4 then throw .inf
      let fromBits := (List.range nbuf).map fun i => UInt8.ofNat (bitsVal ((st.bits.drop (8 * i)).take 8))
      set { st with bits := [] }
      let rec more : Nat → List UInt8 → ZM σ (List UInt8)
        | 0, acc => pure acc
        | k + 1, acc => do let b ← nextByte S; more k (acc ++ [b])
      let lb ← more (4 - nbuf) fromBits
      let length := (lb.getD 0 0).toNat + (lb.getD 1 0).toNat * 256
      let compl := (lb.getD 2 0).toNat + (lb.getD 3 0).toNat * 256
      if length ≠ 65535 - compl then throw .inf
      copyStored S (length + 2) length
    else if blockType = 1 ∨ blockType = 2 then
      if blockType = 1 then
        modify fun st => { st with litLens := fixedLitLens, distLens := fixedDistLens }
      else zipReadLens S
      let st ← get
      match Huff.build zipLITERAL_TABLEBITS st.litLens with
      | none => throw .inf
      | some lit =>
        match Huff.build zipDISTANCE_TABLEBITS st.distLens with
        | none => throw .inf
        | some dist => huffBlock S lit dist fuel
    else throw .inf
    if lastBlock = 0 then inflate fuel
    else
      let st ← get
      if st.windowPosn ≠ 0 then flushWindow st.windowPosn

inductive InfRes | ok | inf | sys (e : Err)
  deriving DecidableEq, Repr

/-- run `inflate`; the state is the one reached when it returned -/
def runInflate (fuel : Nat) (st : St σ) : Except Fault (InfRes × St σ) :=
  match (inflate S fuel).run.run st with
  | (.ok (), st') => .ok (.ok, st')
  | (.error (.fault f), _) => .error f
  | (.error .inf, st') => .ok (.inf, st')
  | (.error (.sys e), st') => .ok (.sys e, st')

end MsPack.Zip

namespace MsPack.Zip
open MsPack MsPack.Generated
variable {σ : Type} (S : Src σ)

/-- `mszipd_init` (allocation succeeds): the input buffer size is rounded up to even; the window
    is zeroed (`memset`, since f814fba) -/
def init (src : σ) (inputBufferSize : Nat) (repair : Bool) (fill : UInt8) : Option (St σ) :=
  let sz := (inputBufferSize + 1) / 2 * 2
  if sz < 2 then none
  else
    let _ := fill     -- the window is cleared since f814fba; nothing else of the state is read before written
    some { src := src, inbufSize := sz, window := Array.replicate zipFRAME_SIZE 0, repair := repair }

/-- the `CK` scan: `state` as in the C (0, 1 = seen C, 2 = seen CK) -/
def scanCK : Nat → Nat → ZM σ Unit
  | 0, _ => throw (.fault .hang)
  | fuel + 1, state => do
    let i ← readBits S 8
    let state := if i = 0x43 then 1 else if state = 1 ∧ i = 0x4B then 2 else 0
    if state = 2 then pure () else scanCK fuel state

structure Out (σ : Type) where
  err     : Err
  written : Bytes
  st      : St σ

/-- the block loop of `mszipd_decompress`; `fuel` bounds inflate's own loops and this one -/
def decompressLoop (fuel : Nat) : Nat → St σ → Nat → Bytes → Except Fault (Out σ)
  | 0, _, _, _ => .error .hang
  | n + 1, st, outBytes, w =>
    if outBytes = 0 then .ok ⟨.ok, w, st⟩ else
    -- align, find "CK"
    let st := { st with bits := st.bits.drop (st.bits.length % 8) }
    match (scanCK S fuel 0).run.run st with
    | (.error (.fault f), _) => .error f
    | (.error .inf, st) => .ok ⟨.decrunch, w, { st with error := .decrunch }⟩   -- (scanCK never throws inf)
    | (.error (.sys e), st) => .ok ⟨e, w, st⟩      -- READ_BITS returns zip->error directly
    | (.ok (), st) =>
      let st := { st with windowPosn := 0, bytesOutput := 0 }
      match runInflate S fuel st with
      | .error f => .error f
      | .ok (res, st) =>
        let failed := res ≠ .ok
        if failed ∧ !st.repair then
          let e := match res with | .sys e => e | _ => .decrunch
          .ok ⟨e, w, { st with error := e }⟩
        else
          -- repair mode: recover what was inflated, zero the rest of the frame
          let st := if failed then
              let bo := if st.bytesOutput = 0 ∧ st.windowPosn > 0 then st.bytesOutput + st.windowPosn else st.bytesOutput
              let win := (List.range (zipFRAME_SIZE - bo)).foldl (fun (a : Array UInt8) i => a.setIfInBounds (bo + i) 0) st.window
              { st with window := win, bytesOutput := zipFRAME_SIZE }
            else st
          let frame := (st.window.toList.take st.bytesOutput)
          let i := min outBytes st.bytesOutput
          let w := w ++ frame.take i
          match res with
          | .sys e => if st.repair then .ok ⟨e, w, { st with pending := frame.drop i }⟩
                      else .ok ⟨e, w, st⟩
          | _ => decompressLoop fuel n { st with pending := frame.drop i } (outBytes - i) w

/-- `mszipd_decompress(zip, out_bytes)` on a host whose `write` never fails -/
def decompress (fuel : Nat) (st : St σ) (outBytes : Nat) : Except Fault (Out σ) :=
  if st.error ≠ .ok then .ok ⟨st.error, [], st⟩ else
  let i := min st.pending.length outBytes
  let w := st.pending.take i
  let st := { st with pending := st.pending.drop i }
  let outBytes := outBytes - i
  if outBytes = 0 then .ok ⟨.ok, w, st⟩
  else decompressLoop S fuel fuel st outBytes w

end MsPack.Zip
