#!/usr/bin/env python3
"""Differential test of the parts of the LZX model the CAB path cannot reach: LZX DELTA (chunk
size field, extended match lengths, reference data, windows 17..25), reset intervals,
lzxd_set_reference_data / lzxd_set_output_length, lzxd_init argument checks, and arbitrary
sequences of lzxd_decompress calls on one stream.

Needs two throw-away programs that speak the same one-line spec format
    WB RESET INBUF OUTLEN DELTA FILLHEX INPUTFILE REFFILE|-|! REFLEN CALLS
(CALLS: comma separated; N = lzxd_decompress(N), LN = lzxd_set_output_length(N), R = call
lzxd_set_reference_data again) and print `init ok|NULL`, `ref st=E`, `call N st=E written=W fnv=F`:

  * C side: rawtest.py --emit-c > lzxraw.c ; compiled here against /repo with ASan/UBSan.
  * model side: an op `lzxraw <the ten fields>` in a private copy of the driver's Main
    (rawtest.py --emit-lean prints the `doOp` clause used while developing the model; it is not
    part of the shared driver).  Pass that driver with --driver.

  rawtest.py --driver EXE [-n N] [--seed S] [--dir D]
"""
import argparse, concurrent.futures as cf, os, random, subprocess, sys, tempfile, shutil
HERE = os.path.dirname(os.path.abspath(__file__))
sys.path.insert(0, HERE); sys.path.insert(0, os.environ.get('VGEN', '/verif/gen'))
from vgen import lz, lzx            # noqa: E402
import difftest                     # noqa: E402  (crafted streams)

C_SRC = r'''
/* throw-away: drive lzxd.c directly, one spec file per argument */
#include <stdio.h>
#include <stdlib.h>
#include <string.h>
#include <mspack.h>
#include <system.h>
#include <lzx.h>
static unsigned char fillbyte = 0xa5;
struct mf { unsigned char *data; size_t len, pos; int fail; unsigned long long fnv; size_t written; };
static void *m_alloc(struct mspack_system *s, size_t n) { void *p = malloc(n ? n : 1); if (p) memset(p, fillbyte, n); return p; }
static void m_free(void *p) { free(p); }
static void m_copy(void *s, void *d, size_t n) { memcpy(d, s, n); }
static void m_msg(struct mspack_file *f, const char *fmt, ...) { }
static int m_read(struct mspack_file *f, void *buf, int n) {
  struct mf *m = (struct mf *) f; if (m->fail) return -1;
  size_t av = m->len - m->pos; if ((size_t) n > av) n = (int) av;
  memcpy(buf, m->data + m->pos, n); m->pos += n; return n;
}
static int m_write(struct mspack_file *f, void *buf, int n) {
  struct mf *m = (struct mf *) f; unsigned char *b = buf;
  for (int i = 0; i < n; i++) { m->fnv ^= b[i]; m->fnv *= 0x100000001b3ULL; }
  m->written += n; return n;
}
static struct mspack_system sys = { NULL, NULL, m_read, m_write, NULL, NULL, m_msg, m_alloc, m_free, m_copy, NULL };
static unsigned char *slurp(const char *p, size_t *len) {
  FILE *f = fopen(p, "rb"); if (!f) { perror(p); exit(2); }
  fseek(f, 0, SEEK_END); *len = ftell(f); rewind(f);
  unsigned char *d = malloc(*len ? *len : 1); if (fread(d, 1, *len, f) != *len) exit(2); fclose(f);
  return d;
}
int main(int argc, char **argv) {
  setvbuf(stdout, NULL, _IOLBF, 0);
  for (int a = 1; a < argc; a++) {
    FILE *sp = fopen(argv[a], "r"); if (!sp) { perror(argv[a]); return 2; }
    int wb, reset, inbuf, delta; long long outlen; unsigned fill, reflen; char in[512], ref[512], calls[4096];
    if (fscanf(sp, "%d %d %d %lld %d %x %511s %511s %u %4095s", &wb, &reset, &inbuf, &outlen, &delta, &fill, in, ref, &reflen, calls) != 10) { printf("bad spec\n"); return 2; }
    fclose(sp);
    printf("== RAW %s\n", argv[a]);
    fillbyte = (unsigned char) fill;
    struct mf input = {0}, output = {0}, reff = {0};
    input.data = slurp(in, &input.len);
    struct lzxd_stream *lzx = lzxd_init(&sys, (struct mspack_file *) &input, (struct mspack_file *) &output, wb, reset, inbuf, outlen, (char) delta);
    if (!lzx) { printf("init NULL\n"); continue; }
    printf("init ok\n");
    if (strcmp(ref, "-") != 0) {
      if (strcmp(ref, "!") == 0) { reff.fail = 1; reff.data = malloc(1); }
      else reff.data = slurp(ref, &reff.len);
      printf("ref st=%d\n", lzxd_set_reference_data(lzx, &sys, (struct mspack_file *) &reff, reflen));
    }
    for (char *t = strtok(calls, ","); t; t = strtok(NULL, ",")) {
      if (*t == 'L') { lzxd_set_output_length(lzx, atoll(t + 1)); continue; }
      if (*t == 'R') { reff.pos = 0; printf("ref st=%d\n", lzxd_set_reference_data(lzx, &sys, (struct mspack_file *) &reff, reflen)); continue; }
      output.fnv = 0xcbf29ce484222325ULL; output.written = 0;
      int e = lzxd_decompress(lzx, atoll(t));
      printf("call %s st=%d written=%zu fnv=%016llx\n", t, e, output.written, output.fnv);
    }
    lzxd_free(lzx);
  }
  return 0;
}
'''

LEAN_CLAUSE = r'''
  -- private test op (not in the shared driver): drive MsPack.Lzx directly; same fields as lzxraw.c
  | ["lzxraw", wb, reset, inbuf, outlen, delta, fillhex, inPath, refPath, refLen, calls] =>
    let nat (x : String) := (parseNat x).getD 0
    let fill : UInt8 := match parseHex fillhex with | some [b] => b | _ => 0xa5
    let input := (← IO.FS.readBinFile inPath).toList
    let S : Src Bytes := { read := fun s n => .ok (some (s.take n), s.drop n) }
    let fuel := 16 * input.length + 100000
    match Lzx.init input (nat wb) (nat reset) (nat inbuf) (nat outlen) (nat delta ≠ 0) fill with
    | none => out "init NULL"
    | some z0 =>
      out "init ok"
      let mut z := z0
      let ref : Option Bytes ← if refPath = "!" ∨ refPath = "-" then pure none else do
        pure (some ((← IO.FS.readBinFile refPath).toList.take (nat refLen)))
      if refPath ≠ "-" then
        let (e, z') := Lzx.setReferenceData z (nat refLen) ref
        out s!"ref st={e.code}"
        z := z'
      for c in calls.splitOn "," do
        if c.startsWith "L" then z := Lzx.setOutputLength z (nat (c.drop 1).toString)
        else if c = "R" then
          let (e, z') := Lzx.setReferenceData z (nat refLen) ref
          out s!"ref st={e.code}"
          z := z'
        else
          match Lzx.decompress S fuel z (nat c) with
          | .error f => out s!"call {c} FAULT {reprStr f}"; break
          | .ok o =>
            out s!"call {c} st={o.err.code} written={o.written.length} fnv={pad16 (natHex (fnv1a o.written))}"
            z := o.st
'''

BUFS = [2, 3, 4, 5, 16, 17, 4096, 65536]


class Gen:
    def __init__(self, d): self.d = d; self.n = 0; self.specs = []

    def blob(self, data):
        p = os.path.join(self.d, 'b%05d.bin' % self.n); self.n += 1
        with open(p, 'wb') as f: f.write(data)
        return p

    def emit(self, fam, wb, reset, inbuf, outlen, delta, fill, stream, ref, reflen, calls):
        inp = self.blob(stream)
        refp = ref if ref in ('-', '!') else self.blob(ref)
        p = os.path.join(self.d, 's%05d.spec' % self.n); self.n += 1
        with open(p, 'w') as f:
            f.write('%d %d %d %d %d %s %s %s %d %s\n' % (wb, reset, inbuf, outlen, delta, fill, inp, refp, reflen,
                                                       ','.join(str(c) for c in calls)))
        self.specs.append((p, fam))


def split_calls(rng, total, extra=True):
    k = rng.choice([1, 1, 2, 3, 6]); cuts = sorted(rng.randint(0, total) for _ in range(k - 1))
    pts = [0] + cuts + [total]; calls = [b - a for a, b in zip(pts, pts[1:])]
    if rng.random() < 0.3: calls.insert(rng.randrange(len(calls) + 1), 0)
    if extra and rng.random() < 0.3: calls.append(rng.choice([1, 10, 32768, 40000]))
    return calls


def mutate(rng, stream):
    b = bytearray(stream); op = rng.choice(['flip', 'flip', 'trunc', 'garble', 'extend'])
    if op == 'flip' and b:
        for _ in range(rng.randint(1, 6)):
            i = rng.randrange(min(len(b), 64)) if rng.random() < 0.4 else rng.randrange(len(b)); b[i] ^= 1 << rng.randrange(8)
    elif op == 'trunc': b = b[:rng.randint(0, len(b))]
    elif op == 'garble' and b:
        i = rng.randrange(len(b)); b[i:i + rng.randint(1, 20)] = rng.randbytes(rng.randint(1, 20))
    else: b += rng.randbytes(rng.randint(1, 50))
    return bytes(b)


def delta_stream(rng, n, wb, ref):
    if rng.random() < 0.6:
        toks = lz.random_tokens(rng, n, lzx.max_offset(wb), 2, rng.choice([257, 300, 1400, 6000, 32768]), ref_len=len(ref),
                                p_match=rng.choice([0.35, 0.1]), window=1 << wb)
        frames, total, m = lzx.compress(None, wb, rng, tokens=toks, delta=True, ref=ref)
    else:
        data = lz.random_data(rng, n)
        if ref and rng.random() < 0.7:
            k = rng.randint(0, len(ref)); data = (ref[k:k + n] + data)[:n]
        frames, total, m = lzx.compress(data, wb, rng, delta=True, ref=ref)
    return b''.join(frames), total


def gen_delta(g, rng, count):
    for i in range(count):
        wb = rng.choice([17, 17, 17, 18, 19, 20, 21, 22]) if i % 40 else 25
        n = rng.choice([1, 50, 3000, 33000, 70000, 140000, 200000])
        ref = lz.random_data(rng, rng.choice([0, 0, 100, 3000, 70000, min(1 << wb, 131072)]))
        stream, total = delta_stream(rng, n, wb, ref)
        bad = rng.random() < 0.4
        if bad: stream = mutate(rng, stream)
        outlen = rng.choice([total, total, 0, total + 5, max(0, total - 5)])
        reflen = len(ref) if rng.random() < 0.9 else rng.choice([0, len(ref) // 2, len(ref) + 1])
        g.emit('delta-bad' if bad else 'delta', wb, 0, rng.choice(BUFS), outlen, 1, rng.choice(['a5', '00']), stream,
               ref if (ref or rng.random() < 0.5) else '-', reflen, split_calls(rng, total))


def gen_reset(g, rng, count):
    for i in range(count):
        wb = rng.randint(15, 21); ri = rng.choice([1, 1, 2, 3])
        n = rng.choice([100, 33000, 66000, 100000, 200000])
        delta = rng.random() < 0.25
        if delta: wb = max(wb, 17)
        if rng.random() < 0.5:
            toks = lz.random_tokens(rng, n, lzx.max_offset(wb), 2, 257, reset=ri * 32768, window=1 << wb)
            frames, total, m = lzx.compress(None, wb, rng, tokens=toks, reset_interval=ri, delta=delta)
        else:
            frames, total, m = lzx.compress(lz.random_data(rng, n), wb, rng, reset_interval=ri, delta=delta)
        stream = b''.join(frames); bad = rng.random() < 0.35
        if bad: stream = mutate(rng, stream)
        # a decoder told another interval than the encoder used: "invalid reset interval" path
        ri2 = ri if rng.random() < 0.8 else rng.choice([1, 2, 3, 5])
        outlen = rng.choice([total, total, 0, total + 7])
        g.emit('reset-bad' if bad or ri2 != ri else 'reset', wb, ri2, rng.choice(BUFS), outlen, int(delta), 'a5', stream, '-', 0,
               split_calls(rng, total))


def gen_api(g, rng, count):
    small, total = delta_stream(rng, 500, 17, b'')
    for wb in range(13, 28):
        for delta in (0, 1):
            g.emit('api', wb, 0, 4096, total, delta, 'a5', small, '-', 0, [total])
    for inbuf in (0, 1, 2, 3):
        g.emit('api', 17, 0, inbuf, total, 1, 'a5', small, '-', 0, [total])
    ref = lz.random_data(rng, 5000); stream, total = delta_stream(rng, 4000, 17, ref)
    g.emit('api', 17, 0, 4096, total, 0, 'a5', stream, ref, len(ref), [total])              # not delta -> ARGS
    g.emit('api', 17, 0, 4096, total, 1, 'a5', stream, ref, (1 << 17) + 1, [total])         # too long -> ARGS
    g.emit('api', 17, 0, 4096, total, 1, 'a5', stream, ref[:100], len(ref), [total])        # short read -> READ
    g.emit('api', 17, 0, 4096, total, 1, 'a5', stream, '!', len(ref), [total])              # read error
    g.emit('api', 17, 0, 4096, total, 1, 'a5', stream, ref, len(ref), [10, 'R', total - 10])  # too late -> ARGS
    g.emit('api', 17, 0, 4096, total, 1, 'a5', stream, ref, len(ref), [0, 'R', total])       # still allowed
    g.emit('api', 17, 0, 4096, total, 1, 'a5', stream, ref, 0, [total])                      # length 0
    big = lz.random_data(rng, 1 << 17)
    g.emit('api', 17, 0, 4096, total, 1, 'a5', stream, big, 1 << 17, [total])                # whole window
    for _ in range(count):
        wb = rng.randint(15, 18); n = rng.choice([100, 40000, 70000])
        frames, total, m = lzx.compress(lz.random_data(rng, n), wb, rng)
        calls = split_calls(rng, total)
        for _ in range(rng.randint(1, 3)):
            calls.insert(rng.randrange(len(calls) + 1), 'L%d' % rng.choice([total, total, 0, total - 1, total + 1, 1, 32768]))
        g.emit('setlen', wb, 0, rng.choice(BUFS), rng.choice([0, total]), 0, 'a5', b''.join(frames), '-', 0, calls)


def gen_craft(g, rng, count):
    for name, wb, stream, total in difftest.crafted():
        for fillb in ('a5', '00'):
            g.emit('craft', wb, 0, rng.choice(BUFS), rng.choice([0, total]), 0, fillb, stream, '-', 0, split_calls(rng, total))


FAMILIES = [('delta', gen_delta, 0.45), ('reset', gen_reset, 0.35), ('api', gen_api, 0.2), ('craft', gen_craft, 0)]


def run(cmd, paths, prefix):
    try:
        out = subprocess.run(cmd + paths, capture_output=True, timeout=3000).stdout.decode('latin-1')
    except subprocess.TimeoutExpired as e:
        out = (e.stdout or b'').decode('latin-1')
    res = {}; cur = None
    for line in out.splitlines():
        if line.startswith(prefix): cur = line[len(prefix):].strip(); res[cur] = []; continue
        if cur is not None and line.split(' ')[0] in ('init', 'ref', 'call'): res[cur].append(line)
    return res


def main():
    ap = argparse.ArgumentParser()
    ap.add_argument('-n', type=int, default=1500); ap.add_argument('--seed', type=int, default=1)
    ap.add_argument('--driver'); ap.add_argument('--dir'); ap.add_argument('--jobs', type=int, default=os.cpu_count() or 4)
    ap.add_argument('--emit-c', action='store_true'); ap.add_argument('--emit-lean', action='store_true')
    a = ap.parse_args()
    if a.emit_c: print(C_SRC); return 0
    if a.emit_lean: print(LEAN_CLAUSE); return 0
    if not a.driver: ap.error('--driver (a mspack-driver built with the lzxraw op) is required')
    d = a.dir or tempfile.mkdtemp(prefix='lzxraw-'); os.makedirs(d, exist_ok=True)
    msp = os.environ.get('MSPACK_SRC', '/repo/libmspack/mspack'); exe = os.path.join(d, 'lzxraw')
    with open(os.path.join(d, 'lzxraw.c'), 'w') as f: f.write(C_SRC)
    subprocess.run([os.environ.get('CC', 'clang-14'), '-O1', '-g', '-fsanitize=address,bounds,null,pointer-overflow,shift-exponent,integer-divide-by-zero',
                    '-fno-sanitize-recover=all', '-DSIZEOF_OFF_T=8', '-DHAVE_INTTYPES_H=1', '-DHAVE_LIMITS_H=1', '-DHAVE_STRING_H=1',
                    '-I' + msp, '-w', os.path.join(d, 'lzxraw.c'), os.path.join(msp, 'lzxd.c'), '-o', exe], check=True)
    g = Gen(d)
    for name, fn, share in FAMILIES: fn(g, random.Random('%s-%d' % (name, a.seed)), max(1, int(a.n * share)))
    specs = g.specs; fam = dict(specs); paths = [p for p, _ in specs]
    print('%d specs in %s' % (len(paths), d), flush=True)
    # the C program takes spec files; the driver takes case files holding one `lzxraw` line
    cases = []
    for p in paths:
        c = p[:-5] + '.case'
        with open(c, 'w') as f: f.write('lzxraw ' + open(p).read())
        cases.append(c)
    H = {}; M = {}
    with cf.ThreadPoolExecutor(a.jobs) as ex:
        # one spec per process on the C side: a sanitizer abort must not hide later specs
        for r in ex.map(lambda p: run([exe], [p], '== RAW '), paths): H.update(r)
        for r in ex.map(lambda b: run([a.driver], b, '== CASE '), [cases[i:i + 20] for i in range(0, len(cases), 20)]): M.update(r)
    stat = {}; diffs = []; ncalls = 0; sts = {}
    for p, c in zip(paths, cases):
        h = H.get(p); m = M.get(c); s = stat.setdefault(fam[p], {'same': 0, 'both-fault': 0, 'DIFF': 0})
        ncalls += len(h or [])
        for line in h or []:
            k = [t for t in line.split(' ') if t.startswith('st=')]
            if k: sts[k[0]] = sts.get(k[0], 0) + 1
        if h is not None and m is not None and h == m: s['same'] += 1
        elif h is not None and m is not None and len(m) == len(h) + 1 and m[:-1] == h and 'FAULT' in m[-1]: s['both-fault'] += 1; print('both-fault', p, m[-1])
        else:
            s['DIFF'] += 1
            k = next((i for i in range(max(len(h or []), len(m or []))) if (h or [])[i:i + 1] != (m or [])[i:i + 1]), 0)
            diffs.append((p, (h or [None])[k:k + 1], (m or [None])[k:k + 1]))
    print('%-10s %7s %11s %6s' % ('family', 'same', 'both-fault', 'DIFF'))
    for name in sorted(stat): print('%-10s %7d %11d %6d' % (name, stat[name]['same'], stat[name]['both-fault'], stat[name]['DIFF']))
    print('total specs %d, result lines compared %d, C statuses %s' % (len(paths), ncalls, dict(sorted(sts.items()))))
    for x in diffs[:30]: print('DIFF', *x)
    if not diffs and not a.dir: shutil.rmtree(d)
    return 1 if diffs else 0


if __name__ == '__main__':
    sys.exit(main())
