#!/usr/bin/env python3
"""Differential test of the Lean LZX model (MsPack/Lzx/Decoder.lean, through the CAB path of
mspack-driver) against the real lzxd.c (through /verif/harness apiharness).

  difftest.py [-n N] [--seed S] [--harness EXE] [--driver EXE] [--jobs J] [--keep] [--dir D] [-v]

Generates case files (PROTOCOL.md) into a temp dir and compares the `extract` result lines
(st, err, written, declared, out) of both programs, op by op.  Families:

  fixture    every LZX cabinet shipped in /repo, all DECOMPBUF sizes, several extraction orders
  good       random well-formed cabinets from /verif/gen/vgen (all block kinds, E8, windows 15..21,
             multi-frame, exact multiples of 32768, members split across frames, several folders)
  shape      single-folder streams of chosen shapes (sizes around k*32768, every window size)
  trunc      small streams cut at every prefix length (payload cut, CFDATA header fixed up)
  flip       1..8 random bit flips in the compressed payload
  splice     blocks dropped / duplicated / swapped / payload tails exchanged, garbage payloads
  usize      wrong per-block uncompressed sizes (drives the lzx->length hint wrong)
  window     folder claims another window size than the encoder used (incl. invalid 14, 22)
  member     member offset/length pointing beyond the data
  rderr      the feeder's read fails mid-stream: checksum mismatch, CFDATA header damage, cabinet cut short
  craft      hand-made streams: empty length tree used, R0..R2 = 0 / beyond window / beyond stream from an
             uncompressed block, code-19 runs overrunning the length and main trees, length 254 entries,
             E8 file sizes with the sign bit, zero-length blocks, aligned blocks with 3 extra bits

A harness CRASH (sanitizer) must correspond to a model `extract FAULT`; these are counted
separately (`both-fault`).  Exit status 0 iff there is no disagreement.
"""
import argparse, concurrent.futures as cf, os, random, re, shutil, subprocess, sys, tempfile, glob

HERE = os.path.dirname(os.path.abspath(__file__))
sys.path.insert(0, os.environ.get('VGEN', '/verif/gen'))
from vgen import cab, lz, lzx, huff   # noqa: E402
from vgen.bits import MSB16LE   # noqa: E402
import struct   # noqa: E402

BUFS = [4, 5, 16, 17, 4096, 65536]
FIXTURES = ['/repo/cabextract/test/cabs/large-files-cab.cab', '/repo/cabextract/test/cabs/mixed.cab',
            '/repo/libmspack/test/test_files/cabd/cve-2015-4471-lzx-under-read.cab',
            '/repo/libmspack/test/test_files/cabd/lzx-main-tree-no-lengths.cab',
            '/repo/libmspack/test/test_files/cabd/lzx-premature-matches.cab',
            '/repo/libmspack/test/test_files/cabd/mszip_lzx_qtm.cab',
            '/repo/libmspack/test/test_files/cabd/normal_2files_2folders.cab']


class Gen:
    def __init__(self, d): self.d = d; self.n = 0; self.cases = []

    def emit(self, family, cabbytes, nfiles, rng, buf=None, orders=None, extra=(), salvage=False):
        """one case: cabinet + ops"""
        k = self.n; self.n += 1
        cpath = os.path.join(self.d, 'c%05d.cab' % k)
        with open(cpath, 'wb') as f: f.write(cabbytes)
        buf = buf if buf is not None else rng.choice(BUFS)
        idx = list(range(nfiles))
        if orders is None:
            orders = rng.choice(['fwd', 'fwd', 'bwd', 'rep', 'rnd'])
        if orders == 'fwd': seq = idx
        elif orders == 'bwd': seq = idx[::-1]
        elif orders == 'rep': seq = [i for i in idx for _ in (0, 1)] + idx
        else: seq = [rng.choice(idx) for _ in range(min(8, 2 * len(idx) + 1))] if idx else []
        lines = ['fileref a.cab %s' % cpath, 'new cab', 'param i0 DECOMPBUF %d' % buf]
        if salvage: lines.append('param i0 SALVAGE 1')
        lines += list(extra) + ['open i0 a.cab']
        lines += ['extract i0 h0 %d out%d' % (i, i) for i in seq]
        path = os.path.join(self.d, 'c%05d.case' % k)
        with open(path, 'w') as f: f.write('\n'.join(lines) + '\n')
        self.cases.append((path, family))


def one_folder_cab(word, blocks, members):
    files = [{'name': b'f%d' % i, 'length': ln, 'offset': off, 'folder': 0} for i, (off, ln) in enumerate(members)]
    return cab.build_cab([{'comp': word, 'blocks': blocks}], files)


def make_stream(rng, n, wb=None, **kw):
    """-> (comp word, blocks [(payload, usize)], plaintext)"""
    wb = wb or rng.randint(15, 21)
    if rng.random() < 0.5:
        toks = lz.random_tokens(rng, n, lzx.max_offset(wb), 2, 257, window=1 << wb)
        frames, total, m = lzx.compress(None, wb, rng, tokens=toks, max_frame=32768 + 6144, **kw)
    else:
        frames, total, m = lzx.compress(lz.random_data(rng, n), wb, rng, max_frame=32768 + 6144, **kw)
    blocks = [(f, min(32768, total - 32768 * i)) for i, f in enumerate(frames)]
    return cab.LZX | wb << 8, blocks, m['plain']


def members_for(rng, n):
    k = rng.choice([1, 1, 2, 3, 5])
    cuts = sorted(cab._cut_points(rng, n) for _ in range(k - 1))
    pts = [0] + cuts + [n]
    return [(a, b - a) for a, b in zip(pts, pts[1:])]


def gen_fixture(g, rng, scale):
    for p in FIXTURES:
        if not os.path.exists(p): continue
        data = open(p, 'rb').read()
        nfiles = int.from_bytes(data[28:30], 'little')
        big = 'large-files' in p            # 14 MiB of output: ~25 s per extraction in the model
        for buf in ([5, 4096] if big else BUFS):
            for o in (['fwd'] if big else ['fwd', 'bwd', 'rep', 'rnd']):
                g.emit('fixture', data, nfiles, rng, buf, o)


def gen_good(g, rng, count):
    for _ in range(count):
        size = rng.choice(['small'] * 6 + ['medium'] * 3 + ['large'])
        c = cab.random_case(rng, size, comp=cab.LZX, parts=1, embed=False)
        g.emit('good', c['files'][c['meta']['order'][0]], len(c['members']), rng)


def gen_shape(g, rng, count):
    for i in range(count):
        wb = 15 + i % 7
        k = rng.choice([1, 1, 2, 2, 3, 4, (1 << wb) // 32768, (1 << wb) // 32768 + 1])
        if k > 10: k = rng.choice([k, 2]) if rng.random() < 0.15 else rng.randint(1, 4)
        n = max(1, k * 32768 + rng.choice([0, 0, 0, -1, 1, -10, 10, -32767, rng.randint(-32767, 0)]))
        word, blocks, plain = make_stream(rng, n, wb)
        mem = members_for(rng, len(plain))
        g.emit('shape', one_folder_cab(word, blocks, mem), len(mem), rng)


def cut_payload(blocks, at):
    """truncate the concatenated payload to `at` bytes (blocks after the cut are dropped)"""
    out = []; left = at
    for p, u in blocks:
        if left <= 0: break
        out.append((p[:left], u)); left -= len(p)
    return out or [(b'', blocks[0][1])]


def gen_trunc(g, rng, count):
    done = 0
    while done < count:
        n = rng.choice([1, 2, 10, 40, 100, 300, 1000])
        word, blocks, plain = make_stream(rng, n, rng.choice([15, 16, 17, 21]))
        total = sum(len(p) for p, _ in blocks)
        keep_blocks = rng.random() < 0.5
        for at in range(0, total):
            if total > 120 and rng.random() > 120 / total: continue
            b2 = cut_payload(blocks, at)
            g.emit('trunc', one_folder_cab(word, b2, [(0, len(plain))]), 1, rng, orders='fwd'); done += 1


def flip_bits(rng, payload, k, head_bias):
    b = bytearray(payload)
    if not b: return bytes(b)
    for _ in range(k):
        i = rng.randrange(min(len(b), 48)) if rng.random() < head_bias else rng.randrange(len(b))
        b[i] ^= 1 << rng.randrange(8)
    return bytes(b)


def gen_flip(g, rng, count):
    for _ in range(count):
        n = rng.choice([50, 300, 2000, 2000, 20000, 40000, 70000, 140000])
        word, blocks, plain = make_stream(rng, n)
        bi = rng.randrange(len(blocks)); p, u = blocks[bi]
        blocks[bi] = (flip_bits(rng, p, rng.randint(1, 8), rng.choice([0, 0.5, 1])), u)
        mem = members_for(rng, len(plain))
        g.emit('flip', one_folder_cab(word, blocks, mem), len(mem), rng)


def gen_splice(g, rng, count):
    for _ in range(count):
        n = rng.choice([300, 5000, 33000, 66000, 100000, 140000])
        word, blocks, plain = make_stream(rng, n)
        w2, other, _ = make_stream(rng, rng.choice([200, 40000, 70000]), (word >> 8) & 31)
        op = rng.choice(['drop', 'dup', 'swap', 'tail', 'garbage', 'foreign', 'append', 'empty', 'zeros'])
        bi = rng.randrange(len(blocks)); p, u = blocks[bi]
        if op == 'drop' and len(blocks) > 1: del blocks[bi]
        elif op == 'dup': blocks.insert(bi, blocks[bi])
        elif op == 'swap' and len(blocks) > 1:
            bj = rng.randrange(len(blocks)); blocks[bi], blocks[bj] = blocks[bj], blocks[bi]
        elif op == 'tail':
            q = other[rng.randrange(len(other))][0]; c = rng.randrange(len(p) + 1)
            blocks[bi] = (p[:c] + q[min(c, len(q)):], u)
        elif op == 'garbage': blocks[bi] = (rng.randbytes(rng.choice([1, 2, 7, 100, 5000])), u)
        elif op == 'foreign': blocks[bi] = (other[rng.randrange(len(other))][0], u)
        elif op == 'append': blocks.append(other[rng.randrange(len(other))])
        elif op == 'empty': blocks[bi] = (b'', u)
        else: blocks[bi] = (bytes(rng.choice([1, 2, 3, 100, 4097])), u)
        mem = members_for(rng, len(plain))
        g.emit('splice', one_folder_cab(word, blocks, mem), len(mem), rng)


def gen_usize(g, rng, count):
    for _ in range(count):
        n = rng.choice([300, 5000, 32768, 33000, 65536, 66000, 100000])
        word, blocks, plain = make_stream(rng, n)
        op = rng.choice(['last-', 'last+', 'all-small', 'first-', 'rand', 'full'])
        bl = list(blocks)
        if op == 'last-': bl[-1] = (bl[-1][0], max(1, bl[-1][1] - rng.choice([1, 2, 11, 100])))
        elif op == 'last+': bl[-1] = (bl[-1][0], min(32768, bl[-1][1] + rng.choice([1, 2, 11, 100])))
        elif op == 'all-small': bl = [(p, rng.choice([1, 5, 100])) for p, _ in bl]
        elif op == 'first-': bl[0] = (bl[0][0], max(1, bl[0][1] - rng.choice([1, 100, 20000])))
        elif op == 'rand': bl = [(p, rng.randint(1, 32768)) for p, _ in bl]
        else: bl = [(p, 32768) for p, _ in bl]
        mem = members_for(rng, len(plain))
        g.emit('usize', one_folder_cab(word, bl, mem), len(mem), rng, salvage=rng.random() < 0.3)


def gen_window(g, rng, count):
    for _ in range(count):
        n = rng.choice([300, 40000, 70000, 140000, 300000])
        wb = rng.randint(15, 21)
        word, blocks, plain = make_stream(rng, n, wb)
        wb2 = rng.choice([14, 22, 31, 0, 15, 16, 17, 18, 19, 20, 21])
        mem = members_for(rng, len(plain))
        g.emit('window', one_folder_cab(cab.LZX | wb2 << 8, blocks, mem), len(mem), rng)


def gen_member(g, rng, count):
    for _ in range(count):
        n = rng.choice([300, 32768, 40000, 65536, 70000])
        word, blocks, plain = make_stream(rng, n)
        mem = members_for(rng, len(plain))
        k = rng.randrange(len(mem)); off, ln = mem[k]
        mem[k] = rng.choice([(off, ln + rng.choice([1, 10, 40000])), (off + rng.choice([1, 32768]), ln),
                             (len(plain), rng.choice([0, 1, 32768])), (len(plain) - 1, 2),
                             (rng.randrange(len(plain)), rng.randrange(len(plain)))])
        mem.sort()
        g.emit('member', one_folder_cab(word, blocks, mem), len(mem), rng, salvage=rng.random() < 0.3)



# ---------------------------------------------------------------------------------------------
# hand-made streams for the corners random encoders never reach

FLAT20 = [4] * 12 + [5] * 8          # a complete 20-symbol pretree


class Craft:
    """symbol-level LZX writer that tracks the decoder's length arrays (overruns included)"""
    def __init__(self, wb):
        self.wb = wb; self.bw = MSB16LE(); self.nmain = 256 + 8 * lzx.SLOTS[wb - 15]
        self.main = [0] * 2640; self.length = [0] * 314; self.mc = self.lc = self.ac = None

    def header(self, filesize=None):
        if filesize is None: self.bw.put(0, 1)
        else: self.bw.put(1, 1); self.bw.put(filesize >> 16, 16); self.bw.put(filesize & 0xffff, 16)

    def block(self, kind, n): self.bw.put(kind, 3); self.bw.put(n >> 8, 16); self.bw.put(n & 255, 8)

    def uncompressed(self, n, R, data, pad=False):
        self.block(3, n)
        if self.bw.n == 0: self.bw.put(0, 16)
        else: self.bw.align()
        self.bw.raw(struct.pack('<III', *R)); self.bw.raw(data)
        if pad: self.bw.raw(b'\0')

    def lens_items(self, arr, first, last, items, pre=FLAT20):
        """items: (z,) for z in 0..16 | (17, n) | (18, n) | (19, n, z2) - pretree symbols as sent"""
        pc = huff.canonical(pre)
        for i in range(20): self.bw.put(pre[i], 4)
        x = first
        for it in items:
            assert x < last
            s = it[0]; self.bw.put(*pc[s])
            if s == 17: self.bw.put(it[1], 4); y = it[1] + 4; v = 0
            elif s == 18: self.bw.put(it[1], 5); y = it[1] + 20; v = 0
            elif s == 19:
                self.bw.put(it[1], 1); y = it[1] + 4; self.bw.put(*pc[it[2]])
                z = arr[x] - it[2]; v = (z + 17 if z < 0 else z) & 255
            else:
                z = arr[x] - s; v = (z + 17 if z < 0 else z) & 255; y = 1
            for _ in range(y): arr[x] = v; x += 1
        assert x >= last

    def lens_direct(self, arr, first, last, new, tail=None):
        """arr[first:last] := new[first:last], one pretree symbol per entry; `tail` replaces the
        items for the last len(tail) entries... (tail = (cut, items): entries from `cut` on)"""
        stop = tail[0] if tail else last
        items = [((arr[x] - new[x]) % 17,) for x in range(first, stop)]
        self.lens_items(arr, first, last, items + (list(tail[1]) if tail else []))

    def trees(self, main_new, len_new, aligned=None, main_tail=None, len_tail=None, main0_items=None):
        if aligned is not None:
            for i in range(8): self.bw.put(aligned[i], 3)
            self.ac = huff.canonical(aligned)
        if main0_items is not None: self.lens_items(self.main, 0, 256, main0_items)
        else: self.lens_direct(self.main, 0, 256, main_new)
        self.lens_direct(self.main, 256, self.nmain, main_new, main_tail)
        self.lens_direct(self.length, 0, 249, len_new, len_tail)
        self.mc = huff.canonical([l if l <= 16 else 0 for l in self.main[:2576]])
        self.lc = huff.canonical([l if l <= 16 else 0 for l in self.length[:250]])

    def m(self, sym): self.bw.put(*self.mc[sym])
    def l(self, sym): self.bw.put(*self.lc[sym])
    def a(self, sym): self.bw.put(*self.ac[sym])
    def bits(self, v, n): self.bw.put(v, n)
    def frame_end(self): self.bw.align()
    def done(self): return bytes(self.bw.getvalue())


def lens_for(nsyms, used):
    """complete code over `used` (>= 2 symbols), all of equal or near-equal length"""
    return huff.optimal({s: 1 for s in used}, nsyms, 16)


def crafted():
    """-> [(name, window_bits, stream, total_output)]"""
    out = []
    # 1. match needs a LENGTH symbol but the length tree is empty
    c = Craft(15); c.header(); c.block(1, 100)
    c.trees(lens_for(c.nmain, [0x61, 256 + 7]), [0] * 249)
    for _ in range(10): c.m(0x61)
    c.m(256 + 7); c.frame_end(); out.append(('length-empty', 15, c.done(), 100))
    # 2. R0 = 0 from an uncompressed block: the match copies bytes the decoder never wrote
    for r0, name in [(0, 'r0-zero'), (5, 'r0-before-start'), (4, 'r0-exact')]:
        c = Craft(15); c.header(); c.uncompressed(4, (r0, 1, 1), b'abcd'); c.block(1, 20)
        c.trees(lens_for(c.nmain, [0x62, 256 + 3, 256 + 8 + 3, 256 + 16 + 3]), [0] * 249)
        c.m(256 + 3); c.m(256 + 8 + 3); c.m(256 + 16 + 3); c.m(256 + 3); c.frame_end()
        out.append((name, 15, c.done(), 24))
    # 3. repeated offsets beyond the window, in the third frame of a 32 KiB window
    for r0, name in [(32768 + 2, 'r0-window-plus-posn'), (32768 + 3, 'r0-beyond-window'), (65536 + 3, 'r0-beyond-stream'),
                     (0xFFFFFFFF, 'r0-max'), (0x80000000, 'r0-2g'), (32768, 'r0-window'), (32767, 'r0-window-1')]:
        c = Craft(15); c.header(); body = bytes((i * 7 + (i >> 8)) & 255 for i in range(65536))
        c.uncompressed(65536, (1, 1, 1), body); c.uncompressed(2, (r0, 1, 1), b'xy'); c.block(1, 10)
        c.trees(lens_for(c.nmain, [0x62, 256 + 3]), [0] * 249)
        c.m(256 + 3); c.m(256 + 3); c.frame_end()
        out.append((name, 15, c.done(), 65536 + 12))
    # 4. a code-19 run overruns the length tree's 249 entries: symbol 249 becomes usable, match length 258
    c = Craft(15); c.header(); c.block(1, 259)
    c.trees(lens_for(c.nmain, [0x61, 256 + 7]), [0] * 249, len_tail=(246, [(19, 1, 15)]))
    c.m(0x61); c.m(256 + 7); c.l(249); c.frame_end(); out.append(('length-sym-249', 15, c.done(), 259))
    # 5. pretree symbol 19 as the value of a code-19 run: length 254 (ignored by the table builder),
    #    placed on 0xE8 so that intel_started is set by a symbol that has no code
    c = Craft(15); c.header(12345); c.block(1, 40)
    ml = lens_for(c.nmain, [0x61, 0x62]); items = [((0 - ml[x]) % 17,) for x in range(0xE8)] + [(19, 0, 19)] + \
        [((0 - ml[x]) % 17,) for x in range(0xE8 + 4, 256)]
    c.trees(ml, [0] * 249, main0_items=items)
    for i in range(40): c.m(0x61 + (i & 1))
    c.frame_end(); out.append(('len-254-on-e8', 15, c.done(), 40))
    # 6. code-19 run overruns the main tree's last symbol: position slot 30 in a 32 KiB window
    for vb, name in [(0, 'slot30-ok'), (7, 'slot30-beyond-window'), (16383, 'slot30-far')]:
        c = Craft(15); c.header(); body = bytes((i * 13 + (i >> 7)) & 255 for i in range(65536))
        c.uncompressed(65536, (1, 1, 1), body); c.block(1, 6)
        # symbols 0x61 (1 bit), 495..499 (3 bits each: 5/8 > 1/2, so use 0x61 2 bits, 0x62 3 bits, + five 3-bit... )
        ml = [0] * c.nmain; ml[0x61] = 2; ml[0x62] = 3; ml[495] = 3
        c.trees(ml, [0] * 249, main_tail=(495, [(19, 1, (0 - 3) % 17)]))
        for _ in range(4): c.m(0x61)
        c.m(496); c.bits(vb, 14); c.frame_end(); out.append((name, 15, c.done(), 65536 + 6))
    # 7. E8 translation arithmetic: file sizes with the sign bit, boundary call targets
    for fs in [1, 0x7FFFFFFF, 0x80000000, 0x80000005, 0xFFFFFFFF, 100]:
        fsig = fs - (1 << 32) if fs >> 31 else fs
        data = bytearray(); pos = 0
        for v in [-1, 0, 1, fsig - 1, fsig, fsig + 1, 0x7FFFFFFF, -0x80000000, 5, -5, -6, -7, 99, 100, -30, -31, -32]:
            cur = len(data); data += b'\xe8' + struct.pack('<i', max(-1 << 31, min((1 << 31) - 1, v if v in (0x7FFFFFFF, -0x80000000) else v)))
            data += b'\xe8' + struct.pack('<i', max(-1 << 31, min((1 << 31) - 1, -cur - 7))) + b'\xe8' + struct.pack('<i', -(cur + 6) - 6)
            data += b'\x00\xe8'
        data += b'\xe8' * 12
        c = Craft(15); c.header(fs); c.uncompressed(len(data), (1, 1, 1), bytes(data), pad=len(data) & 1)
        out.append(('e8-fs-%x' % fs, 15, c.done(), len(data)))
    # 8. zero-length blocks of every kind before the real one; odd uncompressed block then another block
    c = Craft(16); c.header(); c.uncompressed(0, (9, 8, 7), b''); c.block(1, 0)
    c.trees(lens_for(c.nmain, [0x61, 0x62]), [0] * 249)
    c.block(2, 0); c.trees(lens_for(c.nmain, [0x63, 0x64]), [0] * 249, aligned=[3] * 8)
    c.uncompressed(3, (1, 2, 3), b'odd', pad=True); c.block(1, 4); c.trees(lens_for(c.nmain, [0x61, 0x62]), [0] * 249)
    for s in (0x61, 0x62, 0x62, 0x61): c.m(s)
    c.frame_end(); out.append(('zero-length-blocks', 16, c.done(), 7))
    # 9. aligned block: extra bits 3 (aligned symbol only), 4 (1 verbatim bit), and < 3 (plain bits)
    c = Craft(15); c.header(); c.block(2, 200)
    syms = {0x61: 1}; seq = []
    for slot in (4, 6, 8, 9, 10, 12):
        syms[256 + slot * 8 + 1] = 1
    c.trees(lens_for(c.nmain, list(syms)), [0] * 249, aligned=[3] * 8)
    for _ in range(140): c.m(0x61)
    for slot in (4, 6, 8, 9, 10, 12):                         # matches of length 3, offsets inside the 140 a's
        e = lzx.XBITS[slot]; c.m(256 + slot * 8 + 1)
        if e >= 3:
            if e > 3: c.bits(1, e - 3)
            c.a(5)
        elif e: c.bits(1, e)
    for _ in range(200 - 140 - 18): c.m(0x61)
    c.frame_end(); out.append(('aligned-extra-3', 15, c.done(), 200))
    return out


def chunk_blocks(stream, total):
    n = max(1, (total + 32767) // 32768, (len(stream) + 29999) // 30000)
    step = (len(stream) + n - 1) // n if stream else 0
    blocks = []; left = total
    for i in range(n):
        u = min(32768, left) if i < n - 1 else left
        u = max(1, min(u, 32768)); left = max(0, left - u)
        blocks.append((stream[i * step:(i + 1) * step], u))
    return blocks


def gen_craft(g, rng, count):
    for name, wb, stream, total in crafted():
        for buf in [4, 17, 4096]:
            for fillb in ['a5', '00']:
                mem = [(0, total)] if buf != 17 else [(0, total // 2), (total // 2, total - total // 2)]
                g.emit('craft', one_folder_cab(cab.LZX | wb << 8, chunk_blocks(stream, total), mem), len(mem), rng, buf, 'fwd',
                       extra=['fill ' + fillb, '# ' + name])


def gen_rderr(g, rng, count):
    """the feeder's read fails in the middle of decoding (checksum mismatch, cabinet file cut short)"""
    for _ in range(count):
        n = rng.choice([300, 5000, 40000, 70000, 140000])
        word, blocks, plain = make_stream(rng, n)
        mem = members_for(rng, len(plain))
        c = bytearray(one_folder_cab(word, blocks, mem))
        data_start = len(c) - sum(8 + len(p) for p, _ in blocks)
        op = rng.choice(['cut', 'cut', 'flip', 'flip', 'hdr'])
        if op == 'cut': c = c[:rng.randint(data_start, len(c) - 1)]
        elif op == 'flip': c[rng.randrange(data_start, len(c))] ^= 1 << rng.randrange(8)
        else:
            bi = rng.randrange(len(blocks)); off = data_start + sum(8 + len(p) for p, _ in blocks[:bi])
            c[off + rng.choice([0, 4, 5, 6, 7])] ^= 1 << rng.randrange(8)
        g.emit('rderr', bytes(c), len(mem), rng, salvage=rng.random() < 0.2)


FAMILIES = [('fixture', gen_fixture, 0), ('good', gen_good, 0.22), ('shape', gen_shape, 0.10), ('trunc', gen_trunc, 0.16),
            ('flip', gen_flip, 0.22), ('splice', gen_splice, 0.12), ('usize', gen_usize, 0.08), ('window', gen_window, 0.05),
            ('member', gen_member, 0.05), ('rderr', gen_rderr, 0.06), ('craft', gen_craft, 0)]

STRIP = re.compile(r' (edges|calls)=\S+')


def run(exe, paths, timeout):
    env = dict(os.environ, VERIF_CASE_TIMEOUT='120')
    try:
        p = subprocess.run([exe] + paths, capture_output=True, env=env, timeout=timeout)
        out = p.stdout.decode('latin-1')
    except subprocess.TimeoutExpired as e:
        out = (e.stdout or b'').decode('latin-1') + '\nRUNNER-TIMEOUT\n'
    res = {}; cur = None
    for line in out.splitlines():
        if line.startswith('== CASE '): cur = line[8:]; res[cur] = []; continue
        if cur is None: continue
        if line.startswith(('extract', 'CRASH', 'TIMEOUT', 'DRIVER-ERROR', 'RUNNER-TIMEOUT', 'MONITOR')):
            res[cur].append(STRIP.sub('', line))
    return res


def compare(h, m):
    """-> (verdict, detail); verdict in same | both-fault | DIFF"""
    if h is None or m is None: return 'DIFF', 'missing output (%s)' % ('harness' if h is None else 'model')
    for i in range(max(len(h), len(m))):
        a = h[i] if i < len(h) else None; b = m[i] if i < len(m) else None
        if a is not None and a.startswith('CRASH'):
            if b is not None and b.startswith('extract FAULT'): return 'both-fault', '%s | %s' % (a, b)
            return 'DIFF', 'op %d: harness %r, model %r' % (i, a, b)
        if b is not None and b == 'extract unsupported': continue      # method not modelled (Quantum)
        if a != b: return 'DIFF', 'op %d: harness %r, model %r' % (i, a, b)
    return 'same', ''


def main():
    ap = argparse.ArgumentParser()
    ap.add_argument('-n', type=int, default=3000, help='approximate number of generated cases (fixtures come on top)')
    ap.add_argument('--seed', type=int, default=1)
    ap.add_argument('--harness', default=os.environ.get('APIHARNESS'))
    ap.add_argument('--driver', default=os.path.normpath(os.path.join(HERE, '..', '..', '.lake', 'build', 'bin', 'mspack-driver')))
    ap.add_argument('--jobs', type=int, default=os.cpu_count() or 4)
    ap.add_argument('--only', default='')
    ap.add_argument('--keep', action='store_true'); ap.add_argument('--dir'); ap.add_argument('-v', action='store_true')
    a = ap.parse_args()
    d = a.dir or tempfile.mkdtemp(prefix='lzxdiff-'); os.makedirs(d, exist_ok=True)
    if not a.harness:
        for cand in ['/verif/build/harness/apiharness', '/tmp/lzxwork/h/apiharness']:
            if os.path.exists(cand): a.harness = cand; break
        else:
            hd = os.path.join(d, 'h')
            subprocess.run(['bash', '/verif/harness/build.sh', hd], check=True, stdout=subprocess.DEVNULL)
            a.harness = os.path.join(hd, 'apiharness')
    g = Gen(d); only = set(a.only.split(',')) if a.only else None
    for name, fn, share in FAMILIES:
        if only and name not in only: continue
        fn(g, random.Random('%s-%d' % (name, a.seed)), max(1, int(a.n * share)))
    cases = g.cases; fam = dict(cases); paths = [p for p, _ in cases]
    print('%d cases in %s (harness %s, driver %s)' % (len(paths), d, a.harness, a.driver), flush=True)
    batches = [paths[i:i + 25] for i in range(0, len(paths), 25)]
    H = {}; M = {}
    with cf.ThreadPoolExecutor(a.jobs) as ex:
        for r in ex.map(lambda b: run(a.harness, b, 3000), batches): H.update(r)
        for r in ex.map(lambda b: run(a.driver, b, 3000), batches): M.update(r)
    stat = {}; diffs = []; nops = 0; statuses = {}
    for p in paths:
        v, detail = compare(H.get(p), M.get(p))
        s = stat.setdefault(fam[p], {'same': 0, 'both-fault': 0, 'DIFF': 0}); s[v] += 1
        nops += len(H.get(p) or [])
        for line in H.get(p) or []:
            mm = re.match(r'extract st=(\d+)', line)
            key = mm.group(1) if mm else line.split(' ')[0]
            statuses[key] = statuses.get(key, 0) + 1
        if v == 'DIFF': diffs.append((p, detail))
        elif v == 'both-fault' and a.v: print('both-fault', p, detail)
    print('%-8s %7s %11s %6s' % ('family', 'same', 'both-fault', 'DIFF'))
    for name, _, _ in FAMILIES:
        if name in stat: print('%-8s %7d %11d %6d' % (name, stat[name]['same'], stat[name]['both-fault'], stat[name]['DIFF']))
    print('total cases %d, extract ops compared %d, harness statuses %s' % (len(paths), nops, dict(sorted(statuses.items()))))
    for p, detail in diffs[:40]: print('DIFF', p, detail)
    if not diffs and not a.keep and not a.dir: shutil.rmtree(d)
    return 1 if diffs else 0


if __name__ == '__main__':
    sys.exit(main())
