import MsPack.Basic
import MsPack.Huff
import MsPack.Generated.Tables
import MsPack.Generated.Consts
/-
lzxd.c — STUB.  The interface the containers (CAB, CHM, OAB) use; `implemented = false` makes
them answer `unsupported` until the model is written.
-/
namespace MsPack.Lzx
open MsPack

def implemented : Bool := false

structure St (σ : Type) where
  src : σ

/-- `lzxd_init(system, input, output, window_bits, reset_interval, input_buffer_size,
    output_length, is_delta)`; `none` = NULL.  `fill` = contents of fresh allocations. -/
def init {σ : Type} (src : σ) (windowBits resetInterval inputBufferSize outputLength : Nat)
    (isDelta : Bool) (fill : UInt8) : Option (St σ) :=
  some { src := src }

/-- `lzxd_set_output_length` -/
def setOutputLength {σ : Type} (st : St σ) (n : Nat) : St σ := st

/-- `lzxd_set_reference_data(lzx, system, input, length)`: `ref` = the bytes the base file handle
    would deliver (`none` = the read fails or is short) -/
def setReferenceData {σ : Type} (st : St σ) (length : Nat) (ref : Option Bytes) : Err × St σ := (.ok, st)

/-- `lzxd_decompress(lzx, out_bytes)` -/
def decompress {σ : Type} (S : Src σ) (fuel : Nat) (st : St σ) (outBytes : Nat) :
    Except Fault (DecodeOut (St σ)) :=
  .ok ⟨.ok, [], st⟩

end MsPack.Lzx
