import MsPack.Basic
import MsPack.Huff
import MsPack.Generated.Tables
import MsPack.Generated.Consts
/-
lzxd.c (+ lzx.h, and the MSB-first / 16-bit-word instance of readbits.h and readhuff.h).

The model follows the C statement by statement, quirks included:

* Bit buffer: the C keeps `bit_buffer`/`bits_left`; the model keeps the list of those bits, next
  bit first.  `READ_BYTES` takes two bytes `b0 b1` (each through `READ_IF_NEEDED`) and injects the
  16 bits of `(b1 << 8) | b0`, most significant first.  `ENSURE_BITS(n)` injects words while fewer
  than `n` bits are buffered.  `read_input` asks the source for `inbuf_size` bytes, fakes two zero
  bytes at the first end of input and fails (MSPACK_ERR_READ) at the second.
  (This version of lzxd.c never un-reads bytes and never uses READ_MANY_BITS.)
* `lzx->length`: the CAB feeder calls `lzxd_set_output_length` from inside its read callback; the
  model applies `S.lzxLength` after every `sys->read`, so every later read of `lzx->length` sees it
  and every earlier one does not (the frame size is computed before the block loop refills; since
  /repo commit 952a903 an empty bit buffer + unknown length triggers a refill first).
* C locals (`window_posn`, `R0..R2`, `i_ptr`, `i_end`, `bit_buffer`, `bits_left`) live in the state
  record.  The C stores them back only on a successful return; after an error the record holds the
  values of the locals instead of the stale struct fields.  This is not observable: `lzx->error` is
  sticky and every entry point that looks at those fields checks it first.
* Unsigned/int 32-bit arithmetic is written out (`% 2^32`, `toS32`) where the C can wrap; `offset`,
  `length` (`off_t`) are unbounded naturals.
* Every array access is checked; an index outside the C object is `Fault.oob`.
* Loops are structural or run on a `fuel` argument (exhausted = `Fault.hang`).
* Memory the C does not initialise holds the allocator's `fill` byte: the window, `e8_buf`, the
  `*_len` arrays beyond what `lzxd_reset_state` clears, `block_length`.
-/
namespace MsPack.Lzx
open MsPack MsPack.Generated

def implemented : Bool := true

inductive Halt
  | sys (e : Err)       -- `return lzx->error = e` (the model has set `error` already)
  | fault (f : Fault)
  deriving Repr, DecidableEq

/-- `struct lzxd_stream` (minus `sys/input/output`, with the decode tables as canonical codes) -/
structure St (σ : Type) where
  src            : σ
  offset         : Nat
  length         : Nat
  window         : Array UInt8
  windowSize     : Nat
  refDataSize    : Nat
  numOffsets     : Nat
  windowPosn     : Nat
  framePosn      : Nat
  frame          : Nat
  resetInterval  : Nat
  r0             : Nat
  r1             : Nat
  r2             : Nat
  blockLength    : Nat
  blockRemaining : Nat
  intelFilesize  : Int          -- `signed int`
  intelStarted   : Bool
  blockType      : Nat
  headerRead     : Bool
  inputEnd       : Bool
  isDelta        : Bool
  error          : Err
  inbufSize      : Nat
  inbuf          : Bytes        -- the bytes between `i_ptr` and `i_end`
  bits           : List Bool    -- `bit_buffer`/`bits_left`, next bit first
  /-- `o_ptr`/`o_end` point into `e8_buf` (true) or into `window` (false); indices below -/
  oInE8          : Bool
  oPtr           : Nat
  oEnd           : Nat
  pretreeLen     : Array UInt8  -- dimension 20 + 64
  maintreeLen    : Array UInt8  -- dimension 2576 + 64
  lengthLen      : Array UInt8  -- dimension 250 + 64
  alignedLen     : Array UInt8  -- dimension 8 + 64
  /-- `*_table`: what the last successful `make_decode_table` call built (`none`: never built, or
      the last build failed and left garbage) -/
  maintreeTbl    : Option Huff.Canon
  lengthTbl      : Option Huff.Canon
  alignedTbl     : Option Huff.Canon
  lengthEmpty    : Bool
  e8Buf          : Array UInt8  -- dimension 32768

/-- state survives a `throw` (the C returns an error code with the stream state as it is) -/
abbrev LM (σ : Type) := ExceptT Halt (StateM (St σ))

/-- value of a C `unsigned int` expression converted to `int` (also: of an `int` expression that
    overflowed, on the two's-complement targets the library is built for) -/
def toS32 (x : Int) : Int :=
  let m := x % 4294967296
  if m < 2147483648 then m else m - 4294967296

/-- value of an integer expression converted to `unsigned int` -/
def toU32 (x : Int) : Nat := (x % 4294967296).toNat

def positionBaseArr : Array Nat := lzxPositionBase.toArray
def extraBitsArr : Array Nat := lzxExtraBits.toArray

/-- the 16 bits of `(b1 << 8) | b0`, most significant first -/
def wordBits (b0 b1 : UInt8) : List Bool :=
  let w := b1.toNat * 256 + b0.toNat
  (List.range 16).map fun i => w.testBit (15 - i)

/-- `PEEK_BITS`: value of a bit string, first bit most significant -/
def bitsVal (bs : List Bool) : Nat := bs.foldl (fun acc b => acc * 2 + (if b then 1 else 0)) 0

/-- `lzxd_reset_state` -/
def resetState {σ : Type} (st : St σ) : St σ :=
  let zero (n : Nat) (a : Array UInt8) : Array UInt8 :=
    (List.range n).foldl (fun a i => a.setIfInBounds i 0) a
  { st with r0 := 1, r1 := 1, r2 := 1, headerRead := false, blockRemaining := 0, blockType := 0,
            maintreeLen := zero lzxMAINTREE_MAXSYMBOLS st.maintreeLen,
            lengthLen := zero lzxLENGTH_MAXSYMBOLS st.lengthLen }

/-- copy `n` bytes inside one array, front to back, one byte at a time (so overlapping copies
    repeat, as the C's `while (i-- > 0) *rundest++ = *runsrc++`) -/
def copyFwd : Nat → Nat → Nat → Array UInt8 → Except Fault (Array UInt8)
  | 0, _, _, w => .ok w
  | n + 1, src, dst, w =>
    if hs : src < w.size then
      if hd : dst < w.size then copyFwd n (src + 1) (dst + 1) (w.set dst w[src])
      else .error (.oob "window (match destination)")
    else .error (.oob "window (match source)")

/-- store a byte string at `dst` -/
def writeBytes : Bytes → Nat → Array UInt8 → Except Fault (Array UInt8)
  | [], _, w => .ok w
  | b :: rest, dst, w =>
    if hd : dst < w.size then writeBytes rest (dst + 1) (w.set dst b)
    else .error (.oob "window (raw copy)")

/-- `sys->copy(&src[from], &dst[0], n)` between two arrays -/
def copyAcross (src : Array UInt8) (start : Nat) : Nat → Nat → Array UInt8 → Except Fault (Array UInt8)
  | 0, _, dst => .ok dst
  | n + 1, k, dst =>
    match src[start + k]? with
    | none => .error (.oob "window (E8 copy)")
    | some b =>
      if hd : k < dst.size then copyAcross src start n (k + 1) (dst.set k b)
      else .error (.oob "e8_buf")

/-- the E8 call-translation loop over `e8_buf[0 .. dataend)`; `p` = `data - e8_buf` -/
def e8Loop (dataend : Nat) (filesize : Int) : Nat → Nat → Int → Array UInt8 → Except Fault (Array UInt8)
  | 0, p, _, buf => if p < dataend then .error .hang else .ok buf
  | fuel + 1, p, curpos, buf =>
    if p < dataend then
      match buf[p]? with
      | none => .error (.oob "e8_buf")
      | some b =>
        if b ≠ 0xE8 then e8Loop dataend filesize fuel (p + 1) (toS32 (curpos + 1)) buf
        else
          let p := p + 1
          if h : p + 3 < buf.size then
            let absOff := toS32 (le32 buf[p] buf[p + 1] buf[p + 2] buf[p + 3])
            let buf :=
              if absOff ≥ toS32 (-curpos) ∧ absOff < filesize then
                let relOff := toU32 (if absOff ≥ 0 then absOff - curpos else absOff + filesize)
                (((buf.set p (UInt8.ofNat (relOff % 256))).set (p + 1) (UInt8.ofNat (relOff / 256 % 256))
                    (by simp; omega)).set (p + 2) (UInt8.ofNat (relOff / 65536 % 256))
                    (by simp; omega)).set (p + 3) (UInt8.ofNat (relOff / 16777216 % 256)) (by simp; omega)
              else buf
            e8Loop dataend filesize fuel (p + 4) (toS32 (curpos + 5)) buf
          else .error (.oob "e8_buf")
    else .ok buf

section
variable {σ : Type} (S : Src σ)

/-- `return lzx->error = e` -/
def fail {α : Type} (e : Err) : LM σ α := do
  modify fun st => { st with error := e }
  throw (.sys e)

/-- `read_input`; whatever the source learnt about the output length during the call is in
    `lzx->length` afterwards -/
def readInput : LM σ Unit := do
  let st ← get
  match S.read st.src st.inbufSize with
  | .error f => throw (.fault f)
  | .ok (got, src) =>
    let length := match S.lzxLength src with
      | some n => if n > 0 then n else st.length
      | none => st.length
    let st := { st with src := src, length := length }
    match got with
    | none => set { st with error := .read }; throw (.sys .read)
    | some [] =>
      if st.inputEnd then set { st with error := .read }; throw (.sys .read)
      else set { st with inbuf := [0, 0], inputEnd := true }
    | some got => set { st with inbuf := got }

/-- `READ_IF_NEEDED; *i_ptr++` -/
def nextByte : LM σ UInt8 := do
  if (← get).inbuf.isEmpty then readInput S
  let st ← get
  match st.inbuf with
  | b :: rest => set { st with inbuf := rest }; pure b
  | [] => throw (.fault (.oob "inbuf"))   -- unreachable: readInput leaves a non-empty buffer

/-- `ENSURE_BITS(n)`, n ≤ 17: at most two words are needed -/
def ensureBits (n : Nat) : Nat → LM σ Unit
  | 0 => do if (← get).bits.length < n then throw (.fault .hang)
  | fuel + 1 => do
    if (← get).bits.length < n then
      let b0 ← nextByte S
      let b1 ← nextByte S
      modify fun st => { st with bits := st.bits ++ wordBits b0 b1 }
      ensureBits n fuel
    else pure ()

def removeBits (n : Nat) : LM σ Unit := modify fun st => { st with bits := st.bits.drop n }

/-- `PEEK_BITS(n)` -/
def peekBits (n : Nat) : LM σ Nat := do pure (bitsVal ((← get).bits.take n))

/-- `READ_BITS(val, n)` -/
def readBits (n : Nat) : LM σ Nat := do
  ensureBits S n 3
  let v ← peekBits n
  removeBits n
  pure v

/-- `READ_HUFFSYM(tbl, var)`: 16 bits are ensured first, then the symbol's own length is removed -/
def readHuffSym (tbl : Option Huff.Canon) (name : String) : LM σ Nat := do
  ensureBits S 16 3
  match tbl with
  | none => throw (.fault (.uninit name))
  | some c =>
    match Huff.decode c (← get).bits with
    | some (sym, len) => removeBits len; pure sym
    | none => fail .decrunch      -- HUFF_ERROR

/-- which length array `lzxd_read_lens` works on -/
inductive Tree | main | length
  deriving DecidableEq, Repr

def getLen (t : Tree) (x : Nat) : LM σ Nat := do
  let st ← get
  let a := match t with | .main => st.maintreeLen | .length => st.lengthLen
  match a[x]? with
  | some v => pure v.toNat
  | none => throw (.fault (.oob "lens"))

def setLen (t : Tree) (x : Nat) (v : UInt8) : LM σ Unit := do
  let st ← get
  match t with
  | .main =>
    if h : x < st.maintreeLen.size then set { st with maintreeLen := st.maintreeLen.set x v }
    else throw (.fault (.oob "MAINTREE_len"))
  | .length =>
    if h : x < st.lengthLen.size then set { st with lengthLen := st.lengthLen.set x v }
    else throw (.fault (.oob "LENGTH_len"))

/-- `while (y--) lens[x++] = v` -/
def fillLens (t : Tree) (v : UInt8) : Nat → Nat → LM σ Unit
  | 0, _ => pure ()
  | y + 1, x => do setLen t x v; fillLens t v y (x + 1)

/-- `z = lens[x] - z; if (z < 0) z += 17;` then stored into an `unsigned char` -/
def deltaLen (old sym : Nat) : UInt8 :=
  let z : Int := (old : Int) - sym
  let z := if z < 0 then z + 17 else z
  UInt8.ofNat (z % 256).toNat

/-- the symbol loop of `lzxd_read_lens`; runs may overrun `last` (the arrays have 64 spare
    entries, and the overrun is written into them) -/
def readLensLoop (t : Tree) (pre : Huff.Canon) (last : Nat) : Nat → Nat → LM σ Unit
  | 0, _ => throw (.fault .hang)
  | fuel + 1, x => do
    if x < last then
      let z ← readHuffSym S (some pre) "PRETREE_table"
      if z = 17 then
        let y := (← readBits S 4) + 4
        fillLens t 0 y x
        readLensLoop t pre last fuel (x + y)
      else if z = 18 then
        let y := (← readBits S 5) + 20
        fillLens t 0 y x
        readLensLoop t pre last fuel (x + y)
      else if z = 19 then
        let y := (← readBits S 1) + 4
        let z ← readHuffSym S (some pre) "PRETREE_table"
        let v := deltaLen (← getLen t x) z
        fillLens t v y x
        readLensLoop t pre last fuel (x + y)
      else
        let v := deltaLen (← getLen t x) z
        setLen t x v
        readLensLoop t pre last fuel (x + 1)
    else pure ()

/-- the 20 four-bit pretree lengths -/
def readPretreeLens : Nat → Nat → LM σ Unit
  | 0, _ => pure ()
  | k + 1, x => do
    let y ← readBits S 4
    let st ← get
    if h : x < st.pretreeLen.size then set { st with pretreeLen := st.pretreeLen.set x (UInt8.ofNat y) }
    else throw (.fault (.oob "PRETREE_len"))
    readPretreeLens k (x + 1)

def lensOf (a : Array UInt8) (n : Nat) : List Nat := ((a.extract 0 n).toList).map (·.toNat)

/-- `READ_LENGTHS(tbl, first, last)` = `lzxd_read_lens` -/
def readLengths (fuel : Nat) (t : Tree) (first last : Nat) : LM σ Unit := do
  readPretreeLens S lzxPRETREE_MAXSYMBOLS 0
  match Huff.build lzxPRETREE_TABLEBITS (lensOf (← get).pretreeLen lzxPRETREE_MAXSYMBOLS) with
  | none => fail .decrunch
  | some pre => readLensLoop S t pre last fuel first

/-- the eight three-bit aligned-offset lengths -/
def readAlignedLens : Nat → Nat → LM σ Unit
  | 0, _ => pure ()
  | k + 1, x => do
    let y ← readBits S 3
    let st ← get
    if h : x < st.alignedLen.size then set { st with alignedLen := st.alignedLen.set x (UInt8.ofNat y) }
    else throw (.fault (.oob "ALIGNED_len"))
    readAlignedLens k (x + 1)

/-- twelve raw bytes of an uncompressed block's header -/
def readRaw : Nat → Bytes → LM σ Bytes
  | 0, acc => pure acc
  | k + 1, acc => do let b ← nextByte S; readRaw k (acc ++ [b])

/-- "initialise new block": everything under `if (lzx->block_remaining == 0)` -/
def readBlockHeader (fuel : Nat) : LM σ Unit := do
  -- realign if previous block was an odd-sized UNCOMPRESSED block
  let st ← get
  if st.blockType = 3 ∧ st.blockLength % 2 = 1 then
    let _ ← nextByte S
  let bt ← readBits S 3
  modify fun st => { st with blockType := bt }
  let i ← readBits S 16
  let j ← readBits S 8
  let len := i * 256 + j            -- (i << 8) | j, j < 256
  modify fun st => { st with blockRemaining := len, blockLength := len }
  if bt = 1 ∨ bt = 2 then
    if bt = 2 then
      readAlignedLens S lzxALIGNED_MAXSYMBOLS 0
      match Huff.build lzxALIGNED_TABLEBITS (lensOf (← get).alignedLen lzxALIGNED_MAXSYMBOLS) with
      | none => modify (fun st => { st with alignedTbl := none }); fail .decrunch
      | some c => modify fun st => { st with alignedTbl := some c }
    readLengths S fuel .main 0 256
    readLengths S fuel .main 256 (lzxNUM_CHARS + (← get).numOffsets)
    match Huff.build lzxMAINTREE_TABLEBITS (lensOf (← get).maintreeLen lzxMAINTREE_MAXSYMBOLS) with
    | none => modify (fun st => { st with maintreeTbl := none }); fail .decrunch
    | some c => modify fun st => { st with maintreeTbl := some c }
    -- if the literal 0xE8 is anywhere in the block...
    if (← getLen .main 0xE8) ≠ 0 then modify fun st => { st with intelStarted := true }
    readLengths S fuel .length 0 lzxNUM_SECONDARY_LENGTHS
    -- BUILD_TABLE_MAYBE_EMPTY(LENGTH)
    modify fun st => { st with lengthEmpty := false }
    let ll := lensOf (← get).lengthLen lzxLENGTH_MAXSYMBOLS
    match Huff.build lzxLENGTH_TABLEBITS ll with
    | some c => modify fun st => { st with lengthTbl := some c }
    | none =>
      modify fun st => { st with lengthTbl := none }
      if ll.any (· > 0) then fail .decrunch
      modify fun st => { st with lengthEmpty := true }
  else if bt = 3 then
    modify fun st => { st with intelStarted := true }
    -- read 1-16 (not 0-15) bits to align to bytes
    if (← get).bits.isEmpty then ensureBits S 16 3
    modify fun st => { st with bits := [] }
    let buf ← readRaw S 12 []
    match buf with
    | [a0, a1, a2, a3, b0, b1, b2, b3, c0, c1, c2, c3] =>
      modify fun st => { st with r0 := le32 a0 a1 a2 a3, r1 := le32 b0 b1 b2 b3, r2 := le32 c0 c1 c2 c3 }
    | _ => throw (.fault (.oob "buf"))   -- unreachable: readRaw 12 yields 12 bytes
  else fail .decrunch

/-- window-to-window copy on the state -/
def winCopy (n src dst : Nat) : LM σ Unit := do
  -- (`modifyGet` with the window taken out of the record first: the array is then not shared and
  --  `copyFwd` updates it in place)
  let r ← modifyGet fun (st : St σ) =>
    let w := st.window
    let st := { st with window := #[] }
    match copyFwd n src dst w with
    | .ok w => (none, { st with window := w })
    | .error f => (some f, st)
  match r with
  | none => pure ()
  | some f => throw (.fault f)

/-- `window[window_posn++] = b` -/
def putLiteral (b : UInt8) : LM σ Unit := do
  let ok ← modifyGet fun (st : St σ) =>
    if h : st.windowPosn < st.window.size then
      (true, { st with window := st.window.set st.windowPosn b, windowPosn := st.windowPosn + 1 })
    else (false, st)
  if !ok then throw (.fault (.oob "window (literal)"))

/-- what stays fixed while one run of a verbatim / aligned block is decoded -/
structure RunCtx where
  main        : Option Huff.Canon
  len         : Option Huff.Canon
  aligned     : Option Huff.Canon
  isAligned   : Bool
  isDelta     : Bool
  lengthEmpty : Bool
  windowSize  : Nat
  refDataSize : Nat
  offset      : Nat

/-- match offset for position slots ≥ 3 (`default:` of the switch), with the R0..R2 update -/
def readOffset (c : RunCtx) (slot : Nat) : LM σ Nat := do
  let extra ←
    if slot ≥ 36 then pure 17
    else match extraBitsArr[slot]? with
      | some e => pure e
      | none => throw (.fault (.oob "extra_bits"))
  let base ← match positionBaseArr[slot]? with
    | some b => pure b
    | none => throw (.fault (.oob "position_base"))
  let mo := toU32 ((base : Int) - 2)
  let mo ←
    if extra ≥ 3 ∧ c.isAligned then do
      let mo ← if extra > 3 then do
          let vb ← readBits S (extra - 3)
          pure ((mo + vb * 8) % 4294967296)
        else pure mo
      let ab ← readHuffSym S c.aligned "ALIGNED_table"
      pure ((mo + ab) % 4294967296)
    else if extra ≠ 0 then do
      let vb ← readBits S extra
      pure ((mo + vb) % 4294967296)
    else pure mo
  modify fun st => { st with r2 := st.r1, r1 := st.r0, r0 := mo }
  pure mo

/-- LZX DELTA: the extra length that follows a match of length 257 -/
def readExtraLen : LM σ Nat := do
  ensureBits S 3 3
  if (← peekBits 1) = 0 then
    removeBits 1; readBits S 8
  else if (← peekBits 2) = 2 then
    removeBits 2; pure ((← readBits S 10) + 0x100)
  else if (← peekBits 3) = 6 then
    removeBits 3; pure ((← readBits S 12) + 0x500)
  else
    removeBits 3; readBits S 15

/-- "copy match": the checks and the (up to) two copy runs -/
def copyMatch (c : RunCtx) (matchOffset matchLength : Nat) : LM σ Unit := do
  let wp := (← get).windowPosn
  if wp + matchLength > c.windowSize then fail .decrunch      -- match ran over window wrap
  if matchOffset > wp then
    -- does match offset wrap the window?
    if matchOffset > c.offset ∧ matchOffset - wp > c.refDataSize then fail .decrunch
    let j := toS32 ((matchOffset : Int) - wp)
    if j > toS32 c.windowSize then fail .decrunch
    -- j < 0 (offset - posn ≥ 2^31, needs ≥ 2 GiB of output): the C indexes far outside the window
    if j < 0 then throw (.fault (.oob "window (match source)"))
    let j := j.toNat
    let src := c.windowSize - j
    if j < matchLength then
      winCopy j src wp
      winCopy (matchLength - j) 0 (wp + j)
    else winCopy matchLength src wp
  else winCopy matchLength (wp - matchOffset) wp
  modify fun st => { st with windowPosn := st.windowPosn + matchLength }

/-- `while (this_run > 0)` of a verbatim / aligned block; result: the final `this_run` (≤ 0) -/
def decodeRun (c : RunCtx) : Nat → Int → LM σ Int
  | 0, _ => throw (.fault .hang)
  | fuel + 1, thisRun => do
    if thisRun ≤ 0 then pure thisRun else
    let me ← readHuffSym S c.main "MAINTREE_table"
    if me < lzxNUM_CHARS then
      putLiteral (UInt8.ofNat me)
      decodeRun c fuel (thisRun - 1)
    else
      let me := me - lzxNUM_CHARS
      -- get match length
      let ml := me % 8
      let ml ←
        if ml = lzxNUM_PRIMARY_LENGTHS then do
          if c.lengthEmpty then fail .decrunch
          let footer ← readHuffSym S c.len "LENGTH_table"
          pure (ml + footer)
        else pure ml
      let ml := ml + lzxMIN_MATCH
      -- get match offset
      let slot := me / 8
      let mo ←
        if slot = 0 then do pure (← get).r0
        else if slot = 1 then do
          let st ← get
          set { st with r1 := st.r0, r0 := st.r1 }
          pure st.r1
        else if slot = 2 then do
          let st ← get
          set { st with r2 := st.r0, r0 := st.r2 }
          pure st.r2
        else readOffset S c slot
      -- LZX DELTA uses max match length to signal even longer match
      let ml ← if ml = lzxMAX_MATCH ∧ c.isDelta then do pure (ml + (← readExtraLen S)) else pure ml
      copyMatch c mo ml
      decodeRun c fuel (thisRun - ml)

/-- payload of an uncompressed block: straight from the input buffer, refilled when empty -/
def copyRaw : Nat → Nat → Nat → LM σ Unit
  | 0, _, _ => throw (.fault .hang)
  | fuel + 1, dest, thisRun => do
    if thisRun = 0 then pure () else
    if (← get).inbuf.isEmpty then
      readInput S
      copyRaw fuel dest thisRun
    else
      let r ← modifyGet fun (st : St σ) =>
        let n := min st.inbuf.length thisRun
        let chunk := st.inbuf.take n
        let w := st.window
        let st := { st with window := #[], inbuf := st.inbuf.drop n }
        match writeBytes chunk dest w with
        | .error f => (Except.error f, st)
        | .ok w => (Except.ok n, { st with window := w })
      match r with
      | .error f => throw (.fault f)
      | .ok n => copyRaw fuel (dest + n) (thisRun - n)

/-- `while (bytes_todo > 0)` -/
def blockLoop : Nat → Int → LM σ Unit
  | 0, _ => throw (.fault .hang)
  | fuel + 1, bytesTodo => do
    if bytesTodo ≤ 0 then pure () else
    if (← get).blockRemaining = 0 then readBlockHeader S fuel
    let st ← get
    -- run = min(what's available, what's needed)
    let thisRun : Int := if (st.blockRemaining : Int) > bytesTodo then bytesTodo else st.blockRemaining
    let bytesTodo := bytesTodo - thisRun
    let bt := st.blockType
    let c : RunCtx := { main := st.maintreeTbl, len := st.lengthTbl, aligned := st.alignedTbl,
                        isAligned := bt = 2, isDelta := st.isDelta, lengthEmpty := st.lengthEmpty,
                        windowSize := st.windowSize, refDataSize := st.refDataSize, offset := st.offset }
    let wp := st.windowPosn
    set { st with blockRemaining := st.blockRemaining - thisRun.toNat }
    let left : Int ←
      if bt = 1 ∨ bt = 2 then decodeRun S c fuel thisRun
      else if bt = 3 then do
        modify fun st => { st with windowPosn := st.windowPosn + thisRun.toNat }
        copyRaw S fuel wp thisRun.toNat
        pure 0
      else fail .decrunch
    -- did the final match overrun our desired this_run length?
    if left < 0 then
      let over := (-left).toNat
      if over > (← get).blockRemaining then fail .decrunch
      modify fun st => { st with blockRemaining := st.blockRemaining - over }
    blockLoop fuel bytesTodo

/-- `&o_ptr[0 .. n)` -/
def outSlice (st : St σ) (n : Nat) : Except Fault (Array UInt8) :=
  let a := if st.oInE8 then st.e8Buf else st.window
  if st.oPtr + n ≤ a.size then .ok (a.extract st.oPtr (st.oPtr + n))
  else .error (.oob (if st.oInE8 then "e8_buf (write)" else "window (write)"))

/-- one iteration of `while (lzx->frame < end_frame)`; result: the bytes handed to `write` -/
def frameBody (fuel outBytes : Nat) : LM σ (Array UInt8) := do
  -- have we reached the reset interval? (if there is one?)
  let st ← get
  if st.resetInterval ≠ 0 ∧ st.frame % st.resetInterval = 0 then
    modify resetState
  -- LZX DELTA format has chunk_size, not present in LZX format
  if (← get).isDelta then
    ensureBits S 16 3
    removeBits 16
  -- read header if necessary
  if !(← get).headerRead then
    let i ← readBits S 1
    let (i, j) ← if i ≠ 0 then do
        let i ← readBits S 16
        let j ← readBits S 16
        pure (i, j)
      else pure (i, 0)
    modify fun st => { st with intelFilesize := toS32 ((i * 65536 ||| j : Nat) : Int), headerRead := true }
  -- calculate size of frame; if nothing of this frame has been read yet, read now (the CAB feeder
  -- sets `lzx->length` from inside the read that fetches the folder's last block)
  let st ← get
  if st.length = 0 ∧ st.bits.isEmpty then
    if st.inbuf.isEmpty then readInput S        -- READ_IF_NEEDED
  let st ← get
  let frameSize : Nat :=
    if st.length ≠ 0 ∧ (st.length : Int) - st.offset < (lzxFRAME_SIZE : Int)
    then toU32 ((st.length : Int) - st.offset) else lzxFRAME_SIZE
  -- decode until one more frame is available
  let bytesTodo := toS32 ((st.framePosn : Int) + frameSize - st.windowPosn)
  blockLoop S fuel bytesTodo
  -- streams don't extend over frame boundaries
  let st ← get
  if toU32 ((st.windowPosn : Int) - st.framePosn) ≠ frameSize then fail .decrunch
  -- re-align input bitstream
  if (← get).bits.length > 0 then ensureBits S 16 3
  let bl := (← get).bits.length
  if bl % 16 ≠ 0 then removeBits (bl % 16)
  -- check that we've used all of the previous frame first
  let st ← get
  if st.oPtr ≠ st.oEnd then fail .decrunch
  -- does this intel block _really_ need decoding?
  if st.intelStarted ∧ st.intelFilesize ≠ 0 ∧ st.frame < 32768 ∧ frameSize > 10 then
    match copyAcross st.window st.framePosn frameSize 0 st.e8Buf with
    | .error f => throw (.fault f)
    | .ok buf =>
      match e8Loop (frameSize - 10) st.intelFilesize frameSize 0 (toS32 st.offset) buf with
      | .error f => throw (.fault f)
      | .ok buf => set { st with e8Buf := buf, oInE8 := true, oPtr := 0, oEnd := frameSize }
  else
    set { st with oInE8 := false, oPtr := st.framePosn, oEnd := st.framePosn + frameSize }
  -- write a frame
  let i := if outBytes < frameSize then outBytes else frameSize
  let st ← get
  match outSlice st i with
  | .error f => throw (.fault f)
  | .ok chunk =>
    let framePosn := (st.framePosn + frameSize) % 4294967296
    set { st with oPtr := st.oPtr + i, offset := st.offset + i,
                  -- advance frame start position
                  framePosn := if framePosn = st.windowSize then 0 else framePosn,
                  frame := (st.frame + 1) % 4294967296,
                  -- wrap window / frame position pointers
                  windowPosn := if st.windowPosn = st.windowSize then 0 else st.windowPosn }
    pure chunk

/-- `while (lzx->frame < end_frame)` and what follows it; `n` counts the iterations left
    (`end_frame - lzx->frame`, the frame counter goes up by one each time) -/
def frameLoop (fuel endFrame : Nat) : Nat → St σ → Nat → Array UInt8 → Except Fault (DecodeOut (St σ))
  | 0, st, outBytes, acc =>
    if st.frame < endFrame then .error .hang
    else if outBytes ≠ 0 then .ok ⟨.decrunch, acc.toList, { st with error := .decrunch }⟩
    else .ok ⟨.ok, acc.toList, st⟩
  | n + 1, st, outBytes, acc =>
    -- `if (lzx->length && lzx->offset >= lzx->length) break;` (since the D24 repair): the stream's whole length has
    -- been decoded, there is no further frame
    if st.frame < endFrame ∧ ¬ (st.length ≠ 0 ∧ st.offset ≥ st.length) then
      match (frameBody S fuel outBytes).run.run st with
      | (.error (.fault f), _) => .error f
      | (.error (.sys e), st) => .ok ⟨e, acc.toList, st⟩
      | (.ok chunk, st) => frameLoop fuel endFrame n st (outBytes - chunk.size) (acc ++ chunk)
    else if outBytes ≠ 0 then .ok ⟨.decrunch, acc.toList, { st with error := .decrunch }⟩
    else .ok ⟨.ok, acc.toList, st⟩

end

/-- `lzxd_init(system, input, output, window_bits, reset_interval, input_buffer_size,
    output_length, is_delta)`; `none` = NULL.  `fill` = contents of fresh allocations. -/
def init {σ : Type} (src : σ) (windowBits resetInterval inputBufferSize outputLength : Nat)
    (isDelta : Bool) (fill : UInt8) : Option (St σ) :=
  let okBits := if isDelta then 17 ≤ windowBits ∧ windowBits ≤ 25 else 15 ≤ windowBits ∧ windowBits ≤ 21
  if !decide okBits then none else
  -- round up input buffer size to multiple of two
  let inbufSize := (inputBufferSize + 1) / 2 * 2
  if inbufSize < 2 then none else
  match lzxPositionSlots[windowBits - 15]? with
  | none => none            -- unreachable: 0 ≤ windowBits - 15 ≤ 10
  | some slots =>
    let lens (cleared dim : Nat) : Array UInt8 :=
      Array.replicate cleared 0 ++ Array.replicate (dim - cleared) fill
    some {
      src := src, offset := 0, length := outputLength,
      window := Array.replicate (2 ^ windowBits) 0,   -- `memset(lzx->window, 0, window_size)` (since cc98207)
      windowSize := 2 ^ windowBits,
      refDataSize := 0, numOffsets := slots * 8, windowPosn := 0, framePosn := 0, frame := 0,
      resetInterval := resetInterval, r0 := 1, r1 := 1, r2 := 1,
      blockLength := fill.toNat * 16843009,       -- never written by lzxd_init
      blockRemaining := 0, intelFilesize := 0, intelStarted := false, blockType := 0,
      headerRead := false, inputEnd := false, isDelta := isDelta, error := .ok,
      inbufSize := inbufSize, inbuf := [], bits := [],
      oInE8 := true, oPtr := 0, oEnd := 0,
      pretreeLen := lens 0 lzxPretreeLenDim,
      maintreeLen := lens lzxMAINTREE_MAXSYMBOLS lzxMaintreeLenDim,
      lengthLen := lens lzxLENGTH_MAXSYMBOLS lzxLengthLenDim,
      alignedLen := lens 0 lzxAlignedLenDim,
      maintreeTbl := none, lengthTbl := none, alignedTbl := none,
      lengthEmpty := fill ≠ 0,                    -- never written by lzxd_init
      e8Buf := Array.replicate lzxE8BufDim fill }

/-- `lzxd_set_output_length` -/
def setOutputLength {σ : Type} (st : St σ) (n : Nat) : St σ :=
  if n > 0 then { st with length := n } else st

/-- `lzxd_set_reference_data(lzx, system, input, length)`: `ref` = the bytes the base file handle
    delivers to a read of `length` bytes (`none` = the read returns a negative value; fewer than
    `length` bytes = short read: they are in the window, the call fails) -/
def setReferenceData {σ : Type} (st : St σ) (length : Nat) (ref : Option Bytes) : Err × St σ :=
  if !st.isDelta then (.args, st)
  else if st.offset ≠ 0 then (.args, st)
  else if length > st.windowSize then (.args, st)
  else
    let st := { st with refDataSize := length }
    if length = 0 then (.ok, st) else
    match ref with
    | none => (.read, st)
    | some bytes =>
      let bytes := bytes.take length
      let w := st.window
      let st := { st with window := #[] }
      match writeBytes bytes (st.windowSize - length) w with
      | .error _ => (.read, st)      -- unreachable: length ≤ window_size = window.size
      | .ok w =>
        let st := { st with window := w }
        if bytes.length < length then (.read, st) else (.ok, st)

/-- `lzxd_decompress(lzx, out_bytes)` -/
def decompress {σ : Type} (S : Src σ) (fuel : Nat) (st : St σ) (outBytes : Nat) :
    Except Fault (DecodeOut (St σ)) :=
  if st.error ≠ .ok then .ok ⟨st.error, [], st⟩ else
  -- flush out any stored-up bytes before we begin
  let i := min (st.oEnd - st.oPtr) outBytes
  match outSlice st i with
  | .error f => .error f
  | .ok chunk =>
    let st := { st with oPtr := st.oPtr + i, offset := st.offset + i }
    let outBytes := outBytes - i
    if outBytes = 0 then .ok ⟨.ok, chunk.toList, st⟩ else
    let endFrame := ((st.offset + outBytes) / lzxFRAME_SIZE % 4294967296 + 1) % 4294967296
    frameLoop S fuel endFrame (endFrame - st.frame) st outBytes chunk

end MsPack.Lzx
