#!/usr/bin/env python3
"""Differential test: Lean model of qtmd.c (mspack-driver) vs the real library (apiharness).

Generates case files (PROTOCOL.md) into a temp dir, runs both programs on them and compares the
`extract` result lines (st, err, written, out), ignoring `edges=`/`calls=` suffixes and the `end`
line.  A harness CRASH/TIMEOUT matched by a model `extract FAULT` is counted as "both-fault".

  difftest.py [--harness PATH] [--driver PATH] [--seed N] [--scale F] [--suites a,b,..] [--keep DIR]

defaults: harness = newest /verif/build/harness-*/apiharness (else built into the temp dir with
/verif/harness/build.sh), driver = <this lean package>/.lake/build/bin/mspack-driver (build it first:
`lake build mspack-driver`).  Exit status 1 if any case disagrees; disagreeing cases are kept.

suites: fixtures  every Quantum cabinet under /repo x DECOMPBUF x fill x extraction orders
        small     random token streams 50..4000 bytes, windows 10..21, random member splits/orders
        frames    multi-frame streams with small windows (matches wrap the window, bail-out path)
        rescale   long skewed literal streams (shiftsleft cycle, 3800 threshold, sort branch)
        bigwin    output larger than a 2^15..2^21 window
        early     matches reaching before the start of the stream (uninitialised window bytes)
        cross     a match crossing a frame boundary (frame_todo overshoot)
        trunc     payload truncated at every prefix (small streams)
        readerr   the feeder's read fails (returns -1): wrong block checksum, cabinet file cut short
        flip      random bit flips / byte stomps / size-field lies in the payload
Self-contained: the Quantum encoder below is DESIGN.md Appendix F.2 without its assertions, the
cabinet writer is Appendix F.1.
"""
import argparse, os, random, struct, subprocess, sys, tempfile, shutil, glob, re

POS_BASE = [0, 1, 2, 3, 4, 6, 8, 12, 16, 24, 32, 48, 64, 96, 128, 192, 256, 384, 512, 768, 1024, 1536, 2048, 3072,
            4096, 6144, 8192, 12288, 16384, 24576, 32768, 49152, 65536, 98304, 131072, 196608, 262144, 393216,
            524288, 786432, 1048576, 1572864]
POS_XB = [max(0, i - 2) >> 1 for i in range(42)]
LEN_BASE = [0, 1, 2, 3, 4, 5, 6, 8, 10, 12, 14, 18, 22, 26, 30, 38, 46, 54, 62, 78, 94, 110, 126, 158, 190, 222, 254]
LEN_XB = [0, 0, 0, 0, 0, 0, 1, 1, 1, 1, 2, 2, 2, 2, 3, 3, 3, 3, 4, 4, 4, 4, 5, 5, 5, 5, 0]
FRAME = 32768


class Model:
    def __init__(s, start, n):
        s.shiftsleft = 4; s.entries = n
        s.sym = [start + i for i in range(n + 1)]; s.cf = [n - i for i in range(n + 1)]

    def update(s):
        s.shiftsleft -= 1
        if s.shiftsleft:
            for i in range(s.entries - 1, -1, -1):
                s.cf[i] >>= 1
                if s.cf[i] <= s.cf[i + 1]: s.cf[i] = s.cf[i + 1] + 1
        else:
            s.shiftsleft = 50
            for i in range(s.entries): s.cf[i] = (s.cf[i] - s.cf[i + 1] + 1) >> 1
            for i in range(s.entries - 1):
                for j in range(i + 1, s.entries):
                    if s.cf[i] < s.cf[j]:
                        s.cf[i], s.cf[j] = s.cf[j], s.cf[i]; s.sym[i], s.sym[j] = s.sym[j], s.sym[i]
            for i in range(s.entries - 1, -1, -1): s.cf[i] += s.cf[i + 1]


class Encoder:
    def __init__(s, wb):
        i = wb * 2
        s.m = [Model(0, 64), Model(64, 64), Model(128, 64), Model(192, 64),
               Model(0, min(i, 24)), Model(0, min(i, 36)), Model(0, i)]
        s.mlen = Model(0, 27); s.msel = Model(0, 7); s.start_frame()
        s.updates = 0; s.sorts = 0

    def start_frame(s):
        s.H = 0xFFFF; s.L = 0; s.pending = 0; s.A = []; s.shifts = 0; s.rawq = []

    def _emit(s, b):
        s.A.append(b); s.A += [1 - b] * s.pending; s.pending = 0

    def sym(s, model, symbol):
        j = model.sym.index(symbol, 0, model.entries)
        rng = s.H - s.L + 1; tot = model.cf[0]
        s.H = s.L + model.cf[j] * rng // tot - 1
        s.L = s.L + model.cf[j + 1] * rng // tot
        for k in range(j + 1): model.cf[k] += 8
        if model.cf[0] > 3800:
            model.update(); s.updates += 1
            if model.shiftsleft == 50: s.sorts += 1
        while True:
            if (s.L & 0x8000) != (s.H & 0x8000):
                if (s.L & 0x4000) and not (s.H & 0x4000):
                    s.pending += 1; s.L &= 0x3FFF; s.H |= 0x4000
                else: break
            else: s._emit(s.L >> 15 & 1)
            s.L = s.L << 1 & 0xFFFF; s.H = (s.H << 1 | 1) & 0xFFFF; s.shifts += 1

    def raw(s, v, n):
        if n: s.rawq.append((s.shifts, [v >> i & 1 for i in range(n - 1, -1, -1)]))

    def end_frame(s, trailing=b''):
        v = s.L
        s._emit(v >> 15 & 1); s.A += [v >> i & 1 for i in range(14, -1, -1)]
        bits = []; ai = 0
        for sc, rb in s.rawq:
            bits += s.A[ai:16 + sc]; ai = 16 + sc; bits += rb
        bits += s.A[ai:]
        bits += [0] * (-len(bits) % 8)
        out = bytes(int(''.join(map(str, bits[i:i + 8])), 2) for i in range(0, len(bits), 8))
        s.start_frame()
        return out + trailing

    def literal(s, c):
        s.sym(s.msel, c >> 6); s.sym(s.m[c >> 6], c)

    def match(s, offset, length):
        o = offset - 1; sl = max(i for i in range(42) if POS_BASE[i] <= o)
        if length in (3, 4):
            s.sym(s.msel, length + 1); s.sym(s.m[length + 1], sl)
        else:
            s.sym(s.msel, 6); l = length - 5
            ls = max(i for i in range(27) if LEN_BASE[i] <= l)
            s.sym(s.mlen, ls); s.raw(l - LEN_BASE[ls], LEN_XB[ls]); s.sym(s.m[6], sl)
        s.raw(o - POS_BASE[sl], POS_XB[sl])


def max_off(wb, ln):
    return min(1 << wb, 4096 if ln == 3 else (1 << 18) if ln == 4 else (1 << 21))


def encode(tokens, wb, trailing, allow_cross=False):
    """-> [(payload, usize)] one per 32768-byte frame.  A token that would cross the frame end is
    only emitted if allow_cross (then the stream ends there: the decoder fails)."""
    e = Encoder(wb); blocks = []; fr = 0
    for t in tokens:
        if t[0] == 'L': e.literal(t[1]); fr += 1
        else: e.match(t[1], t[2]); fr += t[2]
        if fr > FRAME:
            assert allow_cross
            blocks.append((e.end_frame(trailing()), FRAME)); fr = 0
            break
        if fr == FRAME:
            blocks.append((e.end_frame(trailing()), FRAME)); fr = 0
    if fr: blocks.append((e.end_frame(trailing()), fr))
    return blocks, e


def expand(tokens, wb, fill, limit=None):
    """what the decoder produces (window semantics incl. the fill bytes before the stream start)"""
    out = bytearray()
    w = 1 << wb
    for t in tokens:
        if t[0] == 'L': out.append(t[1])
        else:
            for _ in range(t[2]):
                p = len(out) - t[1]
                out.append(out[p] if p >= 0 else fill)
    return bytes(out)


def cab(comp_type, blocks, files, nblocks=None):
    hdr_len = 36; fold_len = 8; files_b = b''
    for (name, off, ln) in files:
        files_b += struct.pack('<IIHHHH', ln, off, 0, 0x2345, 0x6789, 0x20) + name + b'\0'
    data_off = hdr_len + fold_len + len(files_b)
    data = b''
    for b in blocks:
        p, u = b[0], b[1]
        data += struct.pack('<IHH', b[2] if len(b) > 2 else 0, len(p), u) + p
    total = data_off + len(data)
    h = struct.pack('<4sIIIIIBBHHHHH', b'MSCF', 0, total, 0, hdr_len + fold_len, 0, 3, 1, 1, len(files), 0, 0x1234, 0)
    f = struct.pack('<IHH', data_off, len(blocks) if nblocks is None else nblocks, comp_type)
    return h + f + files_b + data


# ---------------------------------------------------------------- token plans

def gen_tokens(rng, total, wb, p_match=0.3, early=False, skew=None, align_frames=True, longm=False):
    """random token stream producing exactly `total` bytes; matches never cross a frame"""
    toks = []; pos = 0
    alpha = skew or rng.choice([256, 256, 64, 16, 4, 200])
    base = rng.randrange(256)
    while pos < total:
        room = min(total - pos, FRAME - pos % FRAME)
        if room >= 3 and (pos > 0 or early) and rng.random() < p_match:
            if longm: ln = min(room, rng.choice([259, 259, 258, 200, 100, 5, 4, 3]))
            else: ln = min(room, rng.choice([3, 3, 4, 4, 5, 6, 7, 8, 12, 20, 40, 100, 258, 259, rng.randint(5, 259)]))
            lim = max_off(wb, ln)
            if early and rng.random() < 0.5: hi = lim
            else: hi = min(pos, lim)
            if hi < 1: hi = 1 if early else 0
            if hi >= 1:
                kind = rng.random()
                if kind < 0.3: off = rng.randint(1, min(hi, 8))
                elif kind < 0.6: off = rng.randint(1, hi)
                elif kind < 0.8: off = hi
                else: off = min(hi, 1 << rng.randint(0, 21))
                toks.append(('M', off, ln)); pos += ln
                continue
        c = (base + int(rng.random() ** 2 * alpha)) & 255 if rng.random() < 0.9 else rng.randrange(256)
        toks.append(('L', c)); pos += 1
    return toks


def trailer_fn(rng):
    style = rng.choice(['none', 'zeros', 'zeros', 'random'])
    if style == 'none': return lambda: b''
    if style == 'zeros': return lambda: bytes(rng.randint(0, 4))
    return lambda: bytes(rng.randrange(255) for _ in range(rng.randint(0, 5)))


def members(rng, total, extra_beyond=False):
    """random partition of [0,total) (+ sometimes overlapping / overlong members)"""
    style = rng.random()
    files = []
    if style < 0.15:
        files = [(0, total)]
    else:
        n = rng.randint(1, 6)
        cuts = sorted(set([0, total] + [rng.randint(0, total) for _ in range(n)]))
        files = [(a, b - a) for a, b in zip(cuts, cuts[1:])]
        if rng.random() < 0.3:   # cuts right next to powers of two (window ends)
            k = 1 << rng.randint(10, 15)
            for d in (-3, -1, 0, 1, 2):
                c = k * rng.randint(1, 3) + d
                if 0 < c < total: files.append((c, rng.randint(0, total - c)))
    if rng.random() < 0.2:
        a = rng.randint(0, total); files.append((a, rng.randint(0, total - a)))
    if extra_beyond and rng.random() < 0.3:
        a = rng.randint(0, total); files.append((a, total - a + rng.randint(1, 300)))
    return files


DECOMPBUFS = [4, 5, 16, 17, 4096, 65536]
FILLS = ['00', 'a5', 'ff']


def case_text(cabbytes, nfiles, order, buf, fill, salvage=False):
    L = [f'fill {fill}', f'file a.cab {cabbytes.hex()}', 'new cab', f'param i0 DECOMPBUF {buf}']
    if salvage: L.append('param i0 SALVAGE 1')
    L.append('open i0 a.cab')
    for k, idx in enumerate(order):
        L.append(f'extract i0 h0 {idx} o{k}')
    return '\n'.join(L) + '\n'


def orders(rng, n):
    o = list(range(n))
    r = rng.random()
    if r < 0.5: return o
    if r < 0.65: return o[::-1]
    rng.shuffle(o)
    if rng.random() < 0.3: o += [rng.randrange(n) for _ in range(2)]
    return o


def mk_case(rng, wb, blocks, total, beyond=False, nblocks=None, buf=None, fill=None, files=None, cut=None):
    files = files if files is not None else members(rng, total, beyond)
    flist = [(b'f%d' % i, a, l) for i, (a, l) in enumerate(files)]
    comp = 2 | (rng.randint(1, 7) << 4) | (wb << 8)
    c = cab(comp, blocks, flist, nblocks)
    if cut is not None: c = c[:len(c) - cut]
    return case_text(c, len(flist), orders(rng, len(flist)), buf or rng.choice(DECOMPBUFS + [rng.randint(4, 300)]),
                     fill or rng.choice(FILLS), salvage=rng.random() < 0.05)


# ---------------------------------------------------------------- suites

def suite_fixtures(rng, scale, harness):
    cabs = sorted(glob.glob('/repo/**/*.cab', recursive=True))
    out = []
    probe_dir = tempfile.mkdtemp(prefix='qtmprobe')
    try:
        for path in cabs:
            cf = os.path.join(probe_dir, 'p.case')
            open(cf, 'w').write(f'fileref a.cab {path}\nnew cab\nopen i0 a.cab\n')
            r = subprocess.run([harness, cf], capture_output=True, text=True).stdout
            folders = {}; files = []
            for ln in r.splitlines():
                m = re.match(r'folder (\d+) comp=0x([0-9a-f]+)', ln)
                if m: folders[int(m.group(1))] = int(m.group(2), 16)
                m = re.match(r'file (\d+) .* folder=(-?\d+)', ln)
                if m: files.append((int(m.group(1)), int(m.group(2))))
            q = [i for i, f in files if folders.get(f, 0) & 15 == 2]
            if not q: continue
            for buf in DECOMPBUFS:
                for fill in FILLS:
                    for order in (q, q[::-1], q + q, rng.sample(q, len(q))):
                        L = [f'fill {fill}', f'fileref a.cab {path}', 'new cab', f'param i0 DECOMPBUF {buf}', 'open i0 a.cab']
                        L += [f'extract i0 h0 {idx} o{k}' for k, idx in enumerate(order)]
                        out.append(('fix-' + os.path.basename(path), '\n'.join(L) + '\n'))
    finally:
        shutil.rmtree(probe_dir, ignore_errors=True)
    return out


def suite_small(rng, scale, _):
    out = []
    for _ in range(int(1200 * scale)):
        wb = rng.randint(10, 21); total = rng.randint(1, 4000) if rng.random() < 0.9 else rng.randint(1, 50)
        toks = gen_tokens(rng, total, wb, p_match=rng.choice([0, 0.1, 0.3, 0.6, 0.9]))
        blocks, _e = encode(toks, wb, trailer_fn(rng))
        out.append(('small', mk_case(rng, wb, blocks, total, beyond=True)))
    return out


def suite_frames(rng, scale, _):
    out = []
    for _ in range(int(260 * scale)):
        wb = rng.randint(10, 14); total = rng.randint(FRAME - 2000, 4 * FRAME)
        toks = gen_tokens(rng, total, wb, p_match=rng.choice([0.5, 0.8, 0.95]), longm=rng.random() < 0.6)
        blocks, _e = encode(toks, wb, trailer_fn(rng))
        # several cases per stream: full extraction and random splits (bail-out path)
        for _k in range(3):
            out.append(('frames', mk_case(rng, wb, blocks, total)))
        out.append(('frames', mk_case(rng, wb, blocks, total, files=[(0, total)])))
    return out


def suite_rescale(rng, scale, _):
    out = []
    for _ in range(max(1, int(16 * scale))):
        wb = rng.randint(10, 21); total = rng.randint(3 * FRAME, 7 * FRAME)
        toks = gen_tokens(rng, total, wb, p_match=rng.choice([0.0, 0.02, 0.2]), skew=rng.choice([4, 16, 64, 256]))
        blocks, e = encode(toks, wb, trailer_fn(rng))
        assert e.updates > 8
        out.append(('rescale', mk_case(rng, wb, blocks, total)))
        out.append(('rescale', mk_case(rng, wb, blocks, total, files=[(0, total)])))
    return out


def suite_bigwin(rng, scale, _):
    out = []
    plan = [15, 15, 16, 16, 17, 17, 18, 19, 20, 21][: max(2, int(10 * scale))]
    for wb in plan:
        total = (1 << wb) + rng.randint(1, 3) * FRAME + rng.randint(0, 5000)
        toks = gen_tokens(rng, total, wb, p_match=0.97, longm=True)
        blocks, _e = encode(toks, wb, trailer_fn(rng))
        out.append(('bigwin', mk_case(rng, wb, blocks, total)))
        out.append(('bigwin', mk_case(rng, wb, blocks, total, files=[(0, total)], buf=65536)))
    return out


def suite_early(rng, scale, _):
    out = []
    for _ in range(int(300 * scale)):
        wb = rng.randint(10, 21); total = rng.randint(3, 3000)
        if rng.random() < 0.2: wb = rng.randint(10, 13); total = rng.randint(1000, 40000)
        toks = gen_tokens(rng, total, wb, p_match=rng.choice([0.3, 0.7]), early=True)
        blocks, _e = encode(toks, wb, trailer_fn(rng))
        out.append(('early', mk_case(rng, wb, blocks, total)))
    return out


def suite_cross(rng, scale, _):
    out = []
    for _ in range(int(60 * scale)):
        wb = rng.randint(10, 21)
        pre = FRAME - rng.randint(1, 258)
        toks = gen_tokens(rng, pre, wb, p_match=0.9, longm=True)
        ln = rng.randint(FRAME - pre + 1, 259)
        if ln < 5: ln = 5
        toks.append(('M', rng.randint(1, min(pre, 1 << wb)), ln))
        total = pre + ln
        blocks, _e = encode(toks, wb, trailer_fn(rng), allow_cross=True)
        out.append(('cross', mk_case(rng, wb, blocks, total + 100)))
    return out


def small_stream(rng):
    wb = rng.randint(10, 21); total = rng.randint(20, 400)
    toks = gen_tokens(rng, total, wb, p_match=rng.choice([0.1, 0.4, 0.8]), early=rng.random() < 0.2)
    blocks, _e = encode(toks, wb, trailer_fn(rng))
    return wb, total, blocks


def suite_trunc(rng, scale, _):
    out = []
    for _ in range(max(1, int(12 * scale))):
        wb, total, blocks = small_stream(rng)
        p, u = blocks[0]
        files = members(rng, total)
        buf = rng.choice(DECOMPBUFS); fill = rng.choice(FILLS)
        for k in range(len(p) + 1):
            out.append(('trunc', mk_case(rng, wb, [(p[:k], u)], total, files=files, buf=buf, fill=fill)))
    # truncation inside a multi-frame stream, a few prefixes of the second block
    for _ in range(max(1, int(6 * scale))):
        wb = rng.randint(10, 15); total = FRAME + rng.randint(100, 3000)
        toks = gen_tokens(rng, total, wb, p_match=0.9, longm=True)
        blocks, _e = encode(toks, wb, trailer_fn(rng))
        p, u = blocks[1]
        for k in sorted(set([0, 1, 2, 3, len(p) - 1] + [rng.randint(0, len(p)) for _ in range(10)])):
            if k < 0: continue
            out.append(('trunc', mk_case(rng, wb, [blocks[0], (p[:k], u)], total, files=[(0, total)])))
            out.append(('trunc', mk_case(rng, wb, [(blocks[0][0][:max(0, len(blocks[0][0]) - k)], FRAME), blocks[1]], total)))
    return out


def suite_readerr(rng, scale, _):
    out = []
    for _ in range(int(200 * scale)):
        if rng.random() < 0.5:
            wb, total, blocks = small_stream(rng)
        else:
            wb = rng.randint(10, 16); total = rng.randint(FRAME + 1, 3 * FRAME)
            toks = gen_tokens(rng, total, wb, p_match=0.9, longm=True)
            blocks, _e = encode(toks, wb, trailer_fn(rng))
        blocks = [tuple(b) for b in blocks]
        cut = None
        if rng.random() < 0.5:
            bi = rng.randrange(len(blocks))
            blocks[bi] = (blocks[bi][0], blocks[bi][1], rng.randint(1, 0xFFFFFFFF))
        else:
            data_len = sum(8 + len(b[0]) for b in blocks)
            cut = rng.randint(1, data_len)
        out.append(('readerr', mk_case(rng, wb, blocks, total, cut=cut)))
    return out


def suite_flip(rng, scale, _):
    out = []
    for _ in range(int(1500 * scale)):
        r = rng.random()
        if r < 0.7:
            wb, total, blocks = small_stream(rng)
        else:
            wb = rng.randint(10, 16); total = rng.randint(FRAME - 500, 2 * FRAME + 3000)
            toks = gen_tokens(rng, total, wb, p_match=0.9, longm=True)
            blocks, _e = encode(toks, wb, trailer_fn(rng))
        blocks = [list(b) for b in blocks]
        nb = None
        for _k in range(rng.choice([1, 1, 1, 2, 3, 8])):
            bi = rng.randrange(len(blocks)); p = bytearray(blocks[bi][0])
            kind = rng.random()
            if kind < 0.55 and p:
                i = rng.randrange(len(p)); p[i] ^= 1 << rng.randrange(8)
            elif kind < 0.7 and p:
                i = rng.randrange(len(p)); p[i] = rng.choice([0, 0xFF, rng.randrange(256)])
            elif kind < 0.8:
                i = rng.randint(0, len(p)); p[i:i] = bytes(rng.randrange(256) for _ in range(rng.randint(1, 4)))
            elif kind < 0.88 and p:
                i = rng.randrange(len(p)); del p[i:i + rng.randint(1, 4)]
            elif kind < 0.94:
                blocks[bi][1] = rng.choice([0, 1, FRAME, blocks[bi][1] + 1, max(0, blocks[bi][1] - 1), rng.randint(0, 65535)])
            else:
                nb = rng.choice([0, 1, len(blocks) + 1, max(0, len(blocks) - 1)])
            blocks[bi][0] = bytes(p)
        if rng.random() < 0.1:   # random garbage as the whole payload
            blocks = [[bytes(rng.randrange(256) for _ in range(rng.randint(0, 600))), rng.randint(1, FRAME)]]
            total = blocks[0][1]
        out.append(('flip', mk_case(rng, wb, [tuple(b) for b in blocks], total, beyond=True, nblocks=nb)))
    return out


SUITES = {'fixtures': suite_fixtures, 'small': suite_small, 'frames': suite_frames, 'rescale': suite_rescale,
          'bigwin': suite_bigwin, 'early': suite_early, 'cross': suite_cross, 'trunc': suite_trunc, 'readerr': suite_readerr,
          'flip': suite_flip}


# ---------------------------------------------------------------- running / comparing

def run_many(prog, paths, timeout):
    res = {}
    for i in range(0, len(paths), 100):
        chunk = paths[i:i + 100]
        p = subprocess.run([prog] + chunk, capture_output=True, text=True, errors='replace', timeout=timeout)
        cur = None
        for ln in p.stdout.splitlines():
            if ln.startswith('== CASE '):
                cur = ln[8:]; res[cur] = []
            elif cur is not None:
                res[cur].append(ln)
        if p.returncode != 0:
            for c in chunk: res.setdefault(c, []).append(f'PROGRAM-EXIT {p.returncode} {p.stderr[-300:]!r}')
    return res


def project(lines):
    out = []
    for ln in lines:
        if ln.startswith(('extract ', 'CRASH', 'TIMEOUT', 'PROGRAM-EXIT')):
            out.append(re.sub(r' (edges|calls)=\d+', '', ln))
    return out


def compare(h, m):
    """-> ('same'|'both-fault'|'diff', detail)"""
    hp, mp = project(h), project(m)
    if hp == mp: return 'same', ''
    # harness died in op k: its lines stop with CRASH/TIMEOUT; the model must show FAULT at that op
    for k, (a, b) in enumerate(zip(hp, mp)):
        if a == b: continue
        if a.startswith(('CRASH', 'TIMEOUT')) and b.startswith('extract FAULT'):
            return 'both-fault', f'op {k}: {a} | {b}'
        return 'diff', f'op {k}:\n   C    : {a}\n   model: {b}'
    return 'diff', f'line counts differ: C {len(hp)} model {len(mp)}\n   C    : {hp[-1:]}\n   model: {mp[-1:]}'


def main():
    here = os.path.dirname(os.path.abspath(__file__))
    lean_dir = os.path.dirname(os.path.dirname(here))
    ap = argparse.ArgumentParser()
    ap.add_argument('--harness', default=None)
    ap.add_argument('--driver', default=os.path.join(lean_dir, '.lake/build/bin/mspack-driver'))
    ap.add_argument('--seed', type=int, default=1)
    ap.add_argument('--scale', type=float, default=1.0)
    ap.add_argument('--suites', default=','.join(SUITES))
    ap.add_argument('--keep', default=None, help='keep the cases in this directory')
    a = ap.parse_args()
    tmp = a.keep or tempfile.mkdtemp(prefix='qtmdiff')
    os.makedirs(tmp, exist_ok=True)
    harness = a.harness
    if harness is None:
        cands = sorted(glob.glob('/verif/build/harness-*/apiharness'), key=os.path.getmtime)
        if cands: harness = cands[-1]
    if harness is None:
        hd = os.path.join(tmp, 'h')
        subprocess.run(['bash', '/verif/harness/build.sh', hd], check=True, stdout=subprocess.DEVNULL)
        harness = os.path.join(hd, 'apiharness')
    os.environ.setdefault('VERIF_CASE_TIMEOUT', '60')
    total = {'same': 0, 'both-fault': 0, 'diff': 0}
    failures = []
    stats = {}
    for name in a.suites.split(','):
        rng = random.Random(f'{a.seed}-{name}')
        cases = SUITES[name](rng, a.scale, harness)
        paths = []
        for i, (tag, text) in enumerate(cases):
            p = os.path.join(tmp, f'{name}-{i:05d}.case')
            open(p, 'w').write(text); paths.append(p)
        H = run_many(harness, paths, 3600)
        M = run_many(a.driver, paths, 3600)
        cnt = {'same': 0, 'both-fault': 0, 'diff': 0}
        st = {}
        for p in paths:
            v, d = compare(H.get(p, ['MISSING']), M.get(p, ['MISSING']))
            cnt[v] += 1; total[v] += 1
            if v != 'same': failures.append((v, p, d))
            for ln in project(H.get(p, [])):
                m = re.match(r'extract st=(\d+)', ln)
                key = 'st=' + m.group(1) if m else ln.split()[0]
                st[key] = st.get(key, 0) + 1
        stats[name] = (len(paths), cnt, st)
        print(f'{name:9s} cases={len(paths):5d} same={cnt["same"]:5d} both-fault={cnt["both-fault"]} diff={cnt["diff"]}'
              f'   C statuses of extract ops: {dict(sorted(st.items()))}', flush=True)
        if not a.keep:
            for p in paths:
                if not any(p == f[1] for f in failures): os.unlink(p)
    print(f'TOTAL same={total["same"]} both-fault={total["both-fault"]} diff={total["diff"]}')
    for v, p, d in failures[:40]:
        print(f'--- {v} {p}\n   {d}')
    if failures: print(f'(failing cases kept in {tmp})')
    elif not a.keep: shutil.rmtree(tmp, ignore_errors=True)
    return 1 if total['diff'] else 0


if __name__ == '__main__':
    sys.exit(main())
