import MsPack.Qtm.Decoder
/-
Shape invariants of the Quantum decoder state and first consequences: `init` establishes them, and
the pure model functions (`qtmd_update_model`, the symbol search and interval update of
`GET_SYMBOL`) keep them and never index outside a model array.  (Groundwork for the memory-safety
property; the window/bit-reader part of `decompress` is not covered here.)
-/
namespace MsPack.Qtm
open MsPack MsPack.Generated

/-- shape invariant of a model stored in an array of declared dimension `dim` -/
structure Model.WF (m : Model) (dim : Nat) : Prop where
  size    : m.syms.size = dim
  entries : m.entries < dim

/-- shape invariant of the stream state: what `init` establishes and every `decompress` keeps -/
structure St.WF {σ : Type} (st : St σ) : Prop where
  window   : st.window.size = st.windowSize
  posn     : st.windowPosn ≤ st.windowSize
  optr     : st.oPtr ≤ st.oEnd
  oend     : st.oEnd ≤ st.windowSize
  inbufSz  : 2 ≤ st.inbufSize
  m0 : st.model0.WF qtmM0Dim
  m1 : st.model1.WF qtmM0Dim
  m2 : st.model2.WF qtmM0Dim
  m3 : st.model3.WF qtmM0Dim
  m4 : st.model4.WF qtmM4Dim
  m5 : st.model5.WF qtmM5Dim
  m6 : st.model6.WF qtmM6Dim
  m6len : st.model6len.WF qtmM6lenDim
  m7 : st.model7.WF qtmM7Dim

theorem initModel_wf (dim start len : Nat) (fill : UInt8) (h : len < dim) :
    (initModel dim start len fill).WF dim :=
  ⟨by simp [initModel], by simpa [initModel] using h⟩

theorem init_wf {σ : Type} (src : σ) (wb ibs : Nat) (fill : UInt8) (st : St σ)
    (h : init src wb ibs fill = some st) : st.WF := by
  unfold init at h
  by_cases hwb : wb < 10 ∨ wb > 21
  · simp [hwb] at h
  · by_cases hsz : (ibs + 1) / 2 * 2 < 2
    · simp [hwb, hsz] at h
    · simp only [hwb, hsz, if_false] at h
      cases h
      have hwb1 : 10 ≤ wb := by omega
      have hwb2 : wb ≤ 21 := by omega
      refine ⟨by simp, by simp, by simp, by simp, by simp; omega, ?_, ?_, ?_, ?_, ?_, ?_, ?_, ?_, ?_⟩
      all_goals (apply initModel_wf; simp [qtmM0Dim, qtmM4Dim, qtmM5Dim, qtmM6Dim, qtmM6lenDim, qtmM7Dim])
      all_goals (try split) <;> omega

/-! ### the model functions cannot fault on well-shaped models -/

theorem Model.sym_ok (m : Model) (i : Nat) (h : i < m.syms.size) : m.sym i = .ok m.syms[i] := by
  simp [Model.sym, h]

theorem Model.setCumfreq_ok (m : Model) (i v : Nat) (h : i < m.syms.size) :
    m.setCumfreq i v = .ok { m with syms := m.syms.set i { sym := m.syms[i].sym, cumfreq := v } } := by
  simp [Model.setCumfreq, h]

theorem Model.setSym_ok (m : Model) (i : Nat) (s : ModelSym) (h : i < m.syms.size) :
    m.setSym i s = .ok { m with syms := m.syms.set i s } := by
  simp [Model.setSym, h]

theorem Model.setSym_ok' (m : Model) (i : Nat) (s : ModelSym) (h : i < m.syms.size) :
    ∃ m', m.setSym i s = .ok m' ∧ m'.syms.size = m.syms.size ∧ m'.entries = m.entries ∧
      m'.shiftsleft = m.shiftsleft :=
  ⟨_, Model.setSym_ok m i s h, by simp, rfl, rfl⟩

theorem halveLoop_ok {dim : Nat} (k : Nat) (m : Model) (hw : m.WF dim) (hk : k ≤ m.entries) :
    ∃ m', halveLoop k m = .ok m' ∧ m'.WF dim ∧ m'.entries = m.entries := by
  induction k generalizing m with
  | zero => exact ⟨m, rfl, hw, rfl⟩
  | succ i ih =>
    have hs := hw.size; have he := hw.entries
    have h1 : i < m.syms.size := by omega
    have h2 : i + 1 < m.syms.size := by omega
    simp only [halveLoop, Model.sym_ok _ _ h1, Model.sym_ok _ _ h2, Model.setCumfreq_ok _ _ _ h1,
      bind, Except.bind]
    apply ih
    · exact ⟨by simp [hs], by simpa using he⟩
    · simp; omega

theorem toFreqLoop_ok {dim : Nat} (k i : Nat) (m : Model) (hw : m.WF dim) (hk : i + k ≤ m.entries) :
    ∃ m', toFreqLoop k i m = .ok m' ∧ m'.WF dim ∧ m'.entries = m.entries ∧ m'.shiftsleft = m.shiftsleft := by
  induction k generalizing m i with
  | zero => exact ⟨m, rfl, hw, rfl, rfl⟩
  | succ k ih =>
    have hs := hw.size; have he := hw.entries
    have h1 : i < m.syms.size := by omega
    have h2 : i + 1 < m.syms.size := by omega
    simp only [toFreqLoop, Model.sym_ok _ _ h1, Model.sym_ok _ _ h2, Model.setCumfreq_ok _ _ _ h1,
      bind, Except.bind]
    apply ih
    · exact ⟨by simp [hs], by simpa using he⟩
    · simp; omega

theorem resumLoop_ok {dim : Nat} (k : Nat) (m : Model) (hw : m.WF dim) (hk : k ≤ m.entries) :
    ∃ m', resumLoop k m = .ok m' ∧ m'.WF dim ∧ m'.entries = m.entries ∧ m'.shiftsleft = m.shiftsleft := by
  induction k generalizing m with
  | zero => exact ⟨m, rfl, hw, rfl, rfl⟩
  | succ i ih =>
    have hs := hw.size; have he := hw.entries
    have h1 : i < m.syms.size := by omega
    have h2 : i + 1 < m.syms.size := by omega
    simp only [resumLoop, Model.sym_ok _ _ h1, Model.sym_ok _ _ h2, Model.setCumfreq_ok _ _ _ h1,
      bind, Except.bind]
    apply ih
    · exact ⟨by simp [hs], by simpa using he⟩
    · simp; omega

theorem sortInner_ok {dim : Nat} (k i j : Nat) (m : Model) (hw : m.WF dim) (hi : i < m.entries)
    (hk : j + k ≤ m.entries) :
    ∃ m', sortInner k i j m = .ok m' ∧ m'.WF dim ∧ m'.entries = m.entries ∧ m'.shiftsleft = m.shiftsleft := by
  induction k generalizing m j with
  | zero => exact ⟨m, rfl, hw, rfl, rfl⟩
  | succ k ih =>
    have hs := hw.size; have he := hw.entries
    have h1 : i < m.syms.size := by omega
    have h2 : j < m.syms.size := by omega
    simp only [sortInner, Model.sym_ok _ _ h1, Model.sym_ok _ _ h2, bind, Except.bind]
    split
    · obtain ⟨ma, ea, sa, ena, sla⟩ := Model.setSym_ok' m i m.syms[j] h1
      obtain ⟨mb, eb, sb, enb, slb⟩ := Model.setSym_ok' ma j m.syms[i] (by omega)
      simp only [ea, eb]
      obtain ⟨m', e', w', en', sl'⟩ := ih (j + 1) mb ⟨by omega, by omega⟩ (by omega) (by omega)
      exact ⟨m', e', w', by omega, by rw [sl', slb, sla]⟩
    · simp only [pure, Except.pure]
      exact ih (j + 1) m hw hi (by omega)

theorem sortOuter_ok {dim : Nat} (k i : Nat) (m : Model) (hw : m.WF dim) (hk : i + k + 1 ≤ m.entries ∨ k = 0) :
    ∃ m', sortOuter k i m = .ok m' ∧ m'.WF dim ∧ m'.entries = m.entries ∧ m'.shiftsleft = m.shiftsleft := by
  induction k generalizing m i with
  | zero => exact ⟨m, rfl, hw, rfl, rfl⟩
  | succ k ih =>
    have hk' : i + (k + 1) + 1 ≤ m.entries := by omega
    obtain ⟨m1, e1, w1, en1, sl1⟩ := sortInner_ok (m.entries - (i + 1)) i (i + 1) m hw (by omega) (by omega)
    simp only [sortOuter, e1, bind, Except.bind]
    obtain ⟨m2, e2, w2, en2, sl2⟩ := ih (i + 1) m1 w1 (by omega)
    exact ⟨m2, e2, w2, by omega, by rw [sl2, sl1]⟩

theorem updateModel_ok {dim : Nat} (m : Model) (hw : m.WF dim) :
    ∃ m', updateModel m = .ok m' ∧ m'.WF dim ∧ m'.entries = m.entries := by
  by_cases hsl : m.shiftsleft - 1 ≠ 0
  · simp only [updateModel]
    rw [if_pos hsl]
    exact halveLoop_ok _ _ ⟨hw.size, hw.entries⟩ (Nat.le_refl _)
  · have hw0 : ({ m with shiftsleft := 50 } : Model).WF dim := ⟨hw.size, hw.entries⟩
    obtain ⟨m1, e1, w1, en1, _⟩ := toFreqLoop_ok m.entries 0 _ hw0 (by simp)
    obtain ⟨m2, e2, w2, en2, _⟩ := sortOuter_ok (m1.entries - 1) 0 m1 w1 (by omega)
    obtain ⟨m3, e3, w3, en3, _⟩ := resumLoop_ok m2.entries m2 w2 (Nat.le_refl _)
    simp only [updateModel]
    rw [if_neg hsl]
    simp only [bind, Except.bind, e1, e2, e3]
    exact ⟨m3, rfl, w3, by simp_all⟩

theorem scanSym_ok {dim : Nat} (m : Model) (hw : m.WF dim) (symf k i : Nat) (hk : i + k ≤ m.entries) :
    ∃ j, scanSym m symf k i = .ok j ∧ i ≤ j ∧ j ≤ i + k := by
  induction k generalizing i with
  | zero => exact ⟨i, rfl, Nat.le_refl _, Nat.le_refl _⟩
  | succ k ih =>
    have hs := hw.size; have he := hw.entries
    have h1 : i < m.syms.size := by omega
    simp only [scanSym, Model.sym_ok _ _ h1, bind, Except.bind]
    split
    · exact ⟨i, rfl, Nat.le_refl _, by omega⟩
    · obtain ⟨j, e, a, b⟩ := ih (i + 1) (by omega)
      exact ⟨j, e, by omega, by omega⟩

theorem bumpLoop_ok {dim : Nat} (k : Nat) (m : Model) (hw : m.WF dim) (hk : k ≤ m.entries) :
    ∃ m', bumpLoop k m = .ok m' ∧ m'.WF dim ∧ m'.entries = m.entries ∧ m'.shiftsleft = m.shiftsleft := by
  induction k generalizing m with
  | zero => exact ⟨m, rfl, hw, rfl, rfl⟩
  | succ i ih =>
    have hs := hw.size; have he := hw.entries
    have h1 : i < m.syms.size := by omega
    simp only [bumpLoop, Model.sym_ok _ _ h1, Model.setCumfreq_ok _ _ _ h1, bind, Except.bind]
    apply ih
    · exact ⟨by simp [hs], by simpa using he⟩
    · simp; omega

/-- `GET_SYMBOL` on a well-shaped model with at least one entry stays inside the model's array:
    the only fault it can raise is the division by a zero `syms[0].cumfreq` -/
theorem decodeSym_ok {dim : Nat} (m : Model) (hw : m.WF dim) (h1 : 1 ≤ m.entries) (H L C : Nat) :
    (∃ o, decodeSym m H L C = .ok o ∧ o.model.WF dim ∧ o.model.entries = m.entries) ∨
    decodeSym m H L C = .error .divZero := by
  have hs := hw.size; have he := hw.entries
  have h0 : 0 < m.syms.size := by omega
  obtain ⟨i, ei, ia, ib⟩ := scanSym_ok m hw
    ((((C + 1 + u32 - L) % u32 * m.syms[0].cumfreq + u32 - 1) % u32 / ((H + 65536 - L) % 65536 + 1)) % 65536)
    (m.entries - 1) 1 (by omega)
  have hi1 : i - 1 < m.syms.size := by omega
  have hi : i < m.syms.size := by omega
  obtain ⟨m1, e1, w1, en1, _⟩ := bumpLoop_ok i m hw (by omega)
  have h0' : 0 < m1.syms.size := by have := w1.size; omega
  unfold decodeSym
  simp only [Model.sym_ok _ _ h0, bind, Except.bind, ei]
  have hr : ¬ ((H + 65536 - L) % 65536 + 1 = 0) := by omega
  simp only [hr, if_false, pure, Except.pure]
  have hi0 : ¬ (i = 0) := by omega
  simp only [hi0, if_false, Model.sym_ok _ _ hi1, Model.sym_ok _ _ hi]
  by_cases ht : m.syms[0].cumfreq = 0
  · right; simp [ht, throw, throwThe, MonadExceptOf.throw]
  · left
    simp only [ht, if_false, e1, Model.sym_ok _ _ h0']
    split
    · obtain ⟨m2, e2, w2, en2⟩ := updateModel_ok m1 w1
      simp only [e2]
      exact ⟨_, rfl, w2, by simp; omega⟩
    · exact ⟨_, rfl, w1, by simpa using en1⟩
end MsPack.Qtm
