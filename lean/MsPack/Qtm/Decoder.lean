import MsPack.Basic
import MsPack.Generated.Tables
import MsPack.Generated.Consts
/-
qtmd.c (+ qtm.h, the MSB-first instance of readbits.h): `qtmd_init`, `qtmd_update_model`,
`GET_SYMBOL`, `qtmd_decompress`.

Layout of the model
* `St σ`  = `struct qtmd_stream` (what is kept between calls), `src` = the `input` handle.
* `Run σ` = `St σ` + the *local variables* of `qtmd_decompress` (`i_ptr/i_end`, `bit_buffer`,
  `bits_left`, `window_posn`, `frame_todo`, `H`, `L`, `C`, `out_bytes`) + the bytes handed to
  `write` so far.  The C copies the struct fields into locals (`RESTORE_BITS` …) and writes them
  back only on the successful exit (`STORE_BITS` …): every `return qtm->error = …` and the
  `return` hidden in `READ_IF_NEEDED` leave the struct copies as they were when the call began.
  The split reproduces that: on a status ≠ OK the result state is `Run.st` untouched by the
  locals.  What *is* changed in place and survives an error: the window contents, the nine
  models, `header_read`, `o_ptr`, `o_end`, `input_end`, `error`, the input handle, and the
  struct's `i_ptr/i_end` (set by `read_input`).
* monad `QM σ = ExceptT Halt (StateM (Run σ))`: state survives a `throw`.

Integers are `Nat` with the C's wrap-around written out (`% 2^16` for `unsigned short`,
`% u32` = `% 2^32` for `unsigned int`); the only `Int` is `shiftsleft` (a C `int` that is
decremented before it is tested).  `x << n` is written `shl x n` (= `x <<< n`, see `shl_eq`).
Pointers into the window (`o_ptr`, `o_end`, `rundest`, `runsrc`) are offsets from `window`.

Bit buffer: `bit_buffer` is the 32-bit word itself (MSB-first: the next bit is bit 31),
`bits_left` its fill.  `INJECT_BITS` shifts by `32 - 16 - bits_left`, `PEEK_BITS(n)` by
`32 - n`: a negative or ≥ 32 shift count is `Fault.shiftWidth` (neither occurs: `READ_BYTES` is
only executed with `bits_left ≤ 16`, `PEEK_BITS` only with 1 ≤ n ≤ 19).

Loops: the symbol loop runs on `frame_end - window_posn` (every iteration advances
`window_posn`), the block loop on `2 * out_bytes + 4` (every second iteration at least delivers a
byte), the model loops on `entries`; the loops whose only progress is input consumption (the
renormalisation loop of `GET_SYMBOL`, the 0xFF trailer scan) run on the caller's `fuel`.
-/
namespace MsPack.Qtm
open MsPack MsPack.Generated

def implemented : Bool := true

/-- `2^n` by repeated doubling.  (The runtime implements `Nat.shiftLeft` and `Nat.pow` through
    GMP even for small operands; the decoder shifts once per input bit.) -/
def pow2 : Nat → Nat
  | 0 => 1
  | n + 1 => 2 * pow2 n

theorem pow2_eq (n : Nat) : pow2 n = 2 ^ n := by
  induction n with
  | zero => rfl
  | succ n ih => simp [pow2, ih, Nat.pow_succ, Nat.mul_comm]

/-- 2^32, the modulus of `unsigned int`.  (A named constant: the code generator turns a literal
    this large into a run-time string-to-bignum conversion at every use.) -/
@[noinline] def u32 : Nat := 2 ^ 32

theorem u32_eq : u32 = 4294967296 := by decide

/-- the C's `x << n` before truncation to the type's width -/
@[inline] def shl (x n : Nat) : Nat := x * pow2 n

theorem shl_eq (x n : Nat) : shl x n = x <<< n := by
  simp [shl, pow2_eq, Nat.shiftLeft_eq]

/-! ## models (`struct qtmd_modelsym`, `struct qtmd_model`) -/

structure ModelSym where
  sym     : Nat      -- unsigned short
  cumfreq : Nat      -- unsigned short
  deriving Repr, DecidableEq, Inhabited

structure Model where
  shiftsleft : Int            -- int
  entries    : Nat            -- int, fixed by `qtmd_init_model`
  syms       : Array ModelSym -- the `mNsym[]` array of the stream struct, full declared dimension
  deriving Repr, DecidableEq, Inhabited

/-- `model->syms[i]` -/
@[inline] def Model.sym (m : Model) (i : Nat) : Except Fault ModelSym :=
  match m.syms[i]? with
  | some s => .ok s
  | none => .error (.oob "qtmd model syms[]")

/-- `model->syms[i].cumfreq = v` -/
@[inline] def Model.setCumfreq (m : Model) (i v : Nat) : Except Fault Model :=
  if h : i < m.syms.size then
    .ok { m with syms := m.syms.set i { sym := m.syms[i].sym, cumfreq := v } }
  else .error (.oob "qtmd model syms[]")

/-- `model->syms[i] = s` -/
@[inline] def Model.setSym (m : Model) (i : Nat) (s : ModelSym) : Except Fault Model :=
  if h : i < m.syms.size then .ok { m with syms := m.syms.set i s }
  else .error (.oob "qtmd model syms[]")

/-- `qtmd_init_model(model, syms, start, len)` on an array of declared dimension `dim` that the
    allocator filled with `fill`: entries `0..len` are written, the rest keeps the fill pattern -/
def initModel (dim start len : Nat) (fill : UInt8) : Model :=
  let f16 := fill.toNat * 257
  { shiftsleft := 4, entries := len,
    syms := ((List.range dim).map fun i =>
      if i ≤ len then { sym := (start + i) % 65536, cumfreq := (len - i) % 65536 }
      else { sym := f16, cumfreq := f16 : ModelSym }).toArray }

/-- first branch of `qtmd_update_model`: `for (i = entries - 1; i >= 0; i--)` halve, keep the
    sequence strictly decreasing; call with `k = entries` (handles index `k - 1`) -/
def halveLoop : Nat → Model → Except Fault Model
  | 0, m => .ok m
  | i + 1, m => do
    let s ← m.sym i
    let nx ← m.sym (i + 1)
    let c := s.cumfreq / 2
    let c := if c ≤ nx.cumfreq then (nx.cumfreq + 1) % 65536 else c
    halveLoop i (← m.setCumfreq i c)

/-- second branch, first loop: cumulative → plain frequencies, `+1`, `>> 1` (all in
    `unsigned short`); `k` iterations from index `i` upwards -/
def toFreqLoop : Nat → Nat → Model → Except Fault Model
  | 0, _, m => .ok m
  | k + 1, i, m => do
    let s ← m.sym i
    let nx ← m.sym (i + 1)
    let c := (s.cumfreq + 65536 - nx.cumfreq) % 65536
    let c := (c + 1) % 65536
    let c := c / 2
    toFreqLoop k (i + 1) (← m.setCumfreq i c)

/-- inner loop of the selection sort: `for (j = …; j < entries; j++) if (syms[i].cumfreq <
    syms[j].cumfreq) swap`; `k` iterations from `j` upwards -/
def sortInner : Nat → Nat → Nat → Model → Except Fault Model
  | 0, _, _, m => .ok m
  | k + 1, i, j, m => do
    let a ← m.sym i
    let b ← m.sym j
    let m ← if a.cumfreq < b.cumfreq then do
        let m ← m.setSym i b
        m.setSym j a
      else pure m
    sortInner k i (j + 1) m

/-- outer loop: `for (i = 0; i < entries - 1; i++)`; `k` iterations from `i` upwards -/
def sortOuter : Nat → Nat → Model → Except Fault Model
  | 0, _, m => .ok m
  | k + 1, i, m => do
    let m ← sortInner (m.entries - (i + 1)) i (i + 1) m
    sortOuter k (i + 1) m

/-- second branch, last loop: frequencies → cumulative; call with `k = entries` -/
def resumLoop : Nat → Model → Except Fault Model
  | 0, m => .ok m
  | i + 1, m => do
    let s ← m.sym i
    let nx ← m.sym (i + 1)
    resumLoop i (← m.setCumfreq i ((s.cumfreq + nx.cumfreq) % 65536))

/-- `qtmd_update_model` -/
def updateModel (m : Model) : Except Fault Model :=
  let sl := m.shiftsleft - 1
  if sl ≠ 0 then
    halveLoop m.entries { m with shiftsleft := sl }
  else do
    let m := { m with shiftsleft := 50 }
    let m ← toFreqLoop m.entries 0 m
    let m ← sortOuter (m.entries - 1) 0 m
    resumLoop m.entries m

/-- `for (i = 1; i < entries; i++) if (syms[i].cumfreq <= symf) break;` — the final `i`;
    `k` = iterations left -/
def scanSym (m : Model) (symf : Nat) : Nat → Nat → Except Fault Nat
  | 0, i => .ok i
  | k + 1, i => do
    if (← m.sym i).cumfreq ≤ symf then .ok i else scanSym m symf k (i + 1)

/-- `do { syms[--i].cumfreq += 8; } while (i > 0);` (entered with `i ≥ 1`) -/
def bumpLoop : Nat → Model → Except Fault Model
  | 0, m => .ok m
  | i + 1, m => do
    let s ← m.sym i
    bumpLoop i (← m.setCumfreq i ((s.cumfreq + 8) % 65536))

structure SymOut where
  sym   : Nat
  model : Model
  H     : Nat
  L     : Nat

/-- `GET_SYMBOL` up to (not including) the renormalisation loop.
    * `range = ((H - L) & 0xFFFF) + 1` (`unsigned int`, 1..65536, never 0)
    * `symf = ((((C - L + 1) * syms[0].cumfreq) - 1) / range) & 0xFFFF`: the numerator is an `int`
      expression (`H`, `L`, `C`, `cumfreq` are `unsigned short`, promoted to `int`), negative when
      `C < L - 1`; dividing by the `unsigned int` `range` converts it to `unsigned int` first.  The
      model computes it in arithmetic mod 2^32 throughout (`numU`), which is that conversion's
      result whenever the `int` expression does not overflow; |numerator| < 2^31 needs
      `cumfreq[0] ≤ 32767`, and `qtmd_update_model` keeps `cumfreq[0] ≤ 3808`.
    * `range = (H - L) + 1` again, this time unmasked: `int` → `unsigned int` (`range2`)
    * `H = L + ((syms[i-1].cumfreq * range) / symf) - 1`, `L = L + (syms[i].cumfreq * range) /
      symf` in `unsigned int`, truncated to `unsigned short`; `symf = syms[0].cumfreq` may be 0
      only if the model is corrupt → `divZero` -/
def decodeSym (m : Model) (H L C : Nat) : Except Fault SymOut := do
  let range := ((H + 65536 - L) % 65536) + 1
  let s0 ← m.sym 0
  let numU := (((C + 1 + u32 - L) % u32) * s0.cumfreq + u32 - 1) % u32
  if range = 0 then throw .divZero
  let symf := (numU / range) % 65536
  let i ← scanSym m symf (m.entries - 1) 1
  if i = 0 then throw (.oob "qtmd model syms[i-1]")
  let sPrev ← m.sym (i - 1)
  let sCur ← m.sym i
  let range2 := (H + 1 + u32 - L) % u32
  let tot := s0.cumfreq
  if tot = 0 then throw .divZero
  let qH := ((sPrev.cumfreq * range2) % u32) / tot
  let qL := ((sCur.cumfreq * range2) % u32) / tot
  let H' := ((L + qH + u32 - 1) % u32) % 65536
  let L' := ((L + qL) % u32) % 65536
  let m ← bumpLoop i m
  let m ← if (← m.sym 0).cumfreq > 3800 then updateModel m else pure m
  pure { sym := sPrev.sym, model := m, H := H', L := L' }

/-! ## the stream state -/

inductive MId | m0 | m1 | m2 | m3 | m4 | m5 | m6 | m6len | m7
  deriving Repr, DecidableEq

structure St (σ : Type) where
  src        : σ
  window     : Array UInt8
  windowSize : Nat
  windowPosn : Nat
  frameTodo  : Nat
  H          : Nat
  L          : Nat
  C          : Nat
  headerRead : Bool
  error      : Err
  inbufSize  : Nat
  inbuf      : Bytes       -- the bytes between `i_ptr` and `i_end`
  oPtr       : Nat         -- `o_ptr - window`
  oEnd       : Nat         -- `o_end - window`   (invariant: `oPtr ≤ oEnd ≤ windowSize`)
  bitBuffer  : Nat
  bitsLeft   : Nat
  inputEnd   : Bool
  model0 : Model
  model1 : Model
  model2 : Model
  model3 : Model
  model4 : Model
  model5 : Model
  model6 : Model
  model6len : Model
  model7 : Model

def St.model {σ : Type} (st : St σ) : MId → Model
  | .m0 => st.model0 | .m1 => st.model1 | .m2 => st.model2 | .m3 => st.model3
  | .m4 => st.model4 | .m5 => st.model5 | .m6 => st.model6 | .m6len => st.model6len
  | .m7 => st.model7

def St.setModel {σ : Type} (st : St σ) (id : MId) (m : Model) : St σ :=
  match id with
  | .m0 => { st with model0 := m } | .m1 => { st with model1 := m }
  | .m2 => { st with model2 := m } | .m3 => { st with model3 := m }
  | .m4 => { st with model4 := m } | .m5 => { st with model5 := m }
  | .m6 => { st with model6 := m } | .m6len => { st with model6len := m }
  | .m7 => { st with model7 := m }

/-- `qtmd_init(system, input, output, window_bits, input_buffer_size)`; `none` = NULL.
    Allocation succeeds; every allocated object (`struct qtmd_stream`, window, input buffer) is
    pre-filled with `fill` and only what the C assigns is overwritten: the window stays `fill`,
    `H`, `L`, `C` and the unused tails of the model arrays keep the fill pattern. -/
def init {σ : Type} (src : σ) (windowBits inputBufferSize : Nat) (fill : UInt8) : Option (St σ) :=
  if windowBits < 10 ∨ windowBits > 21 then none else
  let sz := (inputBufferSize + 1) / 2 * 2
  if sz < 2 then none else
  let windowSize := 2 ^ windowBits
  let i := windowBits * 2
  let f16 := fill.toNat * 257
  some {
    src := src
    window := Array.replicate windowSize 0      -- `memset(qtm->window, 0, window_size)` (since 97e13b8)
    windowSize := windowSize
    windowPosn := 0
    frameTodo := qtmFRAME_SIZE
    H := f16, L := f16, C := f16
    headerRead := false
    error := .ok
    inbufSize := sz
    inbuf := []
    oPtr := 0, oEnd := 0
    bitBuffer := 0, bitsLeft := 0
    inputEnd := false
    model0 := initModel qtmM0Dim 0 64 fill
    model1 := initModel qtmM0Dim 64 64 fill
    model2 := initModel qtmM0Dim 128 64 fill
    model3 := initModel qtmM0Dim 192 64 fill
    model4 := initModel qtmM4Dim 0 (if i > 24 then 24 else i) fill
    model5 := initModel qtmM5Dim 0 (if i > 36 then 36 else i) fill
    model6 := initModel qtmM6Dim 0 i fill
    model6len := initModel qtmM6lenDim 0 27 fill
    model7 := initModel qtmM7Dim 0 7 fill }

/-! ## `qtmd_decompress` -/

inductive Halt
  | sys (e : Err)       -- `return` of a non-zero MSPACK_ERR_* code
  | fault (f : Fault)
  deriving Repr, DecidableEq

/-- the stream struct + the locals of `qtmd_decompress` + the host's output so far -/
structure Run (σ : Type) where
  st         : St σ
  inbuf      : Bytes      -- local `i_ptr .. i_end`
  bitBuffer  : Nat        -- local `bit_buffer` (unsigned int)
  bitsLeft   : Nat        -- local `bits_left` (int; never negative)
  windowPosn : Nat
  frameTodo  : Nat
  H          : Nat
  L          : Nat
  C          : Nat
  outBytes   : Nat
  written    : Array UInt8

abbrev QM (σ : Type) := ExceptT Halt (StateM (Run σ))

variable {σ : Type} (S : Src σ)

@[inline] def modSt (f : St σ → St σ) : QM σ Unit :=
  modify fun r => { r with st := f r.st }

/-- `return qtm->error = e` -/
def fail {α : Type} (e : Err) : QM σ α := do
  modSt fun st => { st with error := e }
  throw (.sys e)

@[inline] def liftF {α : Type} : Except Fault α → QM σ α
  | .ok a => pure a
  | .error f => throw (.fault f)

/-- `read_input` followed by the reload of the local `i_ptr`, `i_end` in `READ_IF_NEEDED` -/
def readInput : QM σ Unit := do
  let r ← get
  match S.read r.st.src r.st.inbufSize with
  | .error f => throw (.fault f)
  | .ok (none, src) =>
    set { r with st := { r.st with src := src, error := .read } }; throw (.sys .read)
  | .ok (some [], src) =>
    if r.st.inputEnd then
      set { r with st := { r.st with src := src, error := .read } }; throw (.sys .read)
    else
      set { r with st := { r.st with src := src, inbuf := [0, 0], inputEnd := true }, inbuf := [0, 0] }
  | .ok (some got, src) =>
    set { r with st := { r.st with src := src, inbuf := got }, inbuf := got }

/-- `READ_IF_NEEDED; b = *i_ptr++` -/
def nextByte : QM σ Nat := do
  if (← get).inbuf.isEmpty then readInput S
  let r ← get
  match r.inbuf with
  | b :: rest => set { r with inbuf := rest }; pure b.toNat
  | [] => throw (.fault (.oob "qtmd inbuf"))   -- unreachable: readInput leaves a non-empty buffer

/-- `READ_BYTES`: two bytes, big-endian, `INJECT_BITS(…, 16)` -/
def readBytes : QM σ Unit := do
  let b0 ← nextByte S
  let b1 ← nextByte S
  let r ← get
  if r.bitsLeft > 16 then throw (.fault .shiftWidth)      -- shift count 32 - 16 - bits_left < 0
  set { r with bitBuffer := (r.bitBuffer ||| shl (b0 * 256 + b1) (16 - r.bitsLeft)) % u32,
               bitsLeft := r.bitsLeft + 16 }

/-- `ENSURE_BITS(n)` (`n ≤ 16`: one refill suffices) -/
def ensureBits (n : Nat) : Nat → QM σ Unit
  | 0 => throw (.fault .hang)
  | k + 1 => do
    if (← get).bitsLeft < n then
      readBytes S
      ensureBits n k
    else pure ()

/-- `PEEK_BITS(n)` = `bit_buffer >> (32 - n)` -/
@[inline] def peekBits (n : Nat) : QM σ Nat := do
  if n = 0 ∨ n > 32 then throw (.fault .shiftWidth)
  pure ((← get).bitBuffer >>> (32 - n))

/-- `REMOVE_BITS(n)` (every use has `n ≤ bits_left`, `n < 32`) -/
@[inline] def removeBits (n : Nat) : QM σ Unit := do
  if n ≥ 32 then throw (.fault .shiftWidth)
  modify fun r => { r with bitBuffer := shl r.bitBuffer n % u32, bitsLeft := r.bitsLeft - n }

/-- `READ_BITS(val, n)` -/
def readBits (n : Nat) : QM σ Nat := do
  ensureBits S n 3
  let v ← peekBits n
  removeBits n
  pure v

/-- the loop of `READ_MANY_BITS`: `needed` is an `unsigned char`, `bitrun ≥ 1` in every
    iteration (after the refill `bits_left ≥ 17`), so `needed` iterations are enough -/
def readManyLoop : Nat → Nat → Nat → QM σ Nat
  | 0, needed, val => if needed > 0 then throw (.fault .hang) else pure val
  | k + 1, needed, val => do
    if needed > 0 then
      if (← get).bitsLeft ≤ 16 then readBytes S
      let bl := (← get).bitsLeft
      let bitrun := if bl < needed then bl else needed
      let v ← peekBits bitrun
      removeBits bitrun
      readManyLoop k (needed - bitrun) (shl val bitrun ||| v)
    else pure val

/-- `READ_MANY_BITS(val, bits)` -/
def readManyBits (bits : Nat) : QM σ Nat :=
  let needed := bits % 256
  readManyLoop S needed needed 0

/-- what one test of the renormalisation loop decides: `none` = `break`, else the `(H, L, C)`
    after the optional underflow fix and the shifts of `L` and `H` -/
@[inline] def renormStep (H L C : Nat) : Option (Nat × Nat × Nat) :=
  let shift (H L C : Nat) := some ((shl H 1 ||| 1) % 65536, shl L 1 % 65536, C)
  if (L &&& 0x8000) ≠ (H &&& 0x8000) then
    if (L &&& 0x4000) ≠ 0 ∧ (H &&& 0x4000) = 0 then
      shift (H ||| 0x4000) (L &&& 0x3FFF) (C ^^^ 0x4000)
    else none
  else shift H L C

/-- the `while (1)` loop of `GET_SYMBOL`; one input bit per iteration -/
def renorm : Nat → QM σ Unit
  | 0 => throw (.fault .hang)
  | fuel + 1 => do
    let r ← get
    match renormStep r.H r.L r.C with
    | none => pure ()
    | some (h, l, c) =>
      set { r with H := h, L := l, C := c }
      ensureBits S 1 3
      let b ← peekBits 1
      removeBits 1
      modify fun r => { r with C := (shl r.C 1 ||| b) % 65536 }
      renorm fuel

/-- `GET_SYMBOL(model, var)` -/
def getSymbol (fuel : Nat) (id : MId) : QM σ Nat := do
  let r ← get
  let o ← liftF (decodeSym (r.st.model id) r.H r.L r.C)
  set { r with st := r.st.setModel id o.model, H := o.H, L := o.L }
  renorm S fuel
  pure o.sym

@[inline] def tableAt (what : String) (t : List Nat) (i : Nat) : QM σ Nat :=
  match t[i]? with
  | some v => pure v
  | none => throw (.fault (.oob what))

/-- `while (n--) *dst++ = *src++;` inside the window, byte by byte, front to back -/
def copyFwdLoop : Nat → Nat → Nat → Array UInt8 → Array UInt8
  | 0, _, _, w => w
  | n + 1, s, d, w => copyFwdLoop n (s + 1) (d + 1) (w.setIfInBounds d (w.getD s 0))

/-- `while (n--) *dst++ = window[j++ & (window_size - 1)];` (`j` taken as `unsigned int`) -/
def copyMaskedLoop (mask : Nat) : Nat → Nat → Nat → Array UInt8 → Array UInt8
  | 0, _, _, w => w
  | n + 1, j, d, w =>
    copyMaskedLoop mask n ((j + 1) % u32) (d + 1) (w.setIfInBounds d (w.getD (j &&& mask) 0))

/-- a forward copy of `n` bytes inside the window; any byte outside it is a fault -/
def copyFwd (n s d : Nat) : QM σ Unit := do
  let sz := (← get).st.window.size
  if n > 0 ∧ (s + n > sz ∨ d + n > sz) then throw (.fault (.oob "qtmd window (match copy)"))
  modify fun r => { r with st := { r.st with window := copyFwdLoop n s d r.st.window } }

def copyMasked (n j d : Nat) : QM σ Unit := do
  let st := (← get).st
  let sz := st.window.size
  if n > 0 ∧ (d + n > sz ∨ st.windowSize > sz ∨ st.windowSize = 0) then
    throw (.fault (.oob "qtmd window (wrapping match copy)"))
  let mask := st.windowSize - 1
  modify fun r => { r with st := { r.st with window := copyMaskedLoop mask n j d r.st.window } }

/-- `sys->write(output, window + from, n)` on a host that accepts everything -/
def writeOut (src n : Nat) : QM σ Unit := do
  let sz := (← get).st.window.size
  if n > 0 ∧ src + n > sz then throw (.fault (.oob "qtmd window (write)"))
  modify fun r => { r with written := r.written ++ r.st.window.extract src (src + n) }

/-- the match offset of selectors 4, 5, 6: `READ_MANY_BITS(extra, extra_bits[sym]);
    match_offset = position_base[sym] + extra + 1` -/
def readOffset (sym : Nat) : QM σ Nat := do
  let nb ← tableAt "qtmd extra_bits[]" qtmExtraBits sym
  let extra ← readManyBits S nb
  let pb ← tableAt "qtmd position_base[]" qtmPositionBase sym
  pure ((pb + extra + 1) % u32)

/-- `while (window_posn < frame_end) { … }`; `n` bounds the iterations (each one advances
    `window_posn` or leaves the loop) -/
def symbolLoop (fuel : Nat) (frameEnd : Nat) : Nat → QM σ Unit
  | 0 => do if (← get).windowPosn < frameEnd then throw (.fault .hang)
  | n + 1 => do
    if (← get).windowPosn < frameEnd then
      let selector ← getSymbol S fuel .m7
      if selector < 4 then
        let id : MId := if selector = 0 then .m0 else if selector = 1 then .m1
                        else if selector = 2 then .m2 else .m3
        let sym ← getSymbol S fuel id
        let wp := (← get).windowPosn
        if wp ≥ (← get).st.window.size then throw (.fault (.oob "qtmd window (literal)"))
        modify fun r => { r with st := { r.st with window := r.st.window.setIfInBounds wp (UInt8.ofNat (sym % 256)) },
                                 windowPosn := wp + 1,
                                 frameTodo := (r.frameTodo + u32 - 1) % u32 }
        symbolLoop fuel frameEnd n
      else
        let (matchOffset, matchLength) ←
          if selector = 4 then do
            let sym ← getSymbol S fuel .m4
            pure ((← readOffset S sym), 3)
          else if selector = 5 then do
            let sym ← getSymbol S fuel .m5
            pure ((← readOffset S sym), 4)
          else if selector = 6 then do
            let sym ← getSymbol S fuel .m6len
            let nb ← tableAt "qtmd length_extra[]" qtmLengthExtra sym
            let extra ← readManyBits S nb
            let lb ← tableAt "qtmd length_base[]" qtmLengthBase sym
            let ml := lb + extra + 5
            let sym ← getSymbol S fuel .m6
            pure ((← readOffset S sym), ml)
          else fail .decrunch
        modify fun r => { r with frameTodo := (r.frameTodo + u32 - matchLength % u32) % u32 }
        let r ← get
        let wp := r.windowPosn
        let ws := r.st.windowSize
        if (wp + matchLength) % u32 > ws then
          -- the match destination wraps the window
          let i := ws - wp
          let j := (wp + u32 - matchOffset % u32) % u32
          copyMasked i j wp
          -- flush everything up to the end of the window
          let r ← get
          let fl := ws - r.st.oPtr
          if fl > r.outBytes then fail .decrunch
          writeOut r.st.oPtr fl
          modify fun r => { r with outBytes := r.outBytes - fl, st := { r.st with oPtr := 0, oEnd := 0 } }
          copyMasked (matchLength - i) ((j + i) % u32) 0
          modify fun r => { r with windowPosn := wp + matchLength - ws }
          -- `break`
        else
          if matchOffset > wp then
            let j := matchOffset - wp
            if j > ws then fail .decrunch
            if j < matchLength then
              copyFwd j (ws - j) wp
              copyFwd (matchLength - j) 0 (wp + j)
            else
              copyFwd matchLength (ws - j) wp
          else
            copyFwd matchLength (wp - matchOffset) wp
          modify fun r => { r with windowPosn := wp + matchLength }
          symbolLoop fuel frameEnd n
    else pure ()

/-- `do { READ_BITS(i, 8); } while (i != 0xFF);` -/
def trailerScan : Nat → QM σ Unit
  | 0 => throw (.fault .hang)
  | fuel + 1 => do
    let i ← readBits S 8
    if i ≠ 0xFF then trailerScan fuel

/-- `while ((qtm->o_end - qtm->o_ptr) < out_bytes) { … }` -/
def blockLoop (fuel : Nat) : Nat → QM σ Unit
  | 0 => do
    let r ← get
    if r.st.oEnd - r.st.oPtr < r.outBytes then throw (.fault .hang)
  | n + 1 => do
    let r ← get
    if r.st.oEnd - r.st.oPtr < r.outBytes then
      -- frame header
      if !r.st.headerRead then
        modify fun r => { r with H := 0xFFFF, L := 0 }
        let c ← readBits S 16
        modify fun r => { r with C := c, st := { r.st with headerRead := true } }
      -- how far to decode
      let r ← get
      let wp := r.windowPosn
      let frameEnd := (wp + (r.outBytes - (r.st.oEnd - r.st.oPtr))) % u32
      let frameEnd := if (wp + r.frameTodo) % u32 < frameEnd
                      then (wp + r.frameTodo) % u32 else frameEnd
      let frameEnd := if frameEnd > r.st.windowSize then r.st.windowSize else frameEnd
      symbolLoop S fuel frameEnd (frameEnd - wp)
      modify fun r => { r with st := { r.st with oEnd := r.windowPosn } }
      if (← get).frameTodo > qtmFRAME_SIZE then fail .decrunch
      -- another frame completed?
      if (← get).frameTodo = 0 then
        let bl := (← get).bitsLeft
        if bl % 8 ≠ 0 then removeBits (bl % 8)
        trailerScan S fuel
        modify fun r => { r with frameTodo := qtmFRAME_SIZE, st := { r.st with headerRead := false } }
      -- window wrap?
      let r ← get
      if r.windowPosn = r.st.windowSize then
        let i := r.st.oEnd - r.st.oPtr
        if i ≥ r.outBytes then pure ()     -- `break`
        else
          writeOut r.st.oPtr i
          modify fun r => { r with outBytes := r.outBytes - i, windowPosn := 0,
                                   st := { r.st with oPtr := 0, oEnd := 0 } }
          blockLoop fuel n
      else blockLoop fuel n
    else pure ()

/-- everything of `qtmd_decompress` after "restore local state" up to (not including)
    "store local state" -/
def body (fuel : Nat) : QM σ Unit := do
  blockLoop S fuel (2 * (← get).outBytes + 4)
  let r ← get
  if r.outBytes ≠ 0 then
    writeOut r.st.oPtr r.outBytes
    modify fun r => { r with st := { r.st with oPtr := r.st.oPtr + r.outBytes } }

/-- `qtmd_decompress(qtm, out_bytes)` (`qtm` non-NULL, `out_bytes ≥ 0`, `write` accepts all) -/
def decompress {σ : Type} (S : Src σ) (fuel : Nat) (st : St σ) (outBytes : Nat) :
    Except Fault (DecodeOut (St σ)) :=
  if st.error ≠ .ok then .ok ⟨st.error, [], st⟩ else
  -- flush out any stored-up bytes before we begin
  let i := st.oEnd - st.oPtr
  let i := if i > outBytes then outBytes else i
  if i > 0 ∧ st.oPtr + i > st.window.size then .error (.oob "qtmd window (write)") else
  let w := st.window.extract st.oPtr (st.oPtr + i)
  let st := { st with oPtr := st.oPtr + i }
  let outBytes := outBytes - i
  if outBytes = 0 then .ok ⟨.ok, w.toList, st⟩ else
  -- restore local state
  let r : Run σ :=
    { inbuf := st.inbuf, bitBuffer := st.bitBuffer, bitsLeft := st.bitsLeft,
      windowPosn := st.windowPosn, frameTodo := st.frameTodo, H := st.H, L := st.L, C := st.C,
      outBytes := outBytes, written := w, st := st }
  match (body S fuel).run.run r with
  | (.error (.fault f), _) => .error f
  | (.error (.sys e), r) => .ok ⟨e, r.written.toList, r.st⟩
  | (.ok (), r) =>
    -- store local state
    .ok ⟨.ok, r.written.toList,
         { r.st with inbuf := r.inbuf, bitBuffer := r.bitBuffer, bitsLeft := r.bitsLeft % 256,
                     windowPosn := r.windowPosn, frameTodo := r.frameTodo,
                     H := r.H, L := r.L, C := r.C }⟩

end MsPack.Qtm
