import MsPack.Basic
import MsPack.Generated.Tables
import MsPack.Generated.Consts
/-
qtmd.c — STUB (see MsPack/Lzx/Decoder.lean).
-/
namespace MsPack.Qtm
open MsPack

def implemented : Bool := false

structure St (σ : Type) where
  src : σ

/-- `qtmd_init(system, input, output, window_bits, input_buffer_size)`; `none` = NULL -/
def init {σ : Type} (src : σ) (windowBits inputBufferSize : Nat) (fill : UInt8) : Option (St σ) :=
  some { src := src }

/-- `qtmd_decompress(qtm, out_bytes)` -/
def decompress {σ : Type} (S : Src σ) (fuel : Nat) (st : St σ) (outBytes : Nat) :
    Except Fault (DecodeOut (St σ)) :=
  .ok ⟨.ok, [], st⟩

end MsPack.Qtm
