#!/usr/bin/env python3
"""Differential test of the OAB model (MsPack/Oab/*.lean, Driver/Oab.lean) against the real library.

    difftest.py [--harness PATH] [--driver PATH] [--seed N] [--scale K] [--keep DIR] [--only GROUP,..] [--jobs J]

Regenerates case files (PROTOCOL.md) into a temp dir, replays each of them on the C harness
(`apiharness`, real libmspack) and on the Lean driver (`mspack-driver`, the models), projects both
outputs onto the result lines (drops MONITOR / ev / end lines and the edges= / calls= suffixes)
and diffs them case by case.  Prints one line per group and a total; exit status 1 if any case
disagrees.  Disagreeing cases are copied to --keep DIR (default /tmp/oab-difftest-failures).

Groups:
  api        param values, missing files, dead / foreign handles, refused ops, aliased names
  crc        prim crc32 on random strings
  good-s/m/l well-formed full files and patches from vgen.oab (small / medium / large), several
             DECOMPBUF values and fill bytes, every one also fed to the *other* entry point
  trunc      every prefix (or a sample of prefixes) of small well-formed files, several DECOMPBUF
  flip-head  bit flips in the file header          flip-blk   ... in block headers (sizes, flags)
  flip-crc   ... in the CRC fields                 flip-data  ... in the block payloads
  sizes      block sizes larger / smaller than the data, target_size mismatches, block_max too
             small, flags > 1, stored block with csize != dsize, zero-sized blocks, padding
  base       patches against a wrong / truncated / empty / missing / aliased base file
  window     headers that claim huge blocks (windows up to 2^25) over little data
  handmade   tiny hand-built stored-block files (no LZX at all)

Defaults: harness = $VERIF_HARNESS, else the newest /verif/build/harness-*/apiharness, else it is
built with `bash /verif/harness/build.sh <temp dir>`; driver = <lean dir>/.lake/build/bin/mspack-driver
(`lake build mspack-driver` first).
"""
import argparse, concurrent.futures, glob, os, random, shutil, struct, subprocess, sys, tempfile, zlib

HERE = os.path.dirname(os.path.abspath(__file__))
LEAN = os.path.normpath(os.path.join(HERE, '..', '..'))
sys.path.insert(0, '/verif/gen')
try:
    from vgen import oab as voab
    HAVE_VGEN = True
except Exception as e:                                   # pragma: no cover
    print('vgen not usable (%s): generated groups are skipped' % e, file=sys.stderr)
    HAVE_VGEN = False

FILLS = ['00', 'a5', 'ff', '08']
BUFS = [16, 18, 64, 4096, 65536]


# ---------------------------------------------------------------- case construction
class Cases:
    def __init__(self, root):
        self.root = root; self.groups = {}; self.n = 0

    def add(self, group, lines):
        d = os.path.join(self.root, group); os.makedirs(d, exist_ok=True)
        p = os.path.join(d, '%05d.case' % self.n); self.n += 1
        with open(p, 'w') as f: f.write('\n'.join(lines) + '\n')
        self.groups.setdefault(group, []).append(p)


def hexs(b): return b.hex() if b else '-'
def crc(data): return zlib.crc32(data) ^ 0xFFFFFFFF
def u32(*v): return struct.pack('<%dI' % len(v), *v)


def full_case(data, buf=None, fill='a5', also_inc=False):
    """one full file through decompress (and, optionally, through the wrong entry point)"""
    l = ['fill ' + fill, 'file in.oab ' + hexs(data), 'new oab']
    if buf is not None: l.append('param i0 DECOMPBUF %d' % buf)
    l.append('decompress i0 in.oab out')
    if also_inc: l += ['file base -', 'decompressinc i0 in.oab base out2']
    l.append('destroy i0')
    return l


def patch_case(patch, base, buf=None, fill='a5', also_full=False):
    l = ['fill ' + fill, 'file p.oab ' + hexs(patch)]
    if base is not None: l.append('file base.oab ' + hexs(base))
    l.append('new oab')
    if buf is not None: l.append('param i0 DECOMPBUF %d' % buf)
    l.append('decompressinc i0 p.oab base.oab out')
    if also_full: l.append('decompress i0 p.oab out2')
    l.append('destroy i0')
    return l


def gen(rng, size, patch):
    r = voab.random_case(rng, size, patch=patch)
    if patch: return r['files']['patch.oab'], r['files']['base.oab']
    return r['files']['full.oab'], None


def any_case(rng, data, base, **kw):
    return patch_case(data, base, **kw) if base is not None else full_case(data, **kw)


def blocks_of(data, patch):
    """[(header offset, payload offset, payload size as stated)] of a well-formed file"""
    pos = 28 if patch else 16; out = []
    while pos + 16 <= len(data):
        f = struct.unpack_from('<IIII', data, pos)
        csize = f[0] if patch else f[1]
        out.append((pos, pos + 16, csize)); pos += 16 + csize
    return out


def poke(data, off, val):
    b = bytearray(data); struct.pack_into('<I', b, off, val & 0xFFFFFFFF); return bytes(b)


def peek(data, off): return struct.unpack_from('<I', data, off)[0]


def flip(rng, data, lo, hi, nbits=None):
    b = bytearray(data)
    for _ in range(nbits or rng.choice([1, 1, 2, 4])):
        i = rng.randrange(lo, hi); b[i] ^= 1 << rng.randrange(8)
    return bytes(b)


def pick_buf(rng): return rng.choice([None] + BUFS + [17, 33, 4097])


# ---------------------------------------------------------------- groups
def g_api(cs, rng, scale):
    stored = u32(3, 1, 5, 5) + u32(0, 5, 5, 0) + b'hello'
    patch0 = u32(3, 2, 0, 0, 0, 0, 0)
    vals = ['16', '15', '0', '-1', '17', '18', '64', '4096', '65536', '0x10', '0xf', '-16', '1048576',
            '4294967312', '4294967295', '2147483648', '-4294967280', '1000000', 'x', '', '16 3']
    l = ['file in.oab ' + hexs(stored), 'new oab']
    for v in vals:
        l += ['param i0 DECOMPBUF ' + v, 'decompress i0 in.oab out']
    l += ['param i0 0 32', 'param i0 1 32', 'param i0 -1 32', 'param i0 4294967296 33', 'param i0 SEARCHBUF 32',
          'param i0 DECOMPBUF', 'param i0', 'decompress i0 in.oab out', 'destroy i0', 'param i0 DECOMPBUF 32',
          'decompress i0 in.oab out', 'decompressinc i0 in.oab in.oab out', 'destroy i0']
    cs.add('api', l)
    cs.add('api', ['file in.oab ' + hexs(stored), 'file p.oab ' + hexs(patch0), 'file b -', 'new oab', 'new oab',
                   'decompress i0 missing out', 'decompress i0 in.oab', 'decompress i0 in.oab out extra',
                   'decompressinc i0 missing b out', 'decompressinc i0 p.oab missing out', 'decompressinc i0 p.oab b out',
                   'decompressinc i0 in.oab missing out', 'decompressinc i0 p.oab b', 'decompress i1 in.oab out1',
                   'open i0 in.oab', 'fastopen i0 in.oab', 'search i0 in.oab', 'close i0 h0', 'dump i0 h0',
                   'extract i0 h0 - out', 'extract i0 h0', 'append i0 h0 h1', 'prepend i0 h0 h1', 'fastfind i0 h0 00',
                   'ffextract i0 h0 00 out', 'frobnicate i0', 'open i0', 'destroy i0 x', 'destroy i0', 'open i0 in.oab',
                   'destroy i0', 'decompress i1 in.oab out1', 'destroy i1'])
    # the output is created only after the header checks; an existing file of that name survives
    cs.add('api', ['file in.oab ' + hexs(stored), 'file bad 0300000002000000', 'file out 7061796c6f6164', 'new oab',
                   'decompress i0 bad out', 'decompress i0 missing out', 'decompress i0 in.oab out',
                   'decompress i0 bad out', 'decompress i0 in.oab out', 'decompressinc i0 in.oab in.oab out', 'destroy i0'])
    # aliased names: output == input, output == base, input == base
    cs.add('api', ['file in.oab ' + hexs(stored), 'new oab', 'decompress i0 in.oab in.oab', 'decompress i0 in.oab in.oab', 'destroy i0'])
    cs.add('api', ['file in.oab ' + hexs(u32(3, 1, 0, 0)), 'new oab', 'decompress i0 in.oab in.oab', 'decompress i0 in.oab out', 'destroy i0'])
    cs.add('api', ['file p.oab ' + hexs(patch0), 'file b 0102', 'new oab', 'decompressinc i0 p.oab b b', 'decompressinc i0 p.oab b p.oab',
                   'decompressinc i0 p.oab b out', 'destroy i0'])
    if HAVE_VGEN:
        for k in range(6 * scale):
            p, b = gen(rng, 'small', True)
            cs.add('api', ['file p.oab ' + hexs(p), 'file b ' + hexs(b), 'file b2 ' + hexs(b), 'new oab',
                           'decompressinc i0 p.oab b out', 'decompressinc i0 p.oab b b', 'decompressinc i0 p.oab b2 p.oab',
                           'decompressinc i0 p.oab p.oab out', 'destroy i0'])
        # DECOMPBUF = INT_MAX: `(input_buffer_size + 1) & -2` in lzxd_init overflows (wraps: lzxd_init returns NULL)
        f, _ = gen(rng, 'small', False)
        while not any(peek(f, h) == 1 for h, _, _ in blocks_of(f, False)): f, _ = gen(rng, 'small', False)
        p, b = gen(rng, 'small', True)
        cs.add('api', ['file in.oab ' + hexs(f), 'file p.oab ' + hexs(p), 'file b ' + hexs(b), 'new oab', 'param i0 DECOMPBUF 2147483647',
                       'decompress i0 in.oab out', 'decompressinc i0 p.oab b out', 'param i0 DECOMPBUF 16777216', 'decompress i0 in.oab out',
                       'decompressinc i0 p.oab b out', 'destroy i0'])
        # several instances with their own buffer sizes, interleaved
        f, _ = gen(rng, 'small', False)
        cs.add('api', ['file in.oab ' + hexs(f[:len(f) - 3]), 'new oab', 'new oab', 'new oab', 'param i1 DECOMPBUF 16',
                       'param i2 DECOMPBUF 70', 'decompress i0 in.oab o0', 'decompress i1 in.oab o1', 'decompress i2 in.oab o2',
                       'destroy i1', 'decompress i1 in.oab o1', 'decompress i2 in.oab o0', 'destroy i0', 'destroy i2'])


def g_crc(cs, rng, scale):
    l = ['prim crc32 -', 'prim crc32 00', 'prim crc32 ff', 'prim crc32 313233343536373839', 'prim crc32 zz', 'prim crc32']
    for _ in range(60 * scale):
        l.append('prim crc32 ' + hexs(rng.randbytes(rng.choice([1, 2, 3, 4, 5, 8, 31, 100, 1000]))))
    cs.add('crc', l)


def good(cs, rng, group, size, n):
    for k in range(n):
        patch = k % 2 == 1
        data, base = gen(rng, size, patch)
        buf = BUFS[k % len(BUFS)] if k % 6 else None
        fill = FILLS[k % len(FILLS)]
        if patch: cs.add(group, patch_case(data, base, buf, fill, also_full=True))
        else: cs.add(group, full_case(data, buf, fill, also_inc=True))


def g_good_s(cs, rng, scale): good(cs, rng, 'good-s', 'small', 300 * scale)
def g_good_m(cs, rng, scale): good(cs, rng, 'good-m', 'medium', 40 * scale)
def g_good_l(cs, rng, scale): good(cs, rng, 'good-l', 'large', 8 * scale)


def g_trunc(cs, rng, scale):
    for k in range(24 * scale):
        patch = k % 2 == 1
        data, base = gen(rng, 'small', patch)
        cuts = list(range(len(data)))
        if len(cuts) > 150: cuts = sorted(set(rng.sample(cuts, 120) + list(range(0, 48)) + list(range(len(data) - 20, len(data)))))
        # several truncations per case file (keeps the number of processes down), one instance each
        for i in range(0, len(cuts), 8):
            l = ['fill ' + rng.choice(FILLS)]
            if patch: l.append('file base.oab ' + hexs(base))
            for j, c in enumerate(cuts[i:i + 8]):
                buf = rng.choice(BUFS)
                l += ['file t%d %s' % (j, hexs(data[:c])), 'new oab', 'param i%d DECOMPBUF %d' % (j, buf),
                      ('decompressinc i%d t%d base.oab out' if patch else 'decompress i%d t%d out') % (j, j), 'destroy i%d' % j]
            cs.add('trunc', l)
    # truncated medium-sized files: cuts inside LZX frames and inside stored blocks
    for k in range(20 * scale):
        patch = k % 2 == 1
        data, base = gen(rng, 'medium', patch)
        for _ in range(4):
            c = rng.randrange(len(data)); cs.add('trunc', any_case(rng, data[:c], base, buf=pick_buf(rng), fill=rng.choice(FILLS)))


def flips(cs, rng, group, n, region):
    """region(data, patch, blocks) -> list of (lo, hi) byte ranges to flip in"""
    k = 0; tries = 0
    while k < n and tries < 20 * n:
        tries += 1
        patch = rng.random() < 0.5
        data, base = gen(rng, rng.choice(['small', 'small', 'small', 'medium']), patch)
        rs = [r for r in region(data, patch, blocks_of(data, patch)) if r[1] > r[0] and r[1] <= len(data)]
        if not rs: continue
        for _ in range(4):
            lo, hi = rng.choice(rs)
            cs.add(group, any_case(rng, flip(rng, data, lo, hi), base, buf=pick_buf(rng), fill=rng.choice(FILLS))); k += 1


def g_flip_head(cs, rng, scale): flips(cs, rng, 'flip-head', 300 * scale, lambda d, p, bl: [(0, 28 if p else 16)])
def g_flip_blk(cs, rng, scale): flips(cs, rng, 'flip-blk', 500 * scale, lambda d, p, bl: [(h, h + 12) for h, _, _ in bl])
def g_flip_crc(cs, rng, scale): flips(cs, rng, 'flip-crc', 200 * scale, lambda d, p, bl: [(h + 12, h + 16) for h, _, _ in bl])
def g_flip_data(cs, rng, scale):
    flips(cs, rng, 'flip-data', 500 * scale, lambda d, p, bl: [(a, a + n) for _, a, n in bl] + [(a, min(a + 12, a + n)) for _, a, n in bl])


def g_sizes(cs, rng, scale):
    for k in range(120 * scale):
        patch = k % 2 == 1
        data, base = gen(rng, rng.choice(['small', 'small', 'medium']), patch)
        bl = blocks_of(data, patch)
        ts_off = 16 if patch else 12
        ts = peek(data, ts_off); bm = peek(data, 8)
        muts = []
        # target_size mismatches
        for v in (ts + 1, ts - 1 if ts else 5, 0, ts + 100000, 0xFFFFFFFF, ts // 2): muts.append(poke(data, ts_off, v))
        # block_max too small / zero / huge
        for v in (bm - 1 if bm else 0, 0, 15, 16, 0xFFFFFFFF, bm // 2): muts.append(poke(data, 8, v))
        if bl:
            h, a, n = rng.choice(bl)
            c_off, d_off = (h, h + 4) if patch else (h + 4, h + 8)
            cs_, ds_ = peek(data, c_off), peek(data, d_off)
            # compressed size larger / smaller than the data
            for v in (cs_ + 1, cs_ - 1 if cs_ else 3, 0, 1, 2, 3, cs_ + 4096, cs_ // 2, 0xFFFFFFFF, 0x80000000, len(data) - a, len(data) - a + 1):
                muts.append(poke(data, c_off, v))
            # uncompressed size larger / smaller
            for v in (ds_ + 1, ds_ - 1 if ds_ else 3, 0, 1, ds_ + 32768, ds_ // 2, 32768, 32769, 65536):
                m = poke(data, d_off, v); muts.append(m)
                muts.append(poke(poke(m, ts_off, max(ts, ts - ds_ + v)), 8, max(bm, v)))      # ... and allowed by the header
            if patch:
                ss = peek(data, h + 8)
                for v in (ss + 1, ss - 1 if ss else 1, 0, ss + 32768, 0xFFFFFFFF, 0xFFFF8001, 0xFFFF8000, bm, bm + 1, 1 << 25, (1 << 25) + 1):
                    m = poke(data, h + 8, v); muts.append(m); muts.append(poke(m, 8, 0xFFFFFFFF))
            else:
                for v in (0, 1, 2, 3, 0x80000000, 0xFFFFFFFF, 256):
                    m = poke(data, h, v); muts.append(m)
                    muts.append(poke(m, h + 4, ds_))                                          # stored with csize == dsize
            # extra padding inside the block / bytes missing from it, with the header adjusted or not
            pad = rng.randbytes(rng.choice([1, 2, 15, 16, 17, 100]))
            grown = data[:a + n] + pad + data[a + n:]
            muts.append(grown); muts.append(poke(grown, c_off, cs_ + len(pad)))
            if n: muts.append(data[:a + n - 1] + data[a + n:])
            # the same block twice, a block dropped
            muts.append(data[:h] + data[h:a + n] + data[h:])
            muts.append(data[:h] + data[a + n:])
        muts.append(data + rng.randbytes(rng.choice([1, 16, 40])))                             # trailing data
        for m in rng.sample(muts, min(len(muts), 14)):
            cs.add('sizes', any_case(rng, m, base, buf=pick_buf(rng), fill=rng.choice(FILLS)))


def g_base(cs, rng, scale):
    for k in range(60 * scale):
        patch, base = gen(rng, rng.choice(['small', 'small', 'medium']), True)
        other = rng.randbytes(len(base))
        alts = [b'', base[:len(base) // 2], base[:-1] if base else b'x', base[1:], other, base + b'tail', bytes(len(base)),
                flip(rng, base, 0, len(base)) if base else b'\x00', base[::-1]]
        for alt in alts:
            cs.add('base', patch_case(patch, alt, buf=pick_buf(rng), fill=rng.choice(FILLS)))
        cs.add('base', patch_case(patch, None, buf=pick_buf(rng)))                               # missing base
        cs.add('base', ['file p.oab ' + hexs(patch), 'new oab', 'decompressinc i0 p.oab p.oab out', 'destroy i0'])
        # a full file as base of itself, a patch fed with a full file as input and vice versa
        full, _ = gen(rng, 'small', False)
        cs.add('base', ['file f.oab ' + hexs(full), 'file p.oab ' + hexs(patch), 'file b ' + hexs(base), 'new oab',
                        'decompressinc i0 f.oab b out', 'decompress i0 p.oab out', 'decompressinc i0 p.oab f.oab out', 'destroy i0'])


def g_window(cs, rng, scale):
    # headers that claim big blocks over little data: window_bits 17..25, output length > data
    sizes = [1 << 17, (1 << 17) + 1, 1 << 18, (1 << 20) + 5, 1 << 24, (1 << 24) + 1, 1 << 25, (1 << 25) + 1, 1 << 26, 0xFFFFFFFF]
    for k, dsize in enumerate(sizes):
        data, _ = gen(rng, 'small', False)
        bl = blocks_of(data, False)
        if not bl: continue
        h = bl[0][0]
        m = poke(poke(poke(data, h + 8, dsize), 8, 0xFFFFFFFF), 12, 0xFFFFFFFF)
        m = poke(m, h, 1)
        cs.add('window', full_case(m, buf=pick_buf(rng), fill=FILLS[k % 4]))
    ssizes = [(0, 1 << 17), (1, 1 << 17), (32768, (1 << 17) - 32768), (32769, (1 << 17) - 32768), (1 << 24, 1 << 24), (1 << 25, 0),
              (1 << 25, 1), ((1 << 25) + 1, 0), (0xFFFF8001, 5), (0xFFFFFFFF, 0xFFFFFFFF), (0xFFFF8000, 0x8000), (100, 1 << 25)]
    for k, (ss, ds) in enumerate(ssizes):
        patch, base = gen(rng, 'small', True)
        bl = blocks_of(patch, True)
        if not bl: continue
        h = bl[0][0]
        m = poke(poke(poke(poke(patch, h + 4, ds), h + 8, ss), 8, 0xFFFFFFFF), 16, 0xFFFFFFFF)
        cs.add('window', patch_case(m, base, buf=pick_buf(rng), fill=FILLS[k % 4]))
        cs.add('window', patch_case(m, base + bytes(40000), buf=pick_buf(rng), fill=FILLS[k % 4]))


def g_handmade(cs, rng, scale):
    def blk(flags, csize, dsize, c, payload): return u32(flags, csize, dsize, c) + payload
    for k in range(150 * scale):
        nb = rng.choice([0, 1, 1, 2, 3, 6])
        body = b''; total = 0; bmax = 0
        for _ in range(nb):
            n = rng.choice([0, 1, 5, 15, 16, 17, 31, 32, 33, 64, 100, 200])
            p = rng.randbytes(n)
            csize = n if rng.random() < 0.85 else rng.choice([n + 1, max(0, n - 1), 0])
            have = p if rng.random() < 0.85 else p[:rng.randrange(n + 1)]
            body += blk(rng.choice([0, 0, 0, 0, 1, 2]), csize, n, rng.choice([0, crc(p), 0xFFFFFFFF]), have)
            total += n; bmax = max(bmax, n)
        if rng.random() < 0.2: bmax = max(0, bmax - 1)
        if rng.random() < 0.2: total += rng.choice([-1, 1, 7])
        ver = (3, 1) if rng.random() < 0.9 else rng.choice([(3, 2), (3, 0), (2, 1), (0, 0), (3, 0x101), (0x10003, 1)])
        data = u32(ver[0], ver[1], bmax, max(0, total)) + body
        if rng.random() < 0.15: data = data[:rng.randrange(len(data) + 1)]
        l = ['fill ' + rng.choice(FILLS), 'file in.oab ' + hexs(data), 'new oab']
        for buf in rng.sample([16, 17, 18, 20, 32, 33, 64, 100, 4096], 3):
            l += ['param i0 DECOMPBUF %d' % buf, 'decompress i0 in.oab out']
        l.append('destroy i0')
        cs.add('handmade', l)
    # LZX blocks of uncompressed size 0, alone and between stored blocks
    for csize, have in [(0, 0), (4, 4), (4, 2), (100, 100), (100, 99)]:
        data = u32(3, 1, 8, 4) + blk(1, csize, 0, 0xFFFFFFFF, bytes(have)) + blk(0, 4, 4, 0, b'abcd')
        cs.add('handmade', full_case(data, buf=16))
        data = u32(3, 1, 8, 4) + blk(1, csize, 0, 0, bytes(have)) + blk(0, 4, 4, 0, b'abcd')
        cs.add('handmade', full_case(data, buf=64))
    for ss, have, csize in [(0, 0, 0), (0, 0, 3), (4, 4, 0), (4, 3, 0), (4, 10, 2)]:
        p = u32(3, 2, 8, 0, 1, 0, 0) + u32(csize, 0, ss, 0xFFFFFFFF) + bytes(csize) + u32(0, 0, 0, 0xFFFFFFFF) + u32(0, 1, 0, 0)
        cs.add('handmade', patch_case(p, bytes(have), buf=16))


GROUPS = [('api', g_api, False), ('crc', g_crc, False), ('handmade', g_handmade, False),
          ('good-s', g_good_s, True), ('good-m', g_good_m, True), ('good-l', g_good_l, True),
          ('trunc', g_trunc, True), ('flip-head', g_flip_head, True), ('flip-blk', g_flip_blk, True),
          ('flip-crc', g_flip_crc, True), ('flip-data', g_flip_data, True), ('sizes', g_sizes, True),
          ('base', g_base, True), ('window', g_window, True)]


# ---------------------------------------------------------------- running and comparing
MONITORS = []          # MONITOR lines seen (harness only): contract violations by the library


def project(text):
    """{case path: [result lines]}"""
    res = {}; cur = None
    for ln in text.split('\n'):
        if ln.startswith('== CASE '):
            cur = ln[8:]; res[cur] = []; continue
        if ln.startswith('MONITOR'): MONITORS.append(ln)
        if cur is None or not ln or ln.startswith('MONITOR') or ln.startswith('ev ') or ln == 'end' or ln.startswith('end '):
            continue
        for suf in (' edges=', ' calls='):
            i = ln.find(suf)
            if i >= 0: ln = ln[:i]
        res[cur].append(ln)
    return res


def run(binary, paths, jobs, batch=16):
    def one(chunk):
        p = subprocess.run([binary] + chunk, stdout=subprocess.PIPE, stderr=subprocess.PIPE,
                           env=dict(os.environ, VERIF_CASE_TIMEOUT='300'))
        return project(p.stdout.decode('latin-1'))
    out = {}
    with concurrent.futures.ThreadPoolExecutor(max_workers=jobs) as ex:
        for r in ex.map(one, [paths[i:i + batch] for i in range(0, len(paths), batch)]): out.update(r)
    return out


def main():
    ap = argparse.ArgumentParser()
    ap.add_argument('--harness', default=os.environ.get('VERIF_HARNESS', ''))
    ap.add_argument('--driver', default=os.path.join(LEAN, '.lake', 'build', 'bin', 'mspack-driver'))
    ap.add_argument('--seed', type=int, default=1)
    ap.add_argument('--scale', type=int, default=1)
    ap.add_argument('--keep', default='/tmp/oab-difftest-failures')
    ap.add_argument('--only', default='')
    ap.add_argument('--jobs', type=int, default=8)
    a = ap.parse_args()
    hdir = None
    if not a.harness:
        found = sorted(glob.glob('/verif/build/harness-*/apiharness'), key=os.path.getmtime)
        if found: a.harness = found[-1]
        else:
            hdir = tempfile.mkdtemp(prefix='oabdiff-h-')
            subprocess.run(['bash', '/verif/harness/build.sh', hdir], check=True, stdout=subprocess.DEVNULL)
            a.harness = os.path.join(hdir, 'apiharness')
    for b in (a.harness, a.driver):
        if not os.path.exists(b): sys.exit('missing binary: ' + b)
    only = set(x for x in a.only.split(',') if x)
    root = tempfile.mkdtemp(prefix='oabdiff-')
    cs = Cases(root)
    for name, fn, needs_vgen in GROUPS:
        if only and name not in only: continue
        if needs_vgen and not HAVE_VGEN: continue
        fn(cs, random.Random('%d/%s' % (a.seed, name)), a.scale)
    total = bad = ops = crashes = 0
    status = {}
    for name, paths in cs.groups.items():
        c = run(a.harness, paths, a.jobs); l = run(a.driver, paths, a.jobs)
        gbad = 0; gops = 0; gcr = 0
        for p in paths:
            cl = c.get(p); ll = l.get(p)
            gops += len(cl or [])
            for x in cl or []:
                i = x.find(' st=')
                if i >= 0 and (x.startswith('decompress')): status[x[i + 4:].split()[0]] = status.get(x[i + 4:].split()[0], 0) + 1
            if cl and any(x.startswith('CRASH') or x.startswith('TIMEOUT') for x in cl): gcr += 1
            if cl is None or cl != ll:
                gbad += 1
                os.makedirs(a.keep, exist_ok=True)
                d = os.path.join(a.keep, name + '-' + os.path.basename(p)); shutil.copy(p, d)
                with open(d + '.diff', 'w') as f:
                    f.write('--- harness\n' + '\n'.join(cl or ['<none>']) + '\n--- driver\n' + '\n'.join(ll or ['<none>']) + '\n')
        print('%-10s cases=%5d result-lines=%6d disagree=%d harness-crash/timeout=%d' % (name, len(paths), gops, gbad, gcr), flush=True)
        total += len(paths); bad += gbad; ops += gops; crashes += gcr
    print('TOTAL      cases=%5d result-lines=%6d disagree=%d harness-crash/timeout=%d' % (total, ops, bad, crashes))
    print('statuses of decompress/decompressinc calls (harness): ' + ' '.join('%s:%d' % kv for kv in sorted(status.items(), key=lambda kv: int(kv[0]))))
    print('MONITOR lines printed by the harness: %d %s' % (len(MONITORS), sorted(set(MONITORS))[:10]))
    if bad: print('failing cases and diffs kept in ' + a.keep)
    shutil.rmtree(root, ignore_errors=True)
    if hdir: shutil.rmtree(hdir, ignore_errors=True)
    sys.exit(1 if bad else 0)


if __name__ == '__main__':
    main()
