import MsPack.Basic
import MsPack.Generated.Tables
/-
crc32.h / crc32.c: the table-driven CRC-32 update (polynomial 0xedb88320, reflected).

    static inline unsigned int crc32(unsigned int val, const void *ss, int len) {
        const unsigned char *s = ss;
        while (--len >= 0)
            val = crc32_table[(val ^ *s++) & 0xff] ^ (val >> 8);
        return val;
    }

The C function does NOT complement anything, neither on entry nor on exit: callers that want the
usual CRC-32 pass `0xffffffff` and complement the result themselves.  oabd.c passes `0xffffffff`
and compares the *uncomplemented* result with the stored block CRC.
`crc32_table` is `Generated.crc32Table` (extracted from crc32.c).
-/
namespace MsPack.Oab
open MsPack MsPack.Generated

/-- `crc32_table` as an array (256 entries, each < 2^32) -/
def crc32TableArr : Array Nat := crc32Table.toArray

set_option maxRecDepth 4096 in
theorem crc32TableArr_size : crc32TableArr.size = 256 := by rfl

/-- one iteration of the loop: `val = crc32_table[(val ^ b) & 0xff] ^ (val >> 8)`;
    `val` is an `unsigned int` (a larger caller's value is reduced mod 2^32, as the conversion to
    the C parameter type does) -/
def crc32Step (val : Nat) (b : UInt8) : Nat :=
  let val := val % 4294967296
  let i := (val ^^^ b.toNat) % 256
  crc32TableArr[i]'(by rw [crc32TableArr_size]; exact Nat.mod_lt _ (by decide)) ^^^ (val / 256)

/-- `crc32(crc, data, len)` with `len` = number of bytes in `data` -/
def crc32 (crc : Nat) (data : Bytes) : Nat :=
  data.foldl crc32Step (crc % 4294967296)

theorem crc32_nil (crc : Nat) : crc32 crc [] = crc % 4294967296 := rfl

set_option maxRecDepth 8192 in
theorem crc32Table_lt : crc32Table.all (· < 4294967296) = true := by decide

theorem crc32TableArr_lt (i : Nat) (h : i < crc32TableArr.size) : crc32TableArr[i] < 4294967296 := by
  have hall := crc32Table_lt
  rw [List.all_eq_true] at hall
  have hm : crc32TableArr[i] ∈ crc32Table := by
    have : crc32TableArr[i] ∈ crc32TableArr := Array.getElem_mem h
    exact List.mem_toArray.mp this
  simpa using hall _ hm

/-- the CRC register stays an `unsigned int` -/
theorem crc32Step_lt (val : Nat) (b : UInt8) : crc32Step val b < 4294967296 := by
  unfold crc32Step
  have h1 := crc32TableArr_lt ((val % 4294967296 ^^^ b.toNat) % 256)
    (by rw [crc32TableArr_size]; exact Nat.mod_lt _ (by decide))
  have h2 : val % 4294967296 / 256 < 4294967296 := by
    have := Nat.mod_lt val (show 0 < 4294967296 by decide); omega
  exact Nat.xor_lt_two_pow (n := 32) h1 h2

theorem crc32_lt (crc : Nat) (data : Bytes) : crc32 crc data < 4294967296 := by
  unfold crc32
  have h0 : crc % 4294967296 < 4294967296 := Nat.mod_lt _ (by decide)
  generalize crc % 4294967296 = c at h0
  induction data generalizing c with
  | nil => simpa using h0
  | cons x xs ih => simpa [List.foldl] using ih _ (crc32Step_lt c x)

/-- `oabd_sys_write` folds the bytes of every `write` call into `file->crc`, one call per frame;
    feeding the data in pieces gives the CRC of the concatenation -/
theorem crc32_append (crc : Nat) (a b : Bytes) : crc32 (crc32 crc a) b = crc32 crc (a ++ b) := by
  have h := crc32_lt crc a
  unfold crc32 at *
  rw [List.foldl_append, Nat.mod_eq_of_lt h]

end MsPack.Oab
