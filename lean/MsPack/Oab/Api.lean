import MsPack.Sys
import MsPack.IO
import MsPack.Generated.Consts
import MsPack.Oab.Decompress
/-
oabd.c (+ the allocation skeleton of lzxd_init / lzxd_free and the one read of
lzxd_set_reference_data) over the instrumented system `Sys.M`: every
`sys->alloc/free/open/close/read/write` of the C is one call of the corresponding `Sys` primitive,
in the same order, with the same reactions to failure — in particular the `out:` labels of
`oabd_decompress` and `oabd_decompress_incremental` (`if (lzx) lzxd_free(lzx); if (outfh) close;
[if (basefh) close;] if (infh) close; sys->free(buf)`, the last one also when `buf` is NULL).
This is the model the OAB resource theorems (C09) are about.  oabd.c never seeks.

The bit-level decoder `lzxd_decompress(lzx, blk_dsize)` — running over `oabd_sys`, i.e. reading
through `oabd_sys_read` (clamped to `in_ofh.available`) and writing through `oabd_sys_write` (which
folds the accepted bytes into `out_ofh.crc`) — is a *parameter* of the model (`Body`): it gets what
`lzxd_init` / `lzxd_set_reference_data` were given, the real input and output handles, and reports
its status together with the two things oabd.c looks at afterwards, `in_ofh.available` and
`out_ofh.crc`.  The theorems quantify over every body that satisfies the frame law
(`Proofs/Lemmas/KwajApiLedger.lean`, `FrameLaw`).
-/
namespace MsPack.Oab.Api
open MsPack MsPack.Sys MsPack.Generated MsPack.Oab

/-- `struct msoab_decompressor_p`: the block it lives in and `self->buf_size` -/
structure Inst where
  self    : Nat
  bufSize : Nat
  deriving Repr

/-- `struct lzxd_stream` as the ledger sees it: the state block, `lzx->window`, `lzx->inbuf` -/
structure Lzx where
  mem    : Nat
  window : Nat
  inbuf  : Nat
  deriving Repr

/-- what the decoder was set up with: `lzxd_init(&oabd_sys, &in_ofh, &out_ofh, window_bits, 0,
    input_buffer_size, blk_dsize, 1)`, `in_ofh.available = blk_csize`, and the reference data
    `lzxd_set_reference_data` put at the end of the window (`[]` for a full download) -/
structure LzxArgs where
  windowBits : Nat
  inbufSize  : Nat
  outLen     : Nat
  available  : Nat
  ref        : Bytes
  deriving Repr

/-- what oabd.c sees of one `lzxd_decompress(lzx, blk_dsize)`: the return value, `in_ofh.available`
    and `out_ofh.crc` afterwards -/
structure LzxOut where
  err       : Err
  available : Nat
  crc       : Nat
  deriving Repr

/-- `lzxd_decompress(lzx, blk_dsize)` over `oabd_sys`, as a function of its set-up, the real input
    handle and the real output handle -/
abbrev Body := LzxArgs → Nat → Nat → M LzxOut

/-- `mspack_create_oab_decompressor` -/
def create : M (Option Inst) := do
  match ← alloc with
  | none => return none
  | some a => return some ⟨a, 4096⟩

/-- `mspack_destroy_oab_decompressor` -/
def destroy (i : Inst) : M Unit := free (some i.self)

/-- `oabd_param` (no system call) -/
def setParam (i : Inst) (param value : Int) : Err × Inst :=
  if param = paramDECOMPBUF ∧ value ≥ 16 then (.ok, { i with bufSize := value.toNat }) else (.args, i)

/-- `copy_fh(sys, infh, outfh, bytes_to_copy, buf, buf_size)`; `outFh = none` is `outfh == NULL`.
    The value returned; `none` = out of fuel (every round moves `run ≥ 1` bytes unless `buf_size`
    is 0, which `oabd_param` does not allow). -/
def copyFh (inFh : Nat) (outFh : Option Nat) (bufSize : Nat) : Nat → Nat → M (Option Err)
  | 0, _ => return none
  | fuel + 1, todo => do
    if todo = 0 then return some .ok
    else
      let run := if bufSize > todo then todo else bufSize
      match ← read inFh run with
      | none => return some .read
      | some got =>
        if got.length ≠ run then return some .read
        else
          match outFh with
          | none => copyFh inFh outFh bufSize fuel (todo - run)
          | some o =>
            match ← write o got with
            | none => return some .write
            | some n => if n ≠ run then return some .write else copyFh inFh outFh bufSize fuel (todo - run)

/-- `lzxd_init(system, input, output, window_bits, 0, input_buffer_size, output_length, is_delta = 1)`:
    the argument checks (no system call yet), the state block, then *both* the window and the input
    buffer are asked for, and if either is missing `free(window); free(inbuf); free(lzx)`.
    (`input_buffer_size` is an `int`; `(input_buffer_size + 1) & -2` wraps for INT_MAX in the harness
    build, then `< 2` fires — as in the pure model `Oab.lzxInit`.) -/
def lzxdInit (windowBits inputBufferSize : Nat) : M (Option Lzx) := do
  if windowBits < 17 ∨ windowBits > 25 ∨ inputBufferSize + 1 > 2147483647 ∨ (inputBufferSize + 1) / 2 * 2 < 2 then
    return none
  else
    match ← alloc with
    | none => return none
    | some s =>
      let win ← alloc
      let inb ← alloc
      match win, inb with
      | some w, some b => return some ⟨s, w, b⟩
      | win?, inb? =>
        free win?
        free inb?
        free (some s)
        return none

/-- `lzxd_free(lzx)` for non-NULL `lzx` -/
def lzxdFree (l : Lzx) : M Unit := do
  free (some l.inbuf)
  free (some l.window)
  free (some l.mem)

/-- `lzxd_set_reference_data(lzx, sys, basefh, length)` on a fresh delta stream: the argument check
    that can fire (`length > lzx->window_size`), then one `sys->read(basefh, …, length)` unless
    `length` is 0; `bytes < (int) length` is MSPACK_ERR_READ.  Status and the reference data. -/
def setReferenceData (windowBits baseFh length : Nat) : M (Err × Bytes) := do
  if length > 2 ^ windowBits then return (.args, [])
  else if length = 0 then return (.ok, [])
  else
    match ← read baseFh length with
    | none => return (.read, [])
    | some bs => if bs.length < length then return (.read, []) else return (.ok, bs)

/-- what one round of a `while (target_size)` loop did: left the loop for `out:` with this status
    and `lzx` as it stands, or went round again, or (not a behaviour of the C) ran out of fuel -/
inductive Round where
  | done (e : Err) (lzx : Option Lzx)
  | next (targetSize : Nat)
  | hang
  deriving Repr

/-- the tail both decompressors share:

        ret = lzxd_decompress(lzx, blk_dsize);
        if (ret != MSPACK_ERR_OK) goto out;                 -- `lzx` still set: freed at `out:`
        lzxd_free(lzx); lzx = NULL;
        ret = copy_fh(sys, infh, NULL, in_ofh.available, buf, self->buf_size);
        if (ret) goto out;
        if (out_ofh.crc != blk_crc) { ret = MSPACK_ERR_CHECKSUM; goto out; }
        target_size -= blk_dsize; -/
def lzxTail (body : Body) (a : LzxArgs) (l : Lzx) (inFh outFh bufSize blkCrc fuel next : Nat) : M Round := do
  let r ← body a inFh outFh
  if r.err ≠ .ok then return .done r.err (some l)
  else
    lzxdFree l
    match ← copyFh inFh none bufSize fuel r.available with
    | none => return .hang
    | some e =>
      if e ≠ .ok then return .done e none
      else if r.crc ≠ blkCrc then return .done .checksum none
      else return .next next

/-- one block of `oabd_decompress` after its header has been read (the four fields as numbers) -/
def fullBlock (body : Body) (inFh outFh bufSize fuel blockMax targetSize : Nat)
    (blkFlags blkCsize blkDsize blkCrc : Nat) : M Round := do
  if blkDsize > blockMax ∨ blkDsize > targetSize ∨ blkFlags > 1 then return .done .dataformat none
  else if blkFlags = 0 then
    -- Uncompressed block
    if blkDsize ≠ blkCsize then return .done .dataformat none
    else
      match ← copyFh inFh (some outFh) bufSize fuel blkDsize with
      | none => return .hang
      | some e => if e ≠ .ok then return .done e none else return .next (targetSize - blkDsize)
  else
    -- LZX compressed block
    match ← lzxdInit (windowBits blkDsize) bufSize with
    | none => return .done .nomemory none
    | some l =>
      lzxTail body ⟨windowBits blkDsize, bufSize, blkDsize, blkCsize, []⟩ l inFh outFh bufSize blkCrc fuel
        (targetSize - blkDsize)

/-- one round of `while (target_size)` of `oabd_decompress`: the block header (read into `buf`),
    then the block -/
def fullRound (body : Body) (inFh outFh bufSize fuel blockMax targetSize : Nat) : M Round := do
  match ← read inFh oabblkSIZEOF with
  | none => return .done .read none
  | some h =>
    if h.length ≠ oabblkSIZEOF then return .done .read none
    else
      fullBlock body inFh outFh bufSize fuel blockMax targetSize
        (u32At h oabblk_Flags) (u32At h oabblk_CompSize) (u32At h oabblk_UncompSize) (u32At h oabblk_CRC)

/-- `while (target_size)` of `oabd_decompress`: `ret` and `lzx` on arrival at `out:` -/
def fullLoop (body : Body) (inFh outFh bufSize fuel blockMax : Nat) : Nat → Nat → M (Option (Err × Option Lzx))
  | 0, _ => return none
  | n + 1, targetSize => do
    if targetSize = 0 then return some (.ok, none)
    else
      match ← fullRound body inFh outFh bufSize fuel blockMax targetSize with
      | .done e l => return some (e, l)
      | .hang => return none
      | .next t => fullLoop body inFh outFh bufSize fuel blockMax n t

/-- `if (fh) sys->close(fh);` -/
def closeIf : Option Nat → M Unit
  | some fh => close fh
  | none => pure ()

/-- `if (lzx) lzxd_free(lzx);` -/
def lzxdFreeIf : Option Lzx → M Unit
  | some l => lzxdFree l
  | none => pure ()

/-- the `out:` label: `if (lzx) lzxd_free(lzx); if (outfh) close(outfh); [if (basefh) close(basefh);]
    if (infh) close(infh); sys->free(buf);` -/
def out (lzx : Option Lzx) (outFh baseFh inFh buf : Option Nat) : M Unit := do
  lzxdFreeIf lzx
  closeIf outFh
  closeIf baseFh
  closeIf inFh
  free buf

/-- `oabd_decompress` from the point where the header has been accepted: open the output, allocate
    `buf`, the block loop, `out:` -/
def fullRun (body : Body) (i : Inst) (inFh : Nat) (output : String) (fuel blockMax targetSize : Nat) :
    M (Option Err) := do
  match ← open_ output .write with
  | none => out none none none (some inFh) none; return some .open_
  | some outFh =>
    match ← alloc with
    | none => out none (some outFh) none (some inFh) none; return some .nomemory
    | some buf =>
      match ← fullLoop body inFh outFh i.bufSize fuel blockMax fuel targetSize with
      | none => return none
      | some (e, l) => out l (some outFh) none (some inFh) (some buf); return some e

/-- `oabd_decompress(self, input, output)` for non-NULL `self`; `none` = a loop ran out of fuel
    (not a return of the C function) -/
def decompress (body : Body) (i : Inst) (input output : String) (fuel : Nat) : M (Option Err) := do
  match ← open_ input .read with
  | none => out none none none none none; return some .open_
  | some inFh =>
    match ← read inFh oabheadSIZEOF with
    | none => out none none none (some inFh) none; return some .read
    | some hdr =>
      if hdr.length ≠ oabheadSIZEOF then out none none none (some inFh) none; return some .read
      else if u32At hdr oabhead_VersionHi ≠ 3 ∨ u32At hdr oabhead_VersionLo ≠ 1 then
        out none none none (some inFh) none; return some .signature
      else fullRun body i inFh output fuel (u32At hdr oabhead_BlockMax) (u32At hdr oabhead_TargetSize)

/-- one block of `oabd_decompress_incremental` after its header has been read.  `lzxBuf` = the
    constant 4096 the C gives `lzxd_init` here (passed down as a parameter). -/
def patchBlock (body : Body) (inFh baseFh outFh bufSize lzxBuf fuel blockMax targetSize : Nat)
    (blkCsize blkDsize blkSsize blkCrc : Nat) : M Round := do
  if blkDsize > blockMax ∨ blkDsize > targetSize ∨ blkSsize > blockMax then return .done .dataformat none
  else
    let wb := windowBits (patchWindowSize blkSsize blkDsize)
    match ← lzxdInit wb lzxBuf with
    | none => return .done .nomemory none
    | some l =>
      let sr ← setReferenceData wb baseFh blkSsize
      if sr.1 ≠ .ok then return .done sr.1 (some l)
      else
        lzxTail body ⟨wb, lzxBuf, blkDsize, blkCsize, sr.2⟩ l inFh outFh bufSize blkCrc fuel (targetSize - blkDsize)

/-- one round of `while (target_size)` of `oabd_decompress_incremental` -/
def patchRound (body : Body) (inFh baseFh outFh bufSize lzxBuf fuel blockMax targetSize : Nat) : M Round := do
  match ← read inFh patchblkSIZEOF with
  | none => return .done .read none
  | some h =>
    if h.length ≠ patchblkSIZEOF then return .done .read none
    else
      patchBlock body inFh baseFh outFh bufSize lzxBuf fuel blockMax targetSize
        (u32At h patchblk_PatchSize) (u32At h patchblk_TargetSize) (u32At h patchblk_SourceSize) (u32At h patchblk_CRC)

/-- `while (target_size)` of `oabd_decompress_incremental` -/
def patchLoop (body : Body) (inFh baseFh outFh bufSize lzxBuf fuel blockMax : Nat) :
    Nat → Nat → M (Option (Err × Option Lzx))
  | 0, _ => return none
  | n + 1, targetSize => do
    if targetSize = 0 then return some (.ok, none)
    else
      match ← patchRound body inFh baseFh outFh bufSize lzxBuf fuel blockMax targetSize with
      | .done e l => return some (e, l)
      | .hang => return none
      | .next t => patchLoop body inFh baseFh outFh bufSize lzxBuf fuel blockMax n t

/-- `oabd_decompress_incremental` from the point where the header has been accepted: `block_max` is
    raised to `patchblk_SIZEOF`, the base file and the output are opened, `buf` allocated, the block
    loop, `out:` -/
def patchRun (body : Body) (i : Inst) (inFh : Nat) (base output : String) (lzxBuf fuel blockMax targetSize : Nat) :
    M (Option Err) := do
  let blockMax := if blockMax < patchblkSIZEOF then patchblkSIZEOF else blockMax
  match ← open_ base .read with
  | none => out none none none (some inFh) none; return some .open_
  | some baseFh =>
    match ← open_ output .write with
    | none => out none none (some baseFh) (some inFh) none; return some .open_
    | some outFh =>
      match ← alloc with
      | none => out none (some outFh) (some baseFh) (some inFh) none; return some .nomemory
      | some buf =>
        match ← patchLoop body inFh baseFh outFh i.bufSize lzxBuf fuel blockMax fuel targetSize with
        | none => return none
        | some (e, l) => out l (some outFh) (some baseFh) (some inFh) (some buf); return some e

/-- `oabd_decompress_incremental(self, input, base, output)` for non-NULL `self` -/
def decompressIncremental (body : Body) (i : Inst) (input base output : String) (fuel : Nat) : M (Option Err) := do
  match ← open_ input .read with
  | none => out none none none none none; return some .open_
  | some inFh =>
    match ← read inFh patchheadSIZEOF with
    | none => out none none none (some inFh) none; return some .read
    | some hdr =>
      if hdr.length ≠ patchheadSIZEOF then out none none none (some inFh) none; return some .read
      else if u32At hdr patchhead_VersionHi ≠ 3 ∨ u32At hdr patchhead_VersionLo ≠ 2 then
        out none none none (some inFh) none; return some .signature
      else
        patchRun body i inFh base output 4096 fuel (u32At hdr patchhead_BlockMax) (u32At hdr patchhead_TargetSize)

/-! ## whole sessions: any program a client can write against one decompressor -/

/-- one client step -/
inductive Op where
  | decompress (input output : String)
  | decompressIncremental (input base output : String)
  | setParam (param value : Int)
  deriving Repr

def runOp (body : Body) (fuel : Nat) (i : Inst) : Op → M (Option Inst)
  | .decompress a b => do
    match ← decompress body i a b fuel with
    | none => return none
    | some _ => return some i
  | .decompressIncremental a b c => do
    match ← decompressIncremental body i a b c fuel with
    | none => return none
    | some _ => return some i
  | .setParam p v => return some (setParam i p v).2

def runOps (body : Body) (fuel : Nat) : List Op → Inst → M (Option Inst)
  | [], i => return some i
  | op :: ops, i => do
    match ← runOp body fuel i op with
    | none => return none
    | some i => runOps body fuel ops i

/-- create; the client's steps; destroy.  `none` = some loop ran out of fuel -/
def program (body : Body) (fuel : Nat) (ops : List Op) : M (Option Unit) := do
  match ← create with
  | none => return some ()
  | some i0 =>
    match ← runOps body fuel ops i0 with
    | none => return none
    | some _ => destroy i0; return some ()   -- the client destroys the pointer `create` gave it

end MsPack.Oab.Api
