import MsPack.IO
import MsPack.Lzx.Decoder
import MsPack.Oab.Crc32
import MsPack.Generated.Consts
/-
oabd.c on a fault-free host: `oabd_sys_read`, `oabd_sys_write`, `copy_fh`, `oabd_decompress`,
`oabd_decompress_incremental`, `oabd_param`.

Fault-free host: `open` of an existing file, `alloc` and `write` always succeed (`write` accepts
every byte), `read` delivers min(n, bytes left in the file), never a negative value.

What the model keeps of the C, statement by statement:

* order of the checks and the status each returns (`goto out` = return), and what the output file
  holds at that moment (`Out.written`; `none` = the output was never opened, i.e. not created or
  truncated);
* `copy_fh` moves `self->buf_size`-sized chunks and writes a chunk only after it has been read
  completely, so the number of bytes of a truncated stored block that reach the output depends on
  DECOMPBUF;
* the LZX decoder reads through `oabd_sys_read` (at most `available` = bytes of the block not yet
  handed to the decoder; the decoder asks for `inbuf_size` bytes at a time, hence runs ahead of
  what it has decoded) and writes through `oabd_sys_write` (CRC over the accepted bytes).
  `Lzx.decompress` returns the bytes it handed to `write` in order - also when it fails half-way -
  and the CRC of their concatenation is the CRC the C has accumulated call by call;
* after a successful `lzxd_decompress` the rest of the block (`in_ofh.available`) is skipped with
  `copy_fh(.., NULL, ..)`; a short file there is MSPACK_ERR_READ and wins over a CRC mismatch;
* the CRC of a stored block (`blk_flags == 0`) is never looked at;
* `oabd_decompress` gives `lzxd_init` `self->buf_size` as input buffer size,
  `oabd_decompress_incremental` the constant 4096 (but skips padding in `buf_size` chunks);
* the patch header's SourceSize, SourceCRC and TargetCRC are never read; nothing checks for data
  after the last block; the loop ends as soon as `target_size` reaches 0;
* `unsigned int` arithmetic wraps mod 2^32 where it can: `(blk_ssize + 32767) & ~32767` and
  `window_size += blk_dsize`.  (`target_size -= blk_dsize` cannot wrap: `blk_dsize <= target_size`.)

File aliasing (all handles of the harness's in-memory system see the file's current contents):
`outIsIn` / `outIsBase` say that the output name equals the input / base name.  Opening the output
truncates that file, so an aliased input delivers nothing any more (its handle stands at offset 16
resp. 28 of a file that can only have grown that far after blocks have been read), and an aliased
base file holds exactly the output written so far whenever reference data is fetched (always
between two blocks).
-/
namespace MsPack.Oab
open MsPack MsPack.Generated

-- oab.h
def oabhead_VersionHi : Nat := 0x0000
def oabhead_VersionLo : Nat := 0x0004
def oabhead_BlockMax : Nat := 0x0008
def oabhead_TargetSize : Nat := 0x000c
def oabblk_Flags : Nat := 0x0000
def oabblk_CompSize : Nat := 0x0004
def oabblk_UncompSize : Nat := 0x0008
def oabblk_CRC : Nat := 0x000c
def patchhead_VersionHi : Nat := 0x0000
def patchhead_VersionLo : Nat := 0x0004
def patchhead_BlockMax : Nat := 0x0008
def patchhead_SourceSize : Nat := 0x000c      -- never read by oabd.c
def patchhead_TargetSize : Nat := 0x0010
def patchhead_SourceCRC : Nat := 0x0014       -- never read by oabd.c
def patchhead_TargetCRC : Nat := 0x0018       -- never read by oabd.c
def patchblk_PatchSize : Nat := 0x0000
def patchblk_TargetSize : Nat := 0x0004
def patchblk_SourceSize : Nat := 0x0008
def patchblk_CRC : Nat := 0x000c

/-- `MSOABD_PARAM_DECOMPBUF` (mspack.h) -/
def paramDECOMPBUF : Int := 0

/-- `struct msoab_decompressor_p`: `buf_size` (`int`) -/
structure Inst where
  bufSize : Nat := 4096
  deriving Repr, DecidableEq

/-- `oabd_param(self, param, value)` for non-NULL `self`; `param`, `value` are `int`s -/
def param (self : Inst) (param value : Int) : Err × Inst :=
  if param = paramDECOMPBUF ∧ value ≥ 16 then
    -- must be at least 16 bytes (patchblk_SIZEOF, oabblk_SIZEOF)
    (.ok, { self with bufSize := value.toNat })
  else (.args, self)

/-- `struct oabd_file in_ofh`: the real input handle and the bytes of the current block that
    have not been handed out yet -/
structure InFile where
  rd        : Rd
  available : Nat
  deriving Repr

/-- `oabd_sys_read(file, buf, size)`: the request is clamped to `file->available`, the bytes
    delivered are subtracted from it -/
def sysRead : Src InFile :=
  { read := fun f size =>
      let size := if size > f.available then f.available else size
      let (got, rd) := f.rd.read size
      -- (`bytes_read < 0` does not happen on this host)
      .ok (some got, { rd := rd, available := f.available - got.length }) }

/-- what one `copy_fh` call did: status, bytes written to `outfh` in order, `infh` afterwards -/
structure CopyOut where
  err     : Err
  written : Bytes
  rd      : Rd

/-- `while (bytes_to_copy)` of `copy_fh`; `racc` = the bytes written so far, last first.
    `fuel` counts `bytes_to_copy` down (every round moves at least one byte unless `buf_size` is
    0, in which case the C spins for ever). -/
def copyFhLoop (toOut : Bool) (bufSize : Nat) : Nat → Rd → Nat → Bytes → Except Fault CopyOut
  | 0, rd, todo, racc => if todo = 0 then .ok ⟨.ok, racc.reverse, rd⟩ else .error .hang
  | fuel + 1, rd, todo, racc =>
    if todo = 0 then .ok ⟨.ok, racc.reverse, rd⟩ else
    let run := if bufSize > todo then todo else bufSize
    let (got, rd) := rd.read run
    if got.length ≠ run then .ok ⟨.read, racc.reverse, rd⟩ else
    -- `outfh && sys->write(outfh, buf, run) != run`: the write accepts everything
    copyFhLoop toOut bufSize fuel rd (todo - run) (if toOut then got.reverse ++ racc else racc)

/-- `copy_fh(sys, infh, outfh, bytes_to_copy, buf, buf_size)`; `toOut` = `outfh` is not NULL -/
def copyFh (toOut : Bool) (rd : Rd) (bytesToCopy bufSize : Nat) : Except Fault CopyOut :=
  copyFhLoop toOut bufSize bytesToCopy rd bytesToCopy []

/-- `window_bits = 17; while (window_bits < 25 && (1U << window_bits) < size) window_bits++;` -/
def windowBitsLoop : Nat → Nat → Nat → Nat
  | 0, wb, _ => wb
  | k + 1, wb, size => if wb < 25 ∧ 2 ^ wb < size then windowBitsLoop k (wb + 1) size else wb

def windowBits (size : Nat) : Nat := windowBitsLoop 8 17 size

/-- `lzxd_init(&oabd_sys, &in_ofh, &out_ofh, window_bits, 0, input_buffer_size, blk_dsize, 1)`.
    `input_buffer_size` is an `int`; lzxd_init rounds it up with `(input_buffer_size + 1) & -2`,
    which overflows for INT_MAX (`oabd_param` accepts every value ≥ 16).  That is undefined; in
    the harness build (no `-fsanitize=signed-integer-overflow`) it wraps to INT_MIN, the
    `input_buffer_size < 2` test fires and lzxd_init returns NULL.  Modelled as that wrap. -/
def lzxInit (inOfh : InFile) (wb inputBufferSize blkDsize : Nat) (fill : UInt8) : Option (Lzx.St InFile) :=
  if inputBufferSize + 1 > 2147483647 then none
  else Lzx.init inOfh wb 0 inputBufferSize blkDsize true fill

/-- what the part of a block after `lzxd_init` (and `lzxd_set_reference_data`) did: status, the
    bytes that reached the output file, the input handle afterwards -/
structure BlockOut where
  err     : Err
  written : Bytes
  rd      : Rd

/-- The tail both decompressors share verbatim:

        ret = lzxd_decompress(lzx, blk_dsize);
        if (ret != MSPACK_ERR_OK) goto out;
        lzxd_free(lzx); lzx = NULL;
        /* Consume any trailing padding bytes before the next block */
        ret = copy_fh(sys, infh, NULL, in_ofh.available, buf, self->buf_size);
        if (ret) goto out;
        if (out_ofh.crc != blk_crc) { ret = MSPACK_ERR_CHECKSUM; goto out; }

    `out_ofh.crc` starts at 0xffffffff and `oabd_sys_write` folds every accepted byte into it. -/
def lzxBlockTail (fuel bufSize : Nat) (lzx : Lzx.St InFile) (blkDsize blkCrc : Nat) :
    Except Fault BlockOut :=
  match Lzx.decompress sysRead fuel lzx blkDsize with
  | .error f => .error f
  | .ok o =>
    let crc := crc32 0xffffffff o.written
    let inOfh := o.st.src
    if o.err ≠ .ok then .ok ⟨o.err, o.written, inOfh.rd⟩ else
    match copyFh false inOfh.rd inOfh.available bufSize with
    | .error f => .error f
    | .ok c =>
      if c.err ≠ .ok then .ok ⟨c.err, o.written, c.rd⟩
      else if crc ≠ blkCrc then .ok ⟨.checksum, o.written, c.rd⟩
      else .ok ⟨.ok, o.written, c.rd⟩

/-- what one round of a `while (target_size)` loop did: returned (`goto out`) or went round again -/
inductive Round where
  | done (r : Err × Bytes)
  | next (infh : Rd) (basePos targetSize : Nat) (w : Bytes)

/-- one round of `while (target_size)` of `oabd_decompress`: block header, then the block.
    `w` = contents of the output file so far. -/
def fullBlock (fuel bufSize : Nat) (fill : UInt8) (blockMax : Nat) (infh : Rd) (targetSize : Nat) (w : Bytes) :
    Except Fault Round :=
  match infh.readExact oabblkSIZEOF with
  | none => .ok (.done (.read, w))
  | some (buf, infh) =>
    let blkFlags := u32At buf oabblk_Flags
    let blkCsize := u32At buf oabblk_CompSize
    let blkDsize := u32At buf oabblk_UncompSize
    let blkCrc := u32At buf oabblk_CRC
    if blkDsize > blockMax ∨ blkDsize > targetSize ∨ blkFlags > 1 then .ok (.done (.dataformat, w)) else
    if blkFlags = 0 then
      -- Uncompressed block
      if blkDsize ≠ blkCsize then .ok (.done (.dataformat, w)) else
      match copyFh true infh blkDsize bufSize with
      | .error f => .error f
      | .ok c =>
        if c.err ≠ .ok then .ok (.done (c.err, w ++ c.written))
        else .ok (.next c.rd 0 (targetSize - blkDsize) (w ++ c.written))
    else
      -- LZX compressed block
      let wb := windowBits blkDsize
      -- in_ofh.available = blk_csize; out_ofh.crc = 0xffffffff;
      match lzxInit ⟨infh, blkCsize⟩ wb bufSize blkDsize fill with
      | none => .ok (.done (.nomemory, w))
      | some lzx =>
        match lzxBlockTail fuel bufSize lzx blkDsize blkCrc with
        | .error f => .error f
        | .ok b =>
          if b.err ≠ .ok then .ok (.done (b.err, w ++ b.written))
          else .ok (.next b.rd 0 (targetSize - blkDsize) (w ++ b.written))

/-- `while (target_size)` of `oabd_decompress`.  `n` bounds the number of rounds (every round
    reads a 16-byte block header).  Result: the status and the output file. -/
def fullLoop (fuel bufSize : Nat) (fill : UInt8) (blockMax : Nat) :
    Nat → Rd → Nat → Bytes → Except Fault (Err × Bytes)
  | 0, _, targetSize, w => if targetSize = 0 then .ok (.ok, w) else .error .hang
  | n + 1, infh, targetSize, w =>
    if targetSize = 0 then .ok (.ok, w) else
    match fullBlock fuel bufSize fill blockMax infh targetSize w with
    | .error f => .error f
    | .ok (.done r) => .ok r
    | .ok (.next infh _ targetSize w) => fullLoop fuel bufSize fill blockMax n infh targetSize w

/-- what one API call did: the value returned, and the bytes the output handle accepted in order
    (= the output file afterwards); `none` = the output file was never opened -/
structure Out where
  err     : Err
  written : Option Bytes

/-- the loops' result as the API functions report it: status, and the output file as it stands -/
def wrapLoop : Except Fault (Err × Bytes) → Except Fault Out
  | .error f => .error f
  | .ok (e, w) => .ok ⟨e, some w⟩

/-- `oabd_decompress` from the point where the output is opened: the block loop
    (`blockMax`, `targetSize` = the header fields) -/
def fullRun (fuel bufSize : Nat) (fill : UInt8) (fileLen blockMax targetSize : Nat) (infh : Rd)
    (outIsIn : Bool) : Except Fault Out :=
  -- the output is opened (created / truncated) here
  let infh : Rd := if outIsIn then { infh with file := [] } else infh
  wrapLoop (fullLoop fuel bufSize fill blockMax (fileLen / 16 + 1) infh targetSize [])

/-- `oabd_decompress(self, input, output)` for non-NULL `self`.
    `fuel`: LZX decoder fuel (≥ 16 × input bytes + 100000); `bufSize` = `self->buf_size`;
    `fill` = contents of fresh allocations; `input` = the file `sys->open` finds (`none` = NULL). -/
def decompress (fuel bufSize : Nat) (fill : UInt8) (input : Option Bytes)
    (outIsIn : Bool := false) : Except Fault Out :=
  match input with
  | none => .ok ⟨.open_, none⟩
  | some file =>
    match (⟨file, 0⟩ : Rd).readExact oabheadSIZEOF with
    | none => .ok ⟨.read, none⟩
    | some (hdrbuf, infh) =>
      if u32At hdrbuf oabhead_VersionHi ≠ 3 ∨ u32At hdrbuf oabhead_VersionLo ≠ 1 then
        .ok ⟨.signature, none⟩
      else
        fullRun fuel bufSize fill file.length (u32At hdrbuf oabhead_BlockMax) (u32At hdrbuf oabhead_TargetSize)
          infh outIsIn

/-- `window_size = (blk_ssize + 32767) & ~32767; window_size += blk_dsize;` in `unsigned int` -/
def patchWindowSize (blkSsize blkDsize : Nat) : Nat :=
  ((blkSsize + 32767) % 4294967296 / 32768 * 32768 + blkDsize) % 4294967296

/-- one round of `while (target_size)` of `oabd_decompress_incremental`.  `basePos` = position of
    `basefh`; the base file is `base`, or the output so far if `outIsBase`. -/
def patchBlock (fuel bufSize lzxBuf : Nat) (fill : UInt8) (blockMax : Nat) (base : Bytes) (outIsBase : Bool)
    (infh : Rd) (basePos targetSize : Nat) (w : Bytes) : Except Fault Round :=
  match infh.readExact patchblkSIZEOF with
  | none => .ok (.done (.read, w))
  | some (buf, infh) =>
    let blkCsize := u32At buf patchblk_PatchSize
    let blkDsize := u32At buf patchblk_TargetSize
    let blkSsize := u32At buf patchblk_SourceSize
    let blkCrc := u32At buf patchblk_CRC
    if blkDsize > blockMax ∨ blkDsize > targetSize ∨ blkSsize > blockMax then .ok (.done (.dataformat, w)) else
    let windowSize := patchWindowSize blkSsize blkDsize
    let wb := windowBits windowSize
    -- in_ofh.available = blk_csize; out_ofh.crc = 0xffffffff;
    -- (`lzxBuf` = the constant 4096 of the C, passed down from `decompressIncremental`: with the literal here,
    --  Lean's evaluator walks into `Lzx.init` whenever a proof touches this match)
    match lzxInit ⟨infh, blkCsize⟩ wb lzxBuf blkDsize fill with
    | none => .ok (.done (.nomemory, w))
    | some lzx =>
      -- lzxd_set_reference_data(lzx, sys, basefh, blk_ssize): one read of blk_ssize bytes
      -- (not made at all if the call fails its argument checks or blk_ssize is 0; then the
      -- position does not matter / does not move)
      let basefh : Rd := ⟨if outIsBase then w else base, basePos⟩
      let rd := basefh.read blkSsize                                   -- (ref, basefh afterwards)
      let sr := Lzx.setReferenceData lzx blkSsize (some rd.1)          -- (status, lzx afterwards)
      if sr.1 ≠ .ok then .ok (.done (sr.1, w)) else
      match lzxBlockTail fuel bufSize sr.2 blkDsize blkCrc with
      | .error f => .error f
      | .ok b =>
        if b.err ≠ .ok then .ok (.done (b.err, w ++ b.written))
        else .ok (.next b.rd rd.2.pos (targetSize - blkDsize) (w ++ b.written))

/-- `while (target_size)` of `oabd_decompress_incremental` -/
def patchLoop (fuel bufSize lzxBuf : Nat) (fill : UInt8) (blockMax : Nat) (base : Bytes) (outIsBase : Bool) :
    Nat → Rd → Nat → Nat → Bytes → Except Fault (Err × Bytes)
  | 0, _, _, targetSize, w => if targetSize = 0 then .ok (.ok, w) else .error .hang
  | n + 1, infh, basePos, targetSize, w =>
    if targetSize = 0 then .ok (.ok, w) else
    match patchBlock fuel bufSize lzxBuf fill blockMax base outIsBase infh basePos targetSize w with
    | .error f => .error f
    | .ok (.done r) => .ok r
    | .ok (.next infh basePos targetSize w) =>
      patchLoop fuel bufSize lzxBuf fill blockMax base outIsBase n infh basePos targetSize w

/-- `oabd_decompress_incremental` from the point where the output is opened: the block loop -/
def incrementalLoop (fuel bufSize lzxBuf : Nat) (fill : UInt8) (fileLen blockMax targetSize : Nat) (infh : Rd)
    (base : Bytes) (outIsIn outIsBase : Bool) : Except Fault Out :=
  -- (`blockMax`, `targetSize`: the header fields, passed in as numbers — a definition whose body
  --  reads them out of a buffer and then enters the loop makes the kernel evaluate `x * 16777216`
  --  with unknown `x` when it checks the unfolding equation)
  -- We use it for reading block headers too
  let blockMax := if blockMax < patchblkSIZEOF then patchblkSIZEOF else blockMax
  -- the output is opened (created / truncated) here
  let infh : Rd := if outIsIn then { infh with file := [] } else infh
  wrapLoop (patchLoop fuel bufSize lzxBuf fill blockMax base outIsBase (fileLen / 16 + 1) infh 0 targetSize [])

/-- ... from the point where the base file is opened -/
def incrementalBase (fuel bufSize lzxBuf : Nat) (fill : UInt8) (fileLen blockMax targetSize : Nat) (infh : Rd)
    (base : Option Bytes) (outIsIn outIsBase : Bool) : Except Fault Out :=
  match base with
  | none => .ok ⟨.open_, none⟩
  | some base => incrementalLoop fuel bufSize lzxBuf fill fileLen blockMax targetSize infh base outIsIn outIsBase

/-- ... from the point where the input has been opened: header read and signature check -/
def incrementalOpened (fuel bufSize lzxBuf : Nat) (fill : UInt8) (file : Bytes) (base : Option Bytes)
    (outIsIn outIsBase : Bool) : Except Fault Out :=
  match (⟨file, 0⟩ : Rd).readExact patchheadSIZEOF with
  | none => .ok ⟨.read, none⟩
  | some (hdrbuf, infh) =>
    if u32At hdrbuf patchhead_VersionHi ≠ 3 ∨ u32At hdrbuf patchhead_VersionLo ≠ 2 then
      .ok ⟨.signature, none⟩
    else incrementalBase fuel bufSize lzxBuf fill file.length (u32At hdrbuf patchhead_BlockMax)
           (u32At hdrbuf patchhead_TargetSize) infh base outIsIn outIsBase

/-- `oabd_decompress_incremental(self, input, base, output)` for non-NULL `self` (the order of the
    C: open input, read and check the header, open the base, open the output, loop) -/
def decompressIncremental (fuel bufSize : Nat) (fill : UInt8) (input base : Option Bytes)
    (outIsIn : Bool := false) (outIsBase : Bool := false) : Except Fault Out :=
  match input with
  | none => .ok ⟨.open_, none⟩
  | some file => incrementalOpened fuel bufSize 4096 fill file base outIsIn outIsBase

end MsPack.Oab
