/-
Common vocabulary of the libmspack models.

Conventions (DESIGN.md §2.1): bytes are `UInt8`, every C integer is a `Nat` with an explicit
`% 2^k` exactly where the C wraps; input is a `List UInt8`.
-/
namespace MsPack

abbrev Bytes := List UInt8

/-- libmspack status codes (`MSPACK_ERR_*`, mspack.h); numeric values are checked against the
    header by the translator (`Generated/Consts.lean`). -/
inductive Err
  | ok | args | open_ | read | write | seek | nomemory | signature | dataformat | checksum | crunch | decrunch
  deriving DecidableEq, Repr, Inhabited

def Err.code : Err → Nat
  | .ok => 0 | .args => 1 | .open_ => 2 | .read => 3 | .write => 4 | .seek => 5 | .nomemory => 6
  | .signature => 7 | .dataformat => 8 | .checksum => 9 | .crunch => 10 | .decrunch => 11

/-- model rendering of undefined behaviour and of non-termination (DESIGN.md §2.1) -/
inductive Fault
  | oob (what : String)
  | uninit (what : String)
  | nullDeref (what : String)
  | divZero
  | shiftWidth
  | hang
  deriving Repr, DecidableEq

/-- where a decoder pulls its input from: `read s n` = `sys->read(input, buf, n)`;
    `none` = the call returned a negative value -/
structure Src (σ : Type) where
  read : σ → Nat → Except Fault (Option Bytes × σ)
  /-- what the source has told the LZX decoder about the total output length so far, if anything
      (`cabd_sys_read` calls `lzxd_set_output_length` from inside a read when it has fetched the
      folder's last block; every other source never does) -/
  lzxLength : σ → Option Nat := fun _ => none

/-- what one `decompress(state, n)` call of a stream decoder did (on a host whose `write`
    accepts everything): status returned, bytes handed to `write` in order, state afterwards -/
structure DecodeOut (τ : Type) where
  err     : Err
  written : Bytes
  st      : τ

/-- `EndGetI16` -/
def le16 (a b : UInt8) : Nat := a.toNat + b.toNat * 256
/-- `EndGetI32` -/
def le32 (a b c d : UInt8) : Nat :=
  a.toNat + b.toNat * 256 + c.toNat * 65536 + d.toNat * 16777216

/-- little-endian 16-bit word at offset `o` of a byte list, `none` if it does not fit -/
def getLE16 (bs : Bytes) (o : Nat) : Option Nat :=
  match bs.drop o with
  | a :: b :: _ => some (le16 a b)
  | _ => none

def getLE32 (bs : Bytes) (o : Nat) : Option Nat :=
  match bs.drop o with
  | a :: b :: c :: d :: _ => some (le32 a b c d)
  | _ => none

def putLE16 (n : Nat) : Bytes := [UInt8.ofNat (n % 256), UInt8.ofNat (n / 256 % 256)]
def putLE32 (n : Nat) : Bytes :=
  [UInt8.ofNat (n % 256), UInt8.ofNat (n / 256 % 256), UInt8.ofNat (n / 65536 % 256),
   UInt8.ofNat (n / 16777216 % 256)]

theorem le16_lt (a b : UInt8) : le16 a b < 65536 := by
  have := a.toNat_lt; have := b.toNat_lt; unfold le16; omega

theorem le32_lt (a b c d : UInt8) : le32 a b c d < 4294967296 := by
  have := a.toNat_lt; have := b.toNat_lt; have := c.toNat_lt; have := d.toNat_lt
  unfold le32; omega

/-- 64-bit FNV-1a, the digest both harness and driver print for outputs -/
def fnv1a (bs : Bytes) : Nat :=
  bs.foldl (fun h b => ((h ^^^ b.toNat) * 0x100000001b3) % 2^64) 0xcbf29ce484222325

end MsPack
