import MsPack.Basic
import MsPack.IO
import MsPack.Generated.Consts
/-
kwajd.c: `kwajd_read_headers` and `kwajd_open` on a fault-free host.

Header: "KWAJ" 88 F0 27 D1, u16 method, u16 data offset, u16 flags, then the optional fields in
flag order.  The 8.3 name is assembled in a 13-byte allocation through a moving pointer `fn`; the
model keeps that buffer (pre-filled with the allocator's fill byte) and the index of `fn`, and the
resulting C string is read off the buffer the way `printf("%s")` would.

Defect kept as it is: when `kwajd_read_headers` returns before `hdr->filename`/`hdr->extra` are
set to NULL (short file, bad signature) `kwajd_open` calls `kwajd_close`, which frees both
uninitialised pointers.  On the model's host this has no visible effect on the result of `open`
(NULL, error code); the harness reports the bad `free` calls separately.
-/
namespace MsPack.Kwaj
open MsPack MsPack.Generated

/-- `MSKWAJ_COMP_*`, `MSKWAJ_HDR_*` (mspack.h) -/
def compNONE : Nat := 0
def compXOR : Nat := 1
def compSZDD : Nat := 2
def compLZH : Nat := 3
def compMSZIP : Nat := 4
def hdrHASLENGTH : Nat := 0x01
def hdrHASUNKNOWN1 : Nat := 0x02
def hdrHASUNKNOWN2 : Nat := 0x04
def hdrHASFILENAME : Nat := 0x08
def hdrHASFILEEXT : Nat := 0x10
def hdrHASEXTRATEXT : Nat := 0x20

/-- `struct mskwajd_header` -/
structure Header where
  compType    : Nat
  dataOffset  : Nat
  headers     : Nat
  length      : Nat
  filename    : Option Bytes      -- the C string (without its NUL); `none` = NULL
  extra       : Option Bytes      -- `extra_length` bytes; `none` = NULL
  extraLength : Nat
  deriving Repr, DecidableEq

/-- `for (i = 0; i < len; i++) if (!(*fn++ = buf[i])) break;` — returns `(fnbuf, fn, i)` -/
def copyName (buf : Bytes) (len : Nat) : Nat → Nat → Array UInt8 → Nat → Except Fault (Array UInt8 × Nat × Nat)
  | 0, i, fnbuf, fn => .ok (fnbuf, fn, i)
  | k + 1, i, fnbuf, fn =>
    if i < len then
      let b := byteAt buf i
      if h : fn < fnbuf.size then
        let fnbuf := fnbuf.set fn b
        if b = 0 then .ok (fnbuf, fn + 1, i)
        else copyName buf len k (i + 1) fnbuf (fn + 1)
      else .error (.oob "kwajd_read_headers: *fn++")
    else .ok (fnbuf, fn, i)

/-- one of the two string fields: `maxLen` = 9 (name) or 4 (extension).
    Returns the name buffer, `fn` after the `fn--`, and the handle. -/
def readNamePart (r : Rd) (maxLen : Nat) (fnbuf : Array UInt8) (fn : Nat) :
    Except Fault (Except Err (Array UInt8 × Nat) × Rd) :=
  -- read and copy up to maxLen bytes of a null terminated string
  let (buf, r) := r.read maxLen
  let len := buf.length
  if len < 2 then .ok (.error .read, r) else
  match copyName buf len (len + 1) 0 fnbuf fn with
  | .error f => .error f
  | .ok (fnbuf, fn, i) =>
    -- if string was maxLen bytes with no null terminator, reject it
    if i = maxLen ∧ byteAt buf (maxLen - 1) ≠ 0 then .ok (.error .dataformat, r) else
    -- seek to byte after string ended in file: `seek(fh, i + 1 - len, SEEK_CUR)`
    -- (i + 1 - len ≤ 1; when negative the target r.pos + i + 1 - len is still ≥ 0 because len
    --  bytes were just read)
    let r := { r with pos := r.pos + i + 1 - len }
    -- `fn--` (remove the null terminator — or, if the file ended first, the last character)
    if fn = 0 then .error (.oob "kwajd_read_headers: fn--") else
    .ok (.ok (fnbuf, fn - 1), r)

/-- the C string starting at the buffer's first byte (`none` of the 13 bytes being NUL would be an
    over-read) -/
def cstr (buf : Array UInt8) : Except Fault Bytes :=
  let l := buf.toList
  let s := l.takeWhile (· ≠ 0)
  if s.length < l.length then .ok s else .error (.oob "kwaj filename: no terminator")

def hasFlag (headers flag : Nat) : Bool := headers &&& flag ≠ 0

/-- 4 bytes: length of unpacked file (if the flag says so) -/
def readOptLength (hdr : Header) (r : Rd) : Except Err Header × Rd :=
  if hasFlag hdr.headers hdrHASLENGTH then
    match r.readExact 4 with
    | none => (.error .read, (r.read 4).2)
    | some (b, r) => (.ok { hdr with length := u32At b 0 }, r)
  else (.ok hdr, r)

/-- 2 bytes: unknown purpose -/
def skipUnknown1 (headers : Nat) (r : Rd) : Except Err Unit × Rd :=
  if hasFlag headers hdrHASUNKNOWN1 then
    match r.readExact 2 with
    | none => (.error .read, (r.read 2).2)
    | some (_, r) => (.ok (), r)
  else (.ok (), r)

/-- 2 bytes: length of section, then [length] bytes: unknown purpose -/
def skipUnknown2 (headers : Nat) (r : Rd) : Except Err Unit × Rd :=
  if hasFlag headers hdrHASUNKNOWN2 then
    match r.readExact 2 with
    | none => (.error .read, (r.read 2).2)
    | some (b, r) => (.ok (), r.seekCur (u16At b 0))
  else (.ok (), r)

/-- filename and extension, assembled in a 13-byte allocation -/
def readNames (fill : UInt8) (hdr : Header) (r : Rd) : Except Fault (Except Err Header × Rd) :=
  if hasFlag hdr.headers (hdrHASFILENAME ||| hdrHASFILEEXT) then
    -- allocate memory for maximum length filename
    let fnbuf : Array UInt8 := Array.replicate 13 fill
    -- copy filename if present
    let a : Except Fault (Except Err (Array UInt8 × Nat) × Rd) :=
      if hasFlag hdr.headers hdrHASFILENAME then readNamePart r 9 fnbuf 0
      else .ok (.ok (fnbuf, 0), r)
    match a with
    | .error f => .error f
    | .ok (.error e, r) => .ok (.error e, r)
    | .ok (.ok (fnbuf, fn), r) =>
    -- copy extension if present
    let b : Except Fault (Except Err (Array UInt8 × Nat) × Rd) :=
      if hasFlag hdr.headers hdrHASFILEEXT then
        if h : fn < fnbuf.size then readNamePart r 4 (fnbuf.set fn 0x2E) (fn + 1)
        else .error (.oob "kwajd_read_headers: *fn++ = '.'")
      else .ok (.ok (fnbuf, fn), r)
    match b with
    | .error f => .error f
    | .ok (.error e, r) => .ok (.error e, r)
    | .ok (.ok (fnbuf, fn), r) =>
      -- `*fn = '\0'`
      if h : fn < fnbuf.size then
        match cstr (fnbuf.set fn 0) with
        | .error f => .error f
        | .ok s => .ok (.ok { hdr with filename := some s }, r)
      else .error (.oob "kwajd_read_headers: *fn = 0")
  else .ok (.ok hdr, r)

/-- 2 bytes: extra text length then [length] bytes of extra text data -/
def readExtra (hdr : Header) (r : Rd) : Except Err Header × Rd :=
  if hasFlag hdr.headers hdrHASEXTRATEXT then
    match r.readExact 2 with
    | none => (.error .read, (r.read 2).2)
    | some (b, r) =>
      let i := u16At b 0
      match r.readExact i with
      | none => (.error .read, (r.read i).2)
      | some (ex, r) => (.ok { hdr with extra := some ex, extraLength := i }, r)
  else (.ok hdr, r)

/-- `kwajd_read_headers(sys, fh, hdr)`; `fill` = contents of fresh allocations.  (The optional parts are
    separate functions so that each can be reasoned about on its own.) -/
def readHeaders (fill : UInt8) (r : Rd) : Except Fault (Except Err Header × Rd) :=
  -- read in the header
  match r.readExact kwajhSIZEOF with
  | none => .ok (.error .read, (r.read kwajhSIZEOF).2)
  | some (buf, r) =>
    -- check for "KWAJ" signature
    if u32At buf 0 ≠ 0x4A41574B ∨ u32At buf 4 ≠ 0xD127F088 then .ok (.error .signature, r) else
    -- basic header fields
    let hdr : Header :=
      { compType := u16At buf 8, dataOffset := u16At buf 10, headers := u16At buf 12,
        length := 0, filename := none, extra := none, extraLength := 0 }
    match readOptLength hdr r with
    | (.error e, r) => .ok (.error e, r)
    | (.ok hdr, r) =>
    match skipUnknown1 hdr.headers r with
    | (.error e, r) => .ok (.error e, r)
    | (.ok (), r) =>
    match skipUnknown2 hdr.headers r with
    | (.error e, r) => .ok (.error e, r)
    | (.ok (), r) =>
    match readNames fill hdr r with
    | .error f => .error f
    | .ok (.error e, r) => .ok (.error e, r)
    | .ok (.ok hdr, r) => .ok (readExtra hdr r)

/-- an open KWAJ file: `struct mskwajd_header_p` -/
structure Handle where
  hdr : Header
  rd  : Rd
  deriving Repr

/-- `kwajd_open(base, filename)`: `file` = what `sys->open` finds (`none` = NULL); `err` = the
    value of `self->error` before the call.  Returns the header (or NULL) and `self->error`
    afterwards (since b0be7a7 a successful open records MSPACK_ERR_OK; `err` is kept as a
    parameter only for the callers' convenience). -/
def open_ (fill : UInt8) (err : Err) (file : Option Bytes) : Except Fault (Option Handle × Err) :=
  match file with
  | none => .ok (none, .open_)
  | some bytes =>
    match readHeaders fill ⟨bytes, 0⟩ with
    | .error f => .error f
    | .ok (.ok hdr, r) => let _ := err; .ok (some ⟨hdr, r⟩, .ok)
    | .ok (.error e, _) => .ok (none, e)      -- kwajd_close (error := OK), then error := e

end MsPack.Kwaj
