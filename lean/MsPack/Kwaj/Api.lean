import MsPack.Sys
import MsPack.IO
import MsPack.Generated.Consts
import MsPack.Kwaj.Headers
import MsPack.Szdd.Api
/-
kwajd.c (+ lzssd.c, + the allocation skeleton of mszipd_init / mszipd_free and lzh_init / lzh_free)
over the instrumented system `Sys.M`: every `sys->alloc/free/open/close/read/write/seek` of the C is
one call of the corresponding `Sys` primitive, in the same order, with the same reactions to
failure.  This is the model the KWAJ resource theorems (C09) are about.

The two bit-level decoders (`lzh_decompress`, `mszipd_decompress_kwaj`) are *parameters* of the model
(`Decoders`): the theorems quantify over every pair of bodies that only read the input handle and
write the output handle (the frame law, `Proofs/Lemmas/KwajApiLedger.lean`).
-/
namespace MsPack.Kwaj.Api
open MsPack MsPack.Sys MsPack.Generated MsPack.Kwaj

/-- `struct mskwaj_decompressor_p`: the block it lives in and `self->error` -/
structure Inst where
  self  : Nat
  error : Err
  deriving Repr

/-- what `kwajd_read_headers` leaves in `*hdr` (on every exit path): the plain fields, and the two
    optional blocks `hdr->filename` / `hdr->extra` (`none` = NULL) with their contents -/
structure Fields where
  compType    : Nat := 0
  dataOffset  : Nat := 0
  headers     : Nat := 0
  length      : Nat := 0
  filename    : Option Nat := none
  extra       : Option Nat := none
  extraLength : Nat := 0
  name        : Bytes := []     -- the C string in `*filename`
  extraText   : Bytes := []     -- `extra_length` bytes of `*extra`
  deriving Repr

/-- `struct mskwajd_header_p`: the block it lives in, the input handle, the header -/
structure Hdr where
  mem : Nat
  fh  : Nat
  f   : Fields
  deriving Repr

/-- `lzh_decompress(lzh)` and `mszipd_decompress_kwaj(zip)` as functions of the input and the output
    handle -/
structure Decoders where
  lzh   : Nat → Nat → M Err
  mszip : Nat → Nat → M Err

/-- `mspack_create_kwaj_decompressor` -/
def create : M (Option Inst) := do
  match ← alloc with
  | none => return none
  | some a => return some ⟨a, .ok⟩

/-- `mspack_destroy_kwaj_decompressor` -/
def destroy (i : Inst) : M Unit := free (some i.self)

/-! ## `kwajd_read_headers`, one optional part at a time -/

/-- 4 bytes: length of unpacked file -/
def readOptLength (fh headers : Nat) : M (Err × Nat) := do
  if hasFlag headers hdrHASLENGTH then
    match ← read fh 4 with
    | none => return (.read, 0)
    | some b => if b.length ≠ 4 then return (.read, 0) else return (.ok, u32At b 0)
  else return (.ok, 0)

/-- 2 bytes: unknown purpose -/
def skipUnknown1 (fh headers : Nat) : M Err := do
  if hasFlag headers hdrHASUNKNOWN1 then
    match ← read fh 2 with
    | none => return .read
    | some b => if b.length ≠ 2 then return .read else return .ok
  else return .ok

/-- 2 bytes: length of section, then [length] bytes: unknown purpose (skipped by a relative seek) -/
def skipUnknown2 (fh headers : Nat) : M Err := do
  if hasFlag headers hdrHASUNKNOWN2 then
    match ← read fh 2 with
    | none => return .read
    | some b =>
      if b.length ≠ 2 then return .read
      else if ← seekCur fh (u16At b 0) then return .seek
      else return .ok
  else return .ok

/-- `for (i = 0; i < len; i++) if (!(*fn++ = buf[i])) break;` on the 13-byte name block:
    returns the block, `fn`, `i` -/
def copyName (buf : Bytes) : Nat → Nat → Array UInt8 → Nat → Array UInt8 × Nat × Nat
  | 0, i, fnbuf, fn => (fnbuf, fn, i)
  | k + 1, i, fnbuf, fn =>
    if i < buf.length then
      let b := byteAt buf i
      let fnbuf := fnbuf.setIfInBounds fn b
      if b = 0 then (fnbuf, fn + 1, i) else copyName buf k (i + 1) fnbuf (fn + 1)
    else (fnbuf, fn, i)

/-- one of the two string fields (`maxLen` = 9: name, 4: extension): read, copy, reject an
    unterminated full-length string, seek to the byte after the string, `fn--` -/
def readNamePart (fh maxLen : Nat) (st : Array UInt8 × Nat) : M (Err × (Array UInt8 × Nat)) := do
  match ← read fh maxLen with
  | none => return (.read, st)
  | some buf =>
    if buf.length < 2 then return (.read, st)
    else
      let c := copyName buf (buf.length + 1) 0 st.1 st.2
      if c.2.2 = maxLen ∧ byteAt buf (maxLen - 1) ≠ 0 then return (.dataformat, (c.1, c.2.1))
      else if ← seekCur fh ((c.2.2 : Int) + 1 - (buf.length : Int)) then return (.seek, (c.1, c.2.1))
      else return (.ok, (c.1, c.2.1 - 1))

/-- the C string at the start of the name block -/
def cstr (buf : Array UInt8) : Bytes := buf.toList.takeWhile (· ≠ 0)

/-- `if (hdr->headers & FLAG) { … one string field … }` -/
def namePartIf (present : Bool) (fh maxLen : Nat) (st : Array UInt8 × Nat) : M (Err × (Array UInt8 × Nat)) :=
  if present then readNamePart fh maxLen st else pure (.ok, st)

/-- the reads and seeks of the filename / extension part (the block is already allocated):
    name, `*fn++ = '.'` and extension, `*fn = '\0'` -/
def nameFields (fh headers : Nat) : M (Err × Bytes) := do
  let r1 ← namePartIf (hasFlag headers hdrHASFILENAME) fh 9 (Array.replicate 13 0, 0)
  if r1.1 ≠ .ok then return (r1.1, [])
  else
    let dot : Array UInt8 × Nat :=
      if hasFlag headers hdrHASFILEEXT then (r1.2.1.setIfInBounds r1.2.2 0x2E, r1.2.2 + 1) else r1.2
    let r2 ← namePartIf (hasFlag headers hdrHASFILEEXT) fh 4 dot
    if r2.1 ≠ .ok then return (r2.1, [])
    else return (.ok, cstr (r2.2.1.setIfInBounds r2.2.2 0))

/-- filename and extension: `fn = alloc(13); if (!(hdr->filename = fn)) return NOMEMORY;` and then
    the reads — `hdr->filename` is set from the allocation on, whatever happens next -/
def readNames (fh headers : Nat) : M (Err × Option Nat × Bytes) := do
  if hasFlag headers (hdrHASFILENAME ||| hdrHASFILEEXT) then
    match ← alloc with
    | none => return (.nomemory, none, [])
    | some a =>
      let r ← nameFields fh headers
      return (r.1, some a, r.2)
  else return (.ok, none, [])

/-- 2 bytes: extra text length, `hdr->extra = alloc(i+1)`, then [length] bytes of text -/
def readExtra (fh headers : Nat) : M (Err × Option Nat × Nat × Bytes) := do
  if hasFlag headers hdrHASEXTRATEXT then
    match ← read fh 2 with
    | none => return (.read, none, 0, [])
    | some b =>
      if b.length ≠ 2 then return (.read, none, 0, [])
      else
        match ← alloc with
        | none => return (.nomemory, none, 0, [])
        | some a =>
          match ← read fh (u16At b 0) with
          | none => return (.read, some a, 0, [])
          | some t =>
            if t.length ≠ u16At b 0 then return (.read, some a, 0, [])
            else return (.ok, some a, u16At b 0, t)
  else return (.ok, none, 0, [])

/-- everything after the fixed 14 bytes; the three fixed fields arrive as plain numbers -/
def readOptional (fh compType dataOffset headers : Nat) : M (Err × Fields) := do
  let f0 : Fields := { compType := compType, dataOffset := dataOffset, headers := headers }
  let r1 ← readOptLength fh headers
  if r1.1 ≠ .ok then return (r1.1, f0)
  else
    let f1 : Fields := { f0 with length := r1.2 }
    let e2 ← skipUnknown1 fh headers
    if e2 ≠ .ok then return (e2, f1)
    else
      let e3 ← skipUnknown2 fh headers
      if e3 ≠ .ok then return (e3, f1)
      else
        let r4 ← readNames fh headers
        let f2 : Fields := { f1 with filename := r4.2.1, name := r4.2.2 }
        if r4.1 ≠ .ok then return (r4.1, f2)
        else
          let r5 ← readExtra fh headers
          return (r5.1, { f2 with extra := r5.2.1, extraLength := r5.2.2.1, extraText := r5.2.2.2 })

/-- `kwajd_read_headers(sys, fh, hdr)` on a header whose `filename` and `extra` are NULL (kwajd_open
    clears them before the call): the return value and `*hdr` as the C leaves it -/
def readHeaders (fh : Nat) : M (Err × Fields) := do
  match ← read fh kwajhSIZEOF with
  | none => return (.read, {})
  | some buf =>
    if buf.length ≠ kwajhSIZEOF then return (.read, {})
    else if u32At buf 0 ≠ 0x4A41574B ∨ u32At buf 4 ≠ 0xD127F088 then return (.signature, {})
    else readOptional fh (u16At buf 8) (u16At buf 10) (u16At buf 12)

/-- `kwajd_close`: close the handle, free `filename`, `extra` and the header -/
def close_ (i : Inst) (h : Hdr) : M Inst := do
  close h.fh
  free h.f.filename
  free h.f.extra
  free (some h.mem)
  return { i with error := .ok }

/-- `kwajd_open`: open, allocate the header, read the headers; if that fails, `kwajd_close` -/
def open_ (i : Inst) (name : String) : M (Inst × Option Hdr) := do
  match ← Sys.open_ name .read with
  | none => return ({ i with error := .open_ }, none)
  | some fh =>
    match ← alloc with
    | none =>
      close fh
      return ({ i with error := .nomemory }, none)
    | some mem =>
      let r ← readHeaders fh
      if r.1 ≠ .ok then
        let i ← close_ i ⟨mem, fh, r.2⟩
        return ({ i with error := r.1 }, none)
      else return ({ i with error := .ok }, some ⟨mem, fh, r.2⟩)

/-! ## `kwajd_extract` -/

/-- `while ((read = sys->read(fh, buf, KWAJ_INPUT_SIZE)) > 0) { xor?; if (write != read) { WRITE; break; } }
    if (read < 0) READ;` — the value of `self->error` afterwards; `none` = out of fuel -/
def copyLoop (inFh outFh : Nat) (xor : Bool) : Nat → M (Option Err)
  | 0 => return none
  | fuel + 1 => do
    match ← read inFh kwajINPUT_SIZE with
    | none => return some .read
    | some chunk =>
      if chunk.isEmpty then return some .ok
      else
        match ← write outFh (if xor then chunk.map (· ^^^ 0xFF) else chunk) with
        | none => return some .write
        | some n => if n ≠ chunk.length then return some .write else copyLoop inFh outFh xor fuel

/-- methods NONE and XOR: the buffer, the copy loop, `free(buf)` -/
def stored (inFh outFh : Nat) (xor : Bool) (fuel : Nat) : M (Option Err) := do
  match ← alloc with
  | none => return some .nomemory
  | some buf =>
    match ← copyLoop inFh outFh xor fuel with
    | none => return none
    | some e =>
      free (some buf)
      return some e

/-- method LZH: `lzh_init` (one block: the stream with its input buffer), `lzh_decompress`,
    `lzh_free` (which does nothing for NULL) -/
def lzh (d : Decoders) (inFh outFh : Nat) : M Err := do
  match ← alloc with
  | none => return .nomemory
  | some s =>
    let e ← d.lzh inFh outFh
    free (some s)
    return e

/-- method MSZIP: `mszipd_init` (the stream, then its input buffer; if the second allocation fails
    the first is freed and init returns NULL), `mszipd_decompress_kwaj`, `mszipd_free` (`free(inbuf);
    free(zip)`, nothing for NULL) -/
def mszip (d : Decoders) (inFh outFh : Nat) : M Err := do
  match ← alloc with
  | none => return .nomemory
  | some z =>
    match ← alloc with
    | none =>
      free (some z)
      return .nomemory
    | some b =>
      let e ← d.mszip inFh outFh
      free (some b)
      free (some z)
      return e

/-- "decompress based on format": the new `self->error`; `none` = a loop ran out of fuel -/
def method (d : Decoders) (ct inFh outFh fuel : Nat) : M (Option Err) := do
  if ct = compNONE ∨ ct = compXOR then stored inFh outFh (ct = compXOR) fuel
  else if ct = compSZDD then Szdd.Api.lzss inFh outFh kwajINPUT_SIZE true fuel
  else if ct = compLZH then return some (← lzh d inFh outFh)
  else if ct = compMSZIP then return some (← mszip d inFh outFh)
  else return some .dataformat

/-- `kwajd_extract`; `none` = a loop ran out of fuel (not a return of the C function) -/
def extract (d : Decoders) (i : Inst) (h : Hdr) (out : String) (fuel : Nat) : M (Option (Inst × Err)) := do
  if ← seekStart h.fh h.f.dataOffset then return some ({ i with error := .seek }, .seek)
  else
    match ← Sys.open_ out .write with
    | none => return some ({ i with error := .open_ }, .open_)
    | some o =>
      match ← method d h.f.compType h.fh o fuel with
      | none => return none
      | some e =>
        close o
        return some ({ i with error := e }, e)

/-- `kwajd_decompress` = open, extract, close, `self->error = error` -/
def decompress (d : Decoders) (i : Inst) (input output : String) (fuel : Nat) : M (Option (Inst × Err)) := do
  let (i, h?) ← open_ i input
  match h? with
  | none => return some (i, i.error)
  | some h =>
    match ← extract d i h output fuel with
    | none => return none
    | some (i, e) =>
      let i ← close_ i h
      return some ({ i with error := e }, e)

/-! ## whole sessions: any program a client can write against one decompressor -/

/-- one client step: a one-shot `decompress`, or `open` followed by any number of `extract`s and
    the `close` the API asks for -/
inductive Op where
  | decompress (input output : String)
  | session (input : String) (outputs : List String)
  deriving Repr

def extracts (d : Decoders) (h : Hdr) (fuel : Nat) : List String → Inst → M (Option Inst)
  | [], i => return some i
  | o :: os, i => do
    match ← extract d i h o fuel with
    | none => return none
    | some (i, _) => extracts d h fuel os i

def runOp (d : Decoders) (fuel : Nat) (i : Inst) : Op → M (Option Inst)
  | .decompress a b => do
    match ← decompress d i a b fuel with
    | none => return none
    | some (i, _) => return some i
  | .session a outs => do
    let (i, h?) ← open_ i a
    match h? with
    | none => return some i
    | some h =>
      match ← extracts d h fuel outs i with
      | none => return none
      | some i => return some (← close_ i h)

def runOps (d : Decoders) (fuel : Nat) : List Op → Inst → M (Option Inst)
  | [], i => return some i
  | op :: ops, i => do
    match ← runOp d fuel i op with
    | none => return none
    | some i => runOps d fuel ops i

/-- create; the client's steps; destroy.  `none` = some copy / LZSS loop ran out of fuel -/
def program (d : Decoders) (fuel : Nat) (ops : List Op) : M (Option Unit) := do
  match ← create with
  | none => return some ()
  | some i0 =>
    match ← runOps d fuel ops i0 with
    | none => return none
    | some _ => destroy i0; return some ()   -- the client destroys the pointer `create` gave it

end MsPack.Kwaj.Api
