#!/usr/bin/env python3
"""Differential test of the SZDD / KWAJ / LZSS / LZH / MSZIP-KWAJ models against the real library.

    difftest.py [--harness PATH] [--driver PATH] [--seed N] [--scale K] [--keep DIR] [--only GROUP,..]

Regenerates case files (PROTOCOL.md) into a temp dir, replays each of them on the C harness
(`apiharness`, real libmspack) and on the Lean driver (`mspack-driver`, the models), projects both
outputs onto the result lines (drops MONITOR / ev / end lines and the edges= / calls= suffixes)
and diffs them case by case.  Prints one line per group and a total; exit status 1 if any case
disagrees.  Disagreeing cases are copied to --keep DIR (default /tmp/kwaj-difftest-failures).

Groups: fixtures, api, szdd, szdd-mal, lzss-prim, kwaj-hdr, kwaj-gen, kwaj-mal, lzh-types,
lzh-trunc, lzh-rand, mszip-mal.

Defaults: harness = $VERIF_HARNESS, else the newest /verif/build/harness-*/apiharness, else it is
built with `bash /verif/harness/build.sh <temp dir>`; driver = <lean dir>/.lake/build/bin/mspack-driver
(`lake build mspack-driver` first).
"""
import argparse, glob, os, random, shutil, struct, subprocess, sys, tempfile

HERE = os.path.dirname(os.path.abspath(__file__))
LEAN = os.path.normpath(os.path.join(HERE, '..', '..'))
sys.path.insert(0, '/verif/gen')
try:
    from vgen import szdd as vszdd, kwaj as vkwaj, lz as vlz, deflate as vdeflate
    HAVE_VGEN = True
except Exception as e:                                   # pragma: no cover
    print('vgen not usable (%s): generated groups are skipped' % e, file=sys.stderr)
    HAVE_VGEN = False

FILLS = ['00', '08', 'a5', 'ff']
FIXTURES = sorted(glob.glob('/repo/libmspack/test/test_files/kwajd/*.kwj'))
KSIG = b'KWAJ\x88\xf0\x27\xd1'


# ---------------------------------------------------------------- case construction
class Cases:
    def __init__(self, root):
        self.root = root; self.groups = {}; self.n = 0

    def add(self, group, lines):
        d = os.path.join(self.root, group); os.makedirs(d, exist_ok=True)
        p = os.path.join(d, '%05d.case' % self.n); self.n += 1
        with open(p, 'w') as f: f.write('\n'.join(lines) + '\n')
        self.groups.setdefault(group, []).append(p)


def hexs(b): return b.hex() if b else '-'


def one_file_case(fmt, data, fill, name='f.in', extra_ops=()):
    """open / dump / extract / decompress / close of one in-memory file"""
    return ['fill ' + fill, 'file %s %s' % (name, hexs(data)), 'new ' + fmt,
            'open i0 ' + name, 'extract i0 h0 - out1', 'dump i0 h0', 'decompress i0 %s out2' % name,
            'close i0 h0', *extra_ops, 'destroy i0']


def kwaj_file(method, payload, flags=0, opt=b'', dataoff=None):
    if dataoff is None: dataoff = 14 + len(opt)
    return KSIG + struct.pack('<HHH', method, dataoff, flags) + opt + payload


class MSB:
    def __init__(self): self.acc = 0; self.n = 0; self.out = bytearray()
    def put(self, v, k):
        for i in range(k - 1, -1, -1):
            self.acc = (self.acc << 1) | ((v >> i) & 1); self.n += 1
            if self.n == 8: self.out.append(self.acc); self.acc = 0; self.n = 0
    def done(self, pad=0):
        while self.n: self.put(pad, 1)
        return bytes(self.out)


def truncations(data, lo, rng, limit):
    """every prefix from lo on if there are at most `limit`, else a random sample"""
    cuts = list(range(lo, len(data)))
    if len(cuts) > limit: cuts = sorted(rng.sample(cuts, limit))
    return [data[:c] for c in cuts]


def flips(data, lo, rng, n):
    out = []
    for _ in range(n):
        if len(data) <= lo: break
        b = bytearray(data)
        for _ in range(rng.choice([1, 1, 2, 4])):
            i = rng.randrange(lo, len(b)); b[i] ^= 1 << rng.randrange(8)
        out.append(bytes(b))
    return out


# ---------------------------------------------------------------- groups
def g_fixtures(cs, rng, scale):
    for fill in FILLS:
        for fx in FIXTURES:
            b = os.path.basename(fx)
            cs.add('fixtures', ['fill ' + fill, 'fileref %s %s' % (b, fx), 'new kwaj', 'open i0 ' + b,
                                'extract i0 h0 - o', 'decompress i0 %s d' % b, 'close i0 h0', 'destroy i0'])
    # all fixtures on one instance: last_error carried from op to op
    lines = ['fileref %s %s' % (os.path.basename(f), f) for f in FIXTURES] + ['new kwaj']
    for f in FIXTURES:
        lines += ['open i0 ' + os.path.basename(f), 'decompress i0 %s d' % os.path.basename(f)]
    cs.add('fixtures', lines)


def g_api(cs, rng, scale):
    good_sz = vszdd.build([('L', 65), ('L', 66), ('M', 2, 5)]) if HAVE_VGEN else \
        b'SZDD\x88\xf0\x27\x33A_\x07\0\0\0' + bytes([0x03, 65, 66, 0xee, 0x02])
    good_kw = kwaj_file(1, bytes(b ^ 0xFF for b in b'hello'))
    bad = b'nonsense'
    cs.add('api', ['file g.sz_ ' + good_sz.hex(), 'file g.kwj ' + good_kw.hex(), 'file bad ' + bad.hex(), 'file empty -',
                   'new szdd', 'new kwaj', 'new szdd',
                   'open i0 missing', 'open i0 bad', 'open i0 empty', 'open i0 g.sz_', 'open i0 g.kwj',
                   'open i1 missing', 'open i1 bad', 'open i1 empty', 'open i1 g.kwj', 'open i1 g.sz_',
                   'extract i1 h0 - o', 'extract i0 h1 - o', 'extract i0 h0 - o1', 'extract i1 h1 - o2',
                   'extract i2 h0 - o3', 'extract i0 h0 0 o', 'extract i0 h7 - o', 'extract i0 h0 -',
                   'dump i0 h0', 'dump i1 h1', 'dump i1 h0', 'dump i0 h9',
                   'decompress i0 bad o4', 'open i0 g.sz_', 'decompress i1 bad o5', 'open i1 g.kwj',
                   'decompress i1 missing o5', 'decompress i1 g.kwj o5', 'decompress i0 g.sz_ o1',
                   'extract i1 h3 - o6', 'decompress i1 bad o6', 'extract i1 h3 - o6',
                   'close i0 h0', 'close i0 h0', 'extract i0 h0 - o', 'dump i0 h0', 'close i1 h0', 'close i1 h1',
                   'param i0 X 1', 'search i0 g.sz_', 'append i0 h0 h1', 'fastopen i1 g.kwj',
                   'destroy i0', 'open i0 g.sz_', 'destroy i0', 'close i2 h2', 'destroy i2', 'destroy i1',
                   'decompress i1 g.kwj o', 'new kwaj', 'decompress i3 g.kwj o9', 'destroy i3'])
    # stale last_error across a successful kwaj open; szdd open always assigns it
    trunc_kw = kwaj_file(4, b'\x05\x00CK')
    cs.add('api', ['file t.kwj ' + trunc_kw.hex(), 'file g.kwj ' + good_kw.hex(), 'file g.sz_ ' + good_sz.hex(),
                   'file t.sz_ ' + good_sz[:10].hex(), 'new kwaj', 'new szdd',
                   'open i0 t.kwj', 'extract i0 h0 - o', 'open i0 g.kwj', 'close i0 h1', 'open i0 g.kwj',
                   'open i1 t.sz_', 'open i1 g.sz_', 'decompress i1 t.sz_ o', 'open i1 g.sz_', 'decompress i0 t.kwj o2'])
    # output overwrites an earlier output; outputs of failed opens keep the old file
    cs.add('api', ['file g.kwj ' + good_kw.hex(), 'file bad ' + bad.hex(), 'new kwaj', 'decompress i0 g.kwj o',
                   'decompress i0 bad o', 'decompress i0 missing o', 'decompress i0 g.kwj bad', 'decompress i0 bad o2'])


def g_szdd(cs, rng, scale):
    for k in range(60 * scale):
        c = vszdd.random_case(rng, 'small' if k % 10 else 'medium')
        cs.add('szdd', one_file_case('szdd', c['files']['f.sz_'], rng.choice(FILLS)))


def g_szdd_mal(cs, rng, scale):
    # hand-made headers
    sigs = [vszdd.SIG_NORMAL if HAVE_VGEN else b'SZDD\x88\xf0\x27\x33', b'SZ \x88\xf0\x27\x33\xd1']
    body = bytes([0xFF]) + b'abcdefgh' + bytes([0x00, 0xee, 0xf0, 0xff, 0xff])
    files = [sigs[0] + b'A_' + struct.pack('<I', 8) + body, sigs[1] + struct.pack('<I', 8) + body,
             sigs[0] + b'B_' + struct.pack('<I', 8) + body, sigs[0] + b'A\xff\xff\xff\xff\xff' + body,
             sigs[1] + b'\xff\xff\xff\xff', sigs[0] + b'A\0\0\0\0\0', b'SZDD' + bytes(20), sigs[0][:7] + b'\x34' + bytes(12)]
    for f in files:
        cs.add('szdd-mal', one_file_case('szdd', f, 'a5'))
        for t in truncations(f, 0, rng, 40):
            cs.add('szdd-mal', one_file_case('szdd', t, 'a5'))
    for k in range(8 * scale):
        c = vszdd.random_case(random.Random(rng.random()), 'small')
        f = c['files']['f.sz_']
        for t in truncations(f, 0, rng, 25) + flips(f, 0, rng, 25):
            cs.add('szdd-mal', one_file_case('szdd', t, rng.choice(FILLS)))
    for k in range(40 * scale):
        f = rng.choice(sigs) + b'A' + rng.randbytes(rng.randrange(0, 300))
        cs.add('szdd-mal', one_file_case('szdd', f, rng.choice(FILLS)))


def g_lzss_prim(cs, rng, scale):
    lines = []
    for k in range(300 * scale):
        n = rng.choice([0, 1, 2, 3, 5, 17, 60, 300, 2047, 2048, 2049, 5000])
        if rng.random() < 0.5:
            data = rng.randbytes(n)
        else:   # mostly literal / mostly match streams
            data = bytes(rng.choice([0xFF, 0x00, 0xF0, rng.randrange(256)]) if i % 9 == 0 else rng.randrange(256) for i in range(n))
        lines.append('prim lzss %s %s' % (rng.choice(['0', '1', '2', '0', '1', '2', '3', '-1', '0x2']), hexs(data)))
        if len(lines) == 20: cs.add('lzss-prim', lines); lines = []
    if lines: cs.add('lzss-prim', lines)
    # every truncation of one stream in every mode
    toks = [('L', 97), ('L', 98), ('M', 2, 6), ('M', 4096, 3), ('L', 99), ('M', 100, 18), ('L', 1), ('L', 2), ('L', 3), ('M', 1, 4)]
    if HAVE_VGEN:
        s = vszdd.lzss_encode(toks, 4096 - 16)
        cs.add('lzss-prim', ['prim lzss %d %s' % (m, hexs(s[:c])) for m in (0, 1, 2) for c in range(len(s) + 1)])
        inv = bytes(s)  # MSHELP: control bytes inverted
        cs.add('lzss-prim', ['prim lzss 1 %s' % hexs(bytes(b ^ 0xFF for b in inv))])


def opt_fields(rng, flags, name=None, ext=None, extra=None, length=None):
    b = b''
    if flags & 1: b += struct.pack('<I', rng.choice([0, 5, 0xFFFFFFFF, 0x80000000]) if length is None else length)
    if flags & 2: b += rng.randbytes(2)
    if flags & 4:
        u = rng.randbytes(rng.choice([0, 1, 7])); b += struct.pack('<H', len(u)) + u
    if flags & 8: b += (rng.choice([b'', b'A', b'NAME', b'EIGHTCHR', b'\xe9~1']) if name is None else name) + b'\0'
    if flags & 16: b += (rng.choice([b'', b'X', b'TXT', b'\xff_']) if ext is None else ext) + b'\0'
    if flags & 32:
        e = rng.choice([b'', b'x', b'some text\0more', rng.randbytes(40)]) if extra is None else extra
        b += struct.pack('<H', len(e)) + e
    return b


def g_kwaj_hdr(cs, rng, scale):
    payload = b'payload!'
    # all 64 combinations of the defined flags (+ undefined high bits), method 0
    for flags in range(64):
        for rep in range(2 * scale):
            fl = flags | (rng.choice([0, 0x40, 0x8000, 0xFFC0]) if rep else 0)
            opt = opt_fields(rng, fl)
            slack = rng.randbytes(rng.choice([0, 0, 3]))
            f = kwaj_file(rng.choice([0, 1]), payload, fl, opt + slack)
            cs.add('kwaj-hdr', one_file_case('kwaj', f, rng.choice(FILLS)))
    # every truncation of a header with every field
    for fl, kw in [(0x3F, {}), (0x18, {}), (0x08, {'name': b'ABCDEFGH'}), (0x10, {'ext': b'XYZ'}), (0x18, {'name': b'ABCDEFGH', 'ext': b'XYZ'}),
                   (0x28, {'name': b'AB'}), (0x24, {}), (0x20, {'extra': b'0123456789'})]:
        f = kwaj_file(0, payload, fl, opt_fields(rng, fl, **kw))
        for t in truncations(f, 0, rng, 80):
            cs.add('kwaj-hdr', one_file_case('kwaj', t, rng.choice(FILLS)))
    # name / extension edge cases: unterminated, too long, NUL first, file ends inside
    names = [b'', b'\0', b'A', b'A\0', b'AB', b'ABCDEFGH', b'ABCDEFGH\0', b'ABCDEFGHI', b'ABCDEFGHI\0', b'ABCDEFGHIJKL', b'ABCDEFG', b'\0\0\0\0\0\0\0\0\0\0']
    exts = [b'', b'\0', b'X', b'X\0', b'XY', b'XYZ', b'XYZ\0', b'XYZW', b'XYZW\0', b'XYZWVU']
    for nm in names:
        for fl in (0x08, 0x18, 0x28):
            for ex in (exts if fl == 0x18 else [b'']):
                opt = nm + (ex if fl & 0x10 else b'') + (struct.pack('<H', 2) + b'ee' if fl & 0x20 else b'')
                for tail in (b'', b'tail-bytes-here'):
                    cs.add('kwaj-hdr', one_file_case('kwaj', KSIG + struct.pack('<HHH', 0, 14 + len(opt), fl) + opt + tail, rng.choice(FILLS)))
    for ex in exts:
        for tail in (b'', b'tail-bytes-here'):
            cs.add('kwaj-hdr', one_file_case('kwaj', KSIG + struct.pack('<HHH', 0, 14, 0x10) + ex + tail, rng.choice(FILLS)))
    # bad signatures, unknown methods, data offsets beyond / inside the header
    for sig in [b'KWAJ\x88\xf0\x27\xd0', b'KWAK\x88\xf0\x27\xd1', b'SZDD\x88\xf0\x27\x33', bytes(8)]:
        cs.add('kwaj-hdr', one_file_case('kwaj', sig + struct.pack('<HHH', 0, 14, 0) + payload, 'a5'))
    for m in [5, 6, 255, 256, 0xFFFF]:
        cs.add('kwaj-hdr', one_file_case('kwaj', kwaj_file(m, payload), rng.choice(FILLS)))
    for m in range(5):
        for off in [0, 1, 13, 14, 15, 22, 23, 100, 0xFFFF]:
            cs.add('kwaj-hdr', one_file_case('kwaj', kwaj_file(m, payload, dataoff=off), rng.choice(FILLS)))
    # unknown2 skipping past the end of the file
    for n in [0, 1, 8, 9, 100, 0xFFFF]:
        for fl in (0x04, 0x0C, 0x24):
            opt = struct.pack('<H', n) + b'12345678' + (b'NM\0' if fl & 8 else b'') + (struct.pack('<H', 1) + b'e' if fl & 0x20 else b'')
            cs.add('kwaj-hdr', one_file_case('kwaj', KSIG + struct.pack('<HHH', 0, 14, fl) + opt, 'a5'))


def g_kwaj_gen(cs, rng, scale):
    for method in range(5):
        for k in range((14 if method < 2 else 40) * scale):
            c = vkwaj.random_case(rng, 'small' if k % 8 else 'medium', method=method)
            cs.add('kwaj-gen', one_file_case('kwaj', c['files']['f.kwj'], rng.choice(FILLS)))
    # all four LZH length encodings on every tree
    for types in [[0] * 5, [1] * 5, [2] * 5, [3] * 5] + [[rng.randrange(4) for _ in range(5)] for _ in range(12 * scale)]:
        toks = vlz.random_tokens(rng, rng.randrange(1, 1500), 4096, 3, 17, frame=None, ref_len=4096, lit=b'ab \n\xe8')
        try:
            payload, info = vkwaj.lzh_encode(toks, rng, rng.choice(['optimal', 'random']), types, rng.choice(['max', 'random']), rng.getrandbits(4))
        except AssertionError:
            continue
        cs.add('kwaj-gen', one_file_case('kwaj', vkwaj.build(3, payload), rng.choice(FILLS)))


def g_kwaj_mal(cs, rng, scale):
    for method in (2, 3, 4):
        for k in range(10 * scale):
            c = vkwaj.random_case(random.Random(rng.random()), 'small', method=method)
            f = c['files']['f.kwj']; off = struct.unpack_from('<H', f, 10)[0]
            if len(f) > 1500: f = f[:1500] if method != 3 else f
            for t in truncations(f, min(off, len(f)), rng, 30) + flips(f, min(off, len(f) - 1), rng, 30) + flips(f, 0, rng, 6):
                cs.add('kwaj-mal', one_file_case('kwaj', t, rng.choice(FILLS)))


def lzh_stream(types, spare, lens_bits, body=b''):
    """6 type nibbles, then raw bit strings (list of (value, nbits)), then bytes"""
    w = MSB()
    for t in list(types) + [spare]: w.put(t, 4)
    for v, k in lens_bits: w.put(v, k)
    return w.done() + body


def g_lzh_types(cs, rng, scale):
    # one tree with type 4..15 (array stays as allocated), the others type 0; every fill.
    # fill 04/05/06/08 makes some of the untouched arrays complete codes.
    fills = FILLS + ['04', '05', '06', '10', '01', '09']
    for tree in range(5):
        for ty in (4, 9, 15):
            for n in (0, 2, 40):
                types = [0] * 5; types[tree] = ty
                f = kwaj_file(3, lzh_stream(types, rng.randrange(16), [], rng.randbytes(n)))
                for fill in fills:        # same file under every fill byte
                    cs.add('lzh-types', one_file_case('kwaj', f, fill))
    # two untouched trees at once, and an untouched tree after a table that ends early
    for k in range(10 * scale):
        types = [rng.choice([0, 0, 5, 12]) for _ in range(5)]
        f = kwaj_file(3, lzh_stream(types, 0, [], rng.randbytes(rng.choice([0, 30]))))
        for fill in fills: cs.add('lzh-types', one_file_case('kwaj', f, fill))
    # all sixteen types on all trees at once, random nibbles
    for k in range(60 * scale):
        types = [rng.randrange(16) for _ in range(5)]
        body = rng.randbytes(rng.choice([0, 3, 30, 200, 600]))
        cs.add('lzh-types', one_file_case('kwaj', kwaj_file(3, lzh_stream(types, rng.randrange(16), [], body)), rng.choice(fills)))
    # types 0..3 only, random table bits: mostly rejected tables, some early ends inside tables
    for k in range(120 * scale):
        types = [rng.choice([0, 0, 1, 2, 3]) for _ in range(5)]
        body = rng.randbytes(rng.choice([0, 1, 5, 20, 100, 400]))
        cs.add('lzh-types', one_file_case('kwaj', kwaj_file(3, lzh_stream(types, 0, [], body)), rng.choice(fills)))
    # valid explicit tables (type 3, all lengths = log2 n) followed by random data: decode loop on garbage
    def flat3(n): return [(n.bit_length() - 1, 4)] * n
    for k in range(40 * scale):
        types = [3, 3, 3, 3, 0]
        bits = flat3(16) + flat3(16) + flat3(32) + flat3(64)
        body = rng.randbytes(rng.choice([0, 1, 2, 3, 10, 100, 3000]))
        cs.add('lzh-types', one_file_case('kwaj', kwaj_file(3, lzh_stream(types, 0, bits, body)), rng.choice(FILLS)))
    # make_decode_table's accept rule: complete within 9 bits with surplus longer codes (accepted,
    # long codes ignored), complete only with codes of 10..15 bits, over-subscribed, incomplete
    vecs = [[1, 2, 3, 4, 5, 6, 7, 8, 9, 9, 10, 11, 12, 13, 14, 15], [1, 2, 3, 4, 5, 6, 7, 8, 9, 10, 11, 12, 13, 14, 15, 15],
            [1, 2, 3, 4, 5, 6, 7, 8, 9, 9, 9, 0, 0, 0, 0, 0], [1, 2, 3, 4, 5, 6, 7, 8, 9, 10, 11, 12, 13, 14, 15, 0],
            [1, 1, 15, 15, 0, 0, 0, 0, 0, 0, 0, 0, 0, 0, 0, 0], [2, 2, 2, 3, 3, 10, 10, 10, 10, 10, 10, 10, 10, 10, 11, 11],
            [1, 2, 3, 4, 5, 6, 7, 8, 10, 10, 10, 10, 0, 0, 0, 0], [0] * 16, [1] + [0] * 15, [1, 1] + [0] * 14]
    for v in vecs:
        for which in (0, 1):
            for k in range(2 * scale):
                types = [0] * 5; types[which] = 3
                body = rng.randbytes(rng.choice([0, 2, 60, 400]))
                cs.add('lzh-types', one_file_case('kwaj', kwaj_file(3, lzh_stream(types, 0, [(l, 4) for l in v], body)), rng.choice(FILLS)))
    # type 1 / 2 arithmetic: ++c beyond 15, c-1 below 0 (unsigned wrap, then truncation to a byte)
    for k in range(40 * scale):
        ty = rng.choice([1, 2]); bits = [(rng.choice([0, 15, rng.randrange(16)]), 4)]
        for _ in range(15):
            if ty == 1: bits.append(rng.choice([(0, 1), (2, 2), (2, 2), (3, 2)]))
            else: bits.append((rng.choice([0, 0, 1, 2, 2, 3]), 2))
            if bits[-1] == (3, 2): bits.append((rng.randrange(16), 4))
        types = [ty, 0, 0, 0, 0]
        cs.add('lzh-types', one_file_case('kwaj', kwaj_file(3, lzh_stream(types, 0, bits, rng.randbytes(rng.choice([0, 4, 50])))), rng.choice(FILLS)))


def g_lzh_trunc(cs, rng, scale):
    # every truncation of small LZH files (inside the nibbles, inside each table, inside the data)
    for k in range(6 * scale):
        types = [[3, 3, 3, 3, 3], [1, 1, 1, 1, 1], [2, 2, 2, 2, 2], [0, 0, 0, 0, 0], [1, 2, 3, 0, 1], None][k % 6]
        toks = vlz.random_tokens(rng, rng.randrange(5, 120), 4096, 3, 17, frame=None, ref_len=4096, lit=b'ab \n\xe8')
        try:
            payload, info = vkwaj.lzh_encode(toks, rng, 'optimal', types, 'random', 0)
        except AssertionError:
            continue
        f = vkwaj.build(3, payload)
        for fill in (FILLS if k < 6 else [rng.choice(FILLS)]):
            for t in truncations(f, 14, rng, 400):
                cs.add('lzh-trunc', one_file_case('kwaj', t, fill))


def g_lzh_rand(cs, rng, scale):
    for k in range(150 * scale):
        cs.add('lzh-rand', one_file_case('kwaj', kwaj_file(3, rng.randbytes(rng.choice([0, 1, 2, 3, 4, 10, 50, 300, 2100]))), rng.choice(FILLS)))
    for k in range(40 * scale):
        cs.add('lzh-rand', one_file_case('kwaj', kwaj_file(3, bytes([0, 0, 0]) + rng.randbytes(rng.choice([0, 1, 2, 7, 100, 5000]))), rng.choice(FILLS)))


def g_mszip_mal(cs, rng, scale):
    for k in range(60 * scale):
        kind = k % 6
        if kind == 0: p = rng.randbytes(rng.randrange(0, 40))
        elif kind == 1: p = struct.pack('<H', rng.randrange(1, 9)) + b'CK' + rng.randbytes(rng.randrange(0, 60))
        elif kind == 2: p = struct.pack('<H', 5) + rng.choice([b'CX', b'XK', b'C', b''])
        elif kind == 3: p = struct.pack('<H', 5) + b'CK' + b'\x01\x03\x00\xfc\xff' + b'abc' + rng.choice([b'', b'\0', b'\0\0', b'\x01\0CK', b'\x07\0CK\x03\x00', b'\x07\0CK\x03\x00\0\0'])
        elif kind == 4: p = struct.pack('<H', 5) + b'CK' + b'\x03\x00' + rng.choice([b'', b'\0\0', b'\x05', rng.randbytes(5)])
        else: p = b'\0\0' + rng.randbytes(3)
        cs.add('mszip-mal', one_file_case('kwaj', kwaj_file(4, p), rng.choice(FILLS)))


GROUPS = [('fixtures', g_fixtures, False), ('api', g_api, False), ('szdd', g_szdd, True), ('szdd-mal', g_szdd_mal, True),
          ('lzss-prim', g_lzss_prim, False), ('kwaj-hdr', g_kwaj_hdr, False), ('kwaj-gen', g_kwaj_gen, True),
          ('kwaj-mal', g_kwaj_mal, True), ('lzh-types', g_lzh_types, False), ('lzh-trunc', g_lzh_trunc, True),
          ('lzh-rand', g_lzh_rand, False), ('mszip-mal', g_mszip_mal, False)]


# ---------------------------------------------------------------- running and comparing
def project(text):
    """{case path: [result lines]}"""
    res = {}; cur = None
    for ln in text.split('\n'):
        if ln.startswith('== CASE '):
            cur = ln[8:]; res[cur] = []; continue
        if cur is None or not ln or ln.startswith('MONITOR') or ln.startswith('ev ') or ln == 'end' or ln.startswith('end '):
            continue
        for suf in (' edges=', ' calls='):
            i = ln.find(suf)
            if i >= 0: ln = ln[:i]
        res[cur].append(ln)
    return res


def run(binary, paths, batch=200):
    out = {}
    for i in range(0, len(paths), batch):
        p = subprocess.run([binary] + paths[i:i + batch], stdout=subprocess.PIPE, stderr=subprocess.PIPE,
                           env=dict(os.environ, VERIF_CASE_TIMEOUT='60'))
        out.update(project(p.stdout.decode('latin-1')))
    return out


def main():
    ap = argparse.ArgumentParser()
    ap.add_argument('--harness', default=os.environ.get('VERIF_HARNESS', ''))
    ap.add_argument('--driver', default=os.path.join(LEAN, '.lake', 'build', 'bin', 'mspack-driver'))
    ap.add_argument('--seed', type=int, default=1)
    ap.add_argument('--scale', type=int, default=1)
    ap.add_argument('--keep', default='/tmp/kwaj-difftest-failures')
    ap.add_argument('--only', default='')
    a = ap.parse_args()
    hdir = None
    if not a.harness:
        found = sorted(glob.glob('/verif/build/harness-*/apiharness'), key=os.path.getmtime)
        if found: a.harness = found[-1]
        else:
            hdir = tempfile.mkdtemp(prefix='kwajdiff-h-')
            subprocess.run(['bash', '/verif/harness/build.sh', hdir], check=True, stdout=subprocess.DEVNULL)
            a.harness = os.path.join(hdir, 'apiharness')
    for b in (a.harness, a.driver):
        if not os.path.exists(b): sys.exit('missing binary: ' + b)
    only = set(x for x in a.only.split(',') if x)
    root = tempfile.mkdtemp(prefix='kwajdiff-')
    cs = Cases(root)
    for name, fn, needs_vgen in GROUPS:
        if only and name not in only: continue
        if needs_vgen and not HAVE_VGEN: continue
        fn(cs, random.Random('%d/%s' % (a.seed, name)), a.scale)
    total = bad = ops = crashes = 0
    for name, paths in cs.groups.items():
        c = run(a.harness, paths); l = run(a.driver, paths)
        gbad = 0; gops = 0; gcr = 0
        for p in paths:
            cl = c.get(p); ll = l.get(p)
            gops += len(cl or [])
            if cl and any(x.startswith('CRASH') or x.startswith('TIMEOUT') for x in cl): gcr += 1
            if cl is None or cl != ll:
                gbad += 1
                os.makedirs(a.keep, exist_ok=True)
                d = os.path.join(a.keep, name + '-' + os.path.basename(p)); shutil.copy(p, d)
                with open(d + '.diff', 'w') as f:
                    f.write('--- harness\n' + '\n'.join(cl or ['<none>']) + '\n--- driver\n' + '\n'.join(ll or ['<none>']) + '\n')
        print('%-10s cases=%5d result-lines=%6d disagree=%d harness-crash/timeout=%d' % (name, len(paths), gops, gbad, gcr))
        total += len(paths); bad += gbad; ops += gops; crashes += gcr
    print('TOTAL      cases=%5d result-lines=%6d disagree=%d harness-crash/timeout=%d' % (total, ops, bad, crashes))
    if bad: print('failing cases and diffs kept in ' + a.keep)
    shutil.rmtree(root, ignore_errors=True)
    if hdir: shutil.rmtree(hdir, ignore_errors=True)
    sys.exit(1 if bad else 0)


if __name__ == '__main__':
    main()
