import MsPack.Kwaj.Headers
import MsPack.Kwaj.Lzh
import MsPack.Lzss.Decoder
import MsPack.Zip.Kwaj
/-
kwajd.c: `kwajd_extract` and `kwajd_decompress` on a fault-free host (seeks, opens, allocations
and writes succeed).
-/
namespace MsPack.Kwaj
open MsPack MsPack.Generated

/-- the copy loop of methods NONE and XOR:
    `while ((read = sys->read(fh, buf, KWAJ_INPUT_SIZE)) > 0) { xor?; write }` -/
def copyLoop (xor : Bool) : Nat → Rd → Array UInt8 → Except Fault (Array UInt8 × Rd)
  | 0, _, _ => .error .hang
  | fuel + 1, r, w =>
    let (chunk, r) := r.read kwajINPUT_SIZE
    if chunk.isEmpty then .ok (w, r)
    else
      let chunk := if xor then chunk.map (· ^^^ 0xFF) else chunk
      copyLoop xor fuel r (w ++ chunk.toArray)

/-- what one `extract` call did: status (= new `self->error`), bytes the output accepted, handle -/
structure ExtractOut where
  err     : Err
  written : Bytes
  h       : Handle

/-- `kwajd_extract(base, hdr, filename)` for non-NULL arguments.  `fill` = contents of fresh
    allocations (the LZH and MSZIP decoder states are not fully initialised by the C). -/
def extract (fill : UInt8) (fuel : Nat) (h : Handle) : Except Fault ExtractOut :=
  -- seek to the compressed data; open file for output; self->error = OK
  let r := h.rd.seekStart h.hdr.dataOffset
  let ct := h.hdr.compType
  if ct = compNONE ∨ ct = compXOR then
    match copyLoop (ct = compXOR) fuel r #[] with
    | .error f => .error f
    | .ok (w, r) => .ok ⟨.ok, w.toList, { h with rd := r }⟩
  else if ct = compSZDD then
    match Lzss.decompress Rd.src fuel r kwajINPUT_SIZE lzssMODE_QBASIC with
    | .error f => .error f
    | .ok o => .ok ⟨o.err, o.written, { h with rd := o.src }⟩
  else if ct = compLZH then
    match Lzh.decompress Rd.src fuel (Lzh.init r fill) with
    | .error f => .error f
    | .ok o => .ok ⟨o.err, o.written, { h with rd := o.st.src }⟩
  else if ct = compMSZIP then
    match Zip.init r kwajINPUT_SIZE false fill with
    | none => .ok ⟨.nomemory, [], { h with rd := r }⟩
    | some z =>
      match Zip.decompressKwaj Rd.src fuel z with
      | .error f => .error f
      | .ok o => .ok ⟨o.err, o.written, { h with rd := o.st.src }⟩
  else .ok ⟨.dataformat, [], { h with rd := r }⟩

/-- what `kwajd_decompress` did: return value (also the final `self->error`), and the output
    bytes if the output file was opened at all -/
structure DecompressOut where
  err     : Err
  written : Option Bytes

/-- `kwajd_decompress(base, input, output)`: open, extract, close, `self->error = error` -/
def decompress (fill : UInt8) (fuel : Nat) (err : Err) (file : Option Bytes) : Except Fault DecompressOut :=
  match open_ fill err file with
  | .error f => .error f
  | .ok (none, e) => .ok ⟨e, none⟩
  | .ok (some h, _) =>
    match extract fill fuel h with
    | .error f => .error f
    | .ok o => .ok ⟨o.err, some o.written⟩

end MsPack.Kwaj
