import MsPack.Basic
import MsPack.Huff
import MsPack.Generated.Consts
/-
kwajd.c: the LZH ("LZ + Huffman", KWAJ method 3) decoder: `lzh_init`, `lzh_decompress`,
`lzh_read_lens`, `lzh_read_input`, with kwajd.c's instance of readbits.h / readhuff.h
(`BITS_ORDER_MSB`, `READ_BYTES` = one byte at a time, own `lzh_read_input`).

Bit buffer.  The C has `bit_buffer`/`bits_left`; the model keeps the list of buffered bits, next
bit first (`INJECT_BITS(byte, 8)` appends the byte's bits, most significant first; `PEEK_BITS(n)` =
the first `n` bits read as a number).  `bits_left` = length of the list; it never exceeds 23, so
the 32-bit width of `bit_buffer` is not a limit.

Locals versus structure fields.  `i_ptr`, `i_end`, `bit_buffer`, `bits_left` exist twice: as
locals of the running function (`cur`) and as fields of `*lzh` (`saved`).  `RESTORE_BITS` copies
saved → cur, `STORE_BITS` cur → saved, `lzh_read_input` assigns `saved.iPtr/iEnd` and `READ_BYTES`
then copies those two into the locals.  This matters because `lzh_read_lens` can leave through
`READ_BITS_SAFE` — which returns `MSPACK_ERR_OK` — *without* `STORE_BITS`: the caller's
`RESTORE_BITS` then brings back the bit buffer from before the call, together with whatever
`lzh_read_input` last put into `lzh->i_ptr`/`i_end`.  The model reproduces that.

End of input.  `lzh_read_input` never fails at EOF: it sets `inbuf[0] = 0`, hands out that one
byte, and counts the made-up bits in `input_end` (8 per call).  After every `READ_BITS`/
`READ_HUFFSYM` the `_SAFE` macros test `input_end && bits_left < input_end` (some made-up bit has
been consumed) and, if so, return `MSPACK_ERR_OK` from the function they are used in.

Uninitialised memory.  `lzh_init` sets three pointers; the five `*_len` arrays, the tables and
`inbuf` are whatever `alloc` returned.  `lzh_read_lens` has no `default:` in its `switch (type)`:
for types 4..15 (and when it leaves early) the length array keeps its previous contents, on first
use the allocator's fill byte.  The model takes that byte as a parameter.
-/
namespace MsPack.Kwaj.Lzh
open MsPack MsPack.Generated

inductive Halt
  | ret (e : Err)       -- `return e;` from the function being executed
  | fault (f : Fault)
  deriving Repr, DecidableEq

/-- `i_ptr`, `i_end` (as indices into `inbuf`), `bit_buffer` + `bits_left` -/
structure BitPos where
  iPtr : Nat := 0
  iEnd : Nat := 0
  bits : List Bool := []
  deriving Repr

inductive Tbl | MATCHLEN1 | MATCHLEN2 | LITLEN | OFFSET | LITERAL
  deriving Repr, DecidableEq

/-- `MAXSYMBOLS(tbl)` -/
def Tbl.syms : Tbl → Nat
  | .MATCHLEN1 => kwajMATCHLEN1_SYMS
  | .MATCHLEN2 => kwajMATCHLEN2_SYMS
  | .LITLEN => kwajLITLEN_SYMS
  | .OFFSET => kwajOFFSET_SYMS
  | .LITERAL => kwajLITERAL_SYMS

/-- `struct kwajd_stream` (+ the locals of the running function in `cur`, and the output) -/
structure St (σ : Type) where
  src          : σ
  saved        : BitPos := {}            -- lzh->i_ptr, i_end, bit_buffer, bits_left
  cur          : BitPos := {}            -- the locals declared by DECLARE_BIT_VARS
  inputEnd     : Nat := 0                -- lzh->input_end
  matchlen1Len : Array UInt8
  matchlen2Len : Array UInt8
  litlenLen    : Array UInt8
  offsetLen    : Array UInt8
  literalLen   : Array UInt8
  inbuf        : Array UInt8
  window       : Array UInt8
  pos          : Nat := 0                -- local `pos` of lzh_decompress
  out          : Array UInt8 := #[]      -- everything `write` has accepted

def St.lens {σ} (st : St σ) : Tbl → Array UInt8
  | .MATCHLEN1 => st.matchlen1Len
  | .MATCHLEN2 => st.matchlen2Len
  | .LITLEN => st.litlenLen
  | .OFFSET => st.offsetLen
  | .LITERAL => st.literalLen

def St.setLens {σ} (st : St σ) (t : Tbl) (a : Array UInt8) : St σ :=
  match t with
  | .MATCHLEN1 => { st with matchlen1Len := a }
  | .MATCHLEN2 => { st with matchlen2Len := a }
  | .LITLEN => { st with litlenLen := a }
  | .OFFSET => { st with offsetLen := a }
  | .LITERAL => { st with literalLen := a }

/-- state survives a `throw` -/
abbrev LM (σ : Type) := ExceptT Halt (StateM (St σ))

variable {σ : Type} (S : Src σ)

/-- `lzh_init` (allocation succeeds; nothing but the three pointers is initialised) -/
def init (src : σ) (fill : UInt8) : St σ :=
  { src := src,
    matchlen1Len := Array.replicate kwajMATCHLEN1_SYMS 0,
    matchlen2Len := Array.replicate kwajMATCHLEN2_SYMS 0,
    litlenLen := Array.replicate kwajLITLEN_SYMS 0,
    offsetLen := Array.replicate kwajOFFSET_SYMS 0,
    literalLen := Array.replicate kwajLITERAL_SYMS 0,
    inbuf := Array.replicate kwajINPUT_SIZE fill,
    window := Array.replicate lzssWINDOW_SIZE fill }

def storeBits : LM σ Unit := modify fun st => { st with saved := st.cur }
def restoreBits : LM σ Unit := modify fun st => { st with cur := st.saved }

/-- `inbuf[k..] := bytes` (the destination of `sys->read`) -/
def blit (a : Array UInt8) : Nat → Bytes → Array UInt8
  | _, [] => a
  | k, b :: rest => blit (a.setIfInBounds k b) (k + 1) rest

/-- `lzh_read_input` -/
def readInput : LM σ Unit := do
  let st ← get
  if st.inputEnd ≠ 0 then
    set { st with inputEnd := st.inputEnd + 8, inbuf := st.inbuf.setIfInBounds 0 0,
                  saved := { st.saved with iPtr := 0, iEnd := 1 } }
  else
    match S.read st.src kwajINPUT_SIZE with
    | .error f => throw (.fault f)
    | .ok (none, src) => set { st with src := src }; throw (.ret .read)
    | .ok (some [], src) =>
      set { st with src := src, inputEnd := 8, inbuf := st.inbuf.setIfInBounds 0 0,
                    saved := { st.saved with iPtr := 0, iEnd := 1 } }
    | .ok (some got, src) =>
      if got.length > st.inbuf.size then throw (.fault (.oob "lzh->inbuf (read)")) else
      set { st with src := src, inbuf := blit st.inbuf 0 got,
                    saved := { st.saved with iPtr := 0, iEnd := got.length } }

def byteBitsMSB (b : UInt8) : List Bool := (List.range 8).map fun i => b.toNat.testBit (7 - i)
/-- value of a bit string, first bit most significant -/
def bitsValMSB (bs : List Bool) : Nat := bs.foldl (fun acc b => acc * 2 + (if b then 1 else 0)) 0

/-- `READ_BYTES` -/
def readBytes : LM σ Unit := do
  if (← get).cur.iPtr ≥ (← get).cur.iEnd then
    readInput S     -- an error code is returned from the enclosing function
    modify fun st => { st with cur := { st.cur with iPtr := st.saved.iPtr, iEnd := st.saved.iEnd } }
  let st ← get
  if h : st.cur.iPtr < st.inbuf.size then
    let b := st.inbuf[st.cur.iPtr]
    set { st with cur := { st.cur with iPtr := st.cur.iPtr + 1, bits := st.cur.bits ++ byteBitsMSB b } }
  else throw (.fault (.oob "lzh->inbuf (*i_ptr++)"))

/-- `ENSURE_BITS(n)`, n ≤ 16: at most two bytes are pulled -/
def ensureBits (n : Nat) : Nat → LM σ Unit
  | 0 => throw (.fault .hang)
  | fuel + 1 => do
    if (← get).cur.bits.length < n then
      readBytes S
      ensureBits n fuel
    else pure ()

def removeBits (n : Nat) : LM σ Unit :=
  modify fun st => { st with cur := { st.cur with bits := st.cur.bits.drop n } }

/-- `if (lzh->input_end && bits_left < lzh->input_end) return MSPACK_ERR_OK;` -/
def safeCheck : LM σ Unit := do
  let st ← get
  if st.inputEnd ≠ 0 ∧ st.cur.bits.length < st.inputEnd then throw (.ret .ok)

/-- `READ_BITS_SAFE(val, n)` -/
def readBitsSafe (n : Nat) : LM σ Nat := do
  ensureBits S n 4
  let v := bitsValMSB ((← get).cur.bits.take n)
  removeBits n
  safeCheck
  pure v

/-- `READ_HUFFSYM_SAFE(tbl, val)`: 16 bits are ensured, the symbol is looked up, its own length
    is removed.  `HUFF_ERROR` = `return MSPACK_ERR_DATAFORMAT`. -/
def readHuffSymSafe (c : Huff.Canon) : LM σ Nat := do
  ensureBits S 16 4
  match Huff.decode c (← get).cur.bits with
  | none => throw (.ret .dataformat)
  | some (sym, len) =>
    removeBits len
    safeCheck
    pure sym

/-- `lens[i] = c;` (`unsigned char` ← `unsigned int`) -/
def setLen (t : Tbl) (i c : Nat) : LM σ Unit := do
  let st ← get
  let a := st.lens t
  if h : i < a.size then set (st.setLens t (a.set i (UInt8.ofNat (c % 256))))
  else throw (.fault (.oob "lzh_read_lens: lens[i]"))

/-- case 0: `for (i = 0; i < numsyms; i++) lens[i] = c;` -/
def lensFill (t : Tbl) (c : Nat) : Nat → Nat → LM σ Unit
  | 0, _ => pure ()
  | k + 1, i => do setLen t i c; lensFill t c k (i + 1)

/-- case 1: the loop from `i` with `k` symbols to go; `c` = current length -/
def lensType1 (t : Tbl) : Nat → Nat → Nat → LM σ Unit
  | 0, _, _ => pure ()
  | k + 1, i, c => do
    let sel ← readBitsSafe S 1
    if sel = 0 then setLen t i c; lensType1 t k (i + 1) c
    else
      let sel ← readBitsSafe S 1
      if sel = 0 then
        let c := (c + 1) % 2^32
        setLen t i c; lensType1 t k (i + 1) c
      else
        let c ← readBitsSafe S 4
        setLen t i c; lensType1 t k (i + 1) c

/-- case 2 -/
def lensType2 (t : Tbl) : Nat → Nat → Nat → LM σ Unit
  | 0, _, _ => pure ()
  | k + 1, i, c => do
    let sel ← readBitsSafe S 2
    -- `if (sel == 3) READ_BITS_SAFE(c, 4); else c += (char) sel-1;`   (unsigned int arithmetic)
    let c ← if sel = 3 then readBitsSafe S 4 else pure ((c + sel + (2^32 - 1)) % 2^32)
    setLen t i c
    lensType2 t k (i + 1) c

/-- case 3 -/
def lensType3 (t : Tbl) : Nat → Nat → LM σ Unit
  | 0, _ => pure ()
  | k + 1, i => do
    let c ← readBitsSafe S 4
    setLen t i c
    lensType3 t k (i + 1)

/-- the body of `lzh_read_lens(lzh, type, numsyms, lens)`; a `throw (.ret e)` is its `return e` -/
def readLensBody (t : Tbl) (type : Nat) : LM σ Unit := do
  let numsyms := t.syms
  restoreBits
  if type = 0 then
    let c := if numsyms = 16 then 4 else if numsyms = 32 then 5 else if numsyms = 64 then 6
             else if numsyms = 256 then 8 else 0
    lensFill t c numsyms 0
  else if type = 1 then
    let c ← readBitsSafe S 4
    setLen t 0 c
    lensType1 S t (numsyms - 1) 1 c
  else if type = 2 then
    let c ← readBitsSafe S 4
    setLen t 0 c
    lensType2 S t (numsyms - 1) 1 c
  else if type = 3 then
    lensType3 S t numsyms 0
  else throw (.ret .dataformat)   -- `default:` (since b0cacf5): only four encodings exist
  storeBits

/-- `lzh_read_lens` as seen by its caller: the value it returned -/
def readLens (t : Tbl) (type : Nat) : LM σ Err :=
  tryCatch (do readLensBody S t type; pure Err.ok) fun
    | .ret e => pure e
    | .fault f => throw (.fault f)

/-- `BUILD_TREE(tbl, type)` -/
def buildTree (t : Tbl) (type : Nat) : LM σ Huff.Canon := do
  storeBits
  let err ← readLens S t type
  if err ≠ .ok then throw (.ret err)
  restoreBits
  match Huff.build kwajTABLEBITS (((← get).lens t).toList.map (·.toNat)) with
  | none => throw (.ret .dataformat)
  | some c => pure c

/-- `lzh->window[pos] = b; WRITE_BYTE; pos++; pos &= 4095;` -/
def emitByte (b : UInt8) : LM σ Unit := do
  let st ← get
  if h : st.pos < st.window.size then
    set { st with window := st.window.set st.pos b, out := st.out.push b, pos := (st.pos + 1) % 4096 }
  else throw (.fault (.oob "lzh->window[pos]"))

/-- `while (len-- > 0) { window[pos] = window[(pos+4096-offset) & 4095]; WRITE_BYTE; pos++ … }` -/
def copyMatch (offset : Nat) : Nat → LM σ Unit
  | 0 => pure ()
  | len + 1 => do
    let st ← get
    let from_ := (st.pos + 4096 - offset) % 4096
    if h : from_ < st.window.size then
      emitByte st.window[from_]
      copyMatch offset len
    else throw (.fault (.oob "lzh->window[(pos+4096-offset)&4095]"))

/-- `while (len-- > 0) { READ_HUFFSYM_SAFE(LITERAL, j); window[pos] = j; WRITE_BYTE; … }` -/
def literalRun (literal : Huff.Canon) : Nat → LM σ Unit
  | 0 => pure ()
  | len + 1 => do
    let j ← readHuffSymSafe S literal
    emitByte (UInt8.ofNat j)
    literalRun literal len

structure Trees where
  matchlen1 : Huff.Canon
  matchlen2 : Huff.Canon
  litlen    : Huff.Canon
  offset    : Huff.Canon
  literal   : Huff.Canon

/-- `while (!lzh->input_end) { … }`; every round consumes at least one bit -/
def mainLoop (tr : Trees) : Nat → Bool → LM σ Unit
  | 0, _ => throw (.fault .hang)
  | fuel + 1, litRun => do
    if (← get).inputEnd ≠ 0 then pure () else
    let len ← if litRun then readHuffSymSafe S tr.matchlen2 else readHuffSymSafe S tr.matchlen1
    if len > 0 then
      let len := len + 2
      let j ← readHuffSymSafe S tr.offset
      let offset := j <<< 6
      let j ← readBitsSafe S 6
      let offset := offset ||| j
      -- copy match as output and into the ring buffer
      copyMatch offset len
      mainLoop tr fuel false        -- not the end of a literal run
    else
      let len := (← readHuffSymSafe S tr.litlen) + 1
      literalRun S tr.literal len
      mainLoop tr fuel (len ≠ 32)   -- `lit_run = (len == 32) ? 0 : 1`

/-- six 4-bit reads: `for (i = 0; i < 6; i++) READ_BITS_SAFE(types[i], 4);` -/
def readTypes : Nat → List Nat → LM σ (List Nat)
  | 0, acc => pure acc.reverse
  | k + 1, acc => do
    let t ← readBitsSafe S 4
    readTypes k (t :: acc)

/-- the body of `lzh_decompress` -/
def decompressBody (fuel : Nat) : LM σ Unit := do
  -- INIT_BITS; RESTORE_BITS; memset(window, LZSS_WINDOW_FILL, LZSS_WINDOW_SIZE)
  modify fun st => { st with saved := {}, inputEnd := 0 }
  restoreBits
  modify fun st => { st with window := Array.replicate lzssWINDOW_SIZE (UInt8.ofNat lzssWINDOW_FILL), pos := 0 }
  -- read 6 encoding types (for byte alignment) but only 5 are needed
  let types ← readTypes S 6 []
  -- read huffman table symbol lengths and build huffman trees
  let m1 ← buildTree S .MATCHLEN1 (types.getD 0 0)
  let m2 ← buildTree S .MATCHLEN2 (types.getD 1 0)
  let ll ← buildTree S .LITLEN (types.getD 2 0)
  let of ← buildTree S .OFFSET (types.getD 3 0)
  let li ← buildTree S .LITERAL (types.getD 4 0)
  mainLoop S ⟨m1, m2, ll, of, li⟩ fuel false

structure Out (σ : Type) where
  err     : Err
  written : Bytes
  st      : St σ

/-- `lzh_decompress(lzh)` on a host whose `write` never fails -/
def decompress (fuel : Nat) (st : St σ) : Except Fault (Out σ) :=
  match (decompressBody S fuel).run.run st with
  | (.error (.fault f), _) => .error f
  | (.error (.ret e), st) => .ok ⟨e, st.out.toList, st⟩
  | (.ok (), st) => .ok ⟨.ok, st.out.toList, st⟩

end MsPack.Kwaj.Lzh
