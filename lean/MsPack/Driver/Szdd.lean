import MsPack.Driver.Core
/-
Driver ops of the szdd format — STUB: claims nothing, so every szdd op prints `unsupported`.
-/
namespace MsPack.Driver.Szdd
open MsPack MsPack.Driver

structure State where
  insts : List Nat := []      -- instance numbers that are szdd decompressors

/-- `true` = op handled (result lines emitted) -/
def handle (toks : List String) : HM State Bool := do
  match toks with
  | ["new", "szdd"] | ["new", "szdd", "default"] =>
    let i ← freshInst
    modifySt fun s => { s with insts := i :: s.insts }
    emit s!"new szdd i{i}"
    return true
  | _ => return false

end MsPack.Driver.Szdd
