import MsPack.Driver.KwajSys
import MsPack.Driver.Oab
import MsPack.Oab.Api
/-
`mspack-driver --sys`: the oab ops replayed on the *effect model* (`MsPack/Oab/Api.lean` over the
instrumented system `MsPack/Sys.lean`), sharing the world (files, fault plan, call counters, ledger)
with the szdd and kwaj ops of `SzddSys` / `KwajSys`.  Same result lines as the pure oab handler
(`MsPack/Driver/Oab.lean`).  Files whose blocks are all stored run on the model; as soon as a call
would enter the LZX decoder (a parameter of the effect model) it is answered `unsupported` and the
world is left as it was before the call.
-/
namespace MsPack.Driver.OabSys
open MsPack MsPack.Driver MsPack.Oab

structure State where
  base  : KwajSys.State := {}                      -- the world, the szdd and the kwaj instances
  insts : List (Nat × Option Api.Inst) := []       -- none = destroyed

abbrev M := HM State

def world (s : State) : Sys.World := s.base.base.world

def setWorld (s : State) (w : Sys.World) : State :=
  { s with base := { s.base with base := { s.base.base with world := w } } }

def runSys {α} (x : Sys.M α) : M α := do
  let s ← getSt
  let (a, w) := x (world s)
  setSt (setWorld s w)
  return a

def setInst (i : Nat) (v : Option Api.Inst) : M Unit :=
  modifySt fun s => { s with insts := (i, v) :: s.insts.filter (·.1 ≠ i) }

def digestOf (name : String) : M String := do
  match (world (← getSt)).files.lookup name with
  | some b => return outDigest b
  | none => return "-"

/-- stands in for `lzxd_decompress`: MSPACK_ERR_CRUNCH is a status no path of oabd.c produces, so a
    call that returns it has entered the decoder -/
def sentinelBody : Api.Body := fun a _ _ => pure ⟨.crunch, a.available, 0⟩

def addFault (s : State) (kind k : String) : State := { s with base := KwajSys.addFault s.base kind k }
def addFile (s : State) (name : String) (b : Bytes) : State := { s with base := KwajSys.addFile s.base name b }
def endLine (s : State) : String := KwajSys.endLine s.base

/-- run one of the two API calls on the current world; `nOpens` = how many `open`s a call makes that
    gets as far as the output -/
def call (op outName : String) (nOpens : Nat) (x : Sys.M (Option Err)) : M Unit := do
  let s ← getSt
  let w := world s
  let (r, w') := x w
  match r with
  | none => emit s!"{op} FAULT hang"
  | some e =>
    if e = .crunch then emit s!"{op} unsupported"
    else
      setSt (setWorld s w')
      -- the output was opened iff the last open of the call was made and did not fail
      let opened := w'.counts.open_ = w.counts.open_ + nOpens ∧ e ≠ .open_
      let written := if opened then ((w'.files.lookup outName).getD []).length else 0
      emit s!"{op} st={e.code} err=- written={written} out={← digestOf outName}"

def handle (toks : List String) : M Bool := do
  match toks with
  | ["new", "oab"] | ["new", "oab", "default"] =>
    match ← runSys Api.create with
    | some inst =>
      let i ← freshInst
      setInst i (some inst)
      emit s!"new oab i{i}"
    | none => emit "new oab NULL"
    return true
  | op :: itok :: rest =>
    if op = "new" || op = "prim" then return false
    let some i := parseInst itok | return false
    let some inst? := (← getSt).insts.lookup i | return false
    match Oab.arity op with
    | none => emit s!"{op} unsupported"; return true
    | some n =>
    if rest.length ≠ n then emit s!"{op} bad-args"; return true
    let some inst := inst? | emit s!"{op} dead-handle"; return true
    match op, rest with
    | "param", [name, value] =>
      let some v := Oab.parseNum value | emit "param bad-args"; return true
      let id : Option Int := if name = "DECOMPBUF" then some MsPack.Oab.paramDECOMPBUF else Oab.parseNum name
      let some id := id | emit "param bad-args"; return true
      let (e, inst') := Api.setParam inst (Oab.toInt32 id) (Oab.toInt32 v)
      setInst i (some inst')
      emit s!"param st={e.code}"
    | "decompress", [inName, outName] =>
      let fuel := SzddSys.fuelFor (world (← getSt)) inName
      call op outName 2 (Api.decompress sentinelBody inst inName outName fuel)
    | "decompressinc", [inName, baseName, outName] =>
      let fuel := SzddSys.fuelFor (world (← getSt)) inName
      call op outName 3 (Api.decompressIncremental sentinelBody inst inName baseName outName fuel)
    | "destroy", [] =>
      runSys (Api.destroy inst)
      setInst i none
      emit "destroy ok"
    | _, _ => emit s!"{op} unsupported"
    return true
  | _ => return false

end MsPack.Driver.OabSys
