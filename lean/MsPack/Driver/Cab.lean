import MsPack.Driver.Core
import MsPack.Cab.Set
import MsPack.Cab.Find
/-
Driver ops of the cab format: new/param/open/search/dump/append/prepend/extract/close/destroy.
-/
namespace MsPack.Driver.Cab
open MsPack MsPack.Driver MsPack.Cab

structure Inst where
  searchbuf : Nat := 32768
  fixMszip  : Nat := 0
  decompbuf : Nat := 4096
  salvage   : Nat := 0
  error     : Nat := 0
  d         : Option DState := none

inductive Handle
  | cab (cid : CabId) (searchNext : Option Nat)
  | dead

structure State where
  insts   : List (Nat × Option Inst) := []     -- none = destroyed
  handles : List (Nat × Handle) := []
  heap    : Heap := {}

abbrev M := HM State

def getInst (tok : String) : M (Option (Nat × Inst)) := do
  match parseInst tok with
  | some i => match (← getSt).insts.lookup i with
    | some (some ci) => return some (i, ci)
    | _ => return none
  | none => return none

/-- is this instance number a cab instance at all (alive or destroyed)? -/
def ownsInst (tok : String) : M Bool := do
  match parseInst tok with
  | some i => return ((← getSt).insts.lookup i).isSome
  | none => return false

def setInst (i : Nat) (ci : Inst) : M Unit :=
  modifySt fun s => { s with insts := (i, some ci) :: s.insts.filter (·.1 ≠ i) }

def getHandle (tok : String) : M (Option (Nat × CabId × Option Nat)) := do
  match parseHandle tok with
  | some k => match (← getSt).handles.lookup k with
    | some (.cab cid nxt) => return some (k, cid, nxt)
    | _ => return none
  | none => return none

def dumpOne (k : Nat) (cid : CabId) : M Unit := do
  let h := (← getSt).heap
  match h.cab? cid with
  | none => emit s!"cab h{k} dead"
  | some n =>
    let c := n.hdr
    emit s!"cab h{k} off={c.baseOffset} len={c.length} set={c.setId} idx={c.setIndex} hres={c.headerResv} flags=0x{natHex c.flags} prevname={optHex c.prevname} nextname={optHex c.nextname} previnfo={optHex c.previnfo} nextinfo={optHex c.nextinfo} nfolders={n.folders.length} nfiles={n.files.length}"
    let folderLines := (n.folders.zip (List.range n.folders.length)).map fun (fid, j) =>
      match h.folder? fid with
      | some f => s!"folder {j} comp=0x{natHex f.compType} nblocks={f.numBlocks}"
      | none => s!"folder {j} dangling"
    for l in folderLines do emit l
    let fileLines := (n.files.zip (List.range n.files.length)).map fun (fid, j) =>
      match h.file? fid with
      | some fn =>
        let f := fn.data
        let fj : String := match fn.folder with
          | some fo => match n.folders.idxOf? fo with
            | some i => toString i
            | none => "-1"
          | none => "-1"
        s!"file {j} name={optHex (some f.name)} len={f.length} attr=0x{natHex f.attribs} date={f.date_y}/{f.date_m}/{f.date_d} time={f.time_h}:{f.time_m}:{f.time_s} folder={fj} off={f.offset}"
      | none => s!"file {j} dangling"
    for l in fileLines do emit l

/-- the handles reachable through the `search()` result chain from `k` (bounded walk) -/
def chainOf (st : State) : Nat → Option Nat → List (Nat × CabId)
  | 0, _ => []
  | _, none => []
  | fuel + 1, some k =>
    match st.handles.lookup k with
    | some (.cab cid nxt) => (k, cid) :: chainOf st fuel nxt
    | _ => []

def dumpChain (k : Nat) : M Unit := do
  let st ← getSt
  for (hk, cid) in chainOf st (st.handles.length + 1) (some k) do dumpOne hk cid

def doMerge (op i ha hb : String) : M Unit := do
  match ← getInst i, ← getHandle ha, ← getHandle hb with
  | some (i, ci), some (_, ca, _), some (_, cb, _) =>
    let (l, r) := if op = "append" then (ca, cb) else (cb, ca)
    let (e, heap) := (← getSt).heap.merge (some l) (some r)
    modifySt fun s => { s with heap := heap }
    setInst i { ci with error := e.code }
    emit s!"{op} st={e.code} err={e.code}"
  | _, _, _ => emit s!"{op} unsupported"

def handle (toks : List String) : M Bool := do
  match toks with
  | ["new", "cab"] | ["new", "cab", "default"] =>
    let i ← freshInst
    modifySt fun s => { s with insts := (i, some {}) :: s.insts }
    emit s!"new cab i{i}"
    return true
  | op :: itok :: rest =>
    if !(← ownsInst itok) then return false
    match op, rest with
    | "param", [name, v] =>
      match ← getInst itok, v.toInt? with
      | some (i, ci), some v =>
        let small := v < 4
        let (ci', st) : Inst × Nat := match name with
          | "SEARCHBUF" => if small then (ci, 1) else ({ ci with searchbuf := v.toNat }, 0)
          | "DECOMPBUF" => if small then (ci, 1) else ({ ci with decompbuf := v.toNat }, 0)
          | "FIXMSZIP" => ({ ci with fixMszip := if v = 0 then 0 else 1 }, 0)
          | "SALVAGE" => ({ ci with salvage := if v = 0 then 0 else 1 }, 0)
          | _ => (ci, 1)
        setInst i ci'
        emit s!"param st={st}"
      | _, _ => emit "param unsupported"
      return true
    | "open", [name] =>
      match ← getInst itok with
      | some (i, ci) =>
        match ← lookupFile name with
        | none => setInst i { ci with error := 2 }; emit "open NULL st=2 err=2"
        | some bytes =>
          match readHeaders bytes 0 (ci.salvage ≠ 0) with
          | .ok c =>
            setInst i { ci with error := 0 }
            let k ← freshHandle
            let (heap, cid) := (← getSt).heap.addCabinet name c
            modifySt fun s => { s with heap := heap, handles := (k, .cab cid none) :: s.handles }
            emit s!"open h{k} st=0 err=0"
            dumpOne k cid
          | .error e => setInst i { ci with error := e.code }; emit s!"open NULL st={e.code} err={e.code}"
      | none => emit "open unsupported"
      return true
    | "search", [name] =>
      match ← getInst itok with
      | some (i, ci) =>
        match ← lookupFile name with
        | none => setInst i { ci with error := 2 }; emit "search NULL st=2 err=2"
        | some bytes =>
          let (cabs, fin) := MsPack.Cab.find ci.searchbuf (ci.salvage ≠ 0) bytes
          if fin = FindEnd.hang then emit "search HANG" else
          setInst i { ci with error := 0 }
          if cabs.isEmpty then emit "search NULL st=0 err=0" else
          let k := (← getShared).nextHandle
          let n := cabs.length
          for (c, j) in cabs.zip (List.range n) do
            let hk ← freshHandle
            let (heap, cid) := (← getSt).heap.addCabinet name c
            let nxt := if j + 1 < n then some (hk + 1) else none
            modifySt fun s => { s with heap := heap, handles := (hk, .cab cid nxt) :: s.handles }
          emit s!"search h{k}..h{k + n - 1} st=0 err=0"
          dumpChain k
      | none => emit "search unsupported"
      return true
    | "dump", [hk] =>
      match ← getHandle hk with
      | some (k, _, _) => emit s!"dump h{k}"; dumpChain k
      | none => emit "dump unsupported"
      return true
    | "append", [ha, hb] => doMerge "append" itok ha hb; return true
    | "prepend", [ha, hb] => doMerge "prepend" itok ha hb; return true
    | "close", [hk] =>
      match ← getInst itok, ← getHandle hk with
      | some (i, ci), some (k, _, _) =>
        -- the handle's cabinet and every cabinet after it in its search() result chain
        let st ← getSt
        let chain := chainOf st (st.handles.length + 1) (some k)
        let mut ci := { ci with error := 0 }
        for (_, cid) in chain do
          let heap := (← getSt).heap
          match heap.cab? cid with
          | some n =>
            -- a cached decoder on one of the freed folders is dropped
            match ci.d with
            | some ds => if n.folders.contains ds.folder then ci := { ci with d := none }
            | none => pure ()
            let gone := cid :: (heap.prevChain cid ++ heap.nextChain cid)
            let kill (h : Nat × Handle) : Nat × Handle := match h.2 with
              | .cab c _ => if gone.contains c then (h.1, .dead) else h
              | .dead => h
            modifySt fun s => { s with heap := heap.close cid, handles := s.handles.map kill }
          | none => pure ()
        setInst i ci
        emit "close ok"
      | _, _ => emit "close unsupported"
      return true
    | "extract", [hk, idx, outName] =>
      match ← getInst itok, ← getHandle hk, idx.toNat? with
      | some (i, ci), some (_, cid, _), some idx =>
        let st ← getSt
        let sh ← getShared
        match (st.heap.cab? cid).bind (fun n => n.files[idx]?) with
        | none => emit "extract bad-index"
        | some fid =>
          match st.heap.member fid with
          | none => emit "extract bad-index"
          | some m =>
            let p : Params := { bufSize := ci.decompbuf, fixMszip := ci.fixMszip ≠ 0, salvage := ci.salvage ≠ 0, fill := sh.fill }
            match extract sh.files p ci.d m with
            | .unsupported => emit "extract unsupported"
            | .fault f => emit s!"extract FAULT {reprStr f}"
            | .done e written d =>
              setInst i { ci with error := e.code, d := d }
              match written with
              | some w => putFile outName w
              | none => pure ()
              emit s!"extract st={e.code} err={e.code} written={(written.getD []).length} declared={m.length} out={← fileDigest outName}"
      | _, _, _ => emit "extract unsupported"
      return true
    | "destroy", [] =>
      match ← getInst itok with
      | some (i, _) => modifySt fun s => { s with insts := (i, none) :: s.insts.filter (·.1 ≠ i) }; emit "destroy ok"
      | none => emit "destroy dead-handle"
      return true
    | _, _ => emit s!"{op} unsupported"; return true
  | _ => return false

end MsPack.Driver.Cab
