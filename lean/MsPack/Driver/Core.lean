import MsPack.Basic
import MsPack.Driver.Util
/-
Shared plumbing of the line-protocol driver.  Every format has its own module
`MsPack/Driver/<Fmt>.lean` with a `State` and a `handle : List String → HM State Bool`
(`true` = the op was this format's and has been answered).  Instance numbers `iN` and handle
numbers `hK` are case-wide, so their counters live in `Shared`; each format records which numbers
are its own.
-/
namespace MsPack.Driver
open MsPack

structure Shared where
  files      : List (String × Bytes) := []   -- in-memory files, inputs and outputs
  fill       : UInt8 := 0xa5                 -- what fresh allocations contain
  nextInst   : Nat := 0
  nextHandle : Nat := 0

structure HState (σ : Type) where
  shared : Shared
  st     : σ
  lines  : Array String := #[]

abbrev HM (σ : Type) := StateM (HState σ)

def emit {σ} (s : String) : HM σ Unit := modify fun h => { h with lines := h.lines.push s }
def getSt {σ} : HM σ σ := do return (← get).st
def setSt {σ} (s : σ) : HM σ Unit := modify fun h => { h with st := s }
def modifySt {σ} (f : σ → σ) : HM σ Unit := modify fun h => { h with st := f h.st }
def getShared {σ} : HM σ Shared := do return (← get).shared
def lookupFile {σ} (name : String) : HM σ (Option Bytes) := do return (← get).shared.files.lookup name
/-- create / truncate+write an in-memory output file -/
def putFile {σ} (name : String) (b : Bytes) : HM σ Unit :=
  modify fun h => { h with shared := { h.shared with files := (name, b) :: h.shared.files.filter (·.1 ≠ name) } }
def freshInst {σ} : HM σ Nat := do
  let n := (← get).shared.nextInst
  modify fun h => { h with shared := { h.shared with nextInst := n + 1 } }
  return n
def freshHandle {σ} : HM σ Nat := do
  let n := (← get).shared.nextHandle
  modify fun h => { h with shared := { h.shared with nextHandle := n + 1 } }
  return n

def parseInst (s : String) : Option Nat := if s.startsWith "i" then (s.drop 1).toString.toNat? else none
def parseHandle (s : String) : Option Nat := if s.startsWith "h" then (s.drop 1).toString.toNat? else none

/-- digest of the output file `name` as it stands (`-` if it does not exist) -/
def fileDigest {σ} (name : String) : HM σ String := do
  match ← lookupFile name with
  | some b => return outDigest b
  | none => return "-"

end MsPack.Driver
