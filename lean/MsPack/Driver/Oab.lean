import MsPack.Driver.Core
/-
Driver ops of the oab format — STUB: claims nothing, so every oab op prints `unsupported`.
-/
namespace MsPack.Driver.Oab
open MsPack MsPack.Driver

structure State where
  insts : List Nat := []      -- instance numbers that are oab decompressors

/-- `true` = op handled (result lines emitted) -/
def handle (toks : List String) : HM State Bool := do
  match toks with
  | ["new", "oab"] | ["new", "oab", "default"] =>
    let i ← freshInst
    modifySt fun s => { s with insts := i :: s.insts }
    emit s!"new oab i{i}"
    return true
  | _ => return false

end MsPack.Driver.Oab
