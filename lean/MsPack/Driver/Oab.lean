import MsPack.Driver.Core
import MsPack.Oab.Decompress
/-
Driver ops of the oab format: new / param / decompress / decompressinc / destroy.
Result lines as printed by the C harness (harness/README.md, ops.c): the interface has no
`last_error`, so `err=-`; ops the harness refuses for an oab instance answer `<op> unsupported`
after the same argument-count and liveness checks (`bad-args`, `dead-handle`).
-/
namespace MsPack.Driver.Oab
open MsPack MsPack.Driver

/-- one `new oab` instance: `struct msoab_decompressor_p`, and whether it runs on the default
    (real file) system, for which the harness cannot count writes (`written=-`) -/
structure Instance where
  self      : MsPack.Oab.Inst := {}
  isDefault : Bool := false

structure State where
  insts : List (Nat × Option Instance) := []      -- none = destroyed

abbrev M := HM State

def fuelFor (n : Nat) : Nat := 16 * n + 100000

def setInst (i : Nat) (x : Option Instance) : M Unit :=
  modifySt fun s => { s with insts := (i, x) :: s.insts.filter (·.1 ≠ i) }

/-- the harness's `parse_num`: optional `-`, then decimal or `0x` hex -/
def parseNum (s : String) : Option Int :=
  if s.startsWith "-" then (parseNat (s.drop 1).toString).map fun n => -(n : Int)
  else (parseNat s).map fun n => (n : Int)

/-- `(int) v` -/
def toInt32 (v : Int) : Int :=
  let m := v % 4294967296
  if m < 2147483648 then m else m - 4294967296

/-- names handed to a default-system instance must be plain file names (`name_ok_for_disk`) -/
def nameOkForDisk (s : String) : Bool :=
  !s.isEmpty && !s.toList.contains '/' && s ≠ "." && s ≠ ".."

/-- number of tokens after `op iN` the harness insists on, for the op words it knows -/
def arity (op : String) : Option Nat :=
  match op with
  | "extract" | "decompressinc" | "ffextract" => some 3
  | "open" | "fastopen" | "search" | "close" | "dump" => some 1
  | "param" | "append" | "prepend" | "decompress" | "fastfind" => some 2
  | "destroy" => some 0
  | _ => none

def tail (op : String) (o : MsPack.Oab.Out) (inst : Instance) (outName : String) : M Unit := do
  match o.written with
  | some w => putFile outName w
  | none => pure ()
  let written := if inst.isDefault then "-" else toString (o.written.getD []).length
  emit s!"{op} st={o.err.code} err=- written={written} out={← fileDigest outName}"

def handle (toks : List String) : HM State Bool := do
  match toks with
  | ["new", "oab"] | ["new", "oab", "default"] =>
    let i ← freshInst
    setInst i (some { isDefault := toks.length = 3 })
    emit s!"new oab i{i}"
    return true
  | op :: itok :: rest =>
    let some i := parseInst itok | return false
    let some inst := (← getSt).insts.lookup i | return false
    match arity op with
    | none => emit s!"{op} unsupported"; return true
    | some n =>
    if rest.length ≠ n then emit s!"{op} bad-args"; return true
    let some inst := inst | emit s!"{op} dead-handle"; return true
    let fill := (← getShared).fill
    match op, rest with
    | "param", [name, value] =>
      let some v := parseNum value | emit "param bad-args"; return true
      let id : Option Int := if name = "DECOMPBUF" then some MsPack.Oab.paramDECOMPBUF else parseNum name
      let some id := id | emit "param bad-args"; return true
      let (e, self) := MsPack.Oab.param inst.self (toInt32 id) (toInt32 v)
      setInst i (some { inst with self := self })
      emit s!"param st={e.code}"
    | "decompress", [inName, outName] =>
      if inst.isDefault ∧ !(nameOkForDisk inName ∧ nameOkForDisk outName) then
        emit "decompress bad-name"; return true
      let file ← lookupFile inName
      match MsPack.Oab.decompress (fuelFor (file.getD []).length) inst.self.bufSize fill file
              (outIsIn := outName = inName) with
      | .error f => emit s!"decompress FAULT {reprStr f}"
      | .ok o => tail op o inst outName
    | "decompressinc", [inName, baseName, outName] =>
      if inst.isDefault ∧ !(nameOkForDisk inName ∧ nameOkForDisk baseName ∧ nameOkForDisk outName) then
        emit "decompressinc bad-name"; return true
      let file ← lookupFile inName
      let base ← lookupFile baseName
      match MsPack.Oab.decompressIncremental (fuelFor (file.getD []).length) inst.self.bufSize fill file base
              (outIsIn := outName = inName) (outIsBase := outName = baseName) with
      | .error f => emit s!"decompressinc FAULT {reprStr f}"
      | .ok o => tail op o inst outName
    | "destroy", [] =>
      setInst i none
      emit "destroy ok"
    | _, _ => emit s!"{op} unsupported"
    return true
  | _ => return false

end MsPack.Driver.Oab
