import MsPack.Basic
namespace MsPack.Driver
open MsPack

def hexDigit (c : Char) : Option Nat :=
  if '0' ≤ c ∧ c ≤ '9' then some (c.toNat - '0'.toNat)
  else if 'a' ≤ c ∧ c ≤ 'f' then some (c.toNat - 'a'.toNat + 10)
  else if 'A' ≤ c ∧ c ≤ 'F' then some (c.toNat - 'A'.toNat + 10)
  else none

def parseHexAux : List Char → Bytes → Option Bytes
  | [], acc => some acc.reverse
  | a :: b :: rest, acc =>
    match hexDigit a, hexDigit b with
    | some x, some y => parseHexAux rest (UInt8.ofNat (x * 16 + y) :: acc)
    | _, _ => none
  | _, _ => none

/-- `-` and `=` are the empty string -/
def parseHex (s : String) : Option Bytes :=
  if s = "-" ∨ s = "=" then some [] else parseHexAux s.toList []

def hexChars : Array Char := #['0','1','2','3','4','5','6','7','8','9','a','b','c','d','e','f']

def toHex (bs : Bytes) : String :=
  String.ofList (bs.flatMap fun b => [hexChars[b.toNat / 16]!, hexChars[b.toNat % 16]!])

/-- NULL → `-`, empty → `=`, else hex -/
def optHex : Option Bytes → String
  | none => "-"
  | some [] => "="
  | some bs => toHex bs

def natHex (n : Nat) : String := String.ofList (Nat.toDigits 16 n)

def pad16 (s : String) : String := String.ofList (List.replicate (16 - s.length) '0') ++ s

/-- `LEN:FNV[:HEX]` -/
def outDigest (bs : Bytes) : String :=
  let base := s!"{bs.length}:{pad16 (natHex (fnv1a bs))}"
  if bs.length ≤ 64 then base ++ ":" ++ (if bs.isEmpty then "-" else toHex bs) else base

def parseNat (s : String) : Option Nat :=
  if s.startsWith "0x" then
    (s.drop 2).toString.toList.foldlM (fun acc c => (hexDigit c).map (acc * 16 + ·)) 0
  else s.toNat?

end MsPack.Driver
