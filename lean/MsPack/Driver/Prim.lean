import MsPack.Driver.Core
import MsPack.Cab.Checksum
/-
`prim WHAT ARGS…`: direct calls of the models of static functions.
-/
namespace MsPack.Driver.Prim
open MsPack MsPack.Driver

structure State where
  unit : Unit := ()

def handle (toks : List String) : HM State Bool := do
  match toks with
  | ["prim", "cksum", hex, seed] =>
    match parseHex hex, parseNat seed with
    | some bs, some s => emit s!"prim cksum {Cab.cksum bs s}"
    | _, _ => emit "prim cksum bad-args"
    return true
  | _ => return false

end MsPack.Driver.Prim
