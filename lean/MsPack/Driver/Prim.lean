import MsPack.Driver.Core
import MsPack.Cab.Checksum
import MsPack.Chm.Encint
import MsPack.Cabx.OutName
import MsPack.Cabx.Modes
import MsPack.Lzss.Decoder
import MsPack.Oab.Crc32
import MsPack.Huff
import MsPack.Spec.CabEncode
import MsPack.Spec.Lzss
import MsPack.Spec.Kwaj
import MsPack.Spec.ChmEncode
import MsPack.Spec.Deflate
/-
`prim WHAT ARGS…`: direct calls of the models of static functions.
-/
namespace MsPack.Driver.Prim
open MsPack MsPack.Driver

structure State where
  unit : Unit := ()

/-- `(NAMEHEX UTF8)*` -/
def parsePairs : List String → Option (List (Bytes × Bool))
  | [] => some []
  | [_] => none
  | n :: u :: more =>
    match parseHex n, parseNat u, parsePairs more with
    | some nb, some uv, some ps => some ((nb, uv != 0) :: ps)
    | _, _, _ => none

def handle (toks : List String) : HM State Bool := do
  match toks with
  | ["prim", "cksum", hex, seed] =>
    match parseHex hex, parseNat seed with
    | some bs, some s => emit s!"prim cksum {Cab.cksum bs s}"
    | _, _ => emit "prim cksum bad-args"
    return true
  | ["prim", "crc32", hex] =>
    -- crc32.h crc32(0, data, len), decimal
    match parseHex hex with
    | some bs => emit s!"prim crc32 {Oab.crc32 0 bs}"
    | none => emit "prim crc32 bad-args"
    return true
  | "prim" :: "crc32" :: _ => emit "prim crc32 bad-args"; return true
  | ["prim", "outname", nameHex, utf8, lower, dirHex] =>
    -- cabextract create_output_name(fname, dir, lower, isunix=0, utf8); DIR `-` = NULL, `=` = ""
    let dir : Option (Option Bytes) := if dirHex = "-" then some none else (parseHex dirHex).map some
    match parseHex nameHex, parseNat utf8, parseNat lower, dir with
    | some nm, some u, some l, some d =>
      match Cabx.createOutputName nm d (l != 0) false (u != 0) with
      | none => emit "prim outname NULL"
      | some [] => emit "prim outname ="
      | some bs => emit s!"prim outname {toHex bs}"
    | _, _, _, _ => emit "prim outname bad-args"
    return true
  | "prim" :: "outnames" :: lower :: dirHex :: rest =>
    -- driver-only (no harness counterpart): the names `cabextract -l` prints for a whole cabinet:
    -- prim outnames LOWER DIRHEX (NAMEHEX UTF8)* ; isunix = unix_path_seperators(all names)
    let dir : Option (Option Bytes) := if dirHex = "-" then some none else (parseHex dirHex).map some
    match parseNat lower, dir, parsePairs rest with
    | some l, some d, some ps =>
      let isunix := Cabx.unixPathSeparators (ps.map (·.1))
      let outs := ps.map fun (nm, u) => optHex (Cabx.createOutputName nm d (l != 0) isunix u)
      emit s!"prim outnames isunix={if isunix then 1 else 0} {" ".intercalate outs}"
    | _, _, _ => emit "prim outnames bad-args"
    return true
  | ["prim", "lzss", mode, hex] =>
    -- lzss_decompress(sys, "@lzss.in", "@lzss.out", 2048, mode); a negative mode is not one of the three
    let modeN : Option Nat := if mode.startsWith "-" then (parseNat (mode.drop 1).toString).map (· + 3) else parseNat mode
    match modeN, parseHex hex with
    | some m, some bs =>
      putFile "@lzss.in" bs
      match Lzss.decompress Rd.src (16 * bs.length + 100000) (⟨bs, 0⟩ : Rd) 2048 m with
      | .error f => emit s!"prim lzss FAULT {reprStr f}"
      | .ok o =>
        putFile "@lzss.out" o.written
        emit s!"prim lzss st={o.err.code} out={outDigest o.written}"
    | _, _ => emit "prim lzss bad-args"
    return true
  | "prim" :: "select" :: lower :: dirHex :: npat :: rest =>
    -- driver-only: which members `cabextract -F PAT.. [-L] [-d DIR]` acts upon (0-based indices, cabinet order):
    -- prim select LOWER DIRHEX NPAT PATHEX*NPAT (NAMEHEX UTF8)* ; fnmatch = Cabx.globMatch (no brackets/escapes)
    let dir : Option (Option Bytes) := if dirHex = "-" then some none else (parseHex dirHex).map some
    match parseNat lower, dir, parseNat npat with
    | some l, some d, some np =>
      match (rest.take np).mapM parseHex, parsePairs (rest.drop np) with
      | some pats, some ps =>
        let ms : List Cabx.Member := ps.map fun (nm, u) => { name := nm, utf8 := u, data := [] }
        let a : Cabx.Args := { dir := d, lower := l != 0, filters := pats }
        let isunix := Cabx.unixPathSeparators (ms.map (·.name))
        let idx := (ms.zipIdx.filter fun (m, _) => (Cabx.selectName Cabx.globMatch a isunix m).isSome).map (·.2)
        emit s!"prim select {" ".intercalate (idx.map toString)}"
      | _, _ => emit "prim select bad-args"
    | _, _, _ => emit "prim select bad-args"
    return true
  | "prim" :: "enccab" :: len :: setId :: setIdx :: nfold :: rest =>
    -- driver-only: the bytes of `Cab.encodeHeaders` (the writer the C01 theorem is stated against) for a listing:
    -- prim enccab LENGTH SETID SETIDX NFOLD (DATAOFF NBLOCKS COMP)*NFOLD NFILES (NAMEHEX LEN OFF FOLDER ATTR Y MO D H MI S)*NFILES
    let nums (l : List String) : Option (List Nat) := l.mapM parseNat
    match parseNat len, parseNat setId, parseNat setIdx, parseNat nfold with
    | some len, some sid, some six, some nf =>
      match nums (rest.take (3 * nf)), (rest.drop (3 * nf)) with
      | some fnums, nfilesTok :: frest =>
        let rec folders : List Nat → List Cab.FolderSpec
          | a :: b :: c :: t => ⟨a, b, c⟩ :: folders t
          | _ => []
        let rec files : Nat → List String → Option (List Cab.FileSpec)
          | 0, _ => some []
          | k + 1, nm :: l => do
            let name ← parseHex nm
            let v ← nums (l.take 10)
            match v with
            | [ln, off, fo, att, y, mo, d, h, mi, s] =>
              let tl ← files k (l.drop 10)
              pure (⟨name, ln, off, fo, att, y, mo, d, h, mi, s⟩ :: tl)
            | _ => none
          | _, _ => none
        match parseNat nfilesTok with
        | some nfi =>
          match files nfi frest with
          | some fl =>
            let c : Cab.CabSpec := ⟨len, sid, six, 0, 0, 0, 0, 3, 1, folders fnums, fl⟩
            emit s!"prim enccab {toHex (Cab.encodeHeaders c)}"
          | none => emit "prim enccab bad-args"
        | none => emit "prim enccab bad-args"
      | _, _ => emit "prim enccab bad-args"
    | _, _, _, _ => emit "prim enccab bad-args"
    return true
  | "prim" :: "lzssenc" :: mode :: toks =>
    -- driver-only: `Lzss.encode` of a token list (L<hex byte> | M<mpos>:<len>) and the digest of its reference
    -- expansion on the ring as it stands on entry in that mode:  prim lzssenc HEX OUT
    let tok (s : String) : Option Lzss.Tok :=
      if s.startsWith "L" then (parseHex (s.drop 1).toString).bind fun b => match b with | [x] => some (.lit x) | _ => none
      else if s.startsWith "M" then
        match (s.drop 1).toString.splitOn ":" with
        | [a, b] => do let m ← a.toNat?; let l ← b.toNat?; pure (.mat m l)
        | _ => none
      else none
    match parseNat mode, toks.mapM tok with
    | some m, some ts =>
      emit s!"prim lzssenc {optHex (some (Lzss.encode ts))} {outDigest (Lzss.expand ts (Lzss.initRing m)).out.toList}"
    | _, _ => emit "prim lzssenc bad-args"
    return true
  | "prim" :: "encchm" :: ver :: ts :: lang :: csize :: dens :: contentHex :: nchunks :: rest =>
    -- driver-only: `Chm.encodeChm` of a directory specification:
    --   prim encchm VERSION TIMESTAMP LANG CHUNKSIZE DENSITY CONTENTHEX NCHUNKS (NENTRIES (NAMEHEX SEC OFF LEN)*NENTRIES)*NCHUNKS
    let rec entries : Nat → List String → Option (List Chm.EntrySpec × List String)
      | 0, l => some ([], l)
      | k + 1, nm :: a :: b :: c :: l => do
        let name ← (if nm = "=" then some [] else parseHex nm)
        let sec ← parseNat a; let off ← parseNat b; let len ← parseNat c
        let (tl, l') ← entries k l
        pure (⟨name, sec, off, len⟩ :: tl, l')
      | _, _ => none
    let rec chunks : Nat → List String → Option (List (List Chm.EntrySpec))
      | 0, _ => some []
      | k + 1, n :: l => do
        let ne ← parseNat n
        let (es, l') ← entries ne l
        let tl ← chunks k l'
        pure (es :: tl)
      | _, _ => none
    match parseNat ver, parseNat ts, parseNat lang, parseNat csize, parseNat dens,
          (if contentHex = "=" then some [] else parseHex contentHex), (parseNat nchunks).bind (chunks · rest) with
    | some v, some t, some la, some cs, some de, some content, some chs =>
      emit s!"prim encchm {toHex (Chm.encodeChm ⟨v, t, la, cs, de, chs, content⟩)}"
    | _, _, _, _, _, _, _ => emit "prim encchm bad-args"
    return true
  | "prim" :: "encdeflate" :: blocks =>
    -- driver-only: `Deflate.encFrame` of a block list and the data it stands for (`blocksData`):
    --   prim encdeflate (S<hex>|S= | F<tok>,<tok>,... with tok = L<hexbyte> | M<len>:<dist>)*   ->  prim encdeflate FRAMEHEX DATAHEX
    let tok (t : String) : Option Deflate.Tok :=
      if t.startsWith "L" then (parseHex (t.drop 1).toString).bind fun b => match b with | [x] => some (.lit x) | _ => none
      else if t.startsWith "M" then
        match (t.drop 1).toString.splitOn ":" with
        | [a, b] => do let l ← a.toNat?; let d ← b.toNat?; pure (.mat l d)
        | _ => none
      else none
    let block (b : String) : Option Deflate.Block :=
      if b = "S=" then some (.stored [])
      else if b.startsWith "S" then (parseHex (b.drop 1).toString).map .stored
      else if b = "F" then some (.fixed [])
      else if b.startsWith "F" then ((b.drop 1).toString.splitOn ",").mapM tok |>.map .fixed
      else none
    match blocks.mapM block with
    | some bs => emit s!"prim encdeflate {optHex (some (Deflate.encFrame bs))} {optHex (some (Deflate.blocksData bs []))}"
    | none => emit "prim encdeflate bad-args"
    return true
  | ["prim", "enckwaj", xor, len, unk1, unk2, extra, dataHex] =>
    -- driver-only: `Kwaj.encodeKwaj` of a specification; absent optional parts are written `-`:
    --   prim enckwaj {0|1} {LEN|-} {UNK1|-} {UNK2HEX|-|=} {EXTRAHEX|-|=} DATAHEX    (= is the empty byte string)
    let optNat (s : String) : Option (Option Nat) := if s = "-" then some none else (parseNat s).map some
    let optB (s : String) : Option (Option Bytes) :=
      if s = "-" then some none else if s = "=" then some (some []) else (parseHex s).map some
    match parseNat xor, optNat len, optNat unk1, optB unk2, optB extra, (if dataHex = "=" then some [] else parseHex dataHex) with
    | some x, some l, some u1, some u2, some ex, some d =>
      emit s!"prim enckwaj {toHex (Kwaj.encodeKwaj ⟨x != 0, l, u1, u2, ex, d⟩)}"
    | _, _, _, _, _, _ => emit "prim enckwaj bad-args"
    return true
  | ["prim", "mdt", _kind, nsyms, nbits, _tsize, lensHex] =>
    -- make_decode_table(nsyms, nbits, length, table): the return value only (0 = table accepted), by the
    -- acceptance rule `Huff.accepts`; the table contents are not modelled (the harness prints their hash)
    match parseNat nsyms, parseNat nbits, parseHex lensHex with
    | some ns, some nb, some bs =>
      if bs.length < ns then emit "prim mdt bad-args"
      else
        let lens := (bs.take ns).map (·.toNat)
        emit s!"prim mdt {if Huff.accepts nb lens = .reject then 1 else 0} -"
    | _, _, _ => emit "prim mdt bad-args"
    return true
  | ["prim", "encint", hex] =>
    -- chmd.c read_encint on the bytes (end = p + len): value, bytes consumed, *err
    match parseHex hex with
    | some bs =>
      match Chm.readEncint bs 0 bs.length with
      | .ok r => emit s!"prim encint {r.value} {r.pos} {if r.fail then 1 else 0}"
      | .error f => emit s!"prim encint FAULT {reprStr f}"
    | none => emit "prim encint bad-args"
    return true
  | ["prim", "utf8cmp", ahex, bhex] =>
    -- chmd.c compare(): sign of the result
    match parseHex ahex, parseHex bhex with
    | some a, some b =>
      let r := Chm.compare a b
      emit s!"prim utf8cmp {if r < 0 then "-1" else if r > 0 then "1" else "0"}"
    | _, _ => emit "prim utf8cmp bad-args"
    return true
  | _ => return false

end MsPack.Driver.Prim
