import MsPack.Driver.Core
import MsPack.Chm.Extract
/-
Driver ops of the chm format: new/open/fastopen/dump/fastfind/ffextract/extract/close/destroy.
Prints what `/verif/harness` prints for the real library (harness/README.md "Decisions").
A model fault ends an op with `<op> FAULT <fault>`; the harness shows the same event as a
`CRASH` (sanitizer) or `TIMEOUT` (hang) line.
-/
namespace MsPack.Driver.Chm
open MsPack MsPack.Driver MsPack.Chm

structure State where
  insts   : List (Nat × Option Inst) := []          -- chm instances; none = destroyed
  handles : List (Nat × Option Header) := []        -- chm handles; none = closed

abbrev M := HM State

inductive Look (α : Type)
  | ok (n : Nat) (a : α)
  | bad
  | dead

def getInst (tok : String) : M (Look Inst) := do
  match parseInst tok with
  | some i => match (← getSt).insts.lookup i with
    | some (some ci) => return .ok i ci
    | some none => return .dead
    | none => return .bad
  | none => return .bad

def ownsInst (tok : String) : M Bool := do
  match parseInst tok with
  | some i => return ((← getSt).insts.lookup i).isSome
  | none => return false

def setInst (i : Nat) (ci : Option Inst) : M Unit :=
  modifySt fun s => { s with insts := (i, ci) :: s.insts.filter (·.1 ≠ i) }

def getHandle (tok : String) : M (Look Header) := do
  match parseHandle tok with
  | some k => match (← getSt).handles.lookup k with
    | some (some h) => return .ok k h
    | some none => return .dead
    | none => return .bad        -- never issued, or a handle of another format
  | none => return .bad

def setHandle (k : Nat) (h : Option Header) : M Unit :=
  modifySt fun s => { s with handles := (k, h) :: s.handles.filter (·.1 ≠ k) }

/-- `out_cstr` of a non-NULL C string -/
def cstrHex (b : Bytes) : String := optHex (some (cString b))

def dumpFiles (word : String) (fs : List CFile) : M Unit := do
  for (f, j) in fs.zip (List.range fs.length) do
    emit s!"{word} {j} name={cstrHex f.name} sec={f.sec} off={f.offset} len={f.length}"

def dumpHeader (k : Nat) (h : Header) : M Unit := do
  emit s!"chm h{k} len={h.length} ver={h.version} ts={h.timestamp} lang={h.language} diroff={h.dirOffset} nchunks={h.numChunks} chunksize={h.chunkSize} density={h.density} depth={h.depth} indexroot={h.indexRoot} firstpmgl={h.firstPmgl} lastpmgl={h.lastPmgl} sec0off={h.sec0Offset}"
  dumpFiles "file" h.files
  dumpFiles "sysfile" h.sysfiles

/-- run `chmd_extract` on an entry and print ` written=W declared=D out=…` after `head`;
    returns nothing, updates instance and header -/
def doExtract (op : String) (i : Nat) (ci : Inst) (k : Nat) (h : Header)
    (sec : Nat) (off len : Int) (outName : String) : M Unit := do
  let sh ← getShared
  match extract sh.files sh.fill ci k h sec off len with
  | .fault f => emit s!"{op} FAULT {reprStr f}"
  | .unsupported ci h =>
    setInst i (some ci); setHandle k (some h); putFile outName []
    emit s!"{op} unsupported"
  | .done e ci h out =>
    setInst i (some ci); setHandle k (some h)
    match out with
    | some w => putFile outName w
    | none => pure ()
    emit s!"{op} st={e.code} err={ci.error.code} written={(out.getD []).length} declared={len} out={← fileDigest outName}"

def handle (toks : List String) : M Bool := do
  match toks with
  | ["new", "chm"] | ["new", "chm", "default"] =>
    let i ← freshInst
    modifySt fun s => { s with insts := (i, some {}) :: s.insts }
    emit s!"new chm i{i}"
    return true
  | op :: itok :: rest =>
    if !(← ownsInst itok) then return false
    -- ops the harness knows but which are not defined for chm
    if op ∈ ["param", "search", "append", "prepend", "decompress", "decompressinc"] then
      emit s!"{op} unsupported"; return true
    let arity : Option Nat := match op with
      | "open" | "fastopen" => some 1 | "close" | "dump" => some 1 | "extract" => some 3
      | "fastfind" => some 2 | "ffextract" => some 3 | "destroy" => some 0 | _ => none
    match arity with
    | none => emit s!"{op} unsupported"; return true
    | some n =>
    if rest.length ≠ n then emit s!"{op} bad-args"; return true
    match ← getInst itok with
    | .bad => emit s!"{op} bad-handle"; return true
    | .dead => emit s!"{op} dead-handle"; return true
    | .ok i ci =>
    match op, rest with
    | "destroy", [] =>
      setInst i none; emit "destroy ok"; return true
    | _, [name] =>
      if op = "open" ∨ op = "fastopen" then
        match ← lookupFile name with
        | none => setInst i (some { ci with error := .open_ }); emit s!"{op} NULL st=2 err=2"
        | some bytes =>
          match realOpen name bytes (op = "open") with
          | .error f => emit s!"{op} FAULT {reprStr f}"
          | .ok (e, none) => setInst i (some { ci with error := e }); emit s!"{op} NULL st={e.code} err={e.code}"
          | .ok (e, some h) =>
            setInst i (some { ci with error := e })
            let k ← freshHandle
            setHandle k (some h)
            emit s!"{op} h{k} st=0 err={e.code}"
            dumpHeader k h
        return true
      else
        match ← getHandle name with
        | .bad => emit s!"{op} bad-handle"
        | .dead => emit s!"{op} dead-handle"
        | .ok k h =>
          if op = "dump" then
            emit s!"dump h{k}"; dumpHeader k h
          else  -- close
            setInst i (some (close ci k)); setHandle k none; emit "close ok"
        return true
    | _, hk :: args =>
      match ← getHandle hk with
      | .bad => emit s!"{op} bad-handle"; return true
      | .dead => emit s!"{op} dead-handle"; return true
      | .ok k h =>
      match op, args with
      | "extract", [idx, outName] =>
        let (sys, s) := if idx.startsWith "s" then (true, (idx.drop 1).toString) else (false, idx)
        match parseNat s with
        | none => emit "extract bad-args"
        | some j =>
          match (if sys then h.sysfiles else h.files)[j]? with
          | none => emit "extract bad-index"
          | some f => doExtract "extract" i ci k h f.sec f.offset f.length outName
        return true
      | _, nameHex :: more =>
        -- fastfind / ffextract
        match parseHex nameHex with
        | none => emit s!"{op} bad-args"; return true
        | some name =>
          let sh ← getShared
          match fastFind (sh.files.lookup h.filename) ⟨ci.error, h⟩ name with
          | .error f => emit s!"{op} FAULT {reprStr f}"
          | .ok o =>
            let ci := { ci with error := o.st.error }
            let h := o.st.hdr
            setInst i (some ci); setHandle k (some h)
            let st := o.ret.code
            let err := ci.error.code
            if op = "fastfind" then
              if st ≠ 0 then emit s!"fastfind st={st} err={err} sec=-1 off=0 len=0"
              else
                let sec := match o.res.sec with | some s => toString s | none => "-1"
                emit s!"fastfind st={st} err={err} sec={sec} off={o.res.offset} len={o.res.length}"
            else
              match o.res.sec, more with
              | some sec, [outName] =>
                if st ≠ 0 then emit s!"ffextract st={st} err={err} notfound"
                else doExtract "ffextract" i ci k h sec o.res.offset o.res.length outName
              | _, _ => emit s!"ffextract st={st} err={err} notfound"
          return true
      | _, _ => emit s!"{op} bad-args"; return true
    | _, _ => emit s!"{op} bad-args"; return true
  | _ => return false

end MsPack.Driver.Chm
