import MsPack.Driver.Core
/-
Driver ops of the chm format — STUB: claims nothing, so every chm op prints `unsupported`.
-/
namespace MsPack.Driver.Chm
open MsPack MsPack.Driver

structure State where
  insts : List Nat := []      -- instance numbers that are chm decompressors

/-- `true` = op handled (result lines emitted) -/
def handle (toks : List String) : HM State Bool := do
  match toks with
  | ["new", "chm"] | ["new", "chm", "default"] =>
    let i ← freshInst
    modifySt fun s => { s with insts := i :: s.insts }
    emit s!"new chm i{i}"
    return true
  | _ => return false

end MsPack.Driver.Chm
