import MsPack.Driver.Core
import MsPack.Kwaj.Extract
/-
Driver ops of the kwaj format: new/open/dump/extract/decompress/close/destroy.
Result lines as printed by the C harness (harness/README.md): `bad-handle` = number never issued
or not a kwaj handle, `dead-handle` = closed handle / destroyed instance.
-/
namespace MsPack.Driver.Kwaj
open MsPack MsPack.Driver

structure State where
  insts   : List (Nat × Option Err) := []             -- `self->error`; none = destroyed
  handles : List (Nat × Option Kwaj.Handle) := []     -- none = closed

abbrev M := HM State

def fuelFor (n : Nat) : Nat := 16 * n + 100000

def setErr (i : Nat) (e : Err) : M Unit :=
  modifySt fun s => { s with insts := (i, some e) :: s.insts.filter (·.1 ≠ i) }

def setHandle (k : Nat) (h : Option Kwaj.Handle) : M Unit :=
  modifySt fun s => { s with handles := (k, h) :: s.handles.filter (·.1 ≠ k) }

def dumpLine (k : Nat) (h : Kwaj.Handle) : String :=
  let d := h.hdr
  s!"kwaj h{k} comp={d.compType} dataoff={d.dataOffset} flags=0x{natHex d.headers} len={d.length} name={optHex d.filename} extra={optHex d.extra}"

/-- handle lookup with the harness's error words -/
def getHandle (op tok : String) : M (Option (Nat × Kwaj.Handle)) := do
  let hs := (← getSt).handles
  match (parseHandle tok).bind fun k => (hs.lookup k).map (k, ·) with
  | none => emit s!"{op} bad-handle"; return none
  | some (_, none) => emit s!"{op} dead-handle"; return none
  | some (k, some h) => return some (k, h)

def handle (toks : List String) : M Bool := do
  match toks with
  | ["new", "kwaj"] | ["new", "kwaj", "default"] =>
    let i ← freshInst
    modifySt fun s => { s with insts := (i, some .ok) :: s.insts }
    emit s!"new kwaj i{i}"
    return true
  | op :: itok :: rest =>
    let some i := parseInst itok | return false
    let some inst := (← getSt).insts.lookup i | return false
    let arity : Option Nat := match op with
      | "open" | "close" | "dump" => some 1
      | "extract" => some 3
      | "decompress" => some 2
      | "destroy" => some 0
      | _ => none
    match arity with
    | none => emit s!"{op} unsupported"; return true
    | some n =>
    if rest.length ≠ n then emit s!"{op} bad-args"; return true
    let some err := inst | emit s!"{op} dead-handle"; return true
    let fill := (← getShared).fill
    match op, rest with
    | "open", [name] =>
      match Kwaj.open_ fill err (← lookupFile name) with
      | .error f => emit s!"open FAULT {reprStr f}"
      | .ok (h, e) =>
        setErr i e
        match h with
        | some h =>
          let k ← freshHandle
          setHandle k (some h)
          emit s!"open h{k} st=0 err={e.code}"
          emit (dumpLine k h)
        | none => emit s!"open NULL st={e.code} err={e.code}"
    | "dump", [hk] =>
      let some (k, h) ← getHandle op hk | return true
      emit s!"dump h{k}"
      emit (dumpLine k h)
    | "close", [hk] =>
      let some (k, _) ← getHandle op hk | return true
      setHandle k none
      setErr i .ok
      emit "close ok"
    | "extract", [hk, idx, outName] =>
      let some (k, h) ← getHandle op hk | return true
      if idx ≠ "-" then emit "extract bad-args"; return true
      match Kwaj.extract fill (fuelFor h.rd.file.length) h with
      | .error f => emit s!"extract FAULT {reprStr f}"
      | .ok o =>
        setErr i o.err
        setHandle k (some o.h)
        putFile outName o.written
        emit s!"extract st={o.err.code} err={o.err.code} written={o.written.length} declared={h.hdr.length} out={← fileDigest outName}"
    | "decompress", [inName, outName] =>
      let file ← lookupFile inName
      match Kwaj.decompress fill (fuelFor ((file.getD []).length)) err file with
      | .error f => emit s!"decompress FAULT {reprStr f}"
      | .ok o =>
        setErr i o.err
        match o.written with
        | some w => putFile outName w
        | none => pure ()
        emit s!"decompress st={o.err.code} err={o.err.code} written={(o.written.getD []).length} out={← fileDigest outName}"
    | "destroy", [] =>
      modifySt fun s => { s with insts := (i, none) :: s.insts.filter (·.1 ≠ i) }
      emit "destroy ok"
    | _, _ => emit s!"{op} unsupported"
    return true
  | _ => return false

end MsPack.Driver.Kwaj
