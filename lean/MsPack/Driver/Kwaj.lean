import MsPack.Driver.Core
/-
Driver ops of the kwaj format — STUB: claims nothing, so every kwaj op prints `unsupported`.
-/
namespace MsPack.Driver.Kwaj
open MsPack MsPack.Driver

structure State where
  insts : List Nat := []      -- instance numbers that are kwaj decompressors

/-- `true` = op handled (result lines emitted) -/
def handle (toks : List String) : HM State Bool := do
  match toks with
  | ["new", "kwaj"] | ["new", "kwaj", "default"] =>
    let i ← freshInst
    modifySt fun s => { s with insts := i :: s.insts }
    emit s!"new kwaj i{i}"
    return true
  | _ => return false

end MsPack.Driver.Kwaj
