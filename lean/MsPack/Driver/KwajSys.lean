import MsPack.Driver.SzddSys
import MsPack.Kwaj.Api
/-
`mspack-driver --sys`: the kwaj ops replayed on the *effect model* (`MsPack/Kwaj/Api.lean` over the
instrumented system `MsPack/Sys.lean`), sharing the world (files, fault plan, call counters, ledger)
with the szdd ops of `SzddSys`.  Same result lines as the pure kwaj handler (`MsPack/Driver/Kwaj.lean`).
Methods NONE, XOR and SZDD run on the model; for LZH and MSZIP (whose bit-level decoders are
parameters of the effect model) `extract` / `decompress` answer `unsupported`.
-/
namespace MsPack.Driver.KwajSys
open MsPack MsPack.Driver MsPack.Kwaj

structure State where
  base    : SzddSys.State := {}                       -- the world and the szdd instances
  insts   : List (Nat × Option Api.Inst) := []        -- none = destroyed
  handles : List (Nat × Option Api.Hdr) := []         -- none = closed

abbrev M := HM State

def runSys {α} (x : Sys.M α) : M α := do
  let s ← getSt
  let (a, w) := x s.base.world
  setSt { s with base := { s.base with world := w } }
  return a

def setInst (i : Nat) (v : Option Api.Inst) : M Unit :=
  modifySt fun s => { s with insts := (i, v) :: s.insts.filter (·.1 ≠ i) }
def setHandle (k : Nat) (h : Option Api.Hdr) : M Unit :=
  modifySt fun s => { s with handles := (k, h) :: s.handles.filter (·.1 ≠ k) }

def dumpLine (k : Nat) (h : Api.Hdr) : String :=
  let d := h.f
  s!"kwaj h{k} comp={d.compType} dataoff={d.dataOffset} flags=0x{natHex d.headers} len={d.length} name={optHex (d.filename.map fun _ => d.name)} extra={optHex (d.extra.map fun _ => d.extraText)}"

def getHandle (op tok : String) : M (Option (Nat × Api.Hdr)) := do
  let hs := (← getSt).handles
  match (parseHandle tok).bind fun k => (hs.lookup k).map (k, ·) with
  | none => emit s!"{op} bad-handle"; return none
  | some (_, none) => emit s!"{op} dead-handle"; return none
  | some (k, some h) => return some (k, h)

def digestOf (name : String) : M String := do
  match (← getSt).base.world.files.lookup name with
  | some b => return outDigest b
  | none => return "-"

/-- the decoder bodies are never run: ops on LZH / MSZIP files are answered `unsupported` first -/
def noDecoders : Api.Decoders := ⟨fun _ _ => pure .decrunch, fun _ _ => pure .decrunch⟩

def abstractMethod (ct : Nat) : Bool := ct = compLZH ∨ ct = compMSZIP

def addFault (s : State) (kind k : String) : State := { s with base := SzddSys.addFault s.base kind k }
def addFile (s : State) (name : String) (b : Bytes) : State := { s with base := SzddSys.addFile s.base name b }
def endLine (s : State) : String := SzddSys.endLine s.base

def handle (toks : List String) : M Bool := do
  match toks with
  | ["new", "kwaj"] | ["new", "kwaj", "default"] =>
    match ← runSys Api.create with
    | some inst =>
      let i ← freshInst
      setInst i (some inst)
      emit s!"new kwaj i{i}"
    | none => emit "new kwaj NULL"
    return true
  | op :: itok :: rest =>
    if op = "new" || op = "prim" then return false
    let some i := parseInst itok | return false
    let some inst? := (← getSt).insts.lookup i | return false
    let arity : Option Nat := match op with
      | "open" | "close" | "dump" => some 1
      | "extract" => some 3
      | "decompress" => some 2
      | "destroy" => some 0
      | _ => none
    match arity with
    | none => emit s!"{op} unsupported"; return true
    | some n =>
    if rest.length ≠ n then emit s!"{op} bad-args"; return true
    let some inst := inst? | emit s!"{op} dead-handle"; return true
    match op, rest with
    | "open", [name] =>
      let (inst', h?) ← runSys (Api.open_ inst name)
      setInst i (some inst')
      match h? with
      | some h =>
        let k ← freshHandle
        setHandle k (some h)
        emit s!"open h{k} st=0 err={inst'.error.code}"
        emit (dumpLine k h)
      | none => emit s!"open NULL st={inst'.error.code} err={inst'.error.code}"
    | "dump", [hk] =>
      let some (k, h) ← getHandle op hk | return true
      emit s!"dump h{k}"
      emit (dumpLine k h)
    | "close", [hk] =>
      let some (k, h) ← getHandle op hk | return true
      let inst' ← runSys (Api.close_ inst h)
      setHandle k none
      setInst i (some inst')
      emit "close ok"
    | "extract", [hk, idx, outName] =>
      let some (_, h) ← getHandle op hk | return true
      if idx ≠ "-" then emit "extract bad-args"; return true
      if abstractMethod h.f.compType then emit "extract unsupported"; return true
      let w := (← getSt).base.world
      let inName := (w.liveHandles.find? (·.id = h.fh)).map (·.name) |>.getD ""
      match ← runSys (Api.extract noDecoders inst h outName (SzddSys.fuelFor w inName)) with
      | none => emit "extract FAULT hang"
      | some (inst', e) =>
        setInst i (some inst')
        let w' := (← getSt).base.world
        let written := if e = .seek ∨ e = .open_ then 0 else ((w'.files.lookup outName).getD []).length
        emit s!"extract st={e.code} err={inst'.error.code} written={written} declared={h.f.length} out={← digestOf outName}"
    | "decompress", [inName, outName] =>
      let w := (← getSt).base.world
      if abstractMethod (u16At ((w.files.lookup inName).getD []) 8) then emit "decompress unsupported"; return true
      let opens := w.counts.open_
      match ← runSys (Api.decompress noDecoders inst inName outName (SzddSys.fuelFor w inName)) with
      | none => emit "decompress FAULT hang"
      | some (inst', e) =>
        setInst i (some inst')
        let w' := (← getSt).base.world
        -- the output was opened iff a second open was made and it did not fail
        let opened := w'.counts.open_ = opens + 2 ∧ e ≠ .open_
        let written := if opened then ((w'.files.lookup outName).getD []).length else 0
        emit s!"decompress st={e.code} err={inst'.error.code} written={written} out={← digestOf outName}"
    | "destroy", [] =>
      runSys (Api.destroy inst)
      setInst i none
      emit "destroy ok"
    | _, _ => emit s!"{op} unsupported"
    return true
  | _ => return false

end MsPack.Driver.KwajSys
