import MsPack.Driver.Core
import MsPack.Szdd.Api
/-
`mspack-driver --sys`: the szdd ops replayed on the *effect model* (`MsPack/Szdd/Api.lean` over the
instrumented system `MsPack/Sys.lean`), with the case's `fault` lines as the fault plan.  Prints the
same result lines as the harness including the final ledger line
`end allocs_live=A handles_live=H monitor=M`, so that the model the C09/C20 theorems are about is
compared with szddd.c + lzssd.c under every planned failure, not only on fault-free runs.
-/
namespace MsPack.Driver.SzddSys
open MsPack MsPack.Driver MsPack.Szdd

structure State where
  world   : Sys.World := {}
  insts   : List (Nat × Option Api.Inst) := []      -- none = destroyed
  handles : List (Nat × Option Api.Hdr) := []       -- none = closed

abbrev M := HM State

def runSys {α} (x : Sys.M α) : M α := do
  let s ← getSt
  let (a, w) := x s.world
  setSt { s with world := w }
  return a

def setInst (i : Nat) (v : Option Api.Inst) : M Unit :=
  modifySt fun s => { s with insts := (i, v) :: s.insts.filter (·.1 ≠ i) }
def setHandle (k : Nat) (h : Option Api.Hdr) : M Unit :=
  modifySt fun s => { s with handles := (k, h) :: s.handles.filter (·.1 ≠ k) }

def dumpLine (k : Nat) (h : Api.Hdr) : String :=
  s!"szdd h{k} fmt={h.format} len={h.length} missing={toHex [h.missing]}"

def digestOf (name : String) : M String := do
  match (← getSt).world.files.lookup name with
  | some b => return outDigest b
  | none => return "-"

def getHandle (op tok : String) : M (Option (Nat × Api.Hdr)) := do
  let hs := (← getSt).handles
  match (parseHandle tok).bind fun k => (hs.lookup k).map (k, ·) with
  | none => emit s!"{op} bad-handle"; return none
  | some (_, none) => emit s!"{op} dead-handle"; return none
  | some (k, some h) => return some (k, h)

def parseKind : String → Option Sys.Kind
  | "alloc" => some .alloc | "open" => some .open_ | "read" => some .read
  | "write" => some .write | "seek" => some .seek | _ => none

def addFault (s : State) (kind k : String) : State :=
  match parseKind kind, k.toNat? with
  | some kd, some n => { s with world := { s.world with plan := (kd, n) :: s.world.plan } }
  | _, _ => s

def addFile (s : State) (name : String) (b : Bytes) : State :=
  { s with world := { s.world with files := (name, b) :: s.world.files.filter (·.1 ≠ name) } }

def fuelFor (w : Sys.World) (name : String) : Nat := ((w.files.lookup name).getD []).length + 16

def endLine (s : State) : String :=
  s!"end allocs_live={s.world.liveAllocs.length} handles_live={s.world.liveHandles.length} monitor={s.world.misuse.length}"

def handle (toks : List String) : M Bool := do
  match toks with
  | ["new", "szdd"] =>
    match ← runSys Api.create with
    | some inst =>
      let i ← freshInst
      setInst i (some inst)
      emit s!"new szdd i{i}"
    | none => emit "new szdd NULL"
    return true
  | op :: itok :: rest =>
    if op = "new" || op = "prim" then return false
    let some i := parseInst itok | emit s!"{op} bad-handle"; return true
    let some inst? := (← getSt).insts.lookup i | emit s!"{op} bad-handle"; return true
    let some inst := inst? | emit s!"{op} dead-handle"; return true
    match op, rest with
    | "open", [name] =>
      let (inst', h?) ← runSys (Api.open_ inst name)
      setInst i (some inst')
      match h? with
      | some h =>
        let k ← freshHandle
        setHandle k (some h)
        emit s!"open h{k} st=0 err={inst'.error.code}"
        emit (dumpLine k h)
      | none => emit s!"open NULL st={inst'.error.code} err={inst'.error.code}"
    | "dump", [hk] =>
      let some (k, h) ← getHandle op hk | return true
      emit s!"dump h{k}"
      emit (dumpLine k h)
    | "close", [hk] =>
      let some (k, h) ← getHandle op hk | return true
      let inst' ← runSys (Api.close_ inst h)
      setHandle k none
      setInst i (some inst')
      emit "close ok"
    | "extract", [hk, idx, outName] =>
      let some (_, h) ← getHandle op hk | return true
      if idx ≠ "-" then emit "extract bad-args"; return true
      let w := (← getSt).world
      let inName := (w.liveHandles.find? (·.id = h.fh)).map (·.name) |>.getD ""
      match ← runSys (Api.extract inst h outName (fuelFor w inName)) with
      | none => emit "extract FAULT hang"
      | some (inst', e) =>
        setInst i (some inst')
        let w' := (← getSt).world
        let written := if e = .seek ∨ e = .open_ then 0 else ((w'.files.lookup outName).getD []).length
        emit s!"extract st={e.code} err={inst'.error.code} written={written} declared={h.length} out={← digestOf outName}"
    | "decompress", [inName, outName] =>
      let w := (← getSt).world
      let opens := w.counts.open_
      match ← runSys (Api.decompress inst inName outName (fuelFor w inName)) with
      | none => emit "decompress FAULT hang"
      | some (inst', e) =>
        setInst i (some inst')
        let w' := (← getSt).world
        -- the output was opened iff a second open was made and it did not fail
        let opened := w'.counts.open_ = opens + 2 ∧ e ≠ .open_
        let written := if opened then ((w'.files.lookup outName).getD []).length else 0
        emit s!"decompress st={e.code} err={inst'.error.code} written={written} out={← digestOf outName}"
    | "destroy", [] =>
      runSys (Api.destroy inst)
      setInst i none
      emit "destroy ok"
    | _, _ => emit s!"{op} unsupported"
    return true
  | _ => return false

end MsPack.Driver.SzddSys
