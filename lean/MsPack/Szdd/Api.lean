import MsPack.Sys
import MsPack.IO
import MsPack.Generated.Tables
import MsPack.Generated.Consts
/-
szddd.c + lzssd.c over the instrumented system `Sys.M`: every `sys->alloc/free/open/close/read/
write/seek` of the C is one call of the corresponding `Sys` primitive, in the same order, with the
same reactions to failure.  This is the model the resource theorems (C09) and the callback-contract
theorems (C20) are about; its data results agree with the pure model `MsPack/Szdd/Decompress.lean`
when no fault is planned.
-/
namespace MsPack.Szdd.Api
open MsPack MsPack.Sys MsPack.Generated

/-- `struct msszdd_decompressor_p`: the block it lives in and `self->error` -/
structure Inst where
  self  : Nat
  error : Err
  deriving Repr

/-- `struct msszddd_header_p`: the block it lives in, the input handle, the header fields -/
structure Hdr where
  mem     : Nat
  fh      : Nat
  format  : Nat
  length  : Nat
  missing : UInt8
  deriving Repr

/-- `mspack_create_szdd_decompressor` -/
def create : M (Option Inst) := do
  match ← alloc with
  | none => return none
  | some a => return some ⟨a, .ok⟩

/-- `mspack_destroy_szdd_decompressor` -/
def destroy (i : Inst) : M Unit := free (some i.self)

def sigEq (buf : Bytes) (sig : List Nat) : Bool := buf.map (·.toNat) == sig

/-- `szddd_read_headers`: format, missing char, length — or the error -/
def readHeaders (fh : Nat) : M (Except Err (Nat × UInt8 × Nat)) := do
  match ← read fh 8 with
  | none => return .error .read
  | some buf =>
    if buf.length ≠ 8 then return .error .read
    else if sigEq buf szddSignatureExpand then
      match ← read fh 6 with
      | none => return .error .read
      | some b =>
        if b.length ≠ 6 then return .error .read
        else if byteAt b 0 ≠ 0x41 then return .error .dataformat
        else return .ok (0, byteAt b 1, u32At b 2)
    else if sigEq buf szddSignatureQbasic then
      match ← read fh 4 with
      | none => return .error .read
      | some b =>
        if b.length ≠ 4 then return .error .read
        else return .ok (1, 0, u32At b 0)
    else return .error .signature

/-- `szddd_open`: note the C opens the file *and* allocates the header before looking at either
    result, and releases both on every failure path -/
def open_ (i : Inst) (name : String) : M (Inst × Option Hdr) := do
  let fh ← Sys.open_ name .read
  let hdr ← alloc
  match fh, hdr with
  | some f, some h =>
    match ← readHeaders f with
    | .ok (fmt, miss, len) => return ({ i with error := .ok }, some ⟨h, f, fmt, len, miss⟩)
    | .error e =>
      close f
      free (some h)
      return ({ i with error := e }, none)
  | fh?, hdr? =>
    -- `if (!fh) error = OPEN; if (!hdr) error = NOMEMORY;` then `if (fh) close(fh); free(hdr);`
    let e : Err := if hdr?.isNone then .nomemory else .open_
    match fh? with
    | some f => close f
    | none => pure ()
    free hdr?
    return ({ i with error := e }, none)

/-- `szddd_close` -/
def close_ (i : Inst) (h : Hdr) : M Inst := do
  close h.fh
  free (some h.mem)
  return { i with error := .ok }

/-- state of `lzss_decompress`'s loop -/
structure LSt where
  inbuf  : Bytes
  window : Array UInt8
  pos    : Nat

/-- `ENSURE_BYTES; *i_ptr++`: `.inl e` = the function has returned `e` (after `free(window)`) -/
def nextByte (win inFh bufsize : Nat) (s : LSt) : M (Err ⊕ (UInt8 × LSt)) := do
  match s.inbuf with
  | b :: rest => return .inr (b, { s with inbuf := rest })
  | [] =>
    match ← read inFh bufsize with
    | none => free (some win); return .inl .read
    | some [] => free (some win); return .inl .ok
    | some (b :: rest) => return .inr (b, { s with inbuf := rest })

/-- `window[pos] = b; WRITE_BYTE; pos++` -/
def emit (win outFh : Nat) (s : LSt) (b : UInt8) : M (Err ⊕ LSt) := do
  match ← write outFh [b] with
  | some 1 => return .inr { s with window := s.window.setIfInBounds s.pos b, pos := (s.pos + 1) % 4096 }
  | _ => free (some win); return .inl .write

def copyMatch (win outFh : Nat) : Nat → Nat → LSt → M (Err ⊕ LSt)
  | 0, _, s => return .inr s
  | len + 1, mpos, s => do
    match ← emit win outFh s (s.window.getD mpos 0x20) with
    | .inl e => return .inl e
    | .inr s => copyMatch win outFh len ((mpos + 1) % 4096) s

/-- the eight tokens governed by one control byte -/
def tokens (win inFh outFh bufsize c : Nat) : Nat → Nat → LSt → M (Err ⊕ LSt)
  | 0, _, s => return .inr s
  | k + 1, mask, s => do
    if c &&& mask ≠ 0 then
      match ← nextByte win inFh bufsize s with
      | .inl e => return .inl e
      | .inr (b, s) =>
        match ← emit win outFh s b with
        | .inl e => return .inl e
        | .inr s => tokens win inFh outFh bufsize c k (mask <<< 1) s
    else
      match ← nextByte win inFh bufsize s with
      | .inl e => return .inl e
      | .inr (b0, s) =>
        match ← nextByte win inFh bufsize s with
        | .inl e => return .inl e
        | .inr (b1, s) =>
          let mpos := b0.toNat ||| ((b1.toNat &&& 0xF0) <<< 4)
          match ← copyMatch win outFh ((b1.toNat &&& 0x0F) + 3) mpos s with
          | .inl e => return .inl e
          | .inr s => tokens win inFh outFh bufsize c k (mask <<< 1) s

/-- `for (;;) { ENSURE_BYTES; c = *i_ptr++ ^ invert; … }`; `none` = out of fuel (every round
    consumes at least one input byte) -/
def mainLoop (win inFh outFh bufsize invert : Nat) : Nat → LSt → M (Option Err)
  | 0, _ => return none
  | fuel + 1, s => do
    match ← nextByte win inFh bufsize s with
    | .inl e => return some e
    | .inr (cb, s) =>
      match ← tokens win inFh outFh bufsize (cb.toNat ^^^ invert) 8 1 s with
      | .inl e => return some e
      | .inr s => mainLoop win inFh outFh bufsize invert fuel s

/-- `lzss_decompress(system, input, output, input_buffer_size, mode)` for the two modes SZDD uses -/
def lzss (inFh outFh bufsize : Nat) (qbasic : Bool) (fuel : Nat) : M (Option Err) := do
  match ← alloc with
  | none => return some .nomemory
  | some win =>
    let s : LSt := { inbuf := [], window := Array.replicate 4096 0x20, pos := 4096 - (if qbasic then 18 else 16) }
    mainLoop win inFh outFh bufsize 0 fuel s

/-- `szddd_extract`; `none` = the loop ran out of fuel (not a return of the C function) -/
def extract (i : Inst) (h : Hdr) (out : String) (fuel : Nat) : M (Option (Inst × Err)) := do
  if ← seekStart h.fh (if h.format = 0 then 14 else 12) then
    return some ({ i with error := .seek }, .seek)
  match ← Sys.open_ out .write with
  | none => return some ({ i with error := .open_ }, .open_)
  | some o =>
    match ← lzss h.fh o szddINPUT_SIZE (h.format ≠ 0) fuel with
    | none => return none
    | some e =>
      close o
      return some ({ i with error := e }, e)

/-- `szddd_decompress` = open, extract, close -/
def decompress (i : Inst) (input output : String) (fuel : Nat) : M (Option (Inst × Err)) := do
  let (i, h?) ← open_ i input
  match h? with
  | none => return some (i, i.error)
  | some h =>
    match ← extract i h output fuel with
    | none => return none
    | some (i, e) =>
      let i ← close_ i h
      return some ({ i with error := e }, e)

/-! ## whole sessions: any program a client can write against one decompressor -/

/-- one client step: a one-shot `decompress`, or `open` followed by any number of `extract`s and
    the `close` the API asks for -/
inductive Op where
  | decompress (input output : String)
  | session (input : String) (outputs : List String)
  deriving Repr

def extracts (h : Hdr) (fuel : Nat) : List String → Inst → M (Option Inst)
  | [], i => return some i
  | o :: os, i => do
    match ← extract i h o fuel with
    | none => return none
    | some (i, _) => extracts h fuel os i

def runOp (fuel : Nat) (i : Inst) : Op → M (Option Inst)
  | .decompress a b => do
    match ← decompress i a b fuel with
    | none => return none
    | some (i, _) => return some i
  | .session a outs => do
    let (i, h?) ← open_ i a
    match h? with
    | none => return some i
    | some h =>
      match ← extracts h fuel outs i with
      | none => return none
      | some i => return some (← close_ i h)

def runOps (fuel : Nat) : List Op → Inst → M (Option Inst)
  | [], i => return some i
  | op :: ops, i => do
    match ← runOp fuel i op with
    | none => return none
    | some i => runOps fuel ops i

/-- create; the client's steps; destroy.  `none` = some LZSS loop ran out of fuel -/
def program (fuel : Nat) (ops : List Op) : M (Option Unit) := do
  match ← create with
  | none => return some ()
  | some i0 =>
    match ← runOps fuel ops i0 with
    | none => return none
    | some _ => destroy i0; return some ()   -- the client destroys the pointer `create` gave it

end MsPack.Szdd.Api
