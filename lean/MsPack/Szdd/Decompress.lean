import MsPack.Lzss.Decoder
import MsPack.Generated.Tables
/-
szddd.c on a fault-free host: `szddd_read_headers`, `szddd_open`, `szddd_extract`,
`szddd_decompress`, and what each does to `self->error` (`last_error`).
-/
namespace MsPack.Szdd
open MsPack MsPack.Generated

/-- `MSSZDD_FMT_NORMAL`, `MSSZDD_FMT_QBASIC` (mspack.h) -/
def fmtNORMAL : Nat := 0
def fmtQBASIC : Nat := 1

/-- `struct msszddd_header` -/
structure Header where
  format      : Nat
  length      : Nat      -- `off_t`, from an unsigned 32-bit field
  missingChar : UInt8
  deriving Repr, DecidableEq

def sigMatches (buf : Bytes) (sig : List Nat) : Bool := buf.map (·.toNat) == sig

/-- `szddd_read_headers(sys, fh, hdr)`; the handle is returned as it stands afterwards -/
def readHeaders (r : Rd) : Except Err Header × Rd :=
  -- read and check signature
  match r.readExact 8 with
  | none => (.error .read, (r.read 8).2)
  | some (buf, r) =>
    if sigMatches buf szddSignatureExpand then
      -- common SZDD: 'A', missing char, 32-bit length
      match r.readExact 6 with
      | none => (.error .read, (r.read 6).2)
      | some (buf, r) =>
        if byteAt buf 0 ≠ 0x41 then (.error .dataformat, r)
        else (.ok { format := fmtNORMAL, missingChar := byteAt buf 1, length := u32At buf 2 }, r)
    else if sigMatches buf szddSignatureQbasic then
      -- special QBasic SZDD
      match r.readExact 4 with
      | none => (.error .read, (r.read 4).2)
      | some (buf, r) => (.ok { format := fmtQBASIC, missingChar := 0, length := u32At buf 0 }, r)
    else (.error .signature, r)

/-- an open SZDD file: `struct msszddd_header_p` (header + its file handle) -/
structure Handle where
  hdr : Header
  rd  : Rd
  deriving Repr

/-- `szddd_open(base, filename)`: `file` = what `sys->open` finds under that name (`none` = NULL).
    Returns the header (or NULL) and the new value of `self->error`; the C assigns `self->error`
    on every path of this function. -/
def open_ (file : Option Bytes) : Option Handle × Err :=
  match file with
  | none => (none, .open_)
  | some bytes =>
    match readHeaders ⟨bytes, 0⟩ with
    | (.ok hdr, r) => (some ⟨hdr, r⟩, .ok)
    | (.error e, _) => (none, e)

/-- what one `extract` call did: status (= new `self->error`), bytes the output accepted, handle -/
structure ExtractOut where
  err     : Err
  written : Bytes
  h       : Handle

/-- `szddd_extract(base, hdr, filename)` for non-NULL arguments: seek to the data (14 or 12),
    open the output (succeeds), `lzss_decompress`, close the output -/
def extract (fuel : Nat) (h : Handle) : Except Fault ExtractOut :=
  let dataOffset := if h.hdr.format = fmtNORMAL then 14 else 12
  let r := h.rd.seekStart dataOffset
  let mode := if h.hdr.format = fmtNORMAL then lzssMODE_EXPAND else lzssMODE_QBASIC
  match Lzss.decompress Rd.src fuel r szddINPUT_SIZE mode with
  | .error f => .error f
  | .ok o => .ok ⟨o.err, o.written, { h with rd := o.src }⟩

/-- what `szddd_decompress` did: return value (also the final `self->error`), and the output
    bytes if the output file was opened at all -/
structure DecompressOut where
  err     : Err
  written : Option Bytes

/-- `szddd_decompress(base, input, output)`: open, extract, close; `close` resets `self->error`
    and the function then stores extract's status again -/
def decompress (fuel : Nat) (file : Option Bytes) : Except Fault DecompressOut :=
  match open_ file with
  | (none, e) => .ok ⟨e, none⟩
  | (some h, _) =>
    match extract fuel h with
    | .error f => .error f
    | .ok o => .ok ⟨o.err, some o.written⟩

end MsPack.Szdd
