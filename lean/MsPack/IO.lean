import MsPack.Basic
/-
Fault-free view of a `mspack_file` opened for reading on a regular file: contents + position.
`read` returns what is there (possibly fewer bytes, 0 at or beyond EOF); seeking beyond the end is
allowed (stdio semantics; the in-memory system of the harness does the same).
-/
namespace MsPack

structure Rd where
  file : Bytes
  pos  : Nat
  deriving Repr

namespace Rd

/-- `sys->read(fh, buf, n)`: the bytes delivered and the handle afterwards -/
def read (r : Rd) (n : Nat) : Bytes × Rd :=
  let chunk := (r.file.drop r.pos).take n
  (chunk, { r with pos := r.pos + chunk.length })

/-- read exactly `n` bytes or fail (the `!= n` idiom) -/
def readExact (r : Rd) (n : Nat) : Option (Bytes × Rd) :=
  let (c, r') := r.read n
  if c.length = n then some (c, r') else none

def seekStart (r : Rd) (o : Nat) : Rd := { r with pos := o }
def seekCur (r : Rd) (d : Nat) : Rd := { r with pos := r.pos + d }

end Rd

/-- byte at index `i` of a list known to be long enough (`0` otherwise; callers establish length) -/
def byteAt (bs : Bytes) (i : Nat) : UInt8 := bs.getD i 0
def u16At (bs : Bytes) (i : Nat) : Nat := le16 (byteAt bs i) (byteAt bs (i+1))
def u32At (bs : Bytes) (i : Nat) : Nat :=
  le32 (byteAt bs i) (byteAt bs (i+1)) (byteAt bs (i+2)) (byteAt bs (i+3))

end MsPack
