import MsPack.Chm.Encint
import MsPack.Generated.Consts
import MsPack.Generated.Tables
/-
`chmd_read_headers` / `chmd_real_open` (chmd.c) on a fault-free host: reads deliver what the file
has, allocations succeed, `seek` fails only for a negative target (the in-memory system of the
harness, like `fseeko`, refuses those), `tell` is exact.  Messages (`sys->message`) are not
modelled; the checks that only produce a "WARNING" are mentioned in comments where they sit.

Field offsets are the macros of chm.h; the `*_SIZEOF` ones come from `Generated/Consts.lean`,
the others are defined below under their C names.
-/
namespace MsPack.Chm
open MsPack MsPack.Generated

-- chm.h offsets not in Generated/Consts.lean
def chmhead_Signature : Nat := 0x0000
def chmhead_Version : Nat := 0x0004
def chmhead_Timestamp : Nat := 0x0010
def chmhead_LanguageID : Nat := 0x0014
def chmhead_GUID1 : Nat := 0x0018
def chmhst_OffsetHS0 : Nat := 0x0000
def chmhst_OffsetHS1 : Nat := 0x0010
def chmhst3_OffsetCS0 : Nat := 0x0020
def chmhs0_FileLen : Nat := 0x0008
def chmhs1_ChunkSize : Nat := 0x0010
def chmhs1_Density : Nat := 0x0014
def chmhs1_Depth : Nat := 0x0018
def chmhs1_IndexRoot : Nat := 0x001C
def chmhs1_FirstPMGL : Nat := 0x0020
def chmhs1_LastPMGL : Nat := 0x0024
def chmhs1_NumChunks : Nat := 0x002C
def pmgl_Signature : Nat := 0x0000
def pmgl_QuickRefSize : Nat := 0x0004
def pmgl_NextChunk : Nat := 0x0010
def pmgl_Entries : Nat := 0x0014
def pmgi_Entries : Nat := 0x0008

def bytesOfString (s : String) : Bytes := s.toUTF8.toList

/-- `content_name` -/
def contentName : Bytes := bytesOfString "::DataSpace/Storage/MSCompressed/Content"
/-- `control_name` -/
def controlName : Bytes := bytesOfString "::DataSpace/Storage/MSCompressed/ControlData"
/-- `spaninfo_name` -/
def spaninfoName : Bytes := bytesOfString "::DataSpace/Storage/MSCompressed/SpanInfo"
/-- `rtable_name` -/
def rtableName : Bytes := bytesOfString
  "::DataSpace/Storage/MSCompressed/Transform/{7FC28940-9D31-11D0-9B27-00A0C91E9C7C}/InstanceData/ResetTable"

/-- `struct mschmd_file`.  `name` holds the `name_len` bytes copied from the chunk (the C string
    `filename` ends at the first NUL among them: `cString`); `section` is 0 for `&chm->sec0`,
    1 for `&chm->sec1` (entries of the lists never have a NULL section). -/
structure CFile where
  name    : Bytes
  sec : Nat
  offset  : Int
  length  : Int
  deriving Repr, DecidableEq, Inhabited

/-- the C string a `char *` to these bytes denotes -/
def cString (b : Bytes) : Bytes := b.takeWhile (· ≠ 0)

/-- `struct mschmd_header` (+ `sec0.offset`, the `sec1` pointers and the chunk cache).
    `chunkCache`: `none` = `chunk_cache == NULL`; `some l` = the array exists and `l` lists its
    non-NULL slots (`chunk number ↦ chunk bytes`, keys `< numChunks`). -/
structure Header where
  filename   : String
  length     : Int := 0
  version    : Nat := 0
  timestamp  : Nat := 0
  language   : Nat := 0
  dirOffset  : Int := 0
  numChunks  : Nat := 0
  chunkSize  : Nat := 0
  density    : Nat := 0
  depth      : Nat := 0
  indexRoot  : Nat := 0
  firstPmgl  : Nat := 0
  lastPmgl   : Nat := 0
  sec0Offset : Int := 0
  files      : List CFile := []
  sysfiles   : List CFile := []
  content    : Option CFile := none
  control    : Option CFile := none
  spaninfo   : Option CFile := none
  rtable     : Option CFile := none
  chunkCache : Option (List (Nat × Bytes)) := none
  deriving Repr, Inhabited

/-- `sys->seek(fh, o, MSPACK_SYS_SEEK_START)`: `none` = the call failed (negative target) -/
def seekAbs (r : Rd) (o : Int) : Option Rd :=
  if o < 0 then none else some (r.seekStart o.toNat)

/-- the locals of `chmd_read_headers` that live across chunks, plus the lists being built.
    `filesRev` is `chm->files` reversed (the C appends through `link`); `sysfiles` is in list
    order (the C prepends).  `err` is the function-level `int err`, which `read_encint` only
    ever sets: once one ENCINT was bad it stays 1 for all later chunks. -/
structure Walk where
  filesRev : List CFile := []
  sysfiles : List CFile := []
  content  : Option CFile := none
  control  : Option CFile := none
  spaninfo : Option CFile := none
  rtable   : Option CFile := none
  err      : Bool := false
  errors   : Nat := 0
  deriving Repr

/-- the part of the entry loop after the four ENCINTs: filters, allocation, linking -/
def addEntry (w : Walk) (name : Bytes) (nameLen sec : Nat) (offset length : Int) : Walk :=
  -- ignore blank or one-char filenames
  if nameLen < 2 ∨ byteAt name 0 = 0 ∨ byteAt name 1 = 0 then w else
  -- directory names: offset 0, length 0, trailing '/'
  if offset = 0 ∧ length = 0 ∧ nameLen > 0 ∧ byteAt name (nameLen - 1) = 0x2F then w else
  -- "invalid section number" (message only)
  if sec > 1 then w else
  let fi : CFile := { name := name, sec := if sec = 0 then 0 else 1,
                      offset := offset, length := length }
  if byteAt name 0 = 0x3A ∧ byteAt name 1 = 0x3A then
    -- system file: remember the four special ones, link at the head of `sysfiles`
    let w :=
      if nameLen = 40 ∧ name = contentName then { w with content := some fi }
      else if nameLen = 44 ∧ name = controlName then { w with control := some fi }
      else if nameLen = 41 ∧ name = spaninfoName then { w with spaninfo := some fi }
      else if nameLen = 105 ∧ name = rtableName then { w with rtable := some fi }
      else w
    { w with sysfiles := fi :: w.sysfiles }
  else
    { w with filesRev := fi :: w.filesRev }

/-- `while (num_entries--) { … }` of one PMGL chunk; `e` = index of `end` (`chunk_size - 2`).
    The `Bool` says the loop was left through `goto encint_err` (then `num_entries >= 0` holds
    and the chunk counts as an error). -/
def readEntries (chunk : Bytes) (e : Nat) : Nat → Nat → Walk → Except Fault (Walk × Bool)
  | 0, _, w => .ok (w, false)
  | n + 1, p, w =>
    match readEncint chunk p e with
    | .error f => .error f
    | .ok r1 =>
    let err := w.err || r1.fail
    let nameLen := r1.value % 4294967296                    -- `unsigned int name_len`
    -- `if (err || (name_len > (unsigned int) (end - p))) goto encint_err;`
    if err ∨ nameLen > (e - r1.pos) % 4294967296 then .ok ({ w with err := err }, true) else
    let name := (chunk.drop r1.pos).take nameLen
    match readEncint chunk (r1.pos + nameLen) e with
    | .error f => .error f
    | .ok r2 =>
    match readEncint chunk r2.pos e with
    | .error f => .error f
    | .ok r3 =>
    match readEncint chunk r3.pos e with
    | .error f => .error f
    | .ok r4 =>
    let err := r2.fail || r3.fail || r4.fail
    if err then .ok ({ w with err := true }, true) else
    let sec := r2.value % 4294967296                    -- `unsigned int section`
    readEntries chunk e n r4.pos (addEntry w name nameLen sec (Int.ofNat r3.value) (Int.ofNat r4.value))

/-- `while (num_chunks--) { … }`: read and process the chunks from FirstPMGL on.  Nothing bounds
    the count by the file here; the loop ends with MSPACK_ERR_READ when the file does. -/
def readChunks (chunkSize : Nat) : Nat → Rd → Walk → Except Fault (Except Err Walk)
  | 0, _, w => .ok (.ok w)
  | n + 1, r, w =>
    match r.readExact chunkSize with
    | none => .ok (.error .read)
    | some (chunk, r) =>
      -- process only directory (PMGL) chunks
      if u32At chunk pmgl_Signature ≠ 0x4C474D50 then readChunks chunkSize n r w else
      -- (QuickRefSize < 2 / > chunk_size - pmgl_Entries: warnings only)
      let e := chunkSize - 2
      let numEntries := u16At chunk e
      match readEntries chunk e numEntries pmgl_Entries w with
      | .error f => .error f
      | .ok (w, bad) =>
        readChunks chunkSize n r (if bad then { w with errors := w.errors + 1 } else w)

/-- what `chmd_read_headers` returned together with the header it filled in; `err` is
    `MSPACK_ERR_OK` or (bad ENCINTs in some chunk) `MSPACK_ERR_DATAFORMAT` -/
structure Parsed where
  err : Err
  hdr : Header
  deriving Repr

/-- `chmd_read_headers(sys, fh, chm, entire)`.  `.error e` = an error return on which the caller
    frees the header (for all of them `chm->files` and `chm->sysfiles` are still NULL or the
    error is not DATAFORMAT). -/
def readHeaders (filename : String) (file : Bytes) (entire : Bool) : Except Fault (Except Err Parsed) :=
  -- read the first header
  match (⟨file, 0⟩ : Rd).readExact chmheadSIZEOF with
  | none => .ok (.error .read)
  | some (buf, r) =>
  -- ITSF signature, both GUIDs
  if u32At buf chmhead_Signature ≠ 0x46535449 then .ok (.error .signature) else
  if ((buf.drop chmhead_GUID1).take 32).map UInt8.toNat ≠ chmGuids then .ok (.error .signature) else
  let version := u32At buf chmhead_Version
  let timestamp := u32BEAt buf chmhead_Timestamp
  let language := u32At buf chmhead_LanguageID
  -- (version > 3: warning only)
  -- the header section table; always the v3 size is read
  match r.readExact chmhst3SIZEOF with
  | none => .ok (.error .read)
  | some (buf, r) =>
  let offsetHs0 := i64At buf chmhst_OffsetHS0
  let dirOffset0 := i64At buf chmhst_OffsetHS1
  let sec0Offset0 := i64At buf chmhst3_OffsetCS0
  -- header section 0
  match seekAbs r offsetHs0 with
  | none => .ok (.error .seek)
  | some r =>
  match r.readExact chmhs0SIZEOF with
  | none => .ok (.error .read)
  | some (buf, r) =>
  let length := i64At buf chmhs0_FileLen
  -- (`mspack_sys_filelen` + the truncated / extra bytes warnings: no effect on state; the handle
  --  is put back where it was)
  -- header section 1
  match seekAbs r dirOffset0 with
  | none => .ok (.error .seek)
  | some r =>
  match r.readExact chmhs1SIZEOF with
  | none => .ok (.error .read)
  | some (buf, r) =>
  let dirOffset : Int := Int.ofNat r.pos                     -- `sys->tell(fh)`
  let chunkSize := u32At buf chmhs1_ChunkSize
  let density := u32At buf chmhs1_Density
  let depth := u32At buf chmhs1_Depth
  let indexRoot := u32At buf chmhs1_IndexRoot
  let numChunks := u32At buf chmhs1_NumChunks
  let firstPmgl := u32At buf chmhs1_FirstPMGL
  let lastPmgl := u32At buf chmhs1_LastPMGL
  -- versions before 3 don't have chmhst3_OffsetCS0; the product is `unsigned int`
  let sec0Offset : Int :=
    if version < 3 then wrapI64 (dirOffset + Int.ofNat ((chunkSize * numChunks) % 4294967296))
    else sec0Offset0
  -- the checks, in the order of the C
  if sec0Offset > length then .ok (.error .dataformat) else
  if chunkSize < pmgl_Entries + 2 then .ok (.error .dataformat) else
  if numChunks = 0 then .ok (.error .dataformat) else
  if numChunks > 100000 then .ok (.error .dataformat) else
  if chunkSize > 8192 then .ok (.error .dataformat) else
  if Int.ofNat (chunkSize * numChunks) > length then .ok (.error .dataformat) else
  -- (chunk_size != 4096, first_pmgl != 0: warnings only)
  if firstPmgl > lastPmgl then .ok (.error .dataformat) else
  if indexRoot ≠ 0xFFFFFFFF ∧ indexRoot ≥ numChunks then .ok (.error .dataformat) else
  let hdr : Header :=
    { filename, length, version, timestamp, language, dirOffset, numChunks, chunkSize, density,
      depth, indexRoot, firstPmgl, lastPmgl, sec0Offset }
  -- if we are doing a quick read, stop here
  if !entire then .ok (.ok ⟨.ok, hdr⟩) else
  -- seek to the first PMGL chunk (a forward SEEK_CUR: cannot fail here)
  let r := if firstPmgl ≠ 0 then r.seekCur (firstPmgl * chunkSize) else r
  let count := (lastPmgl - firstPmgl + 1) % 4294967296        -- `unsigned int num_chunks`
  match readChunks chunkSize count r {} with
  | .error f => .error f
  | .ok (.error e) => .ok (.error e)
  | .ok (.ok w) =>
    let hdr := { hdr with files := w.filesRev.reverse, sysfiles := w.sysfiles, content := w.content,
                          control := w.control, spaninfo := w.spaninfo, rtable := w.rtable }
    .ok (.ok ⟨if w.errors > 0 then .dataformat else .ok, hdr⟩)

/-- `chmd_real_open` once the file is open: what `self->error` becomes and the header returned
    (`none` = NULL).  A DATAFORMAT error with a non-empty listing is downgraded to a warning. -/
def realOpen (filename : String) (file : Bytes) (entire : Bool) : Except Fault (Err × Option Header) :=
  match readHeaders filename file entire with
  | .error f => .error f
  | .ok (.error e) => .ok (e, none)
  | .ok (.ok p) =>
    if p.err = .ok then .ok (.ok, some p.hdr)
    else if p.err = .dataformat ∧ (!p.hdr.files.isEmpty ∨ !p.hdr.sysfiles.isEmpty) then .ok (.ok, some p.hdr)
    else .ok (p.err, none)

end MsPack.Chm
