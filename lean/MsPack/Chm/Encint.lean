import MsPack.IO
/-
chmd.c helpers that work on memory only: `read_off64`, `read_encint`, `GET_UTF8_CHAR`, `compare`,
and the C integer conversions the CHM code relies on.

Integer conventions of the CHM model: `off_t` (64-bit signed here, `SIZEOF_OFF_T >= 8`) is an
`Int`, `unsigned int` is a `Nat` reduced `% 2^32` where the C wraps, `int` is an `Int` reduced with
`wrapI32` where a conversion or (formally undefined, in practice wrapping) overflow happens.
Pointers into a chunk are `Nat` indices into the chunk's byte list.
-/
namespace MsPack.Chm
open MsPack

/-- two's complement reduction to `int64_t` (what a wrapping `off_t` operation / conversion gives) -/
def wrapI64 (x : Int) : Int := (x + 9223372036854775808) % 18446744073709551616 - 9223372036854775808
/-- two's complement reduction to `int` -/
def wrapI32 (x : Int) : Int := (x + 2147483648) % 4294967296 - 2147483648
/-- conversion to `unsigned int` -/
def toU32 (x : Int) : Nat := (x % 4294967296).toNat
/-- the bit pattern of an `off_t` -/
def toU64 (x : Int) : Nat := (x % 18446744073709551616).toNat

/-- `a & b` on `off_t` -/
def andI64 (a b : Int) : Int := wrapI64 (Int.ofNat (toU64 a &&& toU64 b))

/-- `read_off64` with `SIZEOF_OFF_T >= 8`: `*var = EndGetI64(mem)` (never fails) -/
def i64At (bs : Bytes) (i : Nat) : Int :=
  wrapI64 (Int.ofNat (u32At bs i + u32At bs (i + 4) * 4294967296))

/-- `EndGetM32` -/
def u32BEAt (bs : Bytes) (i : Nat) : Nat :=
  le32 (byteAt bs (i+3)) (byteAt bs (i+2)) (byteAt bs (i+1)) (byteAt bs i)

/-- `ENCINT_MAX_BYTES` for a 64-bit `off_t` -/
def encintMaxBytes : Nat := 9
/-- `ENCINT_BAD_LAST_BYTE` for a 64-bit `off_t` -/
def encintBadLastByte : Nat := 0x80

/-- outcome of one `read_encint(&p, end, &err)` call -/
structure EncRes where
  /-- the `off_t` returned (`0` when the call failed); at most 63 bits, so never negative -/
  value : Nat
  /-- `*p` afterwards (advanced over the bytes consumed, also when the call failed) -/
  pos   : Nat
  /-- the call stored `1` into `*err` (otherwise `*err` is left as it was) -/
  fail  : Bool
  deriving Repr, DecidableEq

/-- what the `while` loop of `read_encint` leaves behind -/
structure EncLoop where
  hitEnd : Bool      -- left through `if (*p >= end) { *err = 1; return 0; }`
  i      : Nat
  pos    : Nat
  result : Nat
  c      : UInt8
  deriving Repr

/-- `while ((c & 0x80) && (i++ < ENCINT_MAX_BYTES)) { … }`.  Note the post-increment in the
    condition: when the 9th byte still has its continuation bit the test `i++ < 9` fails *and*
    leaves `i = 10`.  `fuel` = 10 suffices (at most 9 bodies + the failing test). -/
def encLoop (bs : Bytes) (e : Nat) : Nat → Nat → Nat → Nat → UInt8 → Except Fault EncLoop
  | 0, _, _, _, _ => .error .hang          -- unreachable with fuel ≥ 10
  | fuel + 1, i, p, result, c =>
    if c &&& 0x80 = 0 then .ok ⟨false, i, p, result, c⟩
    else if ¬ (i < encintMaxBytes) then .ok ⟨false, i + 1, p, result, c⟩
    else if p ≥ e then .ok ⟨true, i + 1, p, result, c⟩
    else
      match bs[p]? with
      | none => .error (.oob "read_encint: *p")
      | some c' =>
        -- `result = (result << 7) | (c & 0x7F)`: at most 9 × 7 = 63 bits, no `off_t` overflow
        encLoop bs e fuel (i + 1) (p + 1) ((result <<< 7) ||| (c'.toNat &&& 0x7F)) c'

/-- `read_encint(&p, end, &err)` on the chunk `bs`, `p`/`e` = indices of `*p`/`end`.
    The final check `i == ENCINT_MAX_BYTES && (c & ENCINT_BAD_LAST_BYTE)` can never fire: the
    loop is left with `i = 9` only when the 9th byte has no continuation bit, and an over-long
    number leaves `i = 10` (see `encLoop`).  So a 9-byte ENCINT whose last byte is ≥ 0x80 is
    accepted, its low 7 bits used (`prim encint 8080808080808080ff` = 127). -/
def readEncint (bs : Bytes) (p e : Nat) : Except Fault EncRes :=
  match encLoop bs e (encintMaxBytes + 1) 0 p 0 0x80 with
  | .error f => .error f
  | .ok l =>
    if l.hitEnd then .ok ⟨0, l.pos, true⟩
    else if l.i = encintMaxBytes ∧ l.c.toNat &&& encintBadLastByte ≠ 0 then .ok ⟨0, l.pos, true⟩
    else .ok ⟨l.result, l.pos, false⟩

/-- `GET_UTF8_CHAR(s, e, c)` on the bytes from `s` up to `e` (non-empty: the caller has checked
    `s < e`): the character and the rest.  `s < e` / `s+1 < e` / `s+2 < e` after the lead byte =
    at least 1 / 2 / 3 bytes follow.  Continuation bytes are not validated, some overlong forms
    pass — as in the macro. -/
def getUtf8Char : Bytes → Nat × Bytes
  | [] => (0xFFFD, [])
  | x :: s =>
    let xn := x.toNat
    if xn < 0x80 then (xn, s)
    else if 0xC2 ≤ xn ∧ xn < 0xE0 then
      match s with
      | a :: s' => (((xn &&& 0x1F) <<< 6) ||| (a.toNat &&& 0x3F), s')
      | [] => (0xFFFD, s)
    else if 0xE0 ≤ xn ∧ xn < 0xF0 then
      match s with
      | a :: b :: s' =>
        (((xn &&& 0x0F) <<< 12) ||| ((a.toNat &&& 0x3F) <<< 6) ||| (b.toNat &&& 0x3F), s')
      | _ => (0xFFFD, s)
    else if 0xF0 ≤ xn ∧ xn ≤ 0xF5 then
      match s with
      | a :: b :: c :: s' =>
        let v := ((xn &&& 0x07) <<< 18) ||| ((a.toNat &&& 0x3F) <<< 12) |||
                 ((b.toNat &&& 0x3F) <<< 6) ||| (c.toNat &&& 0x3F)
        (if v > 0x10FFFF then 0xFFFD else v, s')
      | _ => (0xFFFD, s)
    else (0xFFFD, s)

/-- `TOLOWER` = `towlower` (HAVE_TOWLOWER build).  The harness never calls `setlocale`, so this is
    the "C" locale's `towlower`, which maps only ASCII `A`–`Z` (checked: `prim utf8cmp c380 c3a0`
    = -1, U+00C0 vs U+00E0).  Under another locale the real function folds more characters. -/
def toLower (c : Nat) : Nat := if 0x41 ≤ c ∧ c ≤ 0x5A then c + 0x20 else c

/-- the `while (p1 < e1 && p2 < e2)` loop of `compare`: `some d` = left through `return c1 - c2`.
    Every iteration consumes at least one byte of each string: `fuel = l1 + 1` suffices. -/
def compareGo : Nat → Bytes → Bytes → Option Int
  | 0, _, _ => none
  | fuel + 1, s1, s2 =>
    if s1.isEmpty ∨ s2.isEmpty then none else
    let (c1, s1') := getUtf8Char s1
    let (c2, s2') := getUtf8Char s2
    if c1 = c2 then compareGo fuel s1' s2' else
    let d1 := toLower c1
    let d2 := toLower c2
    if d1 ≠ d2 then some (Int.ofNat d1 - Int.ofNat d2) else compareGo fuel s1' s2'

/-- `compare(s1, s2, l1, l2)`: case-insensitive UTF-8 comparison, lengths given, NULs are not
    terminators; falls back to `l1 - l2` -/
def compare (s1 s2 : Bytes) : Int :=
  match compareGo (s1.length + 1) s1 s2 with
  | some d => d
  | none => Int.ofNat s1.length - Int.ofNat s2.length

end MsPack.Chm
