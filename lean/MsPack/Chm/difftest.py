#!/usr/bin/env python3
"""Differential test of the Lean CHM model (mspack-driver) against the real chmd.c (apiharness).

Regenerates case files into a temp dir, runs both programs on them and diffs the result lines
(MONITOR/ev lines, the `end` line and `edges=`/`calls=` suffixes are ignored).  A model fault
(`<op> FAULT shiftWidth|hang|oob ..`) must coincide with a harness CRASH / TIMEOUT line of the
matching kind; comparison of that case stops there (the harness child is dead).  Driver lines
`extract unsupported` / `ffextract unsupported` (LZX model not landed) match anything and end the
comparison of that case (the decoder cache state is unknown from there on).

  difftest.py [--n N] [--seed S] [--harness PATH] [--driver PATH] [--keep DIR] [--jobs J]

Case families: prim (encint / utf8cmp), fixtures (/repo/libmspack/test/test_files/chmd, incl. the
cve-* files, plain and mutated), gen (vgen.chm.random_case: listing, fast_find for present /
absent / case-variant names, extraction, cache reuse orders, several handles and instances),
tgt (explicit plans around ControlData / ResetTable / SpanInfo / entry filters / 64-bit
arithmetic / the D11 member at the padded stream end), mut (truncations, bit flips and byte stomps in headers / chunks / system files, density >= 16 / >= 32 (clamped by the C since 004b113),
self-pointing PMGI, PMGL cycles, bad chunk numbers, ENCINT damage).
"""
import argparse, glob, os, random, re, shutil, signal, struct, subprocess, sys, tempfile
from concurrent.futures import ThreadPoolExecutor

sys.path.insert(0, '/verif/gen')
import vgen.chm as vchm  # noqa: E402

FIXDIR = '/repo/libmspack/test/test_files/chmd'


def hx(b):
    return b.hex() if b else '-'


class Case:
    def __init__(self, tag):
        self.tag = tag
        self.lines = []
        self.blobs = {}

    def file(self, name, data):
        self.blobs[name] = data
        self.lines.append(('FILE', name))

    def op(self, s):
        self.lines.append(s)

    def write(self, d, idx):
        base = os.path.join(d, 'c%05d_%s' % (idx, self.tag))
        out = []
        for l in self.lines:
            if isinstance(l, tuple):
                p = base + '.' + l[1] + '.bin'
                with open(p, 'wb') as f:
                    f.write(self.blobs[l[1]])
                out.append('fileref %s %s' % (l[1], p))
            else:
                out.append(l)
        with open(base + '.case', 'w') as f:
            f.write('\n'.join(out) + '\n')
        return base + '.case'


# ---------------------------------------------------------------- prim cases
def prim_case(rng):
    c = Case('prim')
    for _ in range(40):
        k = rng.random()
        if k < 0.5:
            n = rng.choice([0, 1, 2, 3, 8, 9, 10, 11, 12])
            b = bytes((rng.getrandbits(8) | (0x80 if rng.random() < 0.8 else 0)) for _ in range(n))
            if b and rng.random() < 0.6:
                b = b[:-1] + bytes([b[-1] & 0x7F])
            c.op('prim encint %s' % hx(b))
        else:
            def s():
                pool = ['a', 'A', 'z', 'Z', '[', '@', '`', '{', 'é', 'É', 'ß', 'İ', 'ı', 'Ａ', 'ａ', '中', '\U00010400', '\U00010428', '\0', '/']
                t = ''.join(rng.choice(pool) for _ in range(rng.randint(0, 6))).encode()
                if rng.random() < 0.4:
                    t += bytes(rng.choice([0x80, 0xBF, 0xC0, 0xC1, 0xC2, 0xDF, 0xE0, 0xEF, 0xF0, 0xF4, 0xF5, 0xF6, 0xFF]) for _ in range(rng.randint(1, 3)))
                if rng.random() < 0.3:
                    t = t[:rng.randint(0, len(t))]
                return t
            a = s()
            b = a.swapcase() if rng.random() < 0.3 else s()
            c.op('prim utf8cmp %s %s' % (hx(a), hx(b)))
    return c


# ---------------------------------------------------------------- op scripts
def case_variant(rng, name):
    try:
        s = name.decode()
    except UnicodeDecodeError:
        return name
    t = ''.join(ch.swapcase() if rng.random() < 0.5 else ch for ch in s)
    return t.encode()


def script(c, rng, fname, names, nfiles, nsys, twice=False):
    """ops on one CHM file `fname` whose listing has (about) nfiles/nsys entries"""
    c.op('new chm')
    ninst = 1
    if rng.random() < 0.2:
        c.op('new chm'); ninst = 2
    h = 0
    handles = []
    mode = rng.choice(['open', 'open', 'fastopen', 'both'])
    for m in (['open', 'fastopen'] if mode == 'both' else [mode]):
        c.op('%s i0 %s' % (m, fname)); handles.append((h, m)); h += 1
    if rng.random() < 0.15:
        c.op('fastopen i0 nosuchfile')
    steps = rng.randint(3, 14)
    for _ in range(steps):
        hk, m = rng.choice(handles)
        inst = 'i%d' % rng.randrange(ninst)
        k = rng.random()
        if k < 0.35 and m == 'open':
            idx = rng.randrange(nfiles + 1) if nfiles else 0
            c.op('extract %s h%d %d out%d' % (inst, hk, idx, rng.randrange(3)))
        elif k < 0.45 and m == 'open':
            idx = rng.randrange(nsys + 1) if nsys else 0
            c.op('extract %s h%d s%d out%d' % (inst, hk, idx, rng.randrange(3)))
        elif k < 0.75:
            r = rng.random()
            if names and r < 0.5: nm = rng.choice(names)
            elif names and r < 0.7: nm = case_variant(rng, rng.choice(names))
            elif names and r < 0.8: nm = rng.choice(names)[:-1] + bytes([rng.getrandbits(8)])
            elif r < 0.9: nm = rng.choice([b'/', b'', b'::DataSpace/NameList', vchm.CONTENT, vchm.RTABLE, vchm.CONTROL, vchm.SPANINFO, b'/zzzzzz', b'#', b'\xff\xff'])
            else: nm = bytes(rng.getrandbits(8) for _ in range(rng.randint(1, 5)))
            if rng.random() < 0.5: c.op('fastfind %s h%d %s' % (inst, hk, hx(nm)))
            else: c.op('ffextract %s h%d %s out%d' % (inst, hk, hx(nm), rng.randrange(3)))
        elif k < 0.85:
            c.op('dump %s h%d' % (inst, hk))
        elif k < 0.92 and len(handles) < 4:
            m2 = rng.choice(['open', 'fastopen'])
            c.op('%s %s %s' % (m2, inst, fname)); handles.append((h, m2)); h += 1   # (handle number only right if the open succeeds)
        elif k < 0.96 and len(handles) > 1:
            j = rng.randrange(len(handles)); hk2, _ = handles.pop(j)
            c.op('close %s h%d' % (inst, hk2))
        else:
            c.op('extract %s h%d %d out0' % (inst, hk, rng.randrange(max(1, nfiles))))
    if rng.random() < 0.5:
        for hk, _ in handles: c.op('close i0 h%d' % hk)
        if rng.random() < 0.3: c.op('close i0 h0')
    if rng.random() < 0.5:
        c.op('destroy i0')
        if rng.random() < 0.3: c.op('extract i0 h0 0 out0')


def full_script(c, fname, names, nfiles, nsys):
    """deterministic: list, find everything, extract everything, in two orders"""
    c.op('new chm')
    c.op('open i0 %s' % fname)
    c.op('fastopen i0 %s' % fname)
    for nm in names:
        c.op('fastfind i0 h1 %s' % hx(nm))
    for j in range(nfiles):
        c.op('extract i0 h0 %d o%d' % (j, j))
    for j in reversed(range(nfiles)):
        c.op('extract i0 h0 %d p%d' % (j, j))
    for j in range(nsys):
        c.op('extract i0 h0 s%d s%d' % (j, j))
    for nm in names:
        c.op('ffextract i0 h1 %s q' % hx(nm))
    c.op('dump i0 h1')
    c.op('close i0 h0'); c.op('close i0 h1'); c.op('destroy i0')



# ---------------------------------------------------------------- targeted cases
from vgen import lz, lzx  # noqa: E402
FRAME = 32768
_streams = {}


def lzx_stream(rng, wb, rframes, nint, short, e8):
    """(frames, plain, s1len) for nint reset intervals, the last one `short` bytes short"""
    key = (wb, rframes, nint, short, e8)
    if key not in _streams:
        rb = rframes * FRAME; padded = nint * rb; s1len = padded - short
        r2 = random.Random(hash(key) & 0xFFFF)
        data = lz.random_data(r2, s1len)
        if e8:
            data = bytearray(data)
            for q in range(100, s1len - 10, 9000): data[q:q + 5] = b'\xe8\x88\x13\x00\x00'
            data = bytes(data)
        frames, tot, m = lzx.compress(data + bytes(short), wb, r2, reset_interval=rframes, e8=e8, cuts=[s1len])
        _streams[key] = (frames, m['plain'], s1len)
    return _streams[key]


def targeted_case(rng):
    """CHMs built from explicit plans around the corners of chmd_init_decomp / read_reset_table /
    read_spaninfo / the entry filters / 64-bit arithmetic"""
    c = Case('tgt')
    wb = rng.choice([15, 16, 17]); rframes = rng.choice([1, 2]); nint = rng.choice([1, 2, 3]); rb = rframes * FRAME
    short = rng.choice([0, 0, 1, 77, rb // 2])
    frames, plain, s1len = lzx_stream(rng, wb, rframes, nint, short, rng.random() < 0.4)
    padded = nint * rb
    offs = [0]
    for fr in frames: offs.append(offs[-1] + len(fr))
    content = b''.join(frames)
    what = rng.choice(['d11', 'rt', 'rt', 'ctrl', 'ctrl', 'span', 'names', 'big', 'plain', 'order'])
    tag = what
    # --- ControlData
    cver = rng.choice([1, 2]); ctrl = vchm.control_data(cver, rframes, wb)
    if what == 'ctrl':
        k = rng.choice(['ver', 'ri', 'ws', 'sig', 'len', 'sec'])
        tag += '_' + k
        cb = bytearray(ctrl)
        if k == 'ver': struct.pack_into('<I', cb, 8, rng.choice([0, 3, 0xFFFFFFFF]))
        elif k == 'ri': struct.pack_into('<I', cb, 12, rng.choice([0, 1, 32767, 32769, 0x8000, 0x10000, 0x20000, 0x80000000, 0xFFFF8000, 0xFFFFFFFF, 0x10001, 0x18000, 3, 0x30000, 4 * FRAME if cver == 1 else 4]))
        elif k == 'ws': struct.pack_into('<I', cb, 16, rng.choice([0, 1, 0x4000, 0x8000, 0x400000, 0x200000, 0x80008000, 0x10, 0x20, 0x40, 0x20040, 0x10000]))
        elif k == 'sig': cb[4 + rng.randrange(4)] ^= 1 << rng.randrange(8)
        ctrl = bytes(cb)
        if k == 'len': ctrl = ctrl[:rng.choice([0, 27, 24])] if rng.random() < 0.5 else ctrl + b'\0'
    # --- ResetTable
    nent = len(frames); esz = rng.choice([8, 8, 4]); gap = rng.choice([0, 0, 8]); ulen = s1len; rtoffs = offs[:-1]
    if what == 'd11':
        nent = len(frames) + rng.choice([1, 1, 2]); rtoffs = offs + [offs[-1]] * 2
    rt = vchm.reset_table(rtoffs, ulen, offs[-1], esz, gap, nent)
    rt_entry = None
    if what == 'rt':
        k = rng.choice(['short', 'nent', 'esz', 'toff', 'ulen', 'frame', 'long', 'eof', 'sec1', 'cut', 'entry'])
        tag += '_' + k
        rb_ = bytearray(rt)
        if k == 'short': rt = rt[:rng.choice([0, 39, 40, 41, 44, 47])]
        elif k == 'nent': struct.pack_into('<I', rb_, 4, rng.choice([0, 1, nent - 1, nent + 1, 0xFFFFFFFF])); rt = bytes(rb_)
        elif k == 'esz': struct.pack_into('<I', rb_, 8, rng.choice([0, 1, 3, 4, 8, 16, 0x80000000, 0xFFFFFFFF, 0x20000000])); rt = bytes(rb_)
        elif k == 'toff': struct.pack_into('<I', rb_, 12, rng.choice([0, 0x20, 0x28, len(rt) - 8, len(rt) - 4, len(rt) - 3, len(rt), 0xFFFFFFF8, 0xFFFFFFFF])); rt = bytes(rb_)
        elif k == 'ulen': struct.pack_into('<q', rb_, 16, rng.choice([0, 1, -1, padded, padded + 1, padded - rb, 2 ** 62, 2 ** 63 - 1, -2 ** 63, 2 ** 63 - rb])); rt = bytes(rb_)
        elif k == 'frame': struct.pack_into('<I', rb_, 32, rng.choice([0, 0x8001, 0x10000])); rt = bytes(rb_)
        elif k == 'long': rt = rt + bytes(rng.choice([1000000 - len(rt), 1000001 - len(rt)]))
        elif k == 'eof': rt_entry = (0, rng.choice([2 ** 40, 2 ** 63 - 1, 10 ** 7]), len(rt))
        elif k == 'sec1': rt_entry = (1, 0, len(rt))
        elif k == 'cut': pass                           # handled below: declared longer than what the file has
        elif k == 'entry':
            q = 0x28 + gap + esz * rng.randrange(len(frames))
            if esz == 8: struct.pack_into('<q', rb_, q, rng.choice([-1, 2 ** 63 - 1, -2 ** 63, 1, 10 ** 9]))
            else: struct.pack_into('<I', rb_, q, rng.choice([0xFFFFFFFF, 1, 10 ** 9]))
            rt = bytes(rb_)
    # --- SpanInfo
    span = struct.pack('<q', s1len)
    span_entry = None; drop_rt = False
    if what == 'span':
        drop_rt = rng.random() < 0.8
        k = rng.choice(['ok', 'zero', 'neg', 'len', 'sec1', 'huge', 'eof', 'small'])
        tag += '_' + k
        if k == 'zero': span = struct.pack('<q', 0)
        elif k == 'neg': span = struct.pack('<q', rng.choice([-1, -2 ** 63]))
        elif k == 'len': span = span[:7] if rng.random() < 0.5 else span + b'\0'
        elif k == 'huge': span = struct.pack('<q', rng.choice([2 ** 63 - 1, 2 ** 40]))
        elif k == 'small': span = struct.pack('<q', rng.choice([1, 5, s1len // 2]))
        elif k == 'sec1': span_entry = (1, 0, 8)
        elif k == 'eof': span_entry = (0, 2 ** 50, 8)
    # --- members
    members = []
    cuts = sorted(set([0, s1len] + [rng.randrange(s1len + 1) for _ in range(rng.randint(1, 4))] + [q for q in (rb, 2 * rb, FRAME) if q < s1len]))
    for i, (a0, a1) in enumerate(zip(cuts, cuts[1:])):
        members.append((b'/m%02d' % i, 1, a0, a1 - a0))
    if what == 'd11': members.append((b'/zz_end', 1, padded, rng.choice([5, 1, 100])))
    if what in ('big', 'plain') or rng.random() < 0.3:
        members.append((b'/zz_past', 1, rng.choice([padded + 1, padded, s1len, padded - 1, 2 ** 40, 2 ** 63 - 1]), rng.choice([1, 10, 2 ** 40])))
        members.append((b'/zz_long', 1, rng.choice([0, s1len - 5 if s1len > 5 else 0]), rng.choice([s1len + 1, padded, padded + 1, padded + 2, 2 ** 62])))
    # --- section 0 layout
    s0 = bytearray(rng.randbytes(rng.choice([0, 3])))
    entries = []
    def put(name, data, override=None):
        off = len(s0); s0.extend(data)
        if override: entries.append((name, override[0], override[1], override[2]))
        else: entries.append((name, 0, off, len(data)))
    put(vchm.CONTROL, ctrl, (0, len(s0), len(ctrl) + 1) if (what == 'ctrl' and rng.random() < 0.1) else None)
    if not drop_rt: put(vchm.RTABLE, rt, rt_entry)
    if not (what == 'rt' and rng.random() < 0.2): put(vchm.SPANINFO, span, span_entry)
    put(b'/plain0', rng.randbytes(rng.choice([0, 1, 511, 512, 513, 1500])))
    put(vchm.CONTENT, content + rng.randbytes(rng.choice([0, 0, 4])))
    if what == 'rt' and 'cut' in tag:
        # ResetTable last in section 0 and declared longer than the file
        off = len(s0); s0.extend(rt); entries = [e for e in entries if e[0] != vchm.RTABLE] + [(vchm.RTABLE, 0, off, len(rt) + rng.choice([1, 100]))]
    if what == 'names':
        for nm, sec, off, ln in [(b'/a\0b', 0, 0, 3), (b'/\0', 0, 0, 1), (b'::', 0, 0, 2), (b'::x', 1, 0, 0), (b'/', 0, 0, 0), (b'/d/', 0, 0, 0), (b'/e/', 0, 0, 1), (b'/f/', 0, 1, 0),
                                  (b'/s2', 2, 0, 1), (b'/s3', 0xFFFFFFFF, 0, 1), (b'/s4', 0x100000000, 0, 2), (b'/s5', 0x100000001, 0, 2), (b'ab', 0, 0, 2), (b'\xc3\x89', 0, 1, 1),
                                  (b'/dup', 0, 0, 1), (b'/DUP', 0, 1, 1), (vchm.CONTENT + b'x', 0, 0, 1), (vchm.CONTROL, 0, 5, 28), (b'/n\xff\xfe', 0, 0, 1)]:
            if rng.random() < 0.7: entries.append((nm, sec, off, ln))
    if what == 'big':
        for nm, sec, off, ln in [(b'/b0', 0, 2 ** 63 - 1, 1), (b'/b1', 0, 2 ** 63 - 1 - len(s0), 4), (b'/b2', 0, 0, 2 ** 63 - 1), (b'/b3', 0, len(s0) - 2, 2), (b'/b4', 0, len(s0) - 2, 3),
                                  (b'/b5', 0, len(s0), 1), (b'/b6', 0, 2 ** 62, 2 ** 62), (b'/b7', 1, 2 ** 63 - 1, 2 ** 63 - 1)]:
            entries.append((nm, sec, off, ln))
    entries += members
    need = max(len(n) + 40 for n, _, _, _ in entries) + 0x14 + 4
    cs = rng.choice([max(need, 256), 512, 4096, max(need, rng.randint(need, 600))])
    f, fields = vchm.build(entries, bytes(s0), version=rng.choice([2, 3, 3]), chunk_size=cs, density=rng.choice([0, 1, 2]),
                           index_levels=rng.choice([0, 1, 2]), hs0_pos=rng.choice(['before', 'end']))
    if what == 'big' and fields['ver'] == 3 and rng.random() < 0.5:
        fb = bytearray(f); k = rng.choice(['sec0', 'len', 'hs0', 'hs1'])
        if k == 'sec0': struct.pack_into('<q', fb, 0x58, rng.choice([-1, -2 ** 63, 2 ** 63 - 1, fields['len'], fields['len'] + 1, 0]))
        elif k == 'len': struct.pack_into('<q', fb, struct.unpack_from('<q', fb, 0x38)[0] + 8, rng.choice([-1, 2 ** 63 - 1, fields['sec0'], fields['sec0'] - 1, 0]))
        elif k == 'hs0': struct.pack_into('<q', fb, 0x38, rng.choice([-1, -2 ** 63, 2 ** 63 - 1, len(fb), len(fb) - 0x18, len(fb) - 0x17]))
        else: struct.pack_into('<q', fb, 0x48, rng.choice([-1, -2 ** 63, 2 ** 63 - 1, len(fb), len(fb) - 0x54]))
        f = bytes(fb); tag += '_' + k
    c.tag = 'tgt_' + tag
    c.file('f', f)
    names = sorted(set(n for n, _, _, _ in entries))
    nf = sum(1 for n in names if not n.startswith(b'::')) + 2; ns = sum(1 for n in names if n.startswith(b'::')) + 1
    c.op('new chm')
    style = rng.choice(['open', 'fast', 'both'])
    if style in ('open', 'both'):
        c.op('open i0 f')
        order = list(range(nf)); rng.shuffle(order)
        if what == 'order': order = order + order[::-1]
        for j in order[:rng.randint(3, 14)]: c.op('extract i0 h0 %d o%d' % (j, j % 3))
        if rng.random() < 0.5:
            for j in order[:4]: c.op('extract i0 h0 %d o%d' % (j, j % 3))      # again: cached decoder / stale errors
        c.op('dump i0 h0')
    if style in ('fast', 'both'):
        hk = 1 if style == 'both' else 0
        c.op('fastopen i0 f')
        nms = [n for n in names if rng.random() < 0.6]; rng.shuffle(nms)
        for nm in nms[:12]:
            c.op(('ffextract i0 h%d %s q' if rng.random() < 0.7 else 'fastfind i0 h%d %s') % (hk, hx(nm)))
        for nm in nms[:3]: c.op('ffextract i0 h%d %s q' % (hk, hx(nm)))
        c.op('dump i0 h%d' % hk)
    if rng.random() < 0.5: c.op('close i0 h0'); c.op('extract i0 h0 0 o')
    return c


def sticky_case(rng):
    """an ENCINT that runs off the end of one PMGL chunk: `err` in chmd_read_headers is never
    cleared, so the entries of all later chunks are dropped too"""
    c = Case('tgt_sticky')
    n = rng.randint(4, 12); cs = rng.choice([64, 80, 128])
    ents = [(b'/f%02d' % i, 0, i, 1) for i in range(n)]
    f, fl = vchm.build(ents, bytes(n + 4), version=rng.choice([2, 3]), chunk_size=cs, density=rng.choice([0, 1]), fill=lambda: 2,
                       index_levels=rng.choice([0, 1]))
    f = bytearray(f); ch = rng.randrange(fl['last'] + 1); b = fl['diroff'] + cs * ch
    f[b + 0x14] = 2
    for q in range(b + 0x15, b + cs - 2): f[q] = 0x80 | rng.choice([0, 0, 1, 0x7F])
    struct.pack_into('<H', f, b + cs - 2, rng.choice([1, 2, 3, 50]))
    c.file('f', bytes(f))
    c.op('new chm'); c.op('open i0 f'); c.op('fastopen i0 f')
    for i in range(n): c.op('fastfind i0 h1 %s' % hx(b'/f%02d' % i))
    for i in range(n): c.op('extract i0 h0 %d o' % i)
    return c


# ---------------------------------------------------------------- mutations
def parse_layout(f):
    """(hs1 offset, chunk_size, num_chunks, dir start) of a CHM as chmd would read it, or None"""
    try:
        hs1 = struct.unpack_from('<q', f, 0x38 + 0x10)[0]
        cs, dens, depth, root, first, last, _, nch = struct.unpack_from('<IIIIIIII', f, hs1 + 0x10)
        return hs1, cs, nch, hs1 + 0x54
    except struct.error:
        return None


def mutate(rng, f):
    f = bytearray(f)
    lay = parse_layout(f)
    kinds = ['trunc', 'flip_head', 'flip_any', 'stomp_head']
    if lay and 0 < lay[1] <= 8192 and 0 < lay[2] < 2000:
        kinds += ['density', 'flip_chunk', 'flip_chunk', 'stomp_chunk', 'selfpmgi', 'pmglcycle', 'badchunk', 'qr', 'encint', 'itsp', 'nentries', 'flip_sys']
    kind = rng.choice(kinds)
    if kind == 'trunc':
        cut = rng.choice([rng.randrange(len(f) + 1), rng.randrange(min(len(f), 0x120) + 1)])
        del f[cut:]
    elif kind == 'flip_head':
        for _ in range(rng.randint(1, 4)):
            p = rng.randrange(min(len(f), 0x120)); f[p] ^= 1 << rng.randrange(8)
    elif kind == 'flip_any':
        for _ in range(rng.randint(1, 6)):
            p = rng.randrange(len(f)); f[p] ^= 1 << rng.randrange(8)
    elif kind == 'stomp_head':
        p = rng.randrange(min(len(f), 0x120)); n = rng.choice([1, 4, 8])
        v = rng.choice([b'\x00' * 8, b'\xff' * 8, bytes(rng.getrandbits(8) for _ in range(8)), b'\x00\x00\x00\x80\x00\x00\x00\x00', b'\xff\xff\xff\x7f\xff\xff\xff\x7f'])
        f[p:p + n] = v[:n]
    else:
        hs1, cs, nch, d0 = lay
        ch = rng.randrange(nch); base = d0 + ch * cs
        if kind == 'density':
            struct.pack_into('<I', f, hs1 + 0x14, rng.choice([31, 32, 33, 40, 64, 255, 0x80000000, 0xFFFFFFFF, rng.getrandbits(32), 6, 12, 30]))
        elif kind == 'flip_chunk':
            for _ in range(rng.randint(1, 5)):
                p = base + rng.randrange(cs)
                if p < len(f): f[p] ^= 1 << rng.randrange(8)
        elif kind == 'stomp_chunk':
            p = base + rng.randrange(cs)
            if p < len(f): f[p] = rng.choice([0, 0x7F, 0x80, 0xFF, rng.getrandbits(8)])
        elif kind == 'selfpmgi':
            # make every PMGI entry's chunk number point at some chunk (often itself)
            for c in range(nch):
                b = d0 + c * cs
                if f[b:b + 4] == b'PMGI':
                    p = b + 8; end = b + cs - struct.unpack_from('<I', f, b + 4)[0]
                    n = struct.unpack_from('<H', f, b + cs - 2)[0]
                    for _ in range(n):
                        try:
                            ln = f[p]
                            if ln & 0x80: ln = ((ln & 0x7F) << 7) | f[p + 1]; p += 1
                            p += 1 + ln
                            tgt = rng.choice([c, c, rng.randrange(nch), nch, nch + 1, 127])
                            while f[p] & 0x80: f[p] = 0x80; p += 1
                            f[p] = tgt & 0x7F; p += 1
                        except IndexError:
                            break
        elif kind == 'pmglcycle':
            for c in range(nch):
                b = d0 + c * cs
                if f[b:b + 4] == b'PMGL' and rng.random() < 0.7:
                    struct.pack_into('<I', f, b + 0x10, rng.choice([c, rng.randrange(nch), 0, nch, 0xFFFFFFFF]))
            if rng.random() < 0.7: struct.pack_into('<i', f, hs1 + 0x1C, -1)          # no index: PMGL walk
            if rng.random() < 0.5: struct.pack_into('<I', f, hs1 + 0x24, rng.choice([nch - 1, nch, nch + 5, 0xFFFFFFFE]))
        elif kind == 'badchunk':
            fld = rng.choice([0x1C, 0x20, 0x24, 0x2C])
            struct.pack_into('<I', f, hs1 + fld, rng.choice([0, 1, nch - 1, nch, nch + 1, 0xFFFFFFFF, 0xFFFFFFFE, rng.randrange(nch + 3), 100000, 100001]))
        elif kind == 'qr':
            struct.pack_into('<I', f, base + 4, rng.choice([0, 1, 2, 3, cs, cs + 1, cs - 1, 0xFFFFFFFF, rng.randrange(cs + 2)]))
            if rng.random() < 0.5 and base + cs <= len(f):
                p = base + cs - 2 - 2 * rng.randint(0, 3)
                struct.pack_into('<H', f, p, rng.choice([0, 1, 0xFFFF, rng.getrandbits(16), rng.randrange(cs)]))
        elif kind == 'nentries':
            if base + cs <= len(f): struct.pack_into('<H', f, base + cs - 2, rng.choice([0, 1, 2, 0xFFFF, rng.getrandbits(16), rng.randint(0, 40)]))
        elif kind == 'encint':
            # turn some bytes of the entry area into long ENCINTs
            p = base + 0x14 + rng.randrange(max(1, cs - 0x16)); n = rng.randint(1, 10)
            for q in range(p, min(p + n, len(f))): f[q] |= 0x80
        elif kind == 'itsp':
            fld = rng.choice([0x10, 0x14, 0x18, 0x1C, 0x20, 0x24, 0x2C])
            struct.pack_into('<I', f, hs1 + fld, rng.choice([0, 1, 21, 22, 23, 4096, 8192, 8193, 0xFFFFFFFF, rng.getrandbits(32), rng.getrandbits(8)]))
        elif kind == 'flip_sys':
            # damage after the directory: system files (ControlData, ResetTable, SpanInfo) live there
            lo = d0 + nch * cs
            if lo < len(f):
                for _ in range(rng.randint(1, 8)):
                    p = rng.randrange(lo, len(f)); f[p] = rng.choice([f[p] ^ (1 << rng.randrange(8)), 0, 0xFF, 0x80])
    return bytes(f), kind


# ---------------------------------------------------------------- running / comparing
SUFFIX = re.compile(r' (edges|calls)=\d+')


def norm(lines):
    out = []
    for l in lines:
        if l.startswith('MONITOR') or l.startswith('ev ') or l.startswith('end'):
            continue
        out.append(SUFFIX.sub('', l))
    return out


def split_cases(text):
    cases = {}; cur = None
    for l in text.split('\n'):
        if l.startswith('== CASE '):
            cur = l[8:]; cases[cur] = []
        elif cur is not None and l != '':
            cases[cur].append(l)
    return cases


def run(cmd, paths, env=None):
    r = subprocess.run(cmd + paths, stdout=subprocess.PIPE, stderr=subprocess.PIPE, env=env)
    return split_cases(r.stdout.decode('utf-8', 'replace'))


def fault_matches(dl, hl):
    if 'FAULT' not in dl: return False
    if 'hang' in dl: return hl.startswith('TIMEOUT')
    if 'shiftWidth' in dl: return hl.startswith('CRASH kind=ubsan') and 'shift' in hl.lower() or (hl.startswith('CRASH kind=ubsan'))
    if 'oob' in dl or 'nullDeref' in dl: return hl.startswith('CRASH kind=asan') or hl.startswith('CRASH kind=signal')
    return False


def compare(h, d, stats):
    """-> None if equal, else (index, harness line, driver line)"""
    h = norm(h); d = norm(d)
    for i in range(max(len(h), len(d))):
        hl = h[i] if i < len(h) else '<missing>'
        dl = d[i] if i < len(d) else '<missing>'
        if hl == dl: continue
        if dl.endswith(' unsupported') and (dl.startswith('extract') or dl.startswith('ffextract')) and (hl.startswith('extract st=') or hl.startswith('ffextract st=') or hl.startswith('CRASH') or hl.startswith('TIMEOUT')):
            # the model's state is not meaningful past a decoder call it could not make
            stats['lzx-skipped'] += 1
            return None
        if fault_matches(dl, hl):
            stats['fault:' + dl.split('FAULT ')[1].split()[0].split('.')[-1]] += 1
            return None
        return (i, hl, dl)
    return None


class GenTimeout(Exception):
    pass


def guarded(seconds, fn, *args):
    """run fn under an alarm (the generators are randomised; a stuck one is skipped, not fatal)"""
    def h(sig, frm): raise GenTimeout()
    old = signal.signal(signal.SIGALRM, h); signal.alarm(seconds)
    try:
        return fn(*args)
    finally:
        signal.alarm(0); signal.signal(signal.SIGALRM, old)


def main():
    if os.environ.get('PYTHONHASHSEED') != '0':          # reproducible case sets for a given --seed
        os.execve(sys.executable, [sys.executable] + sys.argv, dict(os.environ, PYTHONHASHSEED='0'))
    ap = argparse.ArgumentParser()
    ap.add_argument('--n', type=int, default=3000)
    ap.add_argument('--seed', type=int, default=1)
    ap.add_argument('--harness', default=os.environ.get('VERIF_HARNESS'), help='apiharness binary (default: built into a temp dir)')
    ap.add_argument('--driver', default=None)
    ap.add_argument('--keep', default=None)
    ap.add_argument('--jobs', type=int, default=8)
    ap.add_argument('--size', default='small')
    ap.add_argument('--targeted', type=float, default=0.2, help='fraction of targeted cases')
    a = ap.parse_args()
    here = os.path.dirname(os.path.abspath(__file__))
    driver = a.driver or os.path.join(here, '..', '..', '.lake', 'build', 'bin', 'mspack-driver')
    hd = None
    if not a.harness or not os.path.exists(a.harness):
        hd = tempfile.mkdtemp(prefix='chmh'); subprocess.check_call(['bash', '/verif/harness/build.sh', hd], stdout=subprocess.DEVNULL)
        a.harness = os.path.join(hd, 'apiharness')
    work = a.keep or tempfile.mkdtemp(prefix='chmdiff')
    os.makedirs(work, exist_ok=True)
    rng = random.Random(a.seed)
    env = dict(os.environ, VERIF_CASE_TIMEOUT='4')

    # fixtures: bytes (un-XORed where needed) and their listings from a first harness run
    fixtures = {}
    for p in sorted(glob.glob(FIXDIR + '/*.chm*')):
        b = open(p, 'rb').read()
        if p.endswith('.xor'): b = bytes(x ^ 0xFF for x in b)
        fixtures[os.path.basename(p).replace('.xor', '')] = b
    probe = []
    for i, (nm, b) in enumerate(fixtures.items()):
        c = Case('probe'); c.file('f', b); c.op('new chm'); c.op('open i0 f'); probe.append((nm, c.write(work, 90000 + i)))
    res = run([a.harness], [p for _, p in probe], env)
    listing = {}
    for nm, p in probe:
        names = [bytes.fromhex(m.group(1)) for l in res.get(p, []) for m in [re.match(r'(?:sys)?file \d+ name=([0-9a-f]+) ', l)] if m]
        nf = sum(1 for l in res.get(p, []) if l.startswith('file '))
        ns = sum(1 for l in res.get(p, []) if l.startswith('sysfile '))
        listing[nm] = (names, nf, ns)

    cases = []
    # deterministic part: every fixture in full
    for nm, b in fixtures.items():
        names, nf, ns = listing[nm]
        c = Case('fix_' + re.sub(r'\W', '_', nm)[:30]); c.file('f', b); full_script(c, 'f', names, nf, ns); cases.append(c)
    gens = []; gen_skipped = 0
    while len(cases) < a.n:
        k = rng.random()
        if k < 0.03:
            cases.append(prim_case(rng)); continue
        if k < 0.03 + a.targeted:
            try:
                cases.append(guarded(60, sticky_case if rng.random() < 0.05 else targeted_case, rng))
            except (GenTimeout, AssertionError, struct.error):
                gen_skipped += 1
            continue
        if k < 0.15 + a.targeted:
            nm = rng.choice(list(fixtures)); b = fixtures[nm]; names, nf, ns = listing[nm]; tag = 'fx'
        else:
            if gens and rng.random() < 0.5:
                b, names, nf, ns = rng.choice(gens)
            else:
                try:
                    g = guarded(60, vchm.random_case, rng, a.size if rng.random() < 0.9 else 'medium')
                except (GenTimeout, AssertionError):
                    gen_skipped += 1; continue
                b = g['files']['f.chm']; names = [m['name'] for m in g['members']]
                nf = len(names); ns = len(g['meta']['expect']['sysfiles'])
                gens.append((b, names, nf, ns)); gens = gens[-40:]
            tag = 'gen'
        if rng.random() < 0.6:
            try:
                b2, kind = guarded(20, mutate, rng, b); tag += '_' + kind
                if rng.random() < 0.3: b2, k2 = guarded(20, mutate, rng, b2); tag += '_' + k2
            except (GenTimeout, struct.error):
                gen_skipped += 1; continue
        else:
            b2 = b
        c = Case(tag); c.file('f', b2)
        if rng.random() < 0.1: c.op('fill %02x' % rng.choice([0, 0xFF, 0x5A]))
        if rng.random() < 0.25: full_script(c, 'f', names[:30], min(nf, 30), min(ns, 8))
        else: script(c, rng, 'f', names, nf, ns)
        cases.append(c)

    paths = [c.write(work, i) for i, c in enumerate(cases)]
    batches = [paths[i:i + 100] for i in range(0, len(paths), 100)]
    with ThreadPoolExecutor(a.jobs) as ex:
        hres = list(ex.map(lambda b: run([a.harness], b, env), batches))
        dres = list(ex.map(lambda b: run([driver], b), batches))
    H = {}; D = {}
    for r in hres: H.update(r)
    for r in dres: D.update(r)
    from collections import Counter
    stats = Counter(); bad = []; fam = Counter(); lines = 0
    for c, p in zip(cases, paths):
        fam[c.tag.split('_')[0]] += 1
        lines += len(norm(H.get(p, [])))
        r = compare(H.get(p, ['<no harness output>']), D.get(p, ['<no driver output>']), stats)
        if r: bad.append((p, r))
    print('cases=%d (%s) result-lines=%d disagreements=%d' % (len(cases), ' '.join('%s=%d' % kv for kv in sorted(fam.items())), lines, len(bad)))
    stats['generator-skipped'] = gen_skipped
    print('notes: ' + ' '.join('%s=%d' % kv for kv in sorted(stats.items())))
    for p, (i, hl, dl) in bad[:25]:
        print('DIFF %s line %d\n  harness: %s\n  driver : %s' % (p, i, hl[:300], dl[:300]))
    if hd: shutil.rmtree(hd, ignore_errors=True)
    if not a.keep and not bad:
        shutil.rmtree(work, ignore_errors=True)
    else:
        print('cases kept in', work)
    return 1 if bad else 0


if __name__ == '__main__':
    sys.exit(main())
