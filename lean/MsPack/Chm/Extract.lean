import MsPack.Chm.Find
import MsPack.Lzx.Decoder
/-
`chmd_extract`, `chmd_init_decomp`, `read_reset_table`, `read_spaninfo`, `find_sys_file`,
`read_sys_file`, `chmd_close` (chmd.c) on a fault-free host: opens of existing files, allocations
and writes succeed; `seek` fails only for a negative target; a read delivers
min(n, bytes left in the file).

The LZX decoder is used through the interface of `MsPack/Lzx/Decoder.lean`; its input source is the
CHM file handle `self->d->infh` (`Src Rd`), its output goes through `chmd_sys_write`, which counts
every byte into `self->d->offset` and passes it on only while `self->d->outfh` is set.

Defects of the C that follow from mirroring it (not "fixed" here):
* (repaired in the C, D27: `chmd_init_decomp` used to end with `return self->error` while `self->error` could still
  hold the error of a *tolerated* reset-table failure; the extract then failed with that stale code although the
  decoder was set up, and the same call repeated succeeded.)
* a member whose offset equals the padded stream length, with a reset-table entry for it, gives
  `lzxd_init` the remaining length 0, which means "unknown": extract can return OK having
  written fewer bytes than declared.
* decoding that starts at a reset point starts the LZX decoder's `offset` at 0, so the E8
  translation sees other "current positions" than sequential decoding from the start does.
* signed `int` overflow (undefined; wraps in the harness build, which does not use
  `-fsanitize=signed-integer-overflow`) in `entry *= reset_interval / LZX_FRAME_SIZE`,
  `entry * LZX_FRAME_SIZE`, `reset_interval - 1` and `-reset_interval` for absurd ControlData;
  likewise `off_t` overflow in `chm->sec0.offset + file->offset` and friends.  Modelled as
  wrapping (`wrapI32` / `wrapI64`).
-/
namespace MsPack.Chm
open MsPack MsPack.Generated

-- chm.h offsets not in Generated/Consts.lean
def lzxcd_Signature : Nat := 0x0004
def lzxcd_Version : Nat := 0x0008
def lzxcd_ResetInterval : Nat := 0x000C
def lzxcd_WindowSize : Nat := 0x0010
def lzxrt_NumEntries : Nat := 0x0004
def lzxrt_EntrySize : Nat := 0x0008
def lzxrt_TableOffset : Nat := 0x000C
def lzxrt_UncompLen : Nat := 0x0010
def lzxrt_FrameLen : Nat := 0x0020

abbrev Files := List (String × Bytes)

/-- an open read handle on an in-memory file: the name it was opened under and the position.
    (The handle sees the file's current contents, like the harness's in-memory system.) -/
structure InFh where
  name : String
  pos  : Nat
  deriving Repr, DecidableEq

/-- `struct mschmd_decompress_state`.  `chm` = identity of the header (`d->chm` is only ever
    compared); `length` and `inoffset` hold allocator fill until `chmd_init_decomp` sets them
    (they are not read before). -/
structure DState where
  chm      : Nat
  length   : Int
  offset   : Int
  inoffset : Int
  state    : Option (Lzx.St Rd)
  infh     : Option InFh
  -- `outfh` is NULL outside `chmd_extract`; inside, the two phases are explicit in the model

/-- `struct mschm_decompressor_p` -/
structure Inst where
  error : Err := .ok
  d     : Option DState := none

/-- everything one `chmd_extract` call can change -/
structure X where
  error : Err          -- `self->error`
  hdr   : Header       -- the `mschmd_header` the file belongs to
  d     : DState       -- `*self->d`

def X.ff (x : X) : FF := ⟨x.error, x.hdr⟩
def X.setFF (x : X) (s : FF) : X := { x with error := s.error, hdr := s.hdr }

/-- contents of the file behind `self->d->infh` -/
def infhBytes (files : Files) (x : X) : Bytes :=
  match x.d.infh with
  | some h => (files.lookup h.name).getD []
  | none => []

/-- the CHM file handle as LZX input -/
def rdSrc : Src Rd :=
  { read := fun r n => let (b, r') := r.read n; .ok (some b, r') }

/-- the four `sec1` slots `find_sys_file` can fill -/
inductive Slot | content | control | spaninfo | rtable
  deriving Repr, DecidableEq

def Slot.name : Slot → Bytes
  | .content => contentName | .control => controlName
  | .spaninfo => spaninfoName | .rtable => rtableName

def Slot.get (h : Header) : Slot → Option CFile
  | .content => h.content | .control => h.control | .spaninfo => h.spaninfo | .rtable => h.rtable

def Slot.set (h : Header) (f : CFile) : Slot → Header
  | .content => { h with content := some f } | .control => { h with control := some f }
  | .spaninfo => { h with spaninfo := some f } | .rtable => { h with rtable := some f }

/-- `find_sys_file(self, sec, &sec->SLOT, name)`: the status and the state afterwards.
    Uses `chmd_fast_find` (which opens the CHM file once more under `chm->filename`). -/
def findSysFile (files : Files) (x : X) (slot : Slot) : Except Fault (Err × X) :=
  match slot.get x.hdr with
  | some _ => .ok (.ok, x)                                   -- already loaded
  | none =>
    match fastFind (files.lookup x.hdr.filename) x.ff slot.name with
    | .error f => .error f
    | .ok o =>
      let x := x.setFF o.st
      match o.res.sec with
      | none => .ok (.dataformat, x)
      | some sec =>
        if o.ret ≠ .ok then .ok (.dataformat, x) else
        -- copy result, name it, link it into the sysfiles list
        let f : CFile := { name := slot.name, sec := sec, offset := o.res.offset, length := o.res.length }
        .ok (.ok, { x with hdr := slot.set { x.hdr with sysfiles := f :: x.hdr.sysfiles } f })

/-- `read_sys_file(self, file)`: the data (`none` = NULL, `self->error` set) and the state -/
def readSysFile (files : Files) (x : X) (f : CFile) : Option Bytes × X :=
  if f.sec ≠ 0 then (none, { x with error := .dataformat }) else
  let len := wrapI32 f.length                                 -- `len = (int) file->length`
  -- (a negative `len` would make `alloc((size_t) len)` fail; the callers have checked the size)
  if len < 0 then (none, { x with error := .nomemory }) else
  match x.d.infh with
  | none => (none, { x with error := .seek })                 -- (infh is never NULL here)
  | some h =>
    match seekAbs ⟨infhBytes files x, h.pos⟩ (wrapI64 (x.hdr.sec0Offset + f.offset)) with
    | none => (none, { x with error := .seek })
    | some r =>
      let (data, r') := r.read len.toNat
      let x := { x with d := { x.d with infh := some { h with pos := r'.pos } } }
      if data.length ≠ len.toNat then (none, { x with error := .read }) else (some data, x)

/-- `read_reset_table(self, sec, entry, &length, &offset)`: `some (length, offset)` = success
    (non-zero return).  On failure the caller does not use what was stored. -/
def readResetTable (files : Files) (x : X) (entry : Nat) : Except Fault (Option (Int × Int) × X) :=
  match findSysFile files x .rtable with
  | .error f => .error f
  | .ok (err, x) =>
  if err ≠ .ok then .ok (none, x) else
  match x.hdr.rtable with
  | none => .error (.nullDeref "read_reset_table: sec->rtable")   -- unreachable
  | some rt =>
  if rt.length < Int.ofNat lzxrtHeaderSIZEOF then .ok (none, x) else
  if rt.length > 1000000 then .ok (none, x) else
  match readSysFile files x rt with
  | (none, x) => .ok (none, x)
  | (some data, x) =>
    if u32At data lzxrt_FrameLen ≠ lzxFRAME_SIZE then .ok (none, x) else
    let length := i64At data lzxrt_UncompLen
    let entrysize := u32At data lzxrt_EntrySize
    let pos := (u32At data lzxrt_TableOffset + (entry * entrysize) % 4294967296) % 4294967296
    -- `entry < NumEntries && pos <= (sec->rtable->length - entrysize)` (the latter in `off_t`)
    if entry < u32At data lzxrt_NumEntries ∧ Int.ofNat pos ≤ rt.length - Int.ofNat entrysize then
      if entrysize = 4 then
        if pos + 4 > data.length then .error (.oob "read_reset_table: data[pos]") else
        .ok (some (length, Int.ofNat (u32At data pos)), x)
      else if entrysize = 8 then
        if pos + 8 > data.length then .error (.oob "read_reset_table: data[pos]") else
        .ok (some (length, i64At data pos), x)
      else .ok (none, x)
    else .ok (none, x)

/-- `read_spaninfo(self, sec, &length)`: status and the length -/
def readSpaninfo (files : Files) (x : X) : Except Fault (Err × Int × X) :=
  match findSysFile files x .spaninfo with
  | .error f => .error f
  | .ok (err, x) =>
  if err ≠ .ok then .ok (.dataformat, 0, x) else
  match x.hdr.spaninfo with
  | none => .error (.nullDeref "read_spaninfo: sec->spaninfo")   -- unreachable
  | some si =>
  if si.length ≠ 8 then .ok (.dataformat, 0, x) else
  match readSysFile files x si with
  | (none, x) => .ok (x.error, 0, x)
  | (some data, x) =>
    let length := i64At data 0
    if length ≤ 0 then .ok (.dataformat, length, x) else .ok (.ok, length, x)

/-- window_bits for the `switch (window_size)` of `chmd_init_decomp` -/
def windowBits (windowSize : Int) : Option Nat :=
  if windowSize = 0x008000 then some 15
  else if windowSize = 0x010000 then some 16
  else if windowSize = 0x020000 then some 17
  else if windowSize = 0x040000 then some 18
  else if windowSize = 0x080000 then some 19
  else if windowSize = 0x100000 then some 20
  else if windowSize = 0x200000 then some 21
  else none

/-- `chmd_init_decomp(self, file)` for a member at `fileOffset` of section 1: the value returned
    (`self->error` at that moment) and the state.  `fill` = contents of fresh allocations. -/
def initDecomp (files : Files) (fill : UInt8) (x : X) (fileOffset : Int) : Except Fault (Err × X) :=
  let fail (e : Err) (x : X) : Except Fault (Err × X) := .ok (e, { x with error := e })
  -- ensure we have a mscompressed content section, and a ControlData file
  match findSysFile files x .content with
  | .error f => .error f
  | .ok (err, x) =>
  if err ≠ .ok then fail err x else
  match findSysFile files x .control with
  | .error f => .error f
  | .ok (err, x) =>
  if err ≠ .ok then fail err x else
  match x.hdr.content, x.hdr.control with
  | none, _ => .error (.nullDeref "chmd_init_decomp: sec->content")   -- unreachable
  | _, none => .error (.nullDeref "chmd_init_decomp: sec->control")   -- unreachable
  | some content, some control =>
  -- read ControlData
  if control.length ≠ Int.ofNat lzxcdSIZEOF then fail .dataformat x else
  match readSysFile files x control with
  | (none, x) => .ok (x.error, x)
  | (some data, x) =>
  if u32At data lzxcd_Signature ≠ 0x43585A4C then fail .signature x else
  -- reset_interval and window_size are `int`s
  let ver := u32At data lzxcd_Version
  let params : Option (Int × Int) :=
    if ver = 1 then
      some (wrapI32 (Int.ofNat (u32At data lzxcd_ResetInterval)), wrapI32 (Int.ofNat (u32At data lzxcd_WindowSize)))
    else if ver = 2 then
      some (wrapI32 (Int.ofNat (u32At data lzxcd_ResetInterval * lzxFRAME_SIZE)),
            wrapI32 (Int.ofNat (u32At data lzxcd_WindowSize * lzxFRAME_SIZE)))
    else none
  match params with
  | none => fail .dataformat x
  | some (resetInterval, windowSize) =>
  match windowBits windowSize with
  | none => fail .dataformat x
  | some wbits =>
  if resetInterval = 0 ∨ Int.tmod resetInterval (Int.ofNat lzxFRAME_SIZE) ≠ 0 then fail .dataformat x else
  -- which reset table entry would we like?  `int entry = file->offset / reset_interval`
  let entry := wrapI32 (Int.tdiv fileOffset resetInterval)
  let riFrames := Int.tdiv resetInterval (Int.ofNat lzxFRAME_SIZE)
  let entry := wrapI32 (entry * riFrames)
  match readResetTable files x (toU32 entry) with
  | .error f => .error f
  | .ok (rt, x) =>
  -- length / offset / entry after the reset table or the SpanInfo fallback
  let chosen : Except Fault (Except Err (Int × Int × Int) × X) :=
    match rt with
    | some (length, offset) =>
      -- `length += reset_interval - 1; length &= -reset_interval;`
      let length := wrapI64 (length + wrapI32 (resetInterval - 1))
      let length := andI64 length (wrapI32 (- resetInterval))
      .ok (.ok (length, offset, entry), x)
    | none =>
      match readSpaninfo files x with
      | .error f => .error f
      | .ok (err, length, x) =>
        if err ≠ .ok then .ok (.error err, x) else .ok (.ok (length, 0, 0), x)
  match chosen with
  | .error f => .error f
  | .ok (.error err, x) => fail err x
  | .ok (.ok (length, offset, entry), x) =>
  -- offset of the compressed stream in the file; start offset; remaining length
  let inoffset := wrapI64 (wrapI64 (x.hdr.sec0Offset + content.offset) + offset)
  let doffset := wrapI32 (entry * Int.ofNat lzxFRAME_SIZE)
  let remaining := wrapI64 (length - doffset)
  -- since 02def81: a file at or beyond the end of the stream is refused (`d->inoffset/offset/length` are set by then)
  if remaining ≤ 0 then
    let x := { x with d := { x.d with inoffset := inoffset, offset := doffset, length := length }, error := .decrunch }
    .ok (.decrunch, x)
  else
  -- `lzxd_init(&self->d->sys, infh, self, window_bits, reset_interval / LZX_FRAME_SIZE, 4096, length, 0)`
  -- returns NULL for a negative reset interval or output length (its own argument check)
  let state : Option (Lzx.St Rd) :=
    if riFrames < 0 ∨ remaining < 0 then none
    else Lzx.init (⟨[], 0⟩ : Rd) wbits riFrames.toNat 4096 remaining.toNat false fill
  let x := { x with d := { x.d with inoffset := inoffset, offset := doffset, length := length, state := state } }
  -- `self->error = state ? OK : NOMEMORY` (since the D27 repair: a tolerated reset-table failure is not reported)
  let x := if state.isNone then { x with error := .nomemory } else { x with error := .ok }
  .ok (x.error, x)

/-- the section-0 copy loop: `length` bytes in runs of at most 512 (`unsigned char buf[512]`);
    a short read ends it with MSPACK_ERR_READ and the short run is not written.
    Returns the error (if any), the bytes written and the handle. -/
def copyLoop : Nat → Rd → Int → Bytes → Option Err × Bytes × Rd
  | 0, r, _, acc => (none, acc, r)                              -- unreachable with the fuel given
  | fuel + 1, r, length, acc =>
    if length ≤ 0 then (none, acc, r) else
    let run : Nat := if (512 : Int) > length then length.toNat else 512
    let (got, r') := r.read run
    if got.length ≠ run then (some .read, acc, r')
    else copyLoop fuel r' (length - Int.ofNat run) (acc ++ got)

/-- loop budget handed to the LZX decoder: each of its loop iterations consumes input bits or
    emits output, and the input is at most the CHM file (+ the two faked bytes at EOF) -/
def lzxFuel (file : Bytes) : Nat := 16 * file.length + 100000

inductive ExtractResult
  /-- the call returned `ret`; `out` = bytes written to the output file (`none` = it was never
      opened, so it neither exists nor was truncated) -/
  | done (ret : Err) (inst : Inst) (hdr : Header) (out : Option Bytes)
  /-- the LZX model is not there yet (`Lzx.implemented = false`); state as far as it got -/
  | unsupported (inst : Inst) (hdr : Header)
  | fault (f : Fault)

/-- one `lzxd_decompress(self->d->state, bytes)` call with `self->d->outfh` as given by the
    phase: status, bytes the decoder handed to `chmd_sys_write`, state afterwards.
    `none` = decoder not modelled. -/
def lzxCall (files : Files) (x : X) (bytes : Int) : Except Fault (Option (Err × Bytes × X)) :=
  match x.d.state, x.d.infh with
  | none, _ => .ok (some (.args, [], x))                        -- `!lzx`
  | _, none => .error (.nullDeref "lzxd_decompress: input")     -- unreachable
  | some st, some h =>
    if bytes < 0 then .ok (some (.args, [], x)) else
    if !Lzx.implemented then .ok none else
    let file := infhBytes files x
    match Lzx.decompress rdSrc (lzxFuel file) { st with src := ⟨file, h.pos⟩ } bytes.toNat with
    | .error f => .error f
    | .ok o =>
      -- `chmd_sys_write`: `self->d->offset += bytes` for every write
      let d := { x.d with state := some o.st, infh := some { h with pos := o.st.src.pos },
                          offset := x.d.offset + Int.ofNat o.written.length }
      .ok (some (o.err, o.written, { x with d := d }))

/-- `chmd_extract(base, file, filename)` for a file entry `(section, offset, length)` of the
    header `hdr` whose identity is `key`.  (`!file || !file->section` → MSPACK_ERR_ARGS cannot
    happen for entries of the lists or results of a successful `fast_find`.) -/
def extract (files : Files) (fill : UInt8) (inst : Inst) (key : Nat) (hdr : Header)
    (sec : Nat) (offset length : Int) : ExtractResult :=
  -- create decompression state if it doesn't exist
  let fillWord : Int := wrapI64 (Int.ofNat (fill.toNat * 0x0101010101010101))
  let d : DState := match inst.d with
    | some d => d
    | none => { chm := key, length := fillWord, offset := 0, inoffset := fillWord, state := none, infh := none }
  -- open input chm file if not open, or the open one is a different chm
  let reopen := d.infh.isNone ∨ d.chm ≠ key
  let d := if reopen then { d with chm := key, offset := 0, state := none, infh := none } else d
  let opened : Option DState :=
    if reopen then
      match files.lookup hdr.filename with
      | some _ => some { d with infh := some ⟨hdr.filename, 0⟩ }
      | none => none
    else some d
  match opened with
  | none => .done .open_ { error := .open_, d := some d } hdr none
  | some d =>
  -- open file for output (created / truncated from here on)
  -- if file is empty, simply creating it is enough
  if length = 0 then .done .ok { error := .ok, d := some d } hdr (some []) else
  let x : X := { error := .ok, hdr := hdr, d := d }
  let finish (x : X) (out : Bytes) : ExtractResult := .done x.error { error := x.error, d := some x.d } x.hdr (some out)
  if sec = 0 then
    -- Uncompressed section file: simple seek + copy
    match x.d.infh with
    | none => .fault (.nullDeref "chmd_extract: d->infh")        -- unreachable
    | some h =>
    let file := infhBytes files x
    match seekAbs ⟨file, h.pos⟩ (wrapI64 (hdr.sec0Offset + offset)) with
    | none => finish { x with error := .seek } []
    | some r =>
      -- (length > chm->length - tell: warning only)
      let (err, out, r') := copyLoop (file.length / 512 + 2) r length []
      let x := { x with d := { x.d with infh := some { h with pos := r'.pos } } }
      finish (match err with | some e => { x with error := e } | none => x) out
  else
    -- MSCompressed section file
    -- (re)initialise compression state if not yet initialised, or we have advanced too far
    let inited : Except Fault (Bool × X) :=
      if x.d.state.isNone ∨ offset < x.d.offset then
        match initDecomp files fill { x with d := { x.d with state := none } } offset with
        | .error f => .error f
        | .ok (ret, x) => .ok (ret ≠ .ok, x)
      else .ok (false, x)
    match inited with
    | .error f => .fault f
    | .ok (true, x) => finish x []                               -- `if (chmd_init_decomp(self, file)) break;`
    | .ok (false, x) =>
    -- check file offset is not impossible
    if offset > x.d.length then finish { x with error := .decrunch } [] else
    -- seek to input data
    match x.d.infh with
    | none => .fault (.nullDeref "chmd_extract: d->infh")        -- unreachable
    | some h =>
    if x.d.inoffset < 0 then finish { x with error := .seek } [] else
    let x := { x with d := { x.d with infh := some { h with pos := x.d.inoffset.toNat } } }
    -- get to correct offset (outfh = NULL)
    let bytes := wrapI64 (offset - x.d.offset)
    let phase1 : Except Fault (Option X) :=
      if bytes = 0 then .ok (some x) else
      match lzxCall files x bytes with
      | .error f => .error f
      | .ok none => .ok none
      | .ok (some (e, _, x)) => .ok (some { x with error := e })
    match phase1 with
    | .error f => .fault f
    | .ok none => .unsupported { error := x.error, d := some x.d } x.hdr
    | .ok (some x) =>
    -- if getting to the correct offset was error free, unpack file
    let phase2 : Except Fault (Option (X × Bytes)) :=
      if x.error ≠ .ok then .ok (some (x, [])) else
      let maxlen := wrapI64 (x.d.length - offset)
      -- "should decompress but still error out"
      let len := if length > maxlen then maxlen + 1 else length
      match lzxCall files x len with
      | .error f => .error f
      | .ok none => .ok none
      | .ok (some (e, w, x)) => .ok (some ({ x with error := e }, w))
    match phase2 with
    | .error f => .fault f
    | .ok none => .unsupported { error := x.error, d := some x.d } x.hdr
    | .ok (some (x, out)) =>
    -- save offset in input source stream: `self->d->inoffset = sys->tell(self->d->infh)`
    let x := match x.d.infh with
      | some h => { x with d := { x.d with inoffset := Int.ofNat h.pos } }
      | none => x
    -- if an LZX error occured, the LZX decompressor is now useless
    let x := if x.error ≠ .ok then { x with d := { x.d with state := none } } else x
    finish x out

/-- `chmd_close(base, chm)`: `self->error = OK`; the decoder cache is dropped if it belongs to
    this header (the header itself, its lists and its chunk cache are freed: the caller forgets
    them) -/
def close (inst : Inst) (key : Nat) : Inst :=
  { error := .ok,
    d := match inst.d with
      | some d => if d.chm = key then none else some d
      | none => none }

end MsPack.Chm
