import MsPack.Sys
import MsPack.IO
import MsPack.Generated.Consts
import MsPack.Chm.Extract
import MsPack.Oab.Api
/-
chmd.c (+ `mspack_sys_filelen` of system.c and the allocation skeleton of lzxd_init / lzxd_free)
over the instrumented system `Sys.M`: every `sys->alloc/free/open/close/read/write/seek/tell` of the
C is one call of the corresponding primitive, in the same order, with the same reactions to
failure.  This is the model the CHM resource theorems (C09) are about.

What is exact: the sequence of system calls on every path of `mspack_create_chm_decompressor`,
`mspack_destroy_chm_decompressor`, `chmd_real_open` (`open` / `fast_open`), `chmd_read_headers`,
`chmd_close`, `chmd_fast_find`, `read_chunk`, `chmd_extract`, `chmd_init_decomp`, `find_sys_file`,
`read_sys_file`, `read_reset_table`, `read_spaninfo`; the fixed headers (sizes, the checks of header
section 1, the `visits` bound of `chmd_fast_find`); the chunk cache as an array of `num_chunks`
slots; the decoder cache `self->d` with its `chm` / `infh` / `state` fields.

What is a parameter (the theorems hold for every value of it):
* `Parse` — the memory-only parsing that decides *how many* calls follow and with which numbers:
  the entries of a PMGL chunk that reach the allocation in `chmd_read_headers` (`entries`),
  `search_chunk` together with the ENCINT reads `chmd_fast_find` makes at `*result` (`search`), the
  checks and arithmetic of `chmd_init_decomp` on ControlData (`control`), on the reset table entry
  (`resetEntry`), on SpanInfo (`spanLength`) and the final placement (`place`).  The pure models of
  these live in `MsPack/Chm/Headers.lean`, `Find.lean`, `Extract.lean`.
* `Decoder σ` — `lzxd_decompress(state, bytes)` over `self->d->sys` (reads through `sys->read` on
  `d->infh`, writes through `chmd_sys_write`, i.e. `sys->write` on `d->outfh` when that is set), with
  an arbitrary private state `σ` that persists from one `chmd_extract` to the next.  It reports the
  status and how far `chmd_sys_write` advanced `d->offset`.
-/
namespace MsPack.Chm.Api
open MsPack MsPack.Sys MsPack.Generated MsPack.Chm
open MsPack.Oab.Api (Lzx lzxdFree lzxdFreeIf closeIf)

/-! ## three calls of the interface oabd.c / kwajd.c / szddd.c never make -/

/-- `sys->tell(fh)` (no fault of its own; on a handle that is not open it is a misuse) -/
def tell (id : Nat) : M Nat := fun w =>
  match findHandle w id with
  | none => (0, (note (.useClosed id) w).2)
  | some h => (h.pos, w)

/-- `sys->seek(fh, off, MSPACK_SYS_SEEK_START)` with an `off_t` that may be negative: the call is
    made (and counted) and refused, as `fseeko` and the harness's system do -/
def seekAbs (id : Nat) (off : Int) : M Bool := fun w =>
  if 0 ≤ off then seekStart id off.toNat w
  else
    let (_, w) := tick .seek w
    match findHandle w id with
    | none => (true, (note (.useClosed id) w).2)
    | some _ => (true, w)

/-- `sys->seek(fh, 0, MSPACK_SYS_SEEK_END)` -/
def seekEnd (id : Nat) : M Bool := fun w =>
  let (failed, w) := tick .seek w
  match findHandle w id with
  | none => (true, (note (.useClosed id) w).2)
  | some h =>
    if failed then (true, w)
    else (false, setHandle { h with pos := ((w.files.lookup h.name).getD []).length } w)

/-! ## data -/

/-- what control flow looks at in a `struct mschmd_file`: `section->id`, `offset`, `length` -/
structure FileInfo where
  sec    : Nat
  offset : Int
  length : Int
  deriving Repr, DecidableEq

/-- the four `chm->sec1` pointers -/
inductive Special | content | control | spaninfo | rtable
  deriving Repr, DecidableEq

def Special.name : Special → String
  | .content => "::DataSpace/Storage/MSCompressed/Content"
  | .control => "::DataSpace/Storage/MSCompressed/ControlData"
  | .spaninfo => "::DataSpace/Storage/MSCompressed/SpanInfo"
  | .rtable => "::DataSpace/Storage/MSCompressed/Transform/{7FC28940-9D31-11D0-9B27-00A0C91E9C7C}/InstanceData/ResetTable"

/-- an entry of a PMGL chunk that reaches `sys->alloc(sizeof(struct mschmd_file) + name_len + 1)`:
    a normal file (appended to `chm->files`) or a `::` system file (prepended to `chm->sysfiles`,
    possibly remembered in one of the four `sec1` pointers) -/
inductive Ent
  | file
  | sys (which : Option Special) (f : FileInfo)
  deriving Repr

/-- `chm->chunk_cache`: the array block and its `num_chunks` slots (`none` = NULL; otherwise the
    chunk's block and its bytes) -/
structure Cache where
  mem   : Nat
  slots : List (Option (Nat × Bytes))
  deriving Repr

/-- `struct mschmd_header` as the ledger and the control flow see it: the block it lives in, the
    blocks of the two lists, the four `sec1` pointers, the chunk cache, and the header fields -/
structure Hdr where
  mem        : Nat
  filename   : String
  files      : List Nat := []
  sysfiles   : List Nat := []
  content    : Option FileInfo := none
  control    : Option FileInfo := none
  spaninfo   : Option FileInfo := none
  rtable     : Option FileInfo := none
  cache      : Option Cache := none
  version    : Nat := 0
  length     : Int := 0
  dirOffset  : Int := 0
  sec0Offset : Int := 0
  numChunks  : Nat := 0
  chunkSize  : Nat := 0
  density    : Nat := 0
  indexRoot  : Nat := 0
  firstPmgl  : Nat := 0
  lastPmgl   : Nat := 0
  deriving Repr

def Hdr.get (h : Hdr) : Special → Option FileInfo
  | .content => h.content | .control => h.control | .spaninfo => h.spaninfo | .rtable => h.rtable

/-- `*f_ptr = …; (*f_ptr)->next = chm->sysfiles; chm->sysfiles = *f_ptr` -/
def Hdr.link (h : Hdr) (s : Special) (blk : Nat) (f : FileInfo) : Hdr :=
  match s with
  | .content => { h with content := some f, sysfiles := blk :: h.sysfiles }
  | .control => { h with control := some f, sysfiles := blk :: h.sysfiles }
  | .spaninfo => { h with spaninfo := some f, sysfiles := blk :: h.sysfiles }
  | .rtable => { h with rtable := some f, sysfiles := blk :: h.sysfiles }

/-- outcome of `search_chunk` and of what `chmd_fast_find` reads at `*result` afterwards -/
inductive Search
  | bad                                   -- -1
  | miss                                  -- 0
  /-- 1: `pmgl` = `chunk[3] == 0x4C`; `next` = the chunk-number ENCINT of a PMGI entry (`none`: bad
      ENCINT); `entry` = the section / offset / length ENCINTs (`none`: one of them bad) -/
  | hit (pmgl : Bool) (next : Option Nat) (entry : Option FileInfo)
  deriving Repr

def Search.isHit : Search → Bool
  | .hit _ _ _ => true
  | _ => false

/-- what `chmd_init_decomp` takes from ControlData and `file->offset` -/
structure Ctl where
  windowBits    : Nat
  resetInterval : Int
  entry         : Nat
  deriving Repr

/-- `d->offset`, `d->length`, `d->inoffset` -/
structure Pos where
  offset   : Int := 0
  length   : Int := 0
  inoffset : Int := 0
  deriving Repr

/-- the memory-only parsing the model is parametric in (see the head of the file) -/
structure Parse where
  /-- one PMGL chunk of `chmd_read_headers`: (`err` so far, `chunk_size`, the chunk) ↦ the entries
      that reach the allocation in order, "left through encint_err with entries outstanding"
      (`errors++`), `err` afterwards -/
  entries    : Bool → Nat → Bytes → List Ent × Bool × Bool
  /-- `search_chunk(chm, chunk, filename, &p, &end)` (`chunk_size`, `density`, chunk, name) -/
  search     : Nat → Nat → Bytes → String → Search
  /-- ControlData and `file->offset` ↦ the error `chmd_init_decomp` returns for it or the parameters -/
  control    : Bytes → Int → Except Err Ctl
  /-- `read_reset_table` on the table's bytes, `sec->rtable->length` and `entry`: `(length, offset)` -/
  resetEntry : Bytes → Int → Nat → Option (Int × Int)
  /-- `read_spaninfo` on the file's bytes: the error or the length -/
  spanLength : Bytes → Except Err Int
  /-- the tail of `chmd_init_decomp`: parameters, `sec0.offset`, `content->offset`, the reset table
      answer or (`none`) the SpanInfo length ↦ DECRUNCH or `d->inoffset/offset/length` and the length
      `lzxd_init` gets -/
  place      : Ctl → Int → Int → Option (Int × Int) → Int → Except Err (Pos × Int)

/-- what `lzxd_init` was given -/
structure LzxArgs where
  windowBits    : Nat
  resetInterval : Int
  inbufSize     : Nat
  outLen        : Int
  deriving Repr

/-- one `lzxd_decompress(state, bytes)`: status, how far `chmd_sys_write` advanced `d->offset`, the
    decoder's state afterwards -/
structure LzxOut (σ : Type) where
  err     : Err
  written : Nat
  st      : σ

/-- the LZX decoder: its state after `lzxd_init`, and `lzxd_decompress(state, bytes)` as a function
    of the state, `bytes`, the input handle `d->infh` and `d->outfh` (`none` = NULL: output dropped) -/
structure Decoder (σ : Type) where
  init : LzxArgs → σ
  run  : σ → Int → Nat → Option Nat → M (LzxOut σ)

/-- `struct mschmd_decompress_state`: its block, `d->chm` (the header's block), `d->infh`,
    `d->state` (the stream's blocks and the decoder's state), the three offsets -/
structure Dec (σ : Type) where
  mem   : Nat
  chm   : Nat
  infh  : Option Nat
  state : Option (Lzx × σ)
  pos   : Pos

/-- what is in `struct mschm_decompressor_p`: `self->d`, `self->error` (the block it lives in is the
    pointer the client holds, see `Sess`) -/
structure Inst (σ : Type) where
  d     : Option (Dec σ)
  error : Err

variable {σ : Type}

/-! ## create, destroy, close -/

/-- `mspack_create_chm_decompressor` -/
def create : M (Option (Nat × Inst σ)) := do
  match ← alloc with
  | none => return none
  | some a => return some (a, ⟨none, .ok⟩)

/-- `if (d->infh) sys->close(d->infh); if (d->state) lzxd_free(d->state); sys->free(d);` -/
def dropDec (d : Dec σ) : M Unit := do
  closeIf d.infh
  lzxdFreeIf (d.state.map (·.1))
  free (some d.mem)

/-- `if (self->d) { … }` of `mspack_destroy_chm_decompressor` -/
def dropDecIf : Option (Dec σ) → M Unit
  | some d => dropDec d
  | none => pure ()

/-- `mspack_destroy_chm_decompressor` -/
def destroy (self : Nat) (i : Inst σ) : M Unit := do
  dropDecIf i.d
  free (some self)

/-- `for (fi = list; fi; fi = nfi) { nfi = fi->next; sys->free(fi); }` -/
def freeList : List Nat → M Unit
  | [] => pure ()
  | a :: as => do free (some a); freeList as

/-- `for (i = 0; i < chm->num_chunks; i++) sys->free(chm->chunk_cache[i]);` -/
def freeSlots : List (Option (Nat × Bytes)) → M Unit
  | [] => pure ()
  | s :: ss => do free (s.map (·.1)); freeSlots ss

/-- `if (chm->chunk_cache) { … }` of `chmd_close` -/
def freeCache : Option Cache → M Unit
  | some c => do freeSlots c.slots; free (some c.mem)
  | none => pure ()

/-- `if (self->d && (self->d->chm == chm)) { …; self->d = NULL; }` of `chmd_close`: `self->d` afterwards -/
def dropDecOf (d : Option (Dec σ)) (chm : Nat) : M (Option (Dec σ)) :=
  match d with
  | some d => if d.chm = chm then do dropDec d; pure none else pure (some d)
  | none => pure none

/-- `chmd_close(base, chm)` -/
def close_ (i : Inst σ) (h : Hdr) : M (Inst σ) := do
  freeList h.files
  freeList h.sysfiles
  let d ← dropDecOf i.d h.mem
  freeCache h.cache
  free (some h.mem)
  return { i with d := d, error := .ok }

/-! ## `chmd_read_headers` -/

/-- `mspack_sys_filelen(sys, fh, &filelen)`: the length it finds only feeds warnings -/
def sysFilelen (fh : Nat) : M Unit := do
  let cur ← tell fh
  let b ← seekEnd fh
  if b then return ()
  else
    let _ ← tell fh
    let _ ← seekStart fh cur
    return ()

/-- ITSF signature and both GUIDs -/
def headOk (b : Bytes) : Bool :=
  u32At b chmhead_Signature = 0x46535449 ∧ ((b.drop chmhead_GUID1).take 32).map UInt8.toNat = chmGuids

/-- `EndGetI32(&chunk[pmgl_Signature]) == 0x4C474D50` -/
def isPmgl (chunk : Bytes) : Bool := u32At chunk pmgl_Signature = 0x4C474D50

/-- the checks of `chmd_read_headers` after header section 1 that end in MSPACK_ERR_DATAFORMAT -/
def hs1Bad (h : Hdr) : Bool :=
  h.sec0Offset > h.length ∨ h.chunkSize < pmgl_Entries + 2 ∨ h.numChunks = 0 ∨ h.numChunks > 100000 ∨
  h.chunkSize > 8192 ∨ Int.ofNat (h.chunkSize * h.numChunks) > h.length ∨ h.firstPmgl > h.lastPmgl ∨
  (h.indexRoot ≠ 0xFFFFFFFF ∧ h.indexRoot ≥ h.numChunks)

/-- the header with the fields of header section 1 filled in (`tellPos` = `sys->tell(fh)` after it) -/
def withHs1 (h : Hdr) (version : Nat) (sec0Off0 length : Int) (tellPos : Nat) (b : Bytes) : Hdr :=
  let chunkSize := u32At b chmhs1_ChunkSize
  let numChunks := u32At b chmhs1_NumChunks
  { h with
    version := version, length := length, dirOffset := Int.ofNat tellPos,
    chunkSize := chunkSize, numChunks := numChunks, density := u32At b chmhs1_Density,
    indexRoot := u32At b chmhs1_IndexRoot, firstPmgl := u32At b chmhs1_FirstPMGL,
    lastPmgl := u32At b chmhs1_LastPMGL,
    sec0Offset := if version < 3 then wrapI64 (Int.ofNat tellPos + Int.ofNat ((chunkSize * numChunks) % 4294967296))
                  else sec0Off0 }

/-- the lists `chmd_read_headers` builds: `chm->files` (list order; the C appends through `link`),
    `chm->sysfiles` (the C prepends), the four pointers -/
structure Walk where
  files    : List Nat := []
  sysfiles : List Nat := []
  content  : Option FileInfo := none
  control  : Option FileInfo := none
  spaninfo : Option FileInfo := none
  rtable   : Option FileInfo := none

def Walk.add (w : Walk) (blk : Nat) : Ent → Walk
  | .file => { w with files := w.files ++ [blk] }
  | .sys none _ => { w with sysfiles := blk :: w.sysfiles }
  | .sys (some .content) f => { w with sysfiles := blk :: w.sysfiles, content := some f }
  | .sys (some .control) f => { w with sysfiles := blk :: w.sysfiles, control := some f }
  | .sys (some .spaninfo) f => { w with sysfiles := blk :: w.sysfiles, spaninfo := some f }
  | .sys (some .rtable) f => { w with sysfiles := blk :: w.sysfiles, rtable := some f }

/-- the allocations of `while (num_entries--)` for one chunk; `true` = one failed: `chunk` has been
    freed and MSPACK_ERR_NOMEMORY is on its way out -/
def addEntries (chunk : Nat) : List Ent → Walk → M (Bool × Walk)
  | [], w => return (false, w)
  | e :: es, w => do
    match ← alloc with
    | none => free (some chunk); return (true, w)
    | some fi => addEntries chunk es (w.add fi e)

/-- `while (num_chunks--) { … } sys->free(chunk); return errors ? DATAFORMAT : OK;` -/
def readChunks (P : Parse) (fh chunk chunkSize : Nat) : Nat → Bool → Nat → Walk → M (Err × Walk)
  | 0, _, errors, w => do
    free (some chunk)
    return (if errors > 0 then .dataformat else .ok, w)
  | n + 1, err, errors, w => do
    match ← read fh chunkSize with
    | none => free (some chunk); return (.read, w)
    | some bs =>
      if bs.length ≠ chunkSize then free (some chunk); return (.read, w)
      else if !isPmgl bs then readChunks P fh chunk chunkSize n err errors w
      else
        let r := P.entries err chunkSize bs
        let a ← addEntries chunk r.1 w
        if a.1 then return (.nomemory, a.2)
        else readChunks P fh chunk chunkSize n r.2.2 (if r.2.1 then errors + 1 else errors) a.2

def Hdr.withWalk (h : Hdr) (w : Walk) : Hdr :=
  { h with files := w.files, sysfiles := w.sysfiles, content := w.content, control := w.control,
           spaninfo := w.spaninfo, rtable := w.rtable }

/-- `chmd_read_headers` from the checks on header section 1 on -/
def readHeaders3 (P : Parse) (fh : Nat) (h : Hdr) (entire : Bool) : M (Err × Hdr) := do
  if hs1Bad h then return (.dataformat, h)
  else if !entire then return (.ok, h)
  else
    let b ← (if h.firstPmgl ≠ 0 then seekCur fh (Int.ofNat h.firstPmgl * Int.ofNat h.chunkSize) else pure false)
    if b then return (.seek, h)
    else
      match ← alloc with
      | none => return (.nomemory, h)
      | some chunk =>
        let r ← readChunks P fh chunk h.chunkSize ((h.lastPmgl - h.firstPmgl + 1) % 4294967296) false 0 {}
        return (r.1, h.withWalk r.2)

/-- `chmd_read_headers` from the seek to header section 0 on -/
def readHeaders2 (P : Parse) (fh : Nat) (h : Hdr) (entire : Bool) (version : Nat)
    (offsetHs0 dirOffset0 sec0Off0 : Int) : M (Err × Hdr) := do
  let b ← seekAbs fh offsetHs0
  if b then return (.seek, h)
  else
    match ← read fh chmhs0SIZEOF with
    | none => return (.read, h)
    | some b3 =>
      if b3.length ≠ chmhs0SIZEOF then return (.read, h)
      else
        sysFilelen fh
        let b ← seekAbs fh dirOffset0
        if b then return (.seek, h)
        else
          match ← read fh chmhs1SIZEOF with
          | none => return (.read, h)
          | some b4 =>
            if b4.length ≠ chmhs1SIZEOF then return (.read, h)
            else
              let t ← tell fh
              readHeaders3 P fh (withHs1 h version sec0Off0 (i64At b3 chmhs0_FileLen) t b4) entire

/-- `chmd_read_headers(sys, fh, chm, entire)`: the status and `*chm` -/
def readHeaders (P : Parse) (fh : Nat) (h : Hdr) (entire : Bool) : M (Err × Hdr) := do
  match ← read fh chmheadSIZEOF with
  | none => return (.read, h)
  | some b1 =>
    if b1.length ≠ chmheadSIZEOF then return (.read, h)
    else if !headOk b1 then return (.signature, h)
    else
      match ← read fh chmhst3SIZEOF with
      | none => return (.read, h)
      | some b2 =>
        if b2.length ≠ chmhst3SIZEOF then return (.read, h)
        else
          readHeaders2 P fh h entire (u32At b1 chmhead_Version) (i64At b2 chmhst_OffsetHS0)
            (i64At b2 chmhst_OffsetHS1) (i64At b2 chmhst3_OffsetCS0)

/-- "if the error is DATAFORMAT, and there are some results, return partial results" -/
def keepPartial (e : Err) (h : Hdr) : Bool := e = .dataformat ∧ (h.files ≠ [] ∨ h.sysfiles ≠ [])

/-- `chmd_real_open(base, filename, entire)`: the decompressor and the header (`none` = NULL) -/
def realOpen (P : Parse) (i : Inst σ) (name : String) (entire : Bool) : M (Inst σ × Option Hdr) := do
  match ← open_ name .read with
  | none => return ({ i with error := .open_ }, none)
  | some fh =>
    match ← alloc with
    | none => Sys.close fh; return ({ i with error := .nomemory }, none)
    | some m =>
      let r ← readHeaders P fh { mem := m, filename := name } entire
      if r.1 = .ok then Sys.close fh; return ({ i with error := .ok }, some r.2)
      else if keepPartial r.1 r.2 then Sys.close fh; return ({ i with error := .ok }, some r.2)
      else
        let i ← close_ i r.2
        Sys.close fh
        return ({ i with error := r.1 }, none)

/-- `chmd_open` -/
def open' (P : Parse) (i : Inst σ) (name : String) : M (Inst σ × Option Hdr) := realOpen P i name true
/-- `chmd_fast_open` -/
def fastOpen (P : Parse) (i : Inst σ) (name : String) : M (Inst σ × Option Hdr) := realOpen P i name false

/-! ## `read_chunk` and `chmd_fast_find` -/

/-- PMGL or PMGI signature -/
def chunkSigOk (b : Bytes) : Bool :=
  byteAt b 0 = 0x50 ∧ byteAt b 1 = 0x4D ∧ byteAt b 2 = 0x47 ∧ (byteAt b 3 = 0x4C ∨ byteAt b 3 = 0x49)

/-- `read_chunk` once `chm->chunk_cache` exists (its slots are `slots`): the chunk (`none` = NULL),
    `self->error`, the slots.  The first branch (slot index beyond the array) is not a behaviour of
    the C: the array has `num_chunks` slots and `chunk_num < num_chunks` was checked. -/
def readChunkIn (e0 : Err) (h : Hdr) (slots : List (Option (Nat × Bytes))) (fh n : Nat) :
    M (Option Bytes × Err × List (Option (Nat × Bytes))) := do
  match slots[n]? with
  | none => return (none, e0, slots)
  | some (some s) => return (some s.2, e0, slots)
  | some none =>
    match ← alloc with
    | none => return (none, .nomemory, slots)
    | some buf =>
      let b ← seekAbs fh (h.dirOffset + Int.ofNat ((n * h.chunkSize) % 4294967296))
      if b then free (some buf); return (none, .seek, slots)
      else
        match ← read fh h.chunkSize with
        | none => free (some buf); return (none, .read, slots)
        | some bs =>
          if bs.length ≠ h.chunkSize then free (some buf); return (none, .read, slots)
          else if !chunkSigOk bs then free (some buf); return (none, .seek, slots)
          else return (some bs, e0, slots.set n (some (buf, bs)))

/-- `read_chunk(self, chm, fh, chunk_num)`: the chunk (`none` = NULL), `self->error`, the header -/
def readChunk (e0 : Err) (h : Hdr) (fh n : Nat) : M (Option Bytes × Err × Hdr) := do
  if n ≥ h.numChunks then return (none, e0, h)
  else
    match h.cache with
    | some c =>
      let r ← readChunkIn e0 h c.slots fh n
      return (r.1, r.2.1, { h with cache := some ⟨c.mem, r.2.2⟩ })
    | none =>
      match ← alloc with
      | none => return (none, .nomemory, h)
      | some m =>
        let r ← readChunkIn e0 h (List.replicate h.numChunks none) fh n
        return (r.1, r.2.1, { h with cache := some ⟨m, r.2.2⟩ })

/-- how a search loop of `chmd_fast_find` ended: it returned (the handle is closed already) or it
    was left with `err` and `result` -/
inductive Found
  | returned (e : Err)
  | broke (err : Err) (res : Search)

/-- the PMGI hierarchy: `for (;;) { if (visits++ > num_chunks) …; read_chunk; search_chunk; … }`;
    the first argument counts the rounds `visits` still allows -/
def indexLoop (P : Parse) (fh : Nat) (name : String) : Nat → Nat → Err → Hdr → M (Found × Err × Hdr)
  | 0, _, _, h => do Sys.close fh; return (.returned .dataformat, .dataformat, h)
  | left + 1, n, e0, h => do
    let r ← readChunk e0 h fh n
    match r.1 with
    | none => Sys.close fh; return (.returned r.2.1, r.2.1, r.2.2)
    | some chunk =>
      match P.search h.chunkSize h.density chunk name with
      | .hit false (some n') _ => indexLoop P fh name left (n' % 4294967296) r.2.1 r.2.2
      | .hit false none _ => Sys.close fh; return (.returned .dataformat, .dataformat, r.2.2)
      | s => return (.broke .ok s, r.2.1, r.2.2)

/-- PMGL chunks only: `for (n = first_pmgl; n <= last_pmgl; n = NextChunk) { … }` -/
def listLoop (P : Parse) (fh : Nat) (name : String) (last : Nat) : Nat → Nat → Search → Err → Hdr → M (Found × Err × Hdr)
  | 0, n, res, e0, h => return (.broke (if n ≤ last then .dataformat else .ok) res, e0, h)
  | left + 1, n, res, e0, h => do
    if n > last then return (.broke .ok res, e0, h)
    else
      let r ← readChunk e0 h fh n
      match r.1 with
      | none => return (.broke r.2.1 res, r.2.1, r.2.2)
      | some chunk =>
        let s := P.search h.chunkSize h.density chunk name
        if s.isHit then return (.broke .ok s, r.2.1, r.2.2)
        else if n = u32At chunk pmgl_NextChunk then return (.broke .ok s, r.2.1, r.2.2)
        else listLoop P fh name last left (u32At chunk pmgl_NextChunk) s r.2.1 r.2.2

/-- what `chmd_fast_find` returns (and stores in `self->error`) after the loops, and `*f_ptr`'s
    section / offset / length if `result > 0` -/
def foundValue : Err → Search → Err × Option FileInfo
  | _, .hit _ _ none => (.dataformat, none)                -- goto encint_err (f_ptr->section is set)
  | err, .hit _ _ (some f) => (err, some f)
  | _, .bad => (.dataformat, none)
  | err, .miss => (err, none)

/-- `chmd_fast_find(base, chm, filename, f_ptr, sizeof(struct mschmd_file))` for non-NULL arguments:
    the value returned, the entry found (`result > 0` and the three ENCINTs good), `self->error`, `*chm` -/
def fastFind (P : Parse) (e0 : Err) (h : Hdr) (name : String) : M (Err × Option FileInfo × Err × Hdr) := do
  match ← open_ h.filename .read with
  | none => return (.open_, none, .open_, h)
  | some fh =>
    let r ← (if h.indexRoot < h.numChunks then indexLoop P fh name (h.numChunks + 1) h.indexRoot e0 h
             else listLoop P fh name h.lastPmgl (h.numChunks + 1) h.firstPmgl .bad e0 h)
    match r.1 with
    | .returned e => return (e, none, r.2.1, r.2.2)
    | .broke err res =>
      Sys.close fh
      return ((foundValue err res).1, (foundValue err res).2, (foundValue err res).1, r.2.2)

/-! ## `chmd_extract` -/

/-- `lzxd_init(&d->sys, d->infh, self, window_bits, reset_interval / LZX_FRAME_SIZE, 4096, length, 0)`:
    the argument checks (no system call yet), the state block, then *both* the window and the input
    buffer are asked for, and if either is missing `free(window); free(inbuf); free(lzx)` -/
def lzxdInit (a : LzxArgs) : M (Option Lzx) := do
  if a.windowBits < 15 ∨ a.windowBits > 21 ∨ a.resetInterval < 0 ∨ a.outLen < 0 ∨
     a.inbufSize + 1 > 2147483647 ∨ (a.inbufSize + 1) / 2 * 2 < 2 then
    return none
  else
    match ← alloc with
    | none => return none
    | some s =>
      let win ← alloc
      let inb ← alloc
      match win, inb with
      | some w, some b => return some ⟨s, w, b⟩
      | win?, inb? =>
        free win?
        free inb?
        free (some s)
        return none

/-- `find_sys_file(self, sec, &sec->SLOT, name)`: the value returned, `self->error`, `*chm` -/
def findSysFile (P : Parse) (e0 : Err) (h : Hdr) (s : Special) : M (Err × Err × Hdr) := do
  match h.get s with
  | some _ => return (.ok, e0, h)
  | none =>
    let r ← fastFind P e0 h s.name
    match r.2.1 with
    | none => return (.dataformat, r.2.2.1, r.2.2.2)
    | some f =>
      if r.1 ≠ .ok then return (.dataformat, r.2.2.1, r.2.2.2)
      else
        match ← alloc with
        | none => return (.nomemory, r.2.2.1, r.2.2.2)
        | some blk => return (.ok, r.2.2.1, r.2.2.2.link s blk f)

/-- `read_sys_file(self, file)`: `self->error` on NULL, or the block and its contents.
    `len = (int) file->length`; the callers have checked the length before (28, 40…1000000, 8). -/
def readSysFile (infh : Nat) (sec0Offset : Int) (f : FileInfo) : M (Except Err (Nat × Bytes)) := do
  if f.sec ≠ 0 then return .error .dataformat
  else
    match ← alloc with
    | none => return .error .nomemory
    | some data =>
      let b ← seekAbs infh (sec0Offset + f.offset)
      if b then free (some data); return .error .seek
      else
        match ← read infh (wrapI32 f.length).toNat with
        | none => free (some data); return .error .read
        | some bs =>
          if bs.length ≠ (wrapI32 f.length).toNat then free (some data); return .error .read
          else return .ok (data, bs)

/-- `read_reset_table(self, sec, entry, &length, &offset)`: `some (length, offset)` = non-zero return -/
def readResetTable (P : Parse) (e0 : Err) (infh : Nat) (h : Hdr) (entry : Nat) : M (Option (Int × Int) × Err × Hdr) := do
  let r ← findSysFile P e0 h .rtable
  if r.1 ≠ .ok then return (none, r.2.1, r.2.2)
  else
    match r.2.2.rtable with
    | none => return (none, r.2.1, r.2.2)            -- (not reachable: find_sys_file returned OK)
    | some rt =>
      if rt.length < Int.ofNat lzxrtHeaderSIZEOF ∨ rt.length > 1000000 then return (none, r.2.1, r.2.2)
      else
        match ← readSysFile infh r.2.2.sec0Offset rt with
        | .error e => return (none, e, r.2.2)
        | .ok (data, bs) =>
          free (some data)
          return (P.resetEntry bs rt.length entry, r.2.1, r.2.2)

/-- `read_spaninfo(self, sec, &length)`: the value returned, the length, `self->error`, `*chm` -/
def readSpaninfo (P : Parse) (e0 : Err) (infh : Nat) (h : Hdr) : M (Err × Int × Err × Hdr) := do
  let r ← findSysFile P e0 h .spaninfo
  if r.1 ≠ .ok then return (.dataformat, 0, r.2.1, r.2.2)
  else
    match r.2.2.spaninfo with
    | none => return (.dataformat, 0, r.2.1, r.2.2)   -- (not reachable)
    | some si =>
      if si.length ≠ 8 then return (.dataformat, 0, r.2.1, r.2.2)
      else
        match ← readSysFile infh r.2.2.sec0Offset si with
        | .error e => return (e, 0, e, r.2.2)
        | .ok (data, bs) =>
          free (some data)
          match P.spanLength bs with
          | .error e => return (e, 0, r.2.1, r.2.2)
          | .ok len => return (.ok, len, r.2.1, r.2.2)

/-- `chmd_init_decomp` from `lzxd_init` on (everything before has released what it took) -/
def initDecomp3 (D : Decoder σ) (c : Ctl) (e0 : Err) (h : Hdr) (pl : Except Err (Pos × Int)) :
    M (Err × Option (Lzx × σ) × Pos × Hdr) := do
  match pl with
  | .error e => return (e, none, {}, h)
  | .ok (pos, len) =>
    let a : LzxArgs := ⟨c.windowBits, Int.tdiv c.resetInterval (Int.ofNat lzxFRAME_SIZE), 4096, len⟩
    match ← lzxdInit a with
    | none => return (.nomemory, none, pos, h)
    -- `self->error = state ? OK : NOMEMORY` (since the D27 repair; before it `e0`, a possibly stale error, was returned)
    | some l => return (.ok, some (l, D.init a), pos, h)

/-- `chmd_init_decomp` from `read_reset_table` on -/
def initDecomp2 (D : Decoder σ) (P : Parse) (e0 : Err) (infh : Nat) (h : Hdr) (c : Ctl) (contentOffset : Int) :
    M (Err × Option (Lzx × σ) × Pos × Hdr) := do
  let rt ← readResetTable P e0 infh h c.entry
  match rt.1 with
  | some lo => initDecomp3 D c rt.2.1 rt.2.2 (P.place c rt.2.2.sec0Offset contentOffset (some lo) 0)
  | none =>
    let sp ← readSpaninfo P rt.2.1 infh rt.2.2
    if sp.1 ≠ .ok then return (sp.1, none, {}, sp.2.2.2)
    else initDecomp3 D c sp.2.2.1 sp.2.2.2 (P.place c sp.2.2.2.sec0Offset contentOffset none sp.2.1)

/-- `chmd_init_decomp(self, file)` (called with `d->state == NULL`): the value returned (which is
    `self->error` then), `d->state`, the offsets, `*chm` -/
def initDecomp (D : Decoder σ) (P : Parse) (e0 : Err) (infh : Nat) (h : Hdr) (fileOffset : Int) :
    M (Err × Option (Lzx × σ) × Pos × Hdr) := do
  let r1 ← findSysFile P e0 h .content
  if r1.1 ≠ .ok then return (r1.1, none, {}, r1.2.2)
  else
    let r2 ← findSysFile P r1.2.1 r1.2.2 .control
    if r2.1 ≠ .ok then return (r2.1, none, {}, r2.2.2)
    else
      match r2.2.2.content, r2.2.2.control with
      | some content, some control =>
        if control.length ≠ Int.ofNat lzxcdSIZEOF then return (.dataformat, none, {}, r2.2.2)
        else
          match ← readSysFile infh r2.2.2.sec0Offset control with
          | .error e => return (e, none, {}, r2.2.2)
          | .ok (data, bs) =>
            free (some data)
            match P.control bs fileOffset with
            | .error e => return (e, none, {}, r2.2.2)
            | .ok c => initDecomp2 D P r2.2.1 infh r2.2.2 c content.offset
      | _, _ => return (.dataformat, none, {}, r2.2.2)   -- (not reachable: both calls returned OK)

/-- `case 0:` of the switch, the copy loop `while (length > 0) { … }` with a 512-byte buffer; the
    first argument bounds the rounds and is started at `length` (every round moves at least one byte) -/
def copy0 (infh fh : Nat) : Nat → Nat → M Err
  | 0, _ => return .ok
  | k + 1, length => do
    if length = 0 then return .ok
    else
      let run := if 512 > length then length else 512
      match ← read infh run with
      | none => return .read
      | some bs =>
        if bs.length ≠ run then return .read
        else
          match ← write fh bs with
          | none => return .write
          | some n => if n ≠ run then return .write else copy0 infh fh k (length - run)

/-- `case 0:` — seek, tell, copy -/
def extractSec0 (infh fh : Nat) (h : Hdr) (f : FileInfo) : M Err := do
  let b ← seekAbs infh (h.sec0Offset + f.offset)
  if b then return .seek
  else
    let _ ← tell infh
    copy0 infh fh f.length.toNat f.length.toNat

/-- `if (d->state) lzxd_free(d->state);` on the model's pair -/
def lzxFreeSt (st : Option (Lzx × σ)) : M Unit := lzxdFreeIf (st.map (·.1))

/-- `case 1:` from "check file offset is not impossible" on, with `d->state` set: the two
    `lzxd_decompress` calls, `tell`, and the `lzxd_free` after an error -/
def extractRun (D : Decoder σ) (infh fh : Nat) (l : Lzx) (s : σ) (pos : Pos) (f : FileInfo) :
    M (Err × Option (Lzx × σ) × Pos) := do
  if f.offset > pos.length then return (.decrunch, some (l, s), pos)
  else
    let b ← seekAbs infh pos.inoffset
    if b then return (.seek, some (l, s), pos)
    else
      -- get to the correct offset, output dropped
      let r1 ← (if f.offset - pos.offset ≠ 0 then D.run s (f.offset - pos.offset) infh none
                else pure ⟨.ok, 0, s⟩)
      let pos1 : Pos := { pos with offset := pos.offset + Int.ofNat r1.written }
      -- unpack the file
      let r2 ← (if r1.err = .ok then
                  D.run r1.st (if f.length > pos.length - f.offset then pos.length - f.offset + 1 else f.length)
                    infh (some fh)
                else pure ⟨r1.err, 0, r1.st⟩)
      let t ← tell infh
      let pos2 : Pos := { pos1 with offset := pos1.offset + Int.ofNat r2.written, inoffset := Int.ofNat t }
      if r2.err ≠ .ok then
        lzxdFree l
        return (r2.err, none, pos2)
      else return (.ok, some (l, r2.st), pos2)

/-- `case 1:` — `self->error` (was MSPACK_ERR_OK on entry), `d->state`, the offsets, `*chm` -/
def extractSec1 (D : Decoder σ) (P : Parse) (infh fh : Nat) (st : Option (Lzx × σ)) (pos : Pos) (h : Hdr)
    (f : FileInfo) : M (Err × Option (Lzx × σ) × Pos × Hdr) := do
  match (if f.offset < pos.offset then none else st) with
  | some (l, s) =>
    let r ← extractRun D infh fh l s pos f
    return (r.1, r.2.1, r.2.2, h)
  | none =>
    -- (re)initialise: `if (d->state) { lzxd_free(d->state); d->state = NULL; } chmd_init_decomp`
    lzxFreeSt st
    let r ← initDecomp D P .ok infh h f.offset
    match r.2.1 with
    | none => return (r.1, none, r.2.2.1, r.2.2.2)
    | some (l, s) =>
      -- `lzxd_init` succeeded but `return self->error` handed back a stale error (see the report):
      -- `break` with the new state left in `d->state`
      if r.1 ≠ .ok then return (r.1, some (l, s), r.2.2.1, r.2.2.2)
      else
        let r2 ← extractRun D infh fh l s r.2.2.1 f
        return (r2.1, r2.2.1, r2.2.2, r.2.2.2)

/-- `chmd_extract` from "open file for output" on; `d` has `infh = some infh` and `chm = h.mem` -/
def extractOut (D : Decoder σ) (P : Parse) (i : Inst σ) (d : Dec σ) (infh : Nat) (h : Hdr) (f : FileInfo)
    (out : String) : M (Err × Inst σ × Hdr) := do
  match ← open_ out .write with
  | none => return (.open_, { i with d := some d, error := .open_ }, h)
  | some fh =>
    if f.length = 0 then
      Sys.close fh
      return (.ok, { i with d := some d, error := .ok }, h)
    else if f.sec = 0 then
      let e ← extractSec0 infh fh h f
      Sys.close fh
      return (e, { i with d := some d, error := e }, h)
    else if f.sec = 1 then
      let r ← extractSec1 D P infh fh d.state d.pos h f
      Sys.close fh
      return (r.1, { i with d := some { d with state := r.2.1, pos := r.2.2.1 }, error := r.1 }, r.2.2.2)
    else
      Sys.close fh
      return (.ok, { i with d := some d, error := .ok }, h)

/-- `chmd_extract` from "open input chm file if not open, or the open one is a different chm" on -/
def extractIn (D : Decoder σ) (P : Parse) (i : Inst σ) (d : Dec σ) (h : Hdr) (f : FileInfo) (out : String) :
    M (Err × Inst σ × Hdr) := do
  match (if d.chm ≠ h.mem then none else d.infh) with
  | some infh => extractOut D P i d infh h f out
  | none =>
    closeIf d.infh
    lzxFreeSt d.state
    match ← open_ h.filename .read with
    | none =>
      return (.open_, { i with d := some { d with chm := h.mem, infh := none, state := none, pos := { d.pos with offset := 0 } },
                               error := .open_ }, h)
    | some infh =>
      extractOut D P i { d with chm := h.mem, infh := some infh, state := none, pos := { d.pos with offset := 0 } }
        infh h f out

/-- `chmd_extract(base, file, filename)` for non-NULL `base`, `file`, `file->section`; `h` is
    `file->section->chm`, `f` what the call reads of `*file` -/
def extract (D : Decoder σ) (P : Parse) (i : Inst σ) (h : Hdr) (f : FileInfo) (out : String) :
    M (Err × Inst σ × Hdr) := do
  match i.d with
  | some d => extractIn D P i d h f out
  | none =>
    match ← alloc with
    | none => return (.nomemory, { i with error := .nomemory }, h)
    | some m => extractIn D P i ⟨m, h.mem, none, none, {}⟩ h f out

/-- the client's `fast_find`: sets `self->error` -/
def fastFindOp (P : Parse) (i : Inst σ) (h : Hdr) (name : String) : M (Err × Option FileInfo × Inst σ × Hdr) := do
  let r ← fastFind P i.error h name
  return (r.1, r.2.1, { i with error := r.2.2.1 }, r.2.2.2)

/-! ## whole sessions: any program a client can write against one decompressor -/

/-- one client step; `k` picks the `k`-th of the headers the client holds (a step on a header the
    client does not hold is skipped).  The header a step worked on goes to the front of the client's
    list (a renumbering only). -/
inductive Op where
  | open_ (name : String)
  | fastOpen (name : String)
  | close (k : Nat)
  | extract (k : Nat) (f : FileInfo) (out : String)
  | fastFind (k : Nat) (name : String)
  deriving Repr

/-- the pointer `create` returned, what is stored there, and the headers the client holds -/
structure Sess (σ : Type) where
  self : Nat
  inst : Inst σ
  hdrs : List Hdr

def runOp (D : Decoder σ) (P : Parse) (s : Sess σ) : Op → M (Sess σ)
  | .open_ name => do
    let r ← open' P s.inst name
    return ⟨s.self, r.1, r.2.toList ++ s.hdrs⟩
  | .fastOpen name => do
    let r ← fastOpen P s.inst name
    return ⟨s.self, r.1, r.2.toList ++ s.hdrs⟩
  | .close k =>
    match s.hdrs[k]? with
    | none => return s
    | some h => do
      let i ← close_ s.inst h
      return ⟨s.self, i, s.hdrs.eraseIdx k⟩
  | .extract k f out =>
    match s.hdrs[k]? with
    | none => return s
    | some h => do
      let r ← extract D P s.inst h f out
      return ⟨s.self, r.2.1, r.2.2 :: s.hdrs.eraseIdx k⟩
  | .fastFind k name =>
    match s.hdrs[k]? with
    | none => return s
    | some h => do
      let r ← fastFindOp P s.inst h name
      return ⟨s.self, r.2.2.1, r.2.2.2 :: s.hdrs.eraseIdx k⟩

def runOps (D : Decoder σ) (P : Parse) : List Op → Sess σ → M (Sess σ)
  | [], s => return s
  | op :: ops, s => do
    let s ← runOp D P s op
    runOps D P ops s

/-- the client closes the headers it still holds -/
def closeAll : List Hdr → Inst σ → M (Inst σ)
  | [], i => return i
  | h :: hs, i => do
    let i ← close_ i h
    closeAll hs i

/-- create; the client's steps; close what is still open; destroy -/
def program (D : Decoder σ) (P : Parse) (ops : List Op) : M Unit := do
  match ← (create : M (Option (Nat × Inst σ))) with
  | none => return ()
  | some c =>
    let s ← runOps D P ops ⟨c.1, c.2, []⟩
    let i ← closeAll s.hdrs s.inst
    destroy c.1 i

end MsPack.Chm.Api
