import MsPack.Chm.Headers
/-
`chmd_fast_find`, `read_chunk`, `search_chunk` (chmd.c) on a fault-free host.

Known defects of the C that the model reproduces on purpose:
* a PMGI entry that points at a chunk already visited, or PMGL chunks linked in a cycle of length
  ≥ 2, make `chmd_fast_find` loop forever (its own TODO says so) → `Fault.hang` when the fuel
  runs out.  The state of either loop is the chunk number alone (the cache makes re-reads
  idempotent), so more than `num_chunks` iterations prove a real cycle; the fuel
  `4 * num_chunks + 64` is generous.
* `read_chunk` returns NULL for `chunk_num >= num_chunks` *without* setting `self->error`;
  `chmd_fast_find` then returns whatever `self->error` held before the call (possibly
  MSPACK_ERR_OK with an all-zero result, i.e. "not found").  The model therefore threads
  `self->error` through.
* when the `sys->open` inside `chmd_fast_find` fails the C returns MSPACK_ERR_OPEN without
  storing it in `self->error`.  On a fault-free host the file opened before exists, so this is
  only reachable under fault injection; modelled as `file = none`.
-/
namespace MsPack.Chm
open MsPack MsPack.Generated

/-- what `chmd_fast_find` and its callees may change: `self->error` and the header (chunk cache;
    `find_sys_file` also links system files into it) -/
structure FF where
  error : Err
  hdr   : Header
  deriving Repr

/-- `read_chunk(self, chm, fh, chunk_num)`: the chunk (`none` = NULL) and the state afterwards.
    A chunk with a wrong signature is reported as MSPACK_ERR_SEEK (sic) and not cached. -/
def readChunk (st : FF) (file : Bytes) (n : Nat) : Option Bytes × FF :=
  let h := st.hdr
  -- NULL, and `self->error` is left alone
  if n ≥ h.numChunks then (none, st) else
  -- ensure chunk cache is available (allocated and zeroed on first use)
  let cache := h.chunkCache.getD []
  let st := { st with hdr := { h with chunkCache := some cache } }
  match cache.lookup n with
  | some c => (some c, st)
  | none =>
    -- `(off_t)(chm->dir_offset + (chunk_num * chm->chunk_size))`, the product in `unsigned int`
    match seekAbs ⟨file, 0⟩ (h.dirOffset + Int.ofNat ((n * h.chunkSize) % 4294967296)) with
    | none => (none, { st with error := .seek })
    | some r =>
    match r.readExact h.chunkSize with
    | none => (none, { st with error := .read })
    | some (buf, _) =>
      if ¬ (byteAt buf 0 = 0x50 ∧ byteAt buf 1 = 0x4D ∧ byteAt buf 2 = 0x47 ∧
            (byteAt buf 3 = 0x4C ∨ byteAt buf 3 = 0x49)) then
        (none, { st with error := .seek })
      else
        (some buf, { st with hdr := { st.hdr with chunkCache := some ((n, buf) :: cache) } })

/-- result of `search_chunk`: `-1`, `0`, or `1` with `*result` and `*result_end` -/
inductive Search
  | bad
  | notFound
  | found (p e : Nat)
  deriving Repr, DecidableEq

/-- `&chunk[entries_off + (M ? EndGetI16(start - (M << 1)) : 0)]` as an index; `start` is
    `chunk_size - 2`.  (The pointer may lie beyond the chunk; it is only compared with `end`
    before any use.) -/
def qrTarget (chunk : Bytes) (cs entriesOff m : Nat) : Except Fault Nat :=
  if m = 0 then .ok entriesOff
  else if 2 * m + 2 > cs then .error (.oob "search_chunk: quickref slot")
  else .ok (entriesOff + u16At chunk (cs - 2 - 2 * m))

/-- how the binary search over the quick-ref entries ended -/
inductive BSearch
  | ret0                                        -- `return 0` (name sorts before the first entry)
  | bad                                         -- `goto encint_err`
  | done (cmp : Int) (p nameLen l r : Nat)      -- loop left by `break` or `L > R`
  deriving Repr

/-- the `do { … } while (L <= R)` loop.  The interval shrinks every round: fuel
    `qr_entries + 1` suffices. -/
def bsearch (chunk : Bytes) (cs entriesOff e : Nat) (fname : Bytes) :
    Nat → Nat → Nat → Except Fault BSearch
  | 0, _, _ => .error .hang                     -- unreachable
  | fuel + 1, l, r =>
    let m := (l + r) / 2
    match qrTarget chunk cs entriesOff m with
    | .error f => .error f
    | .ok p0 =>
    match readEncint chunk p0 e with
    | .error f => .error f
    | .ok enc =>
    let nameLen := enc.value % 4294967296
    if enc.fail ∨ nameLen > (e - enc.pos) % 4294967296 then .ok .bad else
    let cmp := compare fname ((chunk.drop enc.pos).take nameLen)
    if cmp = 0 then .ok (.done cmp enc.pos nameLen l r)
    else if cmp < 0 then
      if m ≠ 0 then
        let r := m - 1
        if l ≤ r then bsearch chunk cs entriesOff e fname fuel l r else .ok (.done cmp enc.pos nameLen l r)
      else .ok .ret0
    else
      let l := m + 1
      if l ≤ r then bsearch chunk cs entriesOff e fname fuel l r else .ok (.done cmp enc.pos nameLen l r)

/-- `while (p < end && (*p++ & 0x80));` — skip one ENCINT without decoding it.
    fuel `e - p + 1` suffices. -/
def skipEncint (chunk : Bytes) (e : Nat) : Nat → Nat → Except Fault Nat
  | 0, _ => .error .hang                        -- unreachable
  | fuel + 1, p =>
    if p < e then
      match chunk[p]? with
      | none => .error (.oob "search_chunk: *p++")
      | some c => if c &&& 0x80 ≠ 0 then skipEncint chunk e fuel (p + 1) else .ok (p + 1)
    else .ok p

/-- step 2 of `search_chunk`: linear search through `num_entries` entries from `p`;
    `res` = `*result` so far -/
def linear (chunk : Bytes) (e : Nat) (fname : Bytes) (isPmgl : Bool) :
    Nat → Nat → Option Nat → Except Fault Search
  | 0, _, res => .ok (if isPmgl then .notFound else match res with | some p => .found p e | none => .notFound)
  | n + 1, p, res =>
    match readEncint chunk p e with
    | .error f => .error f
    | .ok enc =>
    let nameLen := enc.value % 4294967296
    if enc.fail ∨ nameLen > (e - enc.pos) % 4294967296 then .ok .bad else
    let cmp := compare fname ((chunk.drop enc.pos).take nameLen)
    let p := enc.pos + nameLen
    if cmp = 0 then .ok (.found p e)
    else if cmp < 0 then
      .ok (if isPmgl then .notFound else match res with | some p => .found p e | none => .notFound)
    else if isPmgl then
      -- skip section, offset and length ENCINTs
      match skipEncint chunk e (e - p + 1) p with
      | .error f => .error f
      | .ok p =>
      match skipEncint chunk e (e - p + 1) p with
      | .error f => .error f
      | .ok p =>
      match skipEncint chunk e (e - p + 1) p with
      | .error f => .error f
      | .ok p => linear chunk e fname isPmgl n p res
    else
      -- store potential final result, skip chunk number ENCINT
      match skipEncint chunk e (e - p + 1) p with
      | .error f => .error f
      | .ok p' => linear chunk e fname isPmgl n p' (some p)

/-- `search_chunk(chm, chunk, filename, &result, &result_end)`; `fname` = the `strlen` bytes of
    `filename`.  `chunk` has passed `read_chunk`, so it is `chunk_size` bytes long
    (`chunk_size ≥ 22`) and starts with "PMG". -/
def searchChunk (h : Header) (chunk : Bytes) (fname : Bytes) : Except Fault Search :=
  let cs := h.chunkSize
  let isPmgl := byteAt chunk 3 = 0x4C
  let entriesOff := if isPmgl then pmgl_Entries else pmgi_Entries
  let qrSize := u32At chunk pmgl_QuickRefSize
  -- `start = &chunk[chunk_size - 2]`; `end = &chunk[chunk_size - qr_size]` (if `qr_size` exceeds
  -- the chunk size this is a wild pointer, but the function returns before using it)
  let numEntries := u16At chunk (cs - 2)
  -- `qr_density = 1 + (1 << ((chm->density < 16) ? chm->density : 16))` — density is whatever the
  -- file header said; the exponent is clamped at 16 (since /repo commit 004b113; before that the
  -- shift count was the raw density: undefined behaviour for ≥ 32)
  let qrDensity := 1 + 2 ^ (if h.density < 16 then h.density else 16)
  let qrEntries := ((numEntries + qrDensity - 1) % 4294967296) / qrDensity
  if numEntries = 0 then .ok .bad else
  if qrSize > cs then .ok .bad else
  let e := cs - qrSize
  -- `if (((int)qr_entries * 2) > (start - end)) qr_entries = 0;`  start - end = qr_size - 2
  let qrEntries := if Int.ofNat (qrEntries * 2) > Int.ofNat qrSize - 2 then 0 else qrEntries
  if qrEntries > 0 then
    match bsearch chunk cs entriesOff e fname (qrEntries + 1) 0 (qrEntries - 1) with
    | .error f => .error f
    | .ok .ret0 => .ok .notFound
    | .ok .bad => .ok .bad
    | .ok (.done cmp p nameLen l r) =>
      let m := (l + r) / 2
      if cmp = 0 then .ok (.found (p + nameLen) e) else
      -- otherwise, read the group of entries for QR entry M
      match qrTarget chunk cs entriesOff m with
      | .error f => .error f
      | .ok p =>
        let numEntries := (numEntries + 4294967296 - (m * qrDensity) % 4294967296) % 4294967296
        let numEntries := if numEntries > qrDensity then qrDensity else numEntries
        linear chunk e fname isPmgl numEntries p none
  else
    linear chunk e fname isPmgl numEntries entriesOff none

/-- the stack `struct mschmd_file` that `chmd_fast_find` fills in: `section = none` is NULL
    (file not found); `filename` and `next` stay NULL -/
structure FindResult where
  sec : Option Nat := none
  offset  : Int := 0
  length  : Int := 0
  deriving Repr, DecidableEq, Inhabited

structure FindOut where
  ret : Err            -- the value returned
  st  : FF             -- `self->error` and the header afterwards
  res : FindResult
  deriving Repr

/-- "if we found a file, read it": section, offset, length ENCINTs at `p` -/
def readFound (chunk : Bytes) (p e : Nat) (st : FF) : Except Fault FindOut :=
  match readEncint chunk p e with
  | .error f => .error f
  | .ok r1 =>
  match readEncint chunk r1.pos e with
  | .error f => .error f
  | .ok r2 =>
  match readEncint chunk r2.pos e with
  | .error f => .error f
  | .ok r3 =>
    -- any section number other than 0 becomes `&chm->sec1`
    let res : FindResult :=
      { sec := some (if r1.value % 4294967296 = 0 then 0 else 1),
        offset := Int.ofNat r2.value, length := Int.ofNat r3.value }
    if r1.fail || r2.fail || r3.fail then .ok ⟨.dataformat, { st with error := .dataformat }, res⟩
    else .ok ⟨.ok, { st with error := .ok }, res⟩

/-- the PMGI branch: `for (;;) { read_chunk; search_chunk; … n = read_encint }` -/
def descend (file : Bytes) (fname : Bytes) : Nat → Nat → FF → Except Fault FindOut
  | 0, _, st => .ok ⟨.dataformat, { st with error := .dataformat }, {}⟩   -- `visits++ > num_chunks`: cyclic index
  | fuel + 1, n, st =>
    match readChunk st file n with
    | (none, st) => .ok ⟨st.error, st, {}⟩              -- `return self->error;`
    | (some chunk, st) =>
      match searchChunk st.hdr chunk fname with
      | .error f => .error f
      | .ok .bad => .ok ⟨.dataformat, { st with error := .dataformat }, {}⟩
      | .ok .notFound => .ok ⟨.ok, { st with error := .ok }, {}⟩
      | .ok (.found p e) =>
        -- found result. loop around for next chunk if this is PMGI
        if byteAt chunk 3 = 0x4C then readFound chunk p e st else
        match readEncint chunk p e with
        | .error f => .error f
        | .ok enc =>
          if enc.fail then .ok ⟨.dataformat, { st with error := .dataformat }, {}⟩
          else descend file fname fuel (enc.value % 4294967296) st

/-- the PMGL-only branch: `for (n = first_pmgl; n <= last_pmgl; n = NextChunk) { … }`.
    `last` = the `result` of the most recent `search_chunk` (`bad` initially: `result = -1`). -/
def walk (file : Bytes) (fname : Bytes) : Nat → Nat → Search → FF → Except Fault FindOut
  | 0, n, last, st =>
    -- the loop condition is tested first, then `visits++ > num_chunks`: cyclic chain
    let err : Err := if ¬ (n ≤ st.hdr.lastPmgl) then (if last = .bad then .dataformat else .ok) else .dataformat
    .ok ⟨err, { st with error := err }, {}⟩
  | fuel + 1, n, last, st =>
    let finish (last : Search) (err : Err) (st : FF) : FindOut :=
      -- result ≤ 0 here: `else if (result < 0) err = MSPACK_ERR_DATAFORMAT;  return self->error = err;`
      let err := if last = .bad then .dataformat else err
      ⟨err, { st with error := err }, {}⟩
    if ¬ (n ≤ st.hdr.lastPmgl) then .ok (finish last .ok st) else
    match readChunk st file n with
    | (none, st) => .ok (finish last st.error st)        -- `err = self->error; break;`
    | (some chunk, st) =>
      match searchChunk st.hdr chunk fname with
      | .error f => .error f
      | .ok (.found p e) => readFound chunk p e st
      | .ok s =>
        let next := u32At chunk pmgl_NextChunk
        -- stop simple infinite loops: can't visit the same chunk twice
        if n = next then .ok (finish s .ok st)
        else walk file fname fuel next s st

/-- loop budget of one `chmd_fast_find` call (see the module comment) -/
def findFuel (h : Header) : Nat := h.numChunks + 1      -- iterations `visits++ > num_chunks` lets through (since the D5 repair)

/-- `chmd_fast_find(base, chm, filename, f_ptr, sizeof(struct mschmd_file))`.
    `file` = contents of `chm->filename` (`none` = the open fails); `filename` is cut at its
    first NUL (it is a C string).  The argument checks (`MSPACK_ERR_ARGS`) cannot fail for the
    callers there are. -/
def fastFind (file : Option Bytes) (st : FF) (filename : Bytes) : Except Fault FindOut :=
  match file with
  | none => .ok ⟨.open_, st, {}⟩                          -- `self->error` not updated (defect)
  | some file =>
    let fname := cString filename
    if st.hdr.indexRoot < st.hdr.numChunks then
      descend file fname (findFuel st.hdr) st.hdr.indexRoot st
    else
      walk file fname (findFuel st.hdr) st.hdr.firstPmgl .bad st

end MsPack.Chm
