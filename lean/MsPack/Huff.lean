import MsPack.Basic
/-
Canonical Huffman codes as `readhuff.h` understands them.

`accepts nbits lens` is the acceptance rule of `make_decode_table(nsyms, nbits, length, table)`
(return value 0), derived from its two sweeps:
  * first sweep (lengths 1..nbits): reject as soon as the Kraft sum exceeds 1; accept at once if
    it is exactly 1 afterwards — codes longer than `nbits` are then silently ignored;
  * second sweep (lengths nbits+1..16): reject if a symbol turns up when the sum is already 1,
    accept iff the sum ends exactly at 1.
Lengths above 16 never match a sweep and are ignored.  The faithful table-building model
(`MsPack/HuffTable.lean`) is compared with the C on the `prim mdt` family; decoders use the
canonical decoder below.

Kraft sums are counted in units of 2^-16.
-/
namespace MsPack.Huff

/-- Kraft sum (×2^16) of the codes with length in [1, upto] -/
def kraft (lens : List Nat) (upto : Nat) : Nat :=
  lens.foldl (fun acc l => if 1 ≤ l ∧ l ≤ upto then acc + 2 ^ (16 - l) else acc) 0

inductive Accept
  | short     -- complete using only lengths ≤ nbits (longer ones ignored)
  | full      -- complete over lengths ≤ 16
  | reject
  deriving DecidableEq, Repr

def accepts (nbits : Nat) (lens : List Nat) : Accept :=
  let k1 := kraft lens nbits
  if k1 > 65536 then .reject
  else if k1 = 65536 then .short
  else if kraft lens 16 = 65536 then .full else .reject

/-- decoding structure: for each length 1..16 the first canonical code (as a number of that many
    bits), and the symbols of that length in index order -/
structure Canon where
  first : Array Nat      -- index l-1
  syms  : Array (Array Nat)
  maxLen : Nat
  deriving Repr

def symsOfLen (lens : List Nat) (l : Nat) : Array Nat :=
  ((List.range lens.length).filter (fun i => lens.getD i 0 = l)).toArray

/-- canonical code table for lengths 1..maxLen -/
def mkCanon (lens : List Nat) (maxLen : Nat) : Canon :=
  let rec go (l : Nat) (fuel : Nat) (code : Nat) (first : Array Nat) (syms : Array (Array Nat)) :
      Array Nat × Array (Array Nat) :=
    match fuel with
    | 0 => (first, syms)
    | fuel + 1 =>
      let s := symsOfLen lens l
      go (l + 1) fuel ((code + s.size) * 2) (first.push code) (syms.push s)
  let (first, syms) := go 1 maxLen 0 #[] #[]
  { first, syms, maxLen }

/-- table for a length vector, or `none` if `make_decode_table` refuses it -/
def build (nbits : Nat) (lens : List Nat) : Option Canon :=
  match accepts nbits lens with
  | .short => some (mkCanon lens nbits)
  | .full => some (mkCanon lens 16)
  | .reject => none

/-- decode one symbol from a stream of bits given most-significant code bit first.
    Returns the symbol and its code length; `none` if no code matches within `maxLen` bits
    (cannot happen for a complete code with enough bits available). -/
def decode (c : Canon) (bits : List Bool) : Option (Nat × Nat) :=
  let rec go (l : Nat) (fuel : Nat) (code : Nat) (bits : List Bool) : Option (Nat × Nat) :=
    match fuel, bits with
    | 0, _ => none
    | _, [] => none
    | fuel + 1, b :: rest =>
      let code := code * 2 + (if b then 1 else 0)
      let f := c.first.getD (l - 1) 0
      let s := c.syms.getD (l - 1) #[]
      if f ≤ code ∧ code - f < s.size then some (s.getD (code - f) 0, l)
      else go (l + 1) fuel code rest
  go 1 c.maxLen 0 bits

end MsPack.Huff
