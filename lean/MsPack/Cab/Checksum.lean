import MsPack.Basic
/-
`cabd_checksum` (cabd.c): XOR of the little-endian 32-bit words of the data, the 1–3 trailing
bytes packed *big-endian-ish* (`case 3: ul |= *data++ << 16; case 2: ul |= *data++ << 8;
case 1: ul |= *data`), folded into the running value.  Values are `Nat`s below 2^32 (the C uses
`unsigned int`; XOR never leaves that range, see `cksum_lt`).
-/
namespace MsPack.Cab

/-- the `switch (bytes & 3)` tail -/
def cksumTail : Bytes → Nat
  | [a]       => a.toNat
  | [a, b]    => a.toNat * 256 + b.toNat
  | [a, b, c] => a.toNat * 65536 + b.toNat * 256 + c.toNat
  | _         => 0

/-- `cabd_checksum(data, bytes, cksum)` -/
def cksum : Bytes → Nat → Nat
  | a :: b :: c :: d :: rest, s => cksum rest (s ^^^ le32 a b c d)
  | tail, s => s ^^^ cksumTail tail

/-- The test `cabd_sys_read_block` applies to a CFDATA block: `ck` is the stored checksum
    (first header word), `sizes` the four bytes of the two size fields (`&hdr[4]`), `payload`
    the `len` bytes read after the header.  `true` = the block is let through. -/
def blockCheck (ck : Nat) (sizes payload : Bytes) : Bool :=
  ck == 0 || cksum sizes (cksum payload 0) == ck

end MsPack.Cab
