import MsPack.Sys
import MsPack.IO
import MsPack.Generated.Consts
/-
cabd.c (+ the allocation skeletons of noned_init / mszipd_init / qtmd_init / lzxd_init and their
`free`s) over the instrumented system `Sys.M`: every `sys->alloc/free/open/close/read/seek` of the C
is one call of the corresponding `Sys` primitive, in the same order, with the same reactions to
failure.  This is the model the CAB resource theorems (C09) are about.

What is real and what is a parameter:

* `cabd_read_headers` / `cabd_read_string` parse the bytes the system delivers (flags, reserve
  sizes, numbers of folders and files, folder indices, the NUL search in the 256-byte string buffer);
  `sys->message` is not a ledger call and is left out; `sys->tell` is a look at the handle position.
* The signature scanner of `cabd_find` (the 20-state machine over the search buffer) is a *script*
  (`List FindStep`): one entry per chunk read, saying whether a candidate header completed in it,
  whether it passed the plausibility test, where it lies and whether the search ends after it.  The
  reads, the allocation of the candidate cabinet, `cabd_read_headers` at the candidate's offset, the
  `cabd_close` of a rejected candidate and the restart seek are real.
* `cabd_extract`: the tests made before any system call (offset / length limits, `fol->merge_prev`,
  the block-count limit) are one Boolean (`sane`); `self->d->offset > file->offset`, `filelen == 0`
  and `file->offset - self->d->offset != 0` are Booleans as well.  The bit-level decoder
  `self->d->decompress(self->d->state, bytes)` — running over `cabd_sys_read` /
  `cabd_sys_write`, hence over `cabd_sys_read_block`, which may close `d->infh` and open the next
  cabinet of a split folder — is a *parameter* (`Body`): it gets the folder, the input handle
  (`none` = `d->infh` is NULL) and the output handle (`none` = `d->outfh` is NULL) and reports its
  status together with `d->infh` / `d->incab` as it leaves them.
* `cabd_merge`: the argument checks and `cabd_can_merge_folders` only look at data, so which of the
  three ways the call goes (`MergeKind`: plain join, refusal, folder merge) is a parameter.

The ledger theorems hold for every script, every Boolean, every merge kind, every body that
satisfies the switch law (`Proofs/Lemmas/CabApiLedger.lean`).
-/
namespace MsPack.Cab.Api
open MsPack MsPack.Sys MsPack.Generated

/-! ## the structures, as far as the ledger sees them (a pointer = the id of the block) -/

/-- `struct mscabd_file`: the block, `file->filename`, `file->folder` -/
structure FileEnt where
  mem    : Nat
  name   : Nat
  folder : Nat
  deriving Repr, DecidableEq

/-- `struct mscabd_folder_data` allocated by `cabd_merge`: the block, `->cab`, that cabinet's
    file name, `->offset` -/
structure Part where
  mem     : Nat
  cab     : Nat
  cabName : String
  offset  : Nat
  deriving Repr, DecidableEq

/-- `struct mscabd_folder_p`: the block, `comp_type`, the embedded first data part
    (`data.cab`, its file name, `data.offset`) and the `data.next` chain -/
structure Folder where
  mem      : Nat
  compType : Nat
  cab      : Nat
  cabName  : String
  offset   : Nat
  parts    : List Part := []
  deriving Repr, DecidableEq

/-- `struct mscabd_cabinet_p`: the block, `base.filename` (the caller's string) and the four
    strings `cabd_read_string` may have allocated (`none` = NULL) -/
structure Cab where
  mem      : Nat
  filename : String
  prevname : Option Nat := none
  nextname : Option Nat := none
  previnfo : Option Nat := none
  nextinfo : Option Nat := none
  deriving Repr, DecidableEq

/-- a cabinet set: the cabinets joined by `prevcab` / `nextcab` (first to last) with the folder list
    and the file list they share.  `anchor` = which of them sits on a `search()` result's `next`
    list (0 for a cabinet that has not been joined to anything). -/
structure Chain where
  cabs    : List Cab
  anchor  : Nat := 0
  folders : List Folder := []
  files   : List FileEnt := []
  deriving Repr, DecidableEq

/-- what the client holds and may close: the result of `open()` (one chain) or of `search()` (the
    cabinets linked by `next`, each with whatever was joined to it) -/
abbrev Group := List Chain

/-- `self->d->state`: the method (`comp_type & 15`, 0..3) and the blocks its `free` releases, in
    that order -/
structure DecState where
  method : Nat
  frees  : List Nat
  deriving Repr, DecidableEq

/-- `struct mscabd_decompress_state` (`self->d`) -/
structure DState where
  mem    : Nat
  folder : Option Nat := none       -- `d->folder`
  state  : Option DecState := none  -- `d->state`
  infh   : Option Nat := none       -- `d->infh`
  incab  : Option Nat := none       -- `d->incab`
  deriving Repr, DecidableEq

/-- `struct mscab_decompressor_p` -/
structure Inst where
  self    : Nat
  d       : Option DState := none
  bufSize : Nat := 4096
  salvage : Bool := false
  error   : Err := .ok
  deriving Repr

/-! ## primitives the other models did not need -/

/-- `sys->tell(fh)`: not a counted call; 0 for a handle that is not open (libmspack never asks) -/
def tell (id : Nat) : M Nat := fun w => (((findHandle w id).map (·.pos)).getD 0, w)

/-- `sys->seek(fh, 0, MSPACK_SYS_SEEK_END)`: `true` = failure -/
def seekEnd (id : Nat) : M Bool := fun w =>
  let (failed, w) := tick .seek w
  match findHandle w id with
  | none => (true, (note (.useClosed id) w).2)
  | some h =>
    if failed then (true, w)
    else (false, setHandle { h with pos := ((w.files.lookup h.name).getD []).length } w)

/-- `if (fh) sys->close(fh);` -/
def closeIf : Option Nat → M Unit
  | some fh => close fh
  | none => pure ()

/-- a list of `sys->free` calls -/
def freeAll : List Nat → M Unit
  | [] => pure ()
  | a :: as => do free (some a); freeAll as

/-! ## create, destroy, `cabd_free_decomp` -/

/-- `mspack_create_cab_decompressor` -/
def create : M (Option Inst) := do
  match ← alloc with
  | none => return none
  | some a => return some { self := a }

/-- `cabd_free_decomp`: nothing for a NULL state, else the method's `free`
    (noned: buf, state; mszipd: inbuf, zip; qtmd: window, inbuf, qtm; lzxd: inbuf, window, lzx) -/
def freeDecomp : Option DecState → M Unit
  | none => pure ()
  | some s => freeAll s.frees

/-- what `cabd_close` and `mspack_destroy_cab_decompressor` do with a non-NULL `self->d`:
    `if (d->infh) close(d->infh); cabd_free_decomp(self); free(d);` -/
def dropD (d : DState) : M Unit := do
  closeIf d.infh
  freeDecomp d.state
  free (some d.mem)

/-- `if (self->d) { … }` -/
def dropDIf : Option DState → M Unit
  | some d => dropD d
  | none => pure ()

/-- `mspack_destroy_cab_decompressor` -/
def destroy (i : Inst) : M Unit := do
  dropDIf i.d
  free (some i.self)

/-! ## `cabd_close` -/

/-- `for (fi = origcab->files; fi; fi = nfi) { free(fi->filename); free(fi); }` -/
def freeFiles : List FileEnt → M Unit
  | [] => pure ()
  | f :: fs => do
    free (some f.name)
    free (some f.mem)
    freeFiles fs

/-- `for (dat = fol->data.next; dat; dat = ndat) free(dat);` -/
def freeParts : List Part → M Unit
  | [] => pure ()
  | p :: ps => do free (some p.mem); freeParts ps

/-- "free folder decompression state if it has been decompressed": `self->d` afterwards -/
def dropIf (d : Option DState) (folder : Nat) : M (Option DState) :=
  match d with
  | some ds => if ds.folder = some folder then do dropD ds; pure none else pure d
  | none => pure none

/-- the folder loop: for each folder, drop `self->d` if it is decoding this folder, free the data
    parts, free the folder -/
def freeFolders : Option DState → List Folder → M (Option DState)
  | d, [] => pure d
  | d, fo :: fs => do
    let d' ← dropIf d fo.mem
    freeParts fo.parts
    free (some fo.mem)
    freeFolders d' fs

/-- the four strings of one cabinet, in the order `cabd_close` frees them -/
def freeCabStrings (c : Cab) : M Unit := do
  free c.prevname
  free c.nextname
  free c.previnfo
  free c.nextinfo

/-- strings and struct of each cabinet of a `prevcab` / `nextcab` walk -/
def freeCabs : List Cab → M Unit
  | [] => pure ()
  | c :: cs => do
    freeCabStrings c
    free (some c.mem)
    freeCabs cs

/-- the cabinets before the one `cabd_close` was given (nearest first = the `prevcab` walk) and
    from it on; an index that is out of range counts as 0 -/
def splitCabs (cs : List Cab) (p : Nat) : List Cab × List Cab :=
  if p < cs.length then ((cs.take p).reverse, cs.drop p) else ([], cs)

/-- one round of `while (origcab)`: `origcab` = cabinet number `p` of the chain.  Files, folders,
    `origcab`'s strings, the predecessors, the successors, `origcab` itself. -/
def closeChain (d : Option DState) (c : Chain) (p : Nat) : M (Option DState) := do
  freeFiles c.files
  let d' ← freeFolders d c.folders
  match (splitCabs c.cabs p).2 with
  | [] => pure d'
  | o :: after =>
    freeCabStrings o
    freeCabs (splitCabs c.cabs p).1
    freeCabs after
    free (some o.mem)
    pure d'

/-- the rest of the `next` list: every cabinet found by `search()` is closed through itself -/
def closeChains : Option DState → List Chain → M (Option DState)
  | d, [] => pure d
  | d, c :: cs => do
    let d' ← closeChain d c c.anchor
    closeChains d' cs

/-- `cabd_close(self, cab)` as the documentation allows it to be called: on the head of a `search()`
    result, or — for a set that is not part of a longer `next` list — on any member `p` of the set -/
def close_ (i : Inst) (g : Group) (p : Nat) : M Inst := do
  match g with
  | [] => return i
  | [c] =>
    let d' ← closeChain i.d c p
    return { i with d := d', error := .ok }
  | c :: cs =>
    let d' ← closeChain i.d c c.anchor
    let d'' ← closeChains d' cs
    return { i with d := d'', error := .ok }

/-! ## `cabd_read_string`, `cabd_read_headers`, `cabd_open` -/

def hasFlag (flags flag : Nat) : Bool := flags &&& flag ≠ 0

/-- `cabd_read_string(sys, fh, permit_empty, &err)`: the status and the block (`none` = NULL) -/
def readString (fh : Nat) (permitEmpty : Bool) : M (Err × Option Nat) := do
  let base ← tell fh
  match ← read fh 256 with
  | none => return (.read, none)
  | some buf =>
    if buf.length = 0 then return (.read, none)
    else
      let i := (buf.takeWhile (· ≠ 0)).length
      if i = buf.length ∨ (i = 0 ∧ permitEmpty = false) then return (.dataformat, none)
      else if ← seekStart fh (base + (i + 1)) then return (.seek, none)
      else
        match ← alloc with
        | none => return (.nomemory, none)
        | some s => return (.ok, some s)

/-- name and info of a neighbouring cabinet: the info string is only read when the name was -/
def readPair (fh : Nat) : M (Err × Option Nat × Option Nat) := do
  let r1 ← readString fh false
  if r1.1 ≠ .ok then return (r1.1, r1.2, none)
  else
    let r2 ← readString fh true
    return (r2.1, r1.2, r2.2)

def pairIf (present : Bool) (fh : Nat) : M (Err × Option Nat × Option Nat) :=
  if present then readPair fh else pure (.ok, none, none)

/-- "read name and info of preceeding cabinet in set, if present", the same for the next one -/
def readStrings (fh flags : Nat) (c : Cab) : M (Err × Cab) := do
  let p ← pairIf (hasFlag flags cfheadPREV_CABINET) fh
  if p.1 ≠ .ok then return (p.1, { c with prevname := p.2.1, previnfo := p.2.2 })
  else
    let n ← pairIf (hasFlag flags cfheadNEXT_CABINET) fh
    return (n.1, { c with prevname := p.2.1, previnfo := p.2.2, nextname := n.2.1, nextinfo := n.2.2 })

/-- "read the reserved-sizes part of header, if present": the status and `folder_resv` -/
def readReserve (fh flags : Nat) : M (Err × Nat) := do
  if hasFlag flags cfheadRESERVE_PRESENT then
    match ← read fh cfheadextSIZEOF with
    | none => return (.read, 0)
    | some b =>
      if b.length ≠ cfheadextSIZEOF then return (.read, 0)
      else if u16At b cfheadextHeaderReserved ≠ 0 then
        if ← seekCur fh (u16At b cfheadextHeaderReserved) then return (.seek, 0)
        else return (.ok, (byteAt b cfheadextFolderReserved).toNat)
      else return (.ok, (byteAt b cfheadextFolderReserved).toNat)
  else return (.ok, 0)

/-- `if (folder_resv) seek(fh, folder_resv, CUR)`: `true` = failure -/
def skipResv (fh resv : Nat) : M Bool :=
  if resv ≠ 0 then seekCur fh resv else pure false

/-- "read folders": the status and the folder list as linked so far -/
def readFolders (fh cab : Nat) (cabName : String) (offset folderResv : Nat) :
    Nat → List Folder → M (Err × List Folder)
  | 0, acc => return (.ok, acc)
  | n + 1, acc => do
    match ← read fh cffoldSIZEOF with
    | none => return (.read, acc)
    | some b =>
      if b.length ≠ cffoldSIZEOF then return (.read, acc)
      else if ← skipResv fh folderResv then return (.seek, acc)
      else
        match ← alloc with
        | none => return (.nomemory, acc)
        | some m =>
          readFolders fh cab cabName offset folderResv n
            (acc ++ [{ mem := m, compType := u16At b cffoldCompType, cab := cab, cabName := cabName,
                       offset := offset + u32At b cffoldDataOffset }])

/-- "set folder pointer": `file->folder` for folder index `fidx` (`none` = NULL).  A normal index
    counts along the list; CONTINUED_TO_NEXT is the last folder, CONTINUED_FROM_PREV the first,
    CONTINUED_PREV_AND_NEXT the first provided it is also the last. -/
def resolveFolder (folders : List Folder) (numFolders fidx : Nat) : Option Nat :=
  if fidx < cffileCONTINUED_FROM_PREV_ then
    if fidx < numFolders then (folders[fidx]?).map (·.mem) else none
  else if fidx = cffileCONTINUED_TO_NEXT_ then folders.getLast?.map (·.mem)
  else if fidx = cffileCONTINUED_PREV_AND_NEXT_ then
    if folders.getLast?.map (·.mem) ≠ folders.head?.map (·.mem) then none else folders.head?.map (·.mem)
  else folders.head?.map (·.mem)

/-- "read files": per entry the 16 bytes, the struct, the name; an entry with a bad name or a bad
    folder index is freed again (name, struct) and either skipped (salvage mode, unless the host
    failed) or fatal.  The status and the file list as linked so far. -/
def readFiles (fh : Nat) (salvage : Bool) (folders : List Folder) (numFolders : Nat) :
    Nat → List FileEnt → M (Err × List FileEnt)
  | 0, acc => return (.ok, acc)
  | n + 1, acc => do
    match ← read fh cffileSIZEOF with
    | none => return (.read, acc)
    | some b =>
      if b.length ≠ cffileSIZEOF then return (.read, acc)
      else
        match ← alloc with
        | none => return (.nomemory, acc)
        | some m =>
          let r ← readString fh false
          match r.1, r.2, resolveFolder folders numFolders (u16At b cffileFolderIndex) with
          | .ok, some nm, some fo =>
            readFiles fh salvage folders numFolders n (acc ++ [⟨m, nm, fo⟩])
          | e, nm?, _ =>
            free nm?
            free (some m)
            if salvage = true ∧ e ≠ .nomemory ∧ e ≠ .seek then readFiles fh salvage folders numFolders n acc
            else return (if e ≠ .ok then e else .dataformat, acc)

/-- `cabd_read_headers` after the fixed header: the three fields arrive as plain numbers -/
def readHeadersBody (fh : Nat) (c : Cab) (offset : Nat) (salvage : Bool) (numFolders numFiles flags : Nat) :
    M (Err × Chain) := do
  let r ← readReserve fh flags
  if r.1 ≠ .ok then return (r.1, { cabs := [c] })
  else
    let s ← readStrings fh flags c
    if s.1 ≠ .ok then return (s.1, { cabs := [s.2] })
    else
      let fo ← readFolders fh c.mem c.filename offset r.2 numFolders []
      if fo.1 ≠ .ok then return (fo.1, { cabs := [s.2], folders := fo.2 })
      else
        let fi ← readFiles fh salvage fo.2 numFolders numFiles []
        if fi.1 ≠ .ok then return (fi.1, { cabs := [s.2], folders := fo.2, files := fi.2 })
        else if fi.2.isEmpty then return (.dataformat, { cabs := [s.2], folders := fo.2, files := fi.2 })
        else return (.ok, { cabs := [s.2], folders := fo.2, files := fi.2 })

/-- `cabd_read_headers(sys, fh, cab, offset, salvage, quiet)`: the status and `*cab` with what hangs
    off it, as the C leaves them on every exit path -/
def readHeaders (fh : Nat) (c : Cab) (offset : Nat) (salvage : Bool) : M (Err × Chain) := do
  if ← seekStart fh offset then return (.seek, { cabs := [c] })
  else
    match ← read fh cfheadSIZEOF with
    | none => return (.read, { cabs := [c] })
    | some buf =>
      if buf.length ≠ cfheadSIZEOF then return (.read, { cabs := [c] })
      else if u32At buf cfheadSignature ≠ 0x4643534D then return (.signature, { cabs := [c] })
      else if u16At buf cfheadNumFolders = 0 then return (.dataformat, { cabs := [c] })
      else if u16At buf cfheadNumFiles = 0 then return (.dataformat, { cabs := [c] })
      else
        readHeadersBody fh c offset salvage (u16At buf cfheadNumFolders) (u16At buf cfheadNumFiles)
          (u16At buf cfheadFlags)

/-- `cabd_open`: open, allocate the cabinet, read the headers (on failure `cabd_close` of what has
    been built), close the file -/
def open_ (i : Inst) (name : String) : M (Inst × Option Chain) := do
  match ← Sys.open_ name .read with
  | none => return ({ i with error := .open_ }, none)
  | some fh =>
    match ← alloc with
    | none =>
      close fh
      return ({ i with error := .nomemory }, none)
    | some m =>
      let r ← readHeaders fh { mem := m, filename := name } 0 i.salvage
      if r.1 ≠ .ok then
        let i' ← close_ i [r.2] 0
        close fh
        return ({ i' with error := r.1 }, none)
      else
        close fh
        return ({ i with error := .ok }, some r.2)

/-! ## `cabd_search`, `cabd_find` -/

/-- a candidate header that completed in a chunk: did it pass the plausibility test, where does it
    lie, its length field, and `offset >= flen` after it (for a cabinet that was read / was not) -/
structure Hit where
  plausible  : Bool
  caboff     : Nat
  cablen     : Nat
  lastIfRead : Bool
  lastIfNot  : Bool
  deriving Repr

/-- `offset >= flen` after the candidate -/
def Hit.last (h : Hit) (wasRead : Bool) : Bool := if wasRead then h.lastIfRead else h.lastIfNot

/-- where the search restarts: after the cabinet that was read, or just after the candidate's `MSCF` -/
def Hit.restart (h : Hit) (wasRead : Bool) : Nat := if wasRead then h.caboff + h.cablen else h.caboff + 4

/-- one round of the outer loop of `cabd_find`: the chunk length asked for, and the candidate that
    completed in it, if any -/
structure FindStep where
  len : Nat
  hit : Option Hit
  deriving Repr

/-- "likely cabinet found -- try reading it": the new `self->d`, a status other than OK if the
    search has to stop (out of memory), and the cabinet if it was read -/
def tryCab (i : Inst) (fh : Nat) (name : String) (caboff : Nat) : M (Inst × Err × Option Chain) := do
  match ← alloc with
  | none => return (i, .nomemory, none)
  | some m =>
    let r ← readHeaders fh { mem := m, filename := name } caboff i.salvage
    if r.1 ≠ .ok then
      let i' ← close_ i [r.2] 0
      if r.1 = .nomemory then return (i', .nomemory, none) else return (i', .ok, none)
    else return (i, .ok, some r.2)

/-- `cabd_find` driven by the scanner's script: the status and the cabinets linked so far -/
def find (fh : Nat) (name : String) : List FindStep → Inst → List Chain → M (Inst × Err × List Chain)
  | [], i, acc => return (i, .ok, acc)
  | s :: ss, i, acc => do
    match ← read fh s.len with
    | none => return (i, .read, acc)
    | some b =>
      if b.length ≠ s.len then return (i, .read, acc)
      else
        match s.hit with
        | none => find fh name ss i acc
        | some h =>
          let r ← (if h.plausible then tryCab i fh name h.caboff else pure (i, .ok, none))
          if r.2.1 ≠ .ok then return (r.1, r.2.1, acc)
          else if h.last r.2.2.isSome then
            return (r.1, .ok, acc ++ r.2.2.toList)
          else if ← seekStart fh (h.restart r.2.2.isSome) then
            return (r.1, .seek, acc ++ r.2.2.toList)
          else find fh name ss r.1 (acc ++ r.2.2.toList)

/-- `mspack_sys_filelen`: tell, seek to the end, tell, seek back -/
def fileLen (fh : Nat) : M Err := do
  let cur ← tell fh
  if ← seekEnd fh then return .seek
  else
    let _len ← tell fh
    if ← seekStart fh cur then return .seek else return .ok

/-- `cabd_search`: the search buffer, the file, its length, `cabd_find`, close, free.  The list is
    returned whatever `cabd_find` reported. -/
def search (i : Inst) (name : String) (script : List FindStep) : M (Inst × Group) := do
  match ← alloc with
  | none => return ({ i with error := .nomemory }, [])
  | some buf =>
    match ← Sys.open_ name .read with
    | none =>
      free (some buf)
      return ({ i with error := .open_ }, [])
    | some fh =>
      let e ← fileLen fh
      let r ← (if e ≠ .ok then pure (i, e, []) else find fh name script i [])
      close fh
      free (some buf)
      return ({ r.1 with error := r.2.1 }, r.2.2)

/-! ## `cabd_merge` (`cabd_append`, `cabd_prepend`) -/

/-- which way `cabd_merge` goes once the argument checks have passed: no folder to merge (the lists
    are joined, no system call), `cabd_can_merge_folders` says no (MSPACK_ERR_DATAFORMAT, nothing
    changed), or the folder merge -/
inductive MergeKind | plain | refuse | folders
  deriving Repr, DecidableEq

/-- "delete all files from rfol's merge folder": the entries whose folder is `rfol` are freed
    (name, struct) and unlinked; the list that is left -/
def delFiles (rfol : Nat) : List FileEnt → M (List FileEnt)
  | [] => pure []
  | f :: fs => do
    if f.folder = rfol then
      free (some f.name)
      free (some f.mem)
      delFiles rfol fs
    else
      let rest ← delFiles rfol fs
      pure (f :: rest)

/-- `cabd_merge(self, lcab, rcab)` where `lcab` is the last cabinet of the set `l` and `rcab` the
    first of `r` (anything else is MSPACK_ERR_ARGS before any system call).  The status and the
    joined set (`none` = nothing was changed). `anchor` is filled in by the caller. -/
def merge (l r : Chain) : MergeKind → M (Err × Option Chain)
  | .plain =>
    return (.ok, some { cabs := l.cabs ++ r.cabs, folders := l.folders ++ r.folders, files := l.files ++ r.files })
  | .refuse => return (.dataformat, none)
  | .folders =>
    match l.folders.getLast?, r.folders with
    | some lfol, rfol :: rrest => do
      match ← alloc with
      | none => return (.nomemory, none)
      | some data =>
        free (some rfol.mem)
        let kept ← delFiles rfol.mem (l.files ++ r.files)
        return (.ok, some {
          cabs := l.cabs ++ r.cabs,
          folders := l.folders.dropLast ++
            [{ lfol with parts := lfol.parts ++ ⟨data, rfol.cab, rfol.cabName, rfol.offset⟩ :: rfol.parts }] ++ rrest,
          files := kept })
    | _, _ => return (.args, none)   -- a set without folders: not a state the C can be in

/-! ## `cabd_extract` -/

/-- `noned_init`: both blocks are asked for, then `free(buf); free(state)` if either is missing -/
def nonedInit : M (Option DecState) := do
  let st ← alloc
  let buf ← alloc
  match st, buf with
  | some s, some b => return some ⟨0, [b, s]⟩
  | st?, buf? =>
    free buf?
    free st?
    return none

/-- `mszipd_init`: the size check, the stream, the input buffer (`free(zip)` if that fails) -/
def mszipdInit (bufSize : Nat) : M (Option DecState) := do
  if (bufSize + 1) / 2 * 2 < 2 ∨ bufSize + 1 > 2147483647 then return none
  else
    match ← alloc with
    | none => return none
    | some z =>
      match ← alloc with
      | none =>
        free (some z)
        return none
      | some b => return some ⟨1, [b, z]⟩

/-- `qtmd_init` / `lzxd_init`: the argument checks (`argsOk`), the stream, then *both* the window and
    the input buffer are asked for, and `free(window); free(inbuf); free(stream)` if either is
    missing.  `frees` = the order of the method's `free` given the three blocks. -/
def winInit (argsOk : Bool) (method : Nat) (frees : Nat → Nat → Nat → List Nat) : M (Option DecState) := do
  if argsOk = false then return none
  else
    match ← alloc with
    | none => return none
    | some s =>
      let win ← alloc
      let inb ← alloc
      match win, inb with
      | some w, some b => return some ⟨method, frees s w b⟩
      | win?, inb? =>
        free win?
        free inb?
        free (some s)
        return none

def bufOk (bufSize : Nat) : Bool := ¬ ((bufSize + 1) / 2 * 2 < 2 ∨ bufSize + 1 > 2147483647)

/-- `cabd_init_decomp(self, ct)`: the status and `d->state` -/
def initDecomp (bufSize ct : Nat) : M (Err × Option DecState) := do
  let m := ct % 16
  if m = cffoldCOMPTYPE_NONE then
    let s ← nonedInit
    return (if s.isSome then .ok else .nomemory, s)
  else if m = cffoldCOMPTYPE_MSZIP then
    let s ← mszipdInit bufSize
    return (if s.isSome then .ok else .nomemory, s)
  else if m = cffoldCOMPTYPE_QUANTUM then
    let wb := (ct / 256) % 32
    let s ← winInit (decide (10 ≤ wb ∧ wb ≤ 21) && bufOk bufSize) 2 (fun q w b => [w, b, q])
    return (if s.isSome then .ok else .nomemory, s)
  else if m = cffoldCOMPTYPE_LZX then
    let wb := (ct / 256) % 32
    let s ← winInit (decide (15 ≤ wb ∧ wb ≤ 21) && bufOk bufSize) 3 (fun l w b => [b, w, l])
    return (if s.isSome then .ok else .nomemory, s)
  else return (.dataformat, none)

/-- what the decoder is told: the folder it decodes and whether this is the call that writes -/
structure BodyArgs where
  fol     : Folder
  writing : Bool
  salvage : Bool
  deriving Repr

/-- what `cabd_extract` sees of one `self->d->decompress(self->d->state, bytes)`: the status (after
    the `read_error` substitution) and `d->infh` / `d->incab` as `cabd_sys_read_block` left them -/
structure BodyOut where
  err   : Err
  infh  : Option Nat
  incab : Option Nat
  deriving Repr

/-- `self->d->decompress(self->d->state, bytes)` as a function of what it was set up with,
    `d->infh` and `d->outfh` -/
abbrev Body := BodyArgs → Option Nat → Option Nat → M BodyOut

/-- "allocate generic decompression state": `self->d` afterwards (`none` = out of memory) -/
def ensureD (d : Option DState) : M (Option DState) := do
  match d with
  | some ds => return some ds
  | none =>
    match ← alloc with
    | none => return none
    | some m => return some { mem := m }

/-- "do we need to open a new cab file?": close the handle of a different cabinet, open this
    folder's cabinet -/
def switchCab (d : DState) (fol : Folder) : M DState := do
  if d.infh.isNone ∨ d.incab ≠ some fol.cab then
    closeIf d.infh
    let h ← Sys.open_ fol.cabName .read
    return { d with incab := some fol.cab, infh := h }
  else return d

/-- "do we need to change folder or reset the current folder?" — yes: free the decoder, get the
    cabinet file, seek to the folder's data, set up the decoder.  The status and `*self->d`. -/
def resetFolder (bufSize : Nat) (d : DState) (fol : Folder) : M (Err × DState) := do
  freeDecomp d.state
  let d1 ← switchCab { d with state := none } fol
  match d1.infh with
  | none => return (.open_, d1)
  | some fh =>
    if ← seekStart fh fol.offset then return (.seek, d1)
    else
      let s ← initDecomp bufSize fol.compType
      match s.2 with
      | none => return (if s.1 = .ok then .nomemory else s.1, d1)
      | some st => return (.ok, { d1 with state := some st, folder := some fol.mem })

/-- the two decoder calls: up to the file's offset without writing (if there is anything to skip),
    then the file itself -/
def runBody (body : Body) (salvage : Bool) (fol : Folder) (d : DState) (outFh : Nat) (skip : Bool) :
    M (Err × DState) := do
  let r1 ← (if skip then body ⟨fol, false, salvage⟩ d.infh none else pure ⟨.ok, d.infh, d.incab⟩)
  if r1.err ≠ .ok then return (r1.err, { d with infh := r1.infh, incab := r1.incab })
  else
    let r2 ← body ⟨fol, true, salvage⟩ r1.infh (some outFh)
    return (r2.err, { d with infh := r2.infh, incab := r2.incab })

/-- `cabd_extract(self, file, filename)` for a file of folder `fol` -/
def extract (body : Body) (i : Inst) (fol : Folder) (sane rewind empty skip : Bool) (out : String) :
    M (Inst × Err) := do
  if sane = false then return ({ i with error := .dataformat }, .dataformat)
  else
    match ← ensureD i.d with
    | none => return ({ i with error := .nomemory }, .nomemory)
    | some d =>
      let r ← (if d.folder ≠ some fol.mem ∨ rewind = true ∨ d.state.isNone
               then resetFolder i.bufSize d fol else pure (.ok, d))
      if r.1 ≠ .ok then return ({ i with d := some r.2, error := r.1 }, r.1)
      else
        match ← Sys.open_ out .write with
        | none => return ({ i with d := some r.2, error := .open_ }, .open_)
        | some fh =>
          let e ← (if empty then pure (.ok, r.2) else runBody body i.salvage fol r.2 fh skip)
          close fh
          return ({ i with d := some e.2, error := e.1 }, e.1)

/-! ## client programs -/

/-- everything the client holds: the decompressor and the groups it may close -/
structure Sess where
  inst   : Inst
  groups : List Group := []

/-- one client step.  Groups, the sets inside a group and the folders inside a set are named by
    position; a position that does not exist makes the step a no-op (the client has no such
    pointer). -/
inductive Op where
  | open_ (name : String)
  | search (name : String) (script : List FindStep)
  | close (g p : Nat)
  | extract (g c f : Nat) (sane rewind empty skip : Bool) (out : String)
  /-- `append(last cabinet of set cl of group gl, first cabinet of set cr of group gr)`, or the
      same call spelt `prepend(first cabinet of …cr…, last cabinet of …cl…)` -/
  | join (gl cl gr cr : Nat) (kind : MergeKind)
  | setParam (bufSize : Nat) (salvage : Bool)

/-- the groups other than `a` and `b` -/
def dropTwo (gs : List Group) (a b : Nat) : List Group :=
  if a < b then (gs.eraseIdx b).eraseIdx a else (gs.eraseIdx a).eraseIdx b

/-- a join is modelled between two different groups one of which consists of a single set (see the
    report: the C has no way to close the result correctly otherwise).  The joined set takes the
    place its part had in the longer group; that group is from now on the client's first group (a
    renumbering of the client's pointers, nothing more), the other group ceases to exist. -/
def runJoin (s : Sess) (gl cl gr cr : Nat) (kind : MergeKind) : M Sess := do
  match s.groups[gl]?, s.groups[gr]? with
  | some grpL, some grpR =>
    match grpL[cl]?, grpR[cr]? with
    | some l, some r =>
      if gl = gr ∨ (grpL.length ≠ 1 ∧ grpR.length ≠ 1) then return s
      else
        let m ← merge l r kind
        match m.2 with
        | none => return { s with inst := { s.inst with error := m.1 } }
        | some j =>
          if grpR.length = 1 then
            -- the right group is absorbed
            return { inst := { s.inst with error := .ok },
                     groups := grpL.set cl { j with anchor := l.anchor } :: dropTwo s.groups gl gr }
          else
            return { inst := { s.inst with error := .ok },
                     groups := grpR.set cr { j with anchor := l.cabs.length + r.anchor } :: dropTwo s.groups gl gr }
    | _, _ => return s
  | _, _ => return s

def runOp (body : Body) (s : Sess) : Op → M Sess
  | .open_ name => do
    let r ← open_ s.inst name
    match r.2 with
    | none => return { s with inst := r.1 }
    | some c => return { inst := r.1, groups := [c] :: s.groups }
  | .search name script => do
    let r ← search s.inst name script
    return { inst := r.1, groups := if r.2.isEmpty then s.groups else r.2 :: s.groups }
  | .close g p => do
    match s.groups[g]? with
    | none => return s
    | some grp =>
      let i ← close_ s.inst grp p
      return { inst := i, groups := s.groups.eraseIdx g }
  | .extract g c f sane rewind empty skip out => do
    match ((s.groups[g]?).bind (·[c]?)).bind (·.folders[f]?) with
    | none => return s
    | some fol =>
      let r ← extract body s.inst fol sane rewind empty skip out
      return { s with inst := r.1 }
  | .join gl cl gr cr kind => runJoin s gl cl gr cr kind
  | .setParam b sv => return { s with inst := { s.inst with bufSize := b, salvage := sv } }

def runOps (body : Body) : List Op → Sess → M Sess
  | [], s => return s
  | op :: ops, s => do
    let s' ← runOp body s op
    runOps body ops s'

/-- the client closes what it still holds, each group once, through its head -/
def closeAll : Inst → List Group → M Inst
  | i, [] => return i
  | i, g :: gs => do
    let i' ← close_ i g ((g.head?.map (·.anchor)).getD 0)
    closeAll i' gs

/-- create; the client's steps; close of everything still open; destroy -/
def program (body : Body) (ops : List Op) : M Unit := do
  match ← create with
  | none => return ()
  | some i0 =>
    let s ← runOps body ops { inst := i0 }
    let i ← closeAll s.inst s.groups
    destroy i

end MsPack.Cab.Api
