import MsPack.Cab.Extract
/-
The cabinet heap: what `open`/`search` allocate, what `append`/`prepend` (`cabd_merge`) rewire and
what `close` frees.  C pointers become ids into three tables; the shared linked lists
(`cab->files`, `cab->folders`) are id lists stored in every cabinet of a chain — `cabd_merge`
ends by copying `lcab`'s list heads into every cabinet of the chain, which is exactly the
invariant that makes the value copy faithful.
-/
namespace MsPack.Cab
open MsPack MsPack.Generated

abbrev CabId := Nat
abbrev FolderId := Nat
abbrev FileId := Nat

structure FileNode where
  data   : CFile
  folder : Option FolderId        -- `file->folder`
  deriving Repr, DecidableEq

structure FolderNode where
  compType  : Nat
  numBlocks : Nat
  parts     : List Part           -- `fol->data` and its `->next` chain
  mergePrev : Option FileId
  mergeNext : Option FileId
  deriving Repr, DecidableEq

structure CabNode where
  hdr     : Cabinet               -- header fields as read (its `files`/`folders` are the parse result)
  fname   : String
  prev    : Option CabId := none
  next    : Option CabId := none  -- `nextcab` (set chain), not the `search()` result chain
  files   : List FileId
  folders : List FolderId
  deriving Repr, DecidableEq

structure Heap where
  cabs    : List (CabId × CabNode) := []
  folders : List (FolderId × FolderNode) := []
  files   : List (FileId × FileNode) := []
  nextId  : Nat := 0
  deriving Repr

namespace Heap

def cab? (h : Heap) (c : CabId) : Option CabNode := h.cabs.lookup c
def folder? (h : Heap) (f : FolderId) : Option FolderNode := h.folders.lookup f
def file? (h : Heap) (f : FileId) : Option FileNode := h.files.lookup f

def setCab (h : Heap) (c : CabId) (n : CabNode) : Heap :=
  { h with cabs := (c, n) :: h.cabs.filter (·.1 ≠ c) }
def setFolder (h : Heap) (f : FolderId) (n : FolderNode) : Heap :=
  { h with folders := (f, n) :: h.folders.filter (·.1 ≠ f) }

/-- install a freshly parsed cabinet (`cabd_open` / one hit of `cabd_find`) -/
def addCabinet (h : Heap) (fname : String) (c : Cabinet) : Heap × CabId :=
  let cid := h.nextId
  let folBase := h.nextId + 1
  let fileBase := folBase + c.folders.length
  let nFol := c.folders.length
  let fileIds := (List.range c.files.length).map (· + fileBase)
  let folIds := (List.range nFol).map (· + folBase)
  -- merge_prev / merge_next: the first file entry carrying the respective CONTINUED code
  let firstWith (p : CFile → Bool) : Option FileId :=
    ((c.files.zip fileIds).find? (fun x => p x.1)).map (·.2)
  let mprev := firstWith fun f => f.fidx = cffileCONTINUED_FROM_PREV ∨ f.fidx = cffileCONTINUED_PREV_AND_NEXT
  let mnext := firstWith fun f => f.fidx = cffileCONTINUED_TO_NEXT ∨ f.fidx = cffileCONTINUED_PREV_AND_NEXT
  let folNodes := (c.folders.zip folIds).map fun (f, id) =>
    let i := id - folBase
    (id, ({ compType := f.compType, numBlocks := f.numBlocks,
            parts := [{ fname := fname, blockResv := c.blockResv, offset := f.dataOffset }],
            mergePrev := if i = 0 then mprev else none,
            mergeNext := if i + 1 = nFol then mnext else none } : FolderNode))
  let fileNodes := (c.files.zip fileIds).map fun (f, id) =>
    (id, ({ data := f, folder := some (folBase + f.folder) } : FileNode))
  let node : CabNode := { hdr := c, fname := fname, files := fileIds, folders := folIds }
  ({ cabs := (cid, node) :: h.cabs, folders := folNodes ++ h.folders, files := fileNodes ++ h.files,
     nextId := fileBase + c.files.length }, cid)

/-- cabinets reachable through `prevcab` / `nextcab` from `c` (excluding `c`), bounded walk -/
def walk (h : Heap) (dir : CabNode → Option CabId) : Nat → Option CabId → List CabId
  | 0, _ => []
  | _, none => []
  | n + 1, some c => c :: walk h dir n ((h.cab? c).bind dir)

def prevChain (h : Heap) (c : CabId) : List CabId :=
  walk h (·.prev) h.cabs.length ((h.cab? c).bind (·.prev))
def nextChain (h : Heap) (c : CabId) : List CabId :=
  walk h (·.next) h.cabs.length ((h.cab? c).bind (·.next))

/-- `cabd_can_merge_folders` -/
def canMergeFolders (h : Heap) (lcabFiles rcabFiles : List FileId) (lf rf : FolderNode) : Bool :=
  if lf.compType ≠ rf.compType then false else
  if lf.numBlocks + rf.numBlocks > cabFOLDERMAX then false else
  match lf.mergeNext, rf.mergePrev with
  | some lfi, some rfi =>
    -- the C walks the linked lists from those entries to their ends
    let ls := (lcabFiles.dropWhile (· ≠ lfi)).filterMap h.file?
    let rs := (rcabFiles.dropWhile (· ≠ rfi)).filterMap h.file?
    let same (l r : FileNode) : Bool := l.data.offset = r.data.offset ∧ l.data.length = r.data.length
    let rec prefixMatch : List FileNode → List FileNode → Bool
      | [], _ => true
      | _ :: _, [] => false
      | l :: ls, r :: rs => same l r && prefixMatch ls rs
    if prefixMatch ls rs then true
    else ls.any fun l => rs.any fun r => same l r
  | _, _ => false

/-- what `cabd_merge` has established once all its checks have passed -/
inductive MergePlan
  | attach (lc rc : CabId) (ln rn : CabNode)
  | fold (lc rc : CabId) (ln rn : CabNode) (lfid rfid : FolderId) (lf rf : FolderNode)

/-- the checking half of `cabd_merge(lcab, rcab)`: every `return self->error = …` before the first
    mutation.  `none` arguments model NULL.  (The allocation of the extra `mscabd_folder_data`
    cannot fail on a fault-free host.) -/
def mergeCheck (h : Heap) (l r : Option CabId) : Except Err MergePlan :=
  match l, r with
  | some lc, some rc =>
    if lc = rc then .error .args else
    match h.cab? lc, h.cab? rc with
    | some ln, some rn =>
      if ln.next.isSome ∨ rn.prev.isSome then .error .args else
      if (h.prevChain lc).contains rc ∨ (h.nextChain rc).contains lc then .error .args else
      match ln.folders.getLast?, rn.folders.head? with
      | some lfid, some rfid =>
        match h.folder? lfid, h.folder? rfid with
        | some lf, some rf =>
          if lf.mergeNext.isNone ∧ rf.mergePrev.isNone then .ok (.attach lc rc ln rn)
          else if !canMergeFolders h ln.files rn.files lf rf then .error .dataformat
          else .ok (.fold lc rc ln rn lfid rfid lf rf)
        | _, _ => .error .args
      | _, _ => .error .args
    | _, _ => .error .args
  | _, _ => .error .args

/-- every cabinet of the (new) chain gets `lcab`'s list heads -/
def shareLists (h : Heap) (lc : CabId) (files : List FileId) (folders : List FolderId) : Heap :=
  (h.prevChain lc ++ h.nextChain lc).foldl (fun h c =>
    match h.cab? c with
    | some n => h.setCab c { n with files, folders }
    | none => h) h

/-- the mutating half of `cabd_merge` -/
def mergeApply (h : Heap) : MergePlan → Heap
  | .attach lc rc ln rn =>
    let files := ln.files ++ rn.files
    let folders := ln.folders ++ rn.folders
    let h := h.setCab lc { ln with next := some rc, files, folders }
    let h := h.setCab rc { rn with prev := some lc, files, folders }
    shareLists h lc files folders
  | .fold lc rc ln rn lfid rfid lf rf =>
    let keepNext : Bool := match rf.mergeNext with
      | none => true
      | some mf => (h.file? mf).bind (·.folder) ≠ some rfid
    let lf' : FolderNode :=
      { lf with parts := lf.parts ++ rf.parts,
                numBlocks := (lf.numBlocks + rf.numBlocks + 2^32 - 1) % 2^32,   -- unsigned `+= n - 1`
                mergeNext := if keepNext then rf.mergeNext else lf.mergeNext }
    let h := h.setFolder lfid lf'
    let folders := ln.folders ++ rn.folders.drop 1
    -- files of the disused merge folder are unlinked and freed
    let files := (ln.files ++ rn.files).filter fun fid =>
      (h.file? fid).bind (·.folder) ≠ some rfid
    let h := { h with folders := h.folders.filter (·.1 ≠ rfid),
                      files := h.files.filter fun (_, fn) => fn.folder ≠ some rfid }
    let h := h.setCab lc { ln with next := some rc, files, folders }
    let h := h.setCab rc { rn with prev := some lc, files, folders }
    shareLists h lc files folders

/-- `cabd_merge(lcab, rcab)` — `append(l, r)` and `prepend(r, l)` -/
def merge (h : Heap) (l r : Option CabId) : Err × Heap :=
  match mergeCheck h l r with
  | .error e => (e, h)
  | .ok plan => (.ok, mergeApply h plan)

/-- `cabd_close(cab)` for a cabinet that is not part of a `search()` result chain: frees the
    shared lists and every cabinet of the set chain -/
def close (h : Heap) (c : CabId) : Heap :=
  match h.cab? c with
  | none => h
  | some n =>
    let gone := c :: (h.prevChain c ++ h.nextChain c)
    { h with cabs := h.cabs.filter fun (id, _) => !gone.contains id,
             folders := h.folders.filter fun (id, _) => !n.folders.contains id,
             files := h.files.filter fun (id, _) => !n.files.contains id }

/-- the `Member` view `extract` needs of file `fid` -/
def member (h : Heap) (fid : FileId) : Option Member :=
  (h.file? fid).map fun fn =>
    match fn.folder.bind (fun f => (h.folder? f).map (f, ·)) with
    | some (fo, f) =>
      { length := fn.data.length, offset := fn.data.offset, folderKey := some fo,
        mergePrev := f.mergePrev.isSome, numBlocks := f.numBlocks, compType := f.compType,
        parts := f.parts }
    | none =>
      { length := fn.data.length, offset := fn.data.offset, folderKey := none, mergePrev := false,
        numBlocks := 0, compType := 0, parts := [] }

end Heap
end MsPack.Cab
