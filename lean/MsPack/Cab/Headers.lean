import MsPack.IO
/-
`cabd_read_headers` / `cabd_read_string` (cabd.c) on a fault-free handle.
Field offsets are the `cfhead_*`, `cffold_*`, `cffile_*` constants of cab.h (checked against the
header by `Generated/Consts.lean`).
-/
namespace MsPack.Cab
open MsPack

structure CFile where
  name     : Bytes
  length   : Nat
  attribs  : Nat
  offset   : Nat
  /-- index of `file->folder` in the cabinet's folder list -/
  folder   : Nat
  /-- raw `cffile_FolderIndex` word (the CONTINUED_* codes matter for merging) -/
  fidx     : Nat
  time_h : Nat
  time_m : Nat
  time_s : Nat
  date_d : Nat
  date_m : Nat
  date_y : Nat
  deriving Repr, DecidableEq, Inhabited

structure CFolder where
  compType   : Nat
  numBlocks  : Nat
  /-- `fol->data.offset` = cabinet offset + stored data offset -/
  dataOffset : Nat
  deriving Repr, DecidableEq, Inhabited

structure Cabinet where
  baseOffset : Nat
  length     : Nat
  setId      : Nat
  setIndex   : Nat
  flags      : Nat
  headerResv : Nat
  blockResv  : Nat
  prevname   : Option Bytes
  previnfo   : Option Bytes
  nextname   : Option Bytes
  nextinfo   : Option Bytes
  folders    : List CFolder
  files      : List CFile
  deriving Repr, DecidableEq, Inhabited

def cffileCONTINUED_FROM_PREV : Nat := 0xFFFD
def cffileCONTINUED_TO_NEXT : Nat := 0xFFFE
def cffileCONTINUED_PREV_AND_NEXT : Nat := 0xFFFF

/-- `cabd_read_string`: up to 256 bytes are read; the string ends at the first NUL among them -/
def readString (r : Rd) (permitEmpty : Bool) : Except Err (Bytes × Rd) :=
  let base := r.pos
  let (buf, _) := r.read 256
  if buf.length = 0 then .error .read else
  match buf.idxOf? 0 with
  | none => .error .dataformat
  | some i =>
    if i = 0 ∧ !permitEmpty then .error .dataformat
    else .ok (buf.take i, r.seekStart (base + i + 1))

def optString (r : Rd) (present : Bool) (permitEmpty : Bool) : Except Err (Option Bytes × Rd) :=
  if present then do
    let (s, r) ← readString r permitEmpty
    pure (some s, r)
  else pure (none, r)

def readFolders (offset folderResv : Nat) : Nat → Rd → List CFolder → Except Err (List CFolder × Rd)
  | 0, r, acc => .ok (acc.reverse, r)
  | n + 1, r, acc =>
    match r.readExact 8 with
    | none => .error .read
    | some (buf, r) =>
      let r := if folderResv ≠ 0 then r.seekCur folderResv else r
      let fol : CFolder :=
        { compType := u16At buf 6, numBlocks := u16At buf 4, dataOffset := offset + u32At buf 0 }
      readFolders offset folderResv n r (fol :: acc)

/-- the folder a file entry points at: `none` = `file->folder == NULL` -/
def resolveFolder (fidx numFolders : Nat) : Option Nat :=
  if fidx < cffileCONTINUED_FROM_PREV then
    if fidx < numFolders then some fidx else none
  else if fidx = cffileCONTINUED_PREV_AND_NEXT then
    -- continued from the previous AND into the next cabinet: its folder is both the first and the last one of
    -- this cabinet, so there is exactly one (otherwise the entry is refused like a bad index)
    if numFolders = 1 then some 0 else none
  else if fidx = cffileCONTINUED_FROM_PREV then some 0
  else some (numFolders - 1)

def readFiles (numFolders : Nat) (salvage : Bool) :
    Nat → Rd → List CFile → Except Err (List CFile × Rd)
  | 0, r, acc => .ok (acc.reverse, r)
  | n + 1, r, acc =>
    match r.readExact 16 with
    | none => .error .read
    | some (buf, r) =>
      let fidx := u16At buf 8
      let t := u16At buf 12
      let d := u16At buf 10
      let fol := resolveFolder fidx numFolders
      match readString r false, fol with
      | .ok (name, r'), some fi =>
        let f : CFile :=
          { name := name, length := u32At buf 0, attribs := u16At buf 14, offset := u32At buf 4,
            folder := fi, fidx := fidx,
            time_h := t >>> 11, time_m := (t >>> 5) &&& 0x3F, time_s := (t <<< 1) &&& 0x3E,
            date_d := d &&& 0x1F, date_m := (d >>> 5) &&& 0xF, date_y := (d >>> 9) + 1980 }
        readFiles numFolders salvage n r' (f :: acc)
      | .ok (_, r'), none =>
        if salvage then readFiles numFolders salvage n r' acc else .error .dataformat
      | .error e, _ =>
        -- on a string error the handle is wherever `cabd_read_string` left it: after the
        -- (up to) 256-byte read, not re-positioned
        if salvage then readFiles numFolders salvage n (r.read 256).2 acc else .error e

/-- the optional reserve header: (header_resv, folder_resv, block_resv, handle after it) -/
def readReserve (flags : Nat) (r : Rd) : Except Err (Nat × Nat × Nat × Rd) :=
  if flags &&& 4 ≠ 0 then
    match r.readExact 4 with
    | none => .error .read
    | some (e, r) =>
      let hr := u16At e 0
      .ok (hr, (byteAt e 2).toNat, (byteAt e 3).toNat, if hr ≠ 0 then r.seekCur hr else r)
  else .ok (0, 0, 0, r)

/-- the four optional strings, in file order -/
def readSetStrings (flags : Nat) (r : Rd) :
    Except Err (Option Bytes × Option Bytes × Option Bytes × Option Bytes × Rd) :=
  match optString r (flags &&& 1 ≠ 0) false with
  | .error e => .error e
  | .ok (prevname, r) =>
  match optString r (flags &&& 1 ≠ 0) true with
  | .error e => .error e
  | .ok (previnfo, r) =>
  match optString r (flags &&& 2 ≠ 0) false with
  | .error e => .error e
  | .ok (nextname, r) =>
  match optString r (flags &&& 2 ≠ 0) true with
  | .error e => .error e
  | .ok (nextinfo, r) => .ok (prevname, previnfo, nextname, nextinfo, r)

/-- `cabd_read_headers(sys, fh, cab, offset, salvage, quiet)`; `quiet` only affects messages.
    (Written with explicit matches rather than `do` + early `throw`, which keeps the term linear
    for the proofs.) -/
def readHeaders (file : Bytes) (offset : Nat) (salvage : Bool) : Except Err Cabinet :=
  match (⟨file, offset⟩ : Rd).readExact 36 with
  | none => .error .read
  | some (buf, r) =>
  if u32At buf 0 ≠ 0x4643534D then .error .signature else
  let numFolders := u16At buf 0x1A
  if numFolders = 0 then .error .dataformat else
  let numFiles := u16At buf 0x1C
  if numFiles = 0 then .error .dataformat else
  let flags := u16At buf 0x1E
  match readReserve flags r with
  | .error e => .error e
  | .ok (headerResv, folderResv, blockResv, r) =>
  match readSetStrings flags r with
  | .error e => .error e
  | .ok (prevname, previnfo, nextname, nextinfo, r) =>
  match readFolders offset folderResv numFolders r [] with
  | .error e => .error e
  | .ok (folders, r) =>
  match readFiles numFolders salvage numFiles r [] with
  | .error e => .error e
  | .ok (files, _) =>
  if files.isEmpty then .error .dataformat else
  .ok { baseOffset := offset, length := u32At buf 8, setId := u16At buf 0x20,
        setIndex := u16At buf 0x22, flags := flags, headerResv := headerResv,
        blockResv := blockResv, prevname, previnfo, nextname, nextinfo, folders, files }

end MsPack.Cab
