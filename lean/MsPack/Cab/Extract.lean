import MsPack.Cab.Headers
import MsPack.Cab.Checksum
import MsPack.Generated.Consts
import MsPack.Zip.Inflate
import MsPack.Lzx.Decoder
import MsPack.Qtm.Decoder
/-
The block reader, the stream feeder and `extract` of cabd.c on a fault-free host.

`readBlock`   = `cabd_sys_read_block`  (reserve skip, size limits, checksum, split blocks rejoined
                across the cabinets of a set)
`feederRead`  = `cabd_sys_read`        (serves decoder reads from the current block, reads the
                next block when empty; block counter, Quantum trailer byte, LZX length hint)
`extract`     = `cabd_extract`         (parameter checks, decoder cache, two-phase skip/extract)

Decoders meet the feeder through `Dec` (one constructor per CAB compression method); a decoder
that is not modelled yet makes `extract` answer `unsupported`, which the driver prints and the
orchestrator skips.
-/
namespace MsPack.Cab
open MsPack MsPack.Generated

/-- one segment of a folder's data: which cabinet file, its per-block reserve, where its first
    block starts (`struct mscabd_folder_data` + the cabinet fields the reader uses) -/
structure Part where
  fname     : String
  blockResv : Nat
  offset    : Nat
  deriving Repr, DecidableEq

abbrev Files := List (String × Bytes)

structure Feeder where
  rd        : Option Rd        -- `d->infh` (none = NULL)
  parts     : List Part        -- `d->data` and its `->next` chain; head = current segment
  block     : Nat
  numBlocks : Nat
  outlen    : Nat
  buf       : Bytes            -- the bytes between `i_ptr` and `i_end`
  compType  : Nat
  readError : Err
  lzxLen    : Option Nat       -- what `lzxd_set_output_length` was told
  salvage   : Bool
  fixMszip  : Bool
  deriving Repr

inductive BlockResult
  | ok (payload : Bytes) (out : Nat) (rd : Option Rd) (parts : List Part)
  | err (e : Err) (rd : Option Rd) (parts : List Part)
  | fault (f : Fault)

/-- `cabd_sys_read_block`; `acc` = what is already between `input` and `i_end` (earlier parts of a
    split block); `fuel` bounds the number of cabinets visited (each iteration moves to the next
    part, so `parts.length` suffices) -/
def readBlock (files : Files) (ignoreCksum ignoreBlocksize : Bool) :
    Nat → Option Rd → List Part → Bytes → BlockResult
  | 0, rd, parts, _ => .err .dataformat rd parts
  | fuel + 1, rd, parts, acc =>
    match rd, parts with
    | none, _ => .fault (.nullDeref "cabd_sys_read_block: d->infh")
    | _, [] => .fault (.nullDeref "cabd_sys_read_block: d->data")
    | some r, part :: more =>
      match r.readExact 8 with
      | none => .err .read (some r) parts
      | some (hdr, r) =>
        let r := if part.blockResv ≠ 0 then r.seekCur part.blockResv else r
        let len := u16At hdr 4
        let fullLen := acc.length + len
        if fullLen > cabINPUTMAX ∧ (!ignoreBlocksize ∨ fullLen > cabINPUTMAX_SALVAGE) then
          .err .dataformat (some r) parts
        else if u16At hdr 6 > cabBLOCKMAX ∧ !ignoreBlocksize then .err .dataformat (some r) parts
        else if fullLen > cabInputDim then .fault (.oob "d->input")
        else
          match r.readExact len with
          | none => .err .read (some (r.read len).2) parts
          | some (payload, r) =>
            let ck := u32At hdr 0
            if ck ≠ 0 ∧ !ignoreCksum ∧ cksum (hdr.drop 4) (cksum payload 0) ≠ ck then
              .err .checksum (some r) parts
            else
              let acc := acc ++ payload
              let out := u16At hdr 6
              if out ≠ 0 then .ok acc out (some r) parts
              else
                -- split block: continue in the next cabinet of the set
                match more with
                | [] => .err .dataformat none []
                | nxt :: _ =>
                  match files.lookup nxt.fname with
                  | none => .err .open_ none more
                  | some bytes => readBlock files ignoreCksum ignoreBlocksize fuel (some ⟨bytes, nxt.offset⟩) more acc

def compMask (ct : Nat) : Nat := ct &&& 0x0F

/-- `cabd_sys_read(file, buffer, bytes)`: bytes delivered (`none` = the call returned -1) -/
def feederRead (files : Files) : Nat → Feeder → Nat → Bytes → Except Fault (Option Bytes × Feeder)
  | 0, _, _, _ => .error .hang
  | fuel + 1, fd, todo, got =>
    if todo = 0 then .ok (some got, fd) else
    if fd.buf ≠ [] then
      let chunk := fd.buf.take todo
      feederRead files fuel { fd with buf := fd.buf.drop todo } (todo - chunk.length) (got ++ chunk)
    else
      let blk := fd.block
      let fd := { fd with block := fd.block + 1 }
      if blk ≥ fd.numBlocks then
        .ok (some got, if fd.salvage then fd else { fd with readError := .dataformat })
      else
        let ignoreCksum := fd.salvage || (fd.fixMszip && compMask fd.compType == 1)
        match readBlock files ignoreCksum fd.salvage (fd.parts.length + 1) fd.rd fd.parts [] with
        | .fault f => .error f
        | .err e rd parts => .ok (none, { fd with readError := e, rd := rd, parts := parts })
        | .ok payload out rd parts =>
          let payload := if compMask fd.compType = 2 then payload ++ [0xFF] else payload
          let fd := { fd with readError := .ok, rd := rd, parts := parts, outlen := fd.outlen + out,
                              buf := payload }
          let fd := if fd.block ≥ fd.numBlocks ∧ compMask fd.compType = 3
                    then { fd with lzxLen := some fd.outlen } else fd
          feederRead files fuel fd todo got

/-- fuel for one `cabd_sys_read` call: every iteration either delivers bytes (then ends or the
    buffer is empty next time) or consumes a block, so `2 * (blocks left + 1) + 2` suffices;
    empty blocks are why it is not just 2 -/
def feederFuel (fd : Feeder) : Nat := 2 * (fd.numBlocks + 1 - fd.block) + 4

/-- decoder states, by CAB method -/
inductive Dec
  | none (bufsize : Nat) (error : Err)      -- `noned_state`: buffer size, sticky error
  | mszip (st : Zip.St Feeder)
  | qtm (st : Qtm.St Feeder)
  | lzx (st : Lzx.St Feeder)
  | unsupported (method : Nat)

structure DState where
  folder : Nat                     -- identity of `d->folder` (a unique id the API layer assigns)
  offset : Nat                     -- `d->offset`
  feeder : Feeder
  dec    : Option Dec              -- `d->state` (none = NULL)

/-- result of one `decompress(state, bytes)` call -/
structure DecOut where
  err     : Err
  written : Bytes
  dec     : Dec
  feeder  : Feeder

/-- `noned_decompress` (the loop; the sticky-error test is in `decompress`) -/
def nonedDecompress (files : Files) (bufsize : Nat) : Nat → Feeder → Nat → Bytes → Except Fault DecOut
  | 0, _, _, _ => .error .hang
  | fuel + 1, fd, bytes, w =>
    if bytes = 0 then .ok ⟨.ok, w, .none bufsize .ok, fd⟩ else
    let run := if bytes > bufsize then bufsize else bytes
    match feederRead files (feederFuel fd) fd run [] with
    | .error f => .error f
    | .ok (none, fd) => .ok ⟨.read, w, .none bufsize .read, fd⟩
    | .ok (some got, fd) =>
      if got.length ≠ run then .ok ⟨.read, w, .none bufsize .read, fd⟩
      else nonedDecompress files bufsize fuel fd (bytes - run) (w ++ got)

inductive ExtractResult
  | done (err : Err) (written : Option Bytes) (d : Option DState)   -- written = none: output never opened
  | unsupported
  | fault (f : Fault)

/-- the feeder as a decoder's input source -/
def feederSrc (files : Files) : Src Feeder :=
  { read := fun fd n => feederRead files (feederFuel fd) fd n []
    lzxLength := fun fd => fd.lzxLen }

/-- loop bound handed to the bit-level decoders: every iteration of their loops consumes at
    least one input bit, and the input is at most all the files there are (+ the faked bytes) -/
def decFuel (files : Files) : Nat := 16 * (files.foldl (fun a f => a + f.2.length) 0) + 100000

/-- … and a folder chain may enter the same cabinet file once per part (a set built by appending one file to
    itself many times does): the parts still to be read count once each -/
def chainFuel (files : Files) (fd : Feeder) : Nat :=
  decFuel files + 16 * (fd.parts.foldl (fun a p => a + ((files.lookup p.fname).map (·.length)).getD 0) 0)

def decompress (files : Files) (dec : Dec) (fd : Feeder) (bytes : Nat) : Except Fault (Option DecOut) :=
  match dec with
  | .none bs e =>
    if e ≠ .ok then .ok (some ⟨e, [], dec, fd⟩)
    else (nonedDecompress files bs (bytes / (max bs 1) + 2) fd bytes []).map some
  | .mszip st =>
    -- the decoder state carries the feeder (its `input` handle is the CAB instance)
    match Zip.decompress (feederSrc files) (chainFuel files fd) { st with src := fd } bytes with
    | .error f => .error f
    | .ok o => .ok (some ⟨o.err, o.written, .mszip o.st, o.st.src⟩)
  | .qtm st =>
    match Qtm.decompress (feederSrc files) (chainFuel files fd) { st with src := fd } bytes with
    | .error f => .error f
    | .ok o => .ok (some ⟨o.err, o.written, .qtm o.st, o.st.src⟩)
  | .lzx st =>
    match Lzx.decompress (feederSrc files) (chainFuel files fd) { st with src := fd } bytes with
    | .error f => .error f
    | .ok o => .ok (some ⟨o.err, o.written, .lzx o.st, o.st.src⟩)
  | .unsupported _ => .ok none

/-- what `extract` needs to know about the member and its folder -/
structure Member where
  length    : Nat
  offset    : Nat
  folderKey : Option Nat                    -- none = `file->folder == NULL`
  mergePrev : Bool                          -- `fol->merge_prev != NULL`
  numBlocks : Nat
  compType  : Nat
  parts     : List Part
  deriving Repr

structure Params where
  bufSize  : Nat := 4096
  fixMszip : Bool := false
  salvage  : Bool := false
  fill     : UInt8 := 0xa5        -- what fresh memory from `alloc` contains
  deriving Repr

/-- a feeder that is never read: placeholder inside a decoder state until `decompress` installs
    the live one -/
def nullFeeder : Feeder :=
  { rd := none, parts := [], block := 0, numBlocks := 0, outlen := 0, buf := [], compType := 0,
    readError := .ok, lzxLen := none, salvage := false, fixMszip := false }

def initDec (p : Params) (ct : Nat) : Option Dec :=
  match compMask ct with
  | 0 => some (.none p.bufSize .ok)
  | 1 => (Zip.init nullFeeder p.bufSize p.fixMszip p.fill).map .mszip
  | 2 => if Qtm.implemented then (Qtm.init nullFeeder ((ct >>> 8) &&& 0x1f) p.bufSize p.fill).map .qtm
         else some (.unsupported 2)
  | 3 => if Lzx.implemented then (Lzx.init nullFeeder ((ct >>> 8) &&& 0x1f) 0 p.bufSize 0 false p.fill).map .lzx
         else some (.unsupported 3)
  | _ => Option.none

/-- the parameter checks at the top of `cabd_extract`: the number of bytes to extract
    (`filelen`, clamped in salvage mode) and the folder's identity, or the error returned -/
def memberCheck (p : Params) (m : Member) : Except Err (Nat × Nat) :=
  if m.offset > cabLENGTHMAX then .error .dataformat else
  let tooLong := m.length > cabLENGTHMAX - m.offset
  if tooLong ∧ !p.salvage then .error .dataformat else
  let filelen := if tooLong then cabLENGTHMAX - m.offset else m.length
  match m.folderKey with
  | none => .error .decrunch
  | some key =>
  if m.mergePrev then .error .decrunch else
  let maxlen := m.numBlocks * cabBLOCKMAX
  if !p.salvage ∧ (m.offset > maxlen ∨ filelen > maxlen - m.offset) then .error .decrunch else
  .ok (filelen, key)

/-- a decoder freshly set up at the start of the member's folder -/
def freshDState (files : Files) (p : Params) (m : Member) (key : Nat) : Except Err DState :=
  match m.parts with
  | [] => .error .open_
  | part :: _ =>
    -- (whether the old handle is re-used or the file re-opened is not observable on a
    --  fault-free host: either way the handle then sits at the folder's first block)
    match (files.lookup part.fname).map (fun b => (⟨b, part.offset⟩ : Rd)) with
    | none => .error .open_
    | some rd =>
      match initDec p m.compType with
      | none =>
        -- `cabd_init_decomp`: unknown method → DATAFORMAT; a known method whose init returned NULL
        -- (e.g. LZX/Quantum window bits out of range) → NOMEMORY
        .error (if compMask m.compType ≤ 3 then .nomemory else .dataformat)
      | some dec =>
        .ok { folder := key, offset := 0, dec := some dec,
              feeder := { rd := some rd, parts := m.parts, block := 0, numBlocks := m.numBlocks,
                          outlen := 0, buf := [], compType := m.compType, readError := .ok,
                          lzxLen := none, salvage := p.salvage, fixMszip := p.fixMszip } }

/-- re-use the cached decoder iff it is this folder's, has not passed the member's offset and is
    live; otherwise rebuild -/
def obtainDState (files : Files) (p : Params) (d : Option DState) (m : Member) (key : Nat) :
    Except Err DState :=
  match d with
  | some ds =>
    if ds.folder = key ∧ ¬ ds.offset > m.offset ∧ ds.dec.isSome then .ok ds
    else freshDState files p m key
  | none => freshDState files p m key

inductive PhaseResult
  | ran (e : Err) (written : Bytes) (ds : DState)
  | unsupported
  | fault (f : Fault)

/-- one `self->d->decompress(self->d->state, n)` with the `READ → read_error` substitution and
    the `d->offset` bookkeeping -/
def runPhase (files : Files) (ds : DState) (dec : Dec) (n : Nat) : PhaseResult :=
  match decompress files dec ds.feeder n with
  | .error f => .fault f
  | .ok none => .unsupported
  | .ok (some o) =>
    let e := if o.err = .read then o.feeder.readError else o.err
    .ran e o.written { ds with offset := ds.offset + o.written.length, feeder := o.feeder, dec := some o.dec }

/-- skip phase (no output handle), then output phase -/
def runPhases (files : Files) (ds : DState) (m : Member) (filelen : Nat) : ExtractResult :=
  match ds.dec with
  | none => .done .nomemory none (some ds)
  | some dec =>
  if filelen = 0 then .done .ok (some []) (some ds) else
  let skip := m.offset - ds.offset
  if skip = 0 then
    match runPhase files ds dec filelen with
    | .fault f => .fault f
    | .unsupported => .unsupported
    | .ran e w ds' => .done e (some w) (some ds')
  else
    match runPhase files ds dec skip with
    | .fault f => .fault f
    | .unsupported => .unsupported
    | .ran e1 _ ds1 =>
      if e1 ≠ .ok then .done e1 (some []) (some ds1) else
      match ds1.dec with
      | none => .done .nomemory none (some ds1)
      | some dec1 =>
        match runPhase files ds1 dec1 filelen with
        | .fault f => .fault f
        | .unsupported => .unsupported
        | .ran e w ds2 => .done e (some w) (some ds2)

/-- `cabd_extract` (fault-free host).  `d` is the instance's cached `self->d`. -/
def extract (files : Files) (p : Params) (d : Option DState) (m : Member) : ExtractResult :=
  match memberCheck p m with
  | .error e => .done e none d
  | .ok (filelen, key) =>
    match obtainDState files p d m key with
    | .error e => .done e none none   -- (the half-built `self->d` is not modelled further)
    | .ok ds => runPhases files ds m filelen

end MsPack.Cab
