import MsPack.Cab.Headers
/-
`cabd_find` (cabd.c): the signature scanner behind `search()`.

The C reads the file in chunks of `searchbuf_size` bytes and runs a 20-state machine over them
(state persists across chunks).  When 20 header bytes have been seen it computes the candidate's
offset, tries `cabd_read_headers` there and restarts the scan either after the cabinet (success)
or 4 bytes after the candidate's `M` (failure).  The model keeps exactly this structure:
`scanBuf` = the inner `for (p …)` loop over one buffer, `scanChunks` = the outer `for (offset …)`
loop up to the first candidate, `findLoop` = the restarts.  A restart that would not advance is
rendered as the explicit outcome `hang` (theorem `find_never_hangs`: unreachable).
-/
namespace MsPack.Cab
open MsPack

structure ScanSt where
  state   : Nat := 0
  cablen  : Nat := 0
  foffset : Nat := 0
  deriving Repr, DecidableEq

structure Hit where
  caboff  : Nat
  cablen  : Nat
  foffset : Nat
  deriving Repr, DecidableEq

inductive Step
  | cont (s : ScanSt)
  | hit (cablen foffset : Nat)

/-- one iteration of `switch (state)` consuming byte `b`.  (State 0's inner `while` skipping
    non-`M` bytes is the same thing byte by byte.  The C assembles the two 32-bit fields with
    `|= byte << k` into zeroed disjoint bit ranges, which is `+ byte * 2^k`.) -/
def scanByte (s : ScanSt) (b : UInt8) : Step :=
  let v := b.toNat
  match s.state with
  | 0  => .cont { s with state := if v = 0x4D then 1 else 0 }
  | 1  => .cont { s with state := if v = 0x53 then 2 else if v = 0x4D then 1 else 0 }
  | 2  => .cont { s with state := if v = 0x43 then 3 else if v = 0x4D then 1 else 0 }
  | 3  => .cont { s with state := if v = 0x46 then 4 else if v = 0x4D then 1 else 0 }
  | 8  => .cont { s with state := 9,  cablen := v }
  | 9  => .cont { s with state := 10, cablen := s.cablen + v * 256 }
  | 10 => .cont { s with state := 11, cablen := s.cablen + v * 65536 }
  | 11 => .cont { s with state := 12, cablen := s.cablen + v * 16777216 }
  | 16 => .cont { s with state := 17, foffset := v }
  | 17 => .cont { s with state := 18, foffset := s.foffset + v * 256 }
  | 18 => .cont { s with state := 19, foffset := s.foffset + v * 65536 }
  | 19 => .hit s.cablen (s.foffset + v * 16777216)
  | n  => .cont { s with state := n + 1 }

/-- inner loop over one buffer whose first byte sits at file position `pos` -/
def scanBuf : Bytes → Nat → ScanSt → ScanSt ⊕ Hit
  | [], _, st => .inl st
  | b :: rest, pos, st =>
    match scanByte st b with
    | .cont st' => scanBuf rest (pos + 1) st'
    | .hit cl fo => .inr { caboff := pos + 1 - 20, cablen := cl, foffset := fo }

/-- outer loop from `offset` until the first candidate or end of file; `n` = `searchbuf_size` -/
def scanChunks (n : Nat) (file : Bytes) (offset : Nat) (st : ScanSt) : Option Hit :=
  if _h : offset < file.length then
    let length := min (file.length - offset) n
    if _hl : length = 0 then none   -- n = 0: `cabd_param` refuses SEARCHBUF < 4
    else
      match scanBuf ((file.drop offset).take length) offset st with
      | .inl st' => scanChunks n file (offset + length) st'
      | .inr hit => some hit
  else none
termination_by file.length - offset
decreasing_by omega

inductive FindEnd | done | hang
  deriving Repr, DecidableEq

/-- the "likely cabinet" test applied to a candidate -/
def plausible (flen : Nat) (salvage : Bool) (h : Hit) : Bool :=
  h.foffset < h.cablen && h.caboff + h.foffset < flen + 32 &&
    (h.caboff + h.cablen < flen + 32 || salvage)

/-- what happens at a candidate: try to read it; where the scan restarts; the result list -/
def atHit (salvage : Bool) (file : Bytes) (hit : Hit) (acc : List Cabinet) : Nat × List Cabinet :=
  if plausible file.length salvage hit then
    match readHeaders file hit.caboff salvage with
    | .ok c => (hit.caboff + hit.cablen, c :: acc)
    | .error _ => (hit.caboff + 4, acc)
  else (hit.caboff + 4, acc)

/-- `cabd_find` on a fault-free file: the cabinets linked into the result, in order -/
def findLoop (n : Nat) (salvage : Bool) (file : Bytes) (start : Nat) (acc : List Cabinet) :
    List Cabinet × FindEnd :=
  match scanChunks n file start {} with
  | none => (acc.reverse, .done)
  | some hit =>
    match atHit salvage file hit acc with
    | (off', acc') =>
      if off' ≥ file.length then (acc'.reverse, .done)
      else if _h : start < off' then findLoop n salvage file off' acc'
      else (acc'.reverse, .hang)
termination_by file.length - start
decreasing_by omega

def find (n : Nat) (salvage : Bool) (file : Bytes) : List Cabinet × FindEnd :=
  findLoop n salvage file 0 []

/-- `*firstlen`: the length field of a candidate at offset 0, whether or not it parses -/
def firstLen (n : Nat) (file : Bytes) : Nat :=
  match scanChunks n file 0 {} with
  | some hit => if hit.caboff = 0 then hit.cablen else 0
  | none => 0

end MsPack.Cab
