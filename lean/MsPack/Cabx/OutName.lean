import MsPack.Basic
/-
Model of `create_output_name` and `unix_path_seperators` of cabextract/src/cabextract.c.

`create_output_name(fname, dir, lower, isunix, utf8)` turns the name a cabinet gives a member into
the UNIX path cabextract opens.  The C works on NUL-terminated strings; here a C string argument is
a byte list of which only the part before the first 0 byte counts (`cstr`, = what `strlen` sees).

Fidelity notes (each is also exercised by the `prim outname` differential family of checks/c16.py):

* UTF-8 input (`utf8 ≠ 0`): the C accepts a lead byte 0xC2..0xDF / 0xE0..0xEF / 0xF0..0xF4 when
  the next 1/2/3 bytes are continuation bytes; its bounds tests (`i <= iend`, `i+1 <= iend`,
  `i+2 <= iend`) are weaker than "enough bytes left", but the byte at `iend` is the terminating NUL,
  which is not a continuation byte, so the outcome is "all required continuation bytes present
  before the end".  Nothing else is checked at this point: 3- and 4-byte *overlong* forms
  (E0 80 AF = '/', F0 80 80 AE = '.') and surrogates decode to their value.  A lead byte whose
  continuation bytes are missing consumes ONE byte and yields U+FFFD.
  Afterwards code points 0, > 0x10FFFF, surrogates, U+FFFE, U+FFFF become U+FFFD.  So an overlong
  '/' or '.' survives as a plain '/' or '.', and is then subject to the same separator swap,
  leading-slash stripping and `../` replacement as a literal one (these run on the re-encoded bytes).
* `towlower`/`tolower`: the model is the C locale's (only A–Z are mapped).  The harness never calls
  `setlocale`, so `prim outname` observes exactly this.  The real binary's `main` selects a UTF-8
  locale, in which `towlower` also maps non-ASCII letters; `createOutputNameWith` takes the
  lower-casing function as a parameter, and the theorems of Proofs/Props/C16.lean about the
  sanitising passes hold for every such function.
* `LATIN1_FILENAMES` builds are not modelled (the harness does not define it).
* The result `none` stands for `malloc` returning NULL; the model never produces it.
* Buffer: the C allocates `dirlen + 4*filelen + 2` bytes and writes `dirlen + |body| + 1` of them
  (`"x"` + NUL when the name was all slashes, which needs `filelen ≥ 1`).  Every input byte yields at
  most 3 output bytes (U+FFFD) or 4 input bytes yield 4, so the allocation suffices:
  `createOutputName_fits` in Proofs/Props/C16.lean.
-/
namespace MsPack.Cabx

/-- the bytes `strlen` sees -/
def cstr (b : Bytes) : Bytes := b.takeWhile (· ≠ 0)

/-- `(b & 0xC0) == 0x80` -/
def isCont (b : UInt8) : Bool := b.toNat / 64 == 2

/-- one iteration of the UTF-8 reader: raw code point `x` and the input left.
    (`[]` cannot occur: the loop runs while `i < iend`.) -/
def decode1 : Bytes → Nat × Bytes
  | [] => (0xFFFD, [])
  | c :: rest =>
    let cn := c.toNat
    if cn < 0x80 then (cn, rest)
    else if 0xC2 ≤ cn ∧ cn < 0xE0 then
      match rest with
      | b0 :: r1 =>
        if isCont b0 then (cn % 32 * 64 + b0.toNat % 64, r1) else (0xFFFD, rest)
      | _ => (0xFFFD, rest)
    else if 0xE0 ≤ cn ∧ cn < 0xF0 then
      match rest with
      | b0 :: b1 :: r2 =>
        if isCont b0 ∧ isCont b1 then (cn % 16 * 4096 + b0.toNat % 64 * 64 + b1.toNat % 64, r2)
        else (0xFFFD, rest)
      | _ => (0xFFFD, rest)
    else if 0xF0 ≤ cn ∧ cn < 0xF5 then
      match rest with
      | b0 :: b1 :: b2 :: r3 =>
        if isCont b0 ∧ isCont b1 ∧ isCont b2 then
          (cn % 8 * 262144 + b0.toNat % 64 * 4096 + b1.toNat % 64 * 64 + b2.toNat % 64, r3)
        else (0xFFFD, rest)
      | _ => (0xFFFD, rest)
    else (0xFFFD, rest)

/-- "invalid code point or cheeky null byte" -/
def validate (x : Nat) : Nat :=
  if x = 0 ∨ x > 0x10FFFF ∨ (0xD800 ≤ x ∧ x ≤ 0xDFFF) ∨ x = 0xFFFE ∨ x = 0xFFFF then 0xFFFD else x

/-- `towlower` / `tolower` of the C locale -/
def lowerC (x : Nat) : Nat := if 0x41 ≤ x ∧ x ≤ 0x5A then x + 32 else x

/-- `if (x == sep) x = '/'; else if (x == slash) x = '\\';` with
    `sep = isunix ? '/' : '\\'`, `slash = isunix ? '\\' : '/'` -/
def swapSep (isunix : Bool) (x : Nat) : Nat :=
  let sep := if isunix then 0x2F else 0x5C
  let slash := if isunix then 0x5C else 0x2F
  if x = sep then 0x2F else if x = slash then 0x5C else x

/-- "convert unicode character back to UTF-8" (byte values as `Nat`, all < 256 for x ≤ 0x10FFFF) -/
def encode (x : Nat) : List Nat :=
  if x < 0x80 then [x]
  else if x < 0x800 then [0xC0 + x / 64, 0x80 + x % 64]
  else if x < 0x10000 then [0xE0 + x / 4096, 0x80 + x / 64 % 64, 0x80 + x % 64]
  else if x ≤ 0x10FFFF then [0xF0 + x / 262144, 0x80 + x / 4096 % 64, 0x80 + x / 64 % 64, 0x80 + x % 64]
  else [0xEF, 0xBF, 0xBD]

/-- what one code point becomes -/
def convPoint (tolow : Nat → Nat) (lower isunix : Bool) (x : Nat) : List Nat :=
  let x := validate x
  let x := if lower then tolow x else x
  encode (swapSep isunix x)

/-- the `while (i < iend)` loop of the UTF-8 branch; fuel = input length (every iteration
    consumes at least one byte) -/
def convUtf8 (tolow : Nat → Nat) (lower isunix : Bool) : Nat → Bytes → List Nat
  | 0, _ => []
  | _, [] => []
  | fuel + 1, c :: rest =>
    let r := decode1 (c :: rest)
    convPoint tolow lower isunix r.1 ++ convUtf8 tolow lower isunix fuel r.2

/-- the non-UTF-8 branch, one byte -/
def convByte (tolow : Nat → Nat) (lower isunix : Bool) (c : UInt8) : Nat :=
  let x := c.toNat
  let x := if lower then tolow x % 256 else x
  swapSep isunix x

def isSlash (b : UInt8) : Bool := b == 0x2F || b == 0x5C

/-- "remove any leading slashes in the cab filename part"; a name made of slashes only becomes "x" -/
def stripLeading (s : Bytes) : Bytes :=
  match s with
  | [] => []
  | c :: _ =>
    if isSlash c then
      match s.dropWhile isSlash with
      | [] => [0x78]
      | t => t
    else s

/-- "search for "../" or "..\" in cab filename part and change to "xx"": left to right, after a
    replacement the scan resumes behind the slash -/
def replaceDotDot : Bytes → Bytes
  | a :: b :: c :: rest =>
    if a = 0x2E ∧ b = 0x2E ∧ isSlash c = true then 0x78 :: 0x78 :: c :: replaceDotDot rest
    else a :: replaceDotDot (b :: c :: rest)
  | a :: rest => a :: replaceDotDot rest
  | [] => []

/-- the two passes over the archive-controlled part of the name -/
def sanitize (s : Bytes) : Bytes := replaceDotDot (stripLeading s)

/-- the converted cabinet name before the sanitising passes -/
def convName (tolow : Nat → Nat) (fname : Bytes) (lower isunix utf8 : Bool) : Bytes :=
  let f := cstr fname
  if utf8 then (convUtf8 tolow lower isunix f.length f).map UInt8.ofNat
  else f.map fun c => UInt8.ofNat (convByte tolow lower isunix c)

/-- `dir` + '/' (`strcpy(name, dir); name[dirlen-1] = '/'`), nothing for a NULL dir -/
def dirPrefix : Option Bytes → Bytes
  | none => []
  | some d => cstr d ++ [0x2F]

/-- `create_output_name` with the locale's lower-casing function as a parameter -/
def createOutputNameWith (tolow : Nat → Nat) (fname : Bytes) (dir : Option Bytes)
    (lower isunix utf8 : Bool) : Option Bytes :=
  some (dirPrefix dir ++ sanitize (convName tolow fname lower isunix utf8))

/-- `create_output_name` in the C locale (what `prim outname` of the harness observes) -/
def createOutputName (fname : Bytes) (dir : Option Bytes) (lower isunix utf8 : Bool) : Option Bytes :=
  createOutputNameWith lowerC fname dir lower isunix utf8

/-! ### `unix_path_seperators` -/

/-- length of the name up to and including its first slash of either kind, 0 if there is none -/
def firstSlashLen : Bytes → Nat → Nat
  | [], _ => 0
  | c :: rest, n => if isSlash c then n + 1 else firstSlashLen rest (n + 1)

/-- the kind of the first slash of a name: `some true` = '/', `some false` = '\\' -/
def firstSlashKind : Bytes → Option Bool
  | [] => none
  | c :: rest => if c = 0x2F then some true else if c = 0x5C then some false else firstSlashKind rest

/-- the second loop: compare each name's prefix up to its first slash with the previous name's -/
def sepByPrefix : List Bytes → Bytes → Nat → Bool
  | [], _, _ => false
  | name :: more, oldname, oldlen =>
    let len := firstSlashLen name 0
    if len ≠ 0 ∧ len = oldlen ∧ name.take len = oldname.take len then
      -- `name[len-1] == '\\' ? 0 : 1`
      (firstSlashKind name) == some true
    else sepByPrefix more name len

/-- `unix_path_seperators(files)`: `true` = UNIX separators.  (In the single-file special case the
    C reads `fi->filename` where `fi` is the file at which the first loop stopped; with one file
    that is the file itself, or NULL if the loop ran off the end - which cannot happen there since
    that case is reached only after the `break` with both kinds seen.) -/
def unixPathSeparators (files : List Bytes) : Bool :=
  let names := files.map cstr
  let slash := names.any (·.contains 0x2F)
  let backslash := names.any (·.contains 0x5C)
  if !slash then false
  else if !backslash then true
  else match names with
    | [one] => (firstSlashKind one) == some true
    | _ => sepByPrefix names [] 0

end MsPack.Cabx
