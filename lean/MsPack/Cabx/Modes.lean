import MsPack.Cabx.OutName
/-
Model of the member loop of `process_cabinet` (cabextract/src/cabextract.c) up to the point where
the four modes (-l, -t, -p, extraction) part: for every file of the (merged) cabinet the output
name is built, the -F filters are applied to the name without the -d prefix, and only then the
mode is looked at.  What a mode then does with a selected member is an abstract `Event`.

`fnm pattern name` stands for `fnmatch(pattern, name, FNM_CASEFOLD) == 0`; the theorems of
Proofs/Props/C17.lean hold for every such function.  `globMatch` is the fragment of fnmatch the
driver can compute (`*`, `?`, literals, ASCII case folding; no brackets, no escapes, bytes not
characters) and is what `prim select` uses for the differential runs of checks/c17.py.
-/
namespace MsPack.Cabx

structure Member where
  name    : Bytes
  utf8    : Bool            -- MSCAB_ATTRIB_UTF_NAME
  data    : Bytes           -- the member's true content
  attribs : Nat := 0x20
  date    : Nat × Nat × Nat := (1997, 3, 12)
  time    : Nat × Nat × Nat := (11, 13, 52)
  deriving DecidableEq, Repr

structure Args where
  dir     : Option Bytes := none     -- -d
  lower   : Bool := false            -- -L
  filters : List Bytes := []         -- -F (any number)

inductive Mode | list | test | pipe | extract
  deriving DecidableEq, Repr

/-- `fname_offset = args.dir ? (strlen(args.dir) + 1) : 0` -/
def fnameOffset (a : Args) : Nat :=
  match a.dir with
  | none => 0
  | some d => (cstr d).length + 1

/-- one loop iteration up to the mode switch: the output name if the member is acted upon.
    `none` from `create_output_name` is `errors++; continue`. -/
def selectName (fnm : Bytes → Bytes → Bool) (a : Args) (isunix : Bool) (m : Member) : Option Bytes :=
  match createOutputName m.name a.dir a.lower isunix m.utf8 with
  | none => none
  | some n =>
    if a.filters.isEmpty || a.filters.any (fun f => fnm f (n.drop (fnameOffset a))) then some n else none

/-- the members the loop acts upon, in cabinet order, with their output names -/
def selected (fnm : Bytes → Bytes → Bool) (a : Args) (ms : List Member) : List (Member × Bytes) :=
  let isunix := unixPathSeparators (ms.map (·.name))
  ms.filterMap fun m => (selectName fnm a isunix m).map fun n => (m, n)

/-- what is done with a selected member -/
inductive Event
  | listed (m : Member) (name : Bytes)      -- one line: length, date, time, name
  | tested (m : Member) (name : Bytes)      -- extract to the MD5 sink, one line with the digest
  | piped (m : Member)                      -- extract to stdout
  | extracted (m : Member) (name : Bytes)   -- can_write / ensure_filepath / extract / set_date_and_perm
  deriving Repr

def act : Mode → Member × Bytes → Event
  | .list, (m, n) => .listed m n
  | .test, (m, n) => .tested m n
  | .pipe, (m, _) => .piped m
  | .extract, (m, n) => .extracted m n

def Event.member : Event → Member
  | .listed m _ => m | .tested m _ => m | .piped m => m | .extracted m _ => m

def processCabinet (fnm : Bytes → Bytes → Bool) (mode : Mode) (a : Args) (ms : List Member) : List Event :=
  (selected fnm a ms).map (act mode)

/-- bytes a fault-free run puts on stdout in pipe mode (everything else is silenced by -p) -/
def pipeStdout (evs : List Event) : Bytes :=
  (evs.map fun e => match e with | .piped m => m.data | _ => []).flatten

/-! ### the computable fragment of fnmatch -/

def foldAscii (b : UInt8) : UInt8 := if 0x41 ≤ b.toNat ∧ b.toNat ≤ 0x5A then b + 32 else b

/-- suffixes of a list, longest first -/
def suffixes : Bytes → List Bytes
  | [] => [[]]
  | c :: s => (c :: s) :: suffixes s

/-- `*` any run of bytes (also '/', FNM_PATHNAME is not set), `?` one byte, otherwise the byte
    itself up to ASCII case -/
def globMatch : Bytes → Bytes → Bool
  | [], s => s.isEmpty
  | p :: ps, s =>
    if p = 0x2A then (suffixes s).any fun t => globMatch ps t
    else match s with
      | [] => false
      | c :: cs => (p = 0x3F || foldAscii p = foldAscii c) && globMatch ps cs

end MsPack.Cabx
