"""what MANIFEST.json claims, per property"""
SOURCE_COMMITS = []
NOT_APPLICABLE = {}
PROOF_NOTE = ("Trusted: Lean 4.33 kernel and the axioms printed per theorem (propext, Quot.sound, Classical.choice at most); the statements in lean/Proofs/Props; "
              "the hand-written model is validated against the C by differential execution (bounded by generator quality), not derived from it; "
              "translator and harness themselves.")
CHECKS = {
 "C12": dict(category="proof",
   text=("CAB: theorems over all data/positions/values/seeds that any single-byte change of a checksummed block's payload, of either size-field byte, "
         "or of the stored checksum makes cabd_sys_read_block's test fail (or turns the stored checksum into 0 = 'no checksum', data untouched); "
         "crc32_table proved equal to the reflected 0xEDB88320 table. Tied to the code by prim-level and extract-level differential runs on every byte position of small cabinets; "
         "OAB part is partial by arithmetic necessity (CRC collisions)."),
   note=PROOF_NOTE, technique="Lean 4 theorems (XOR-linearity + injectivity of the word packers, functional induction) + differential model/implementation runs on exhaustively corrupted blocks"),
}
