"""what MANIFEST.json claims, per property"""
SOURCE_COMMITS = ["586d1d8", "84b55ce", "952a903", "a66a89b", "c13e5b8", "004b113", "2d82274", "7e29eec", "332b038", "b0be7a7", "f814fba", "97e13b8", "cc98207", "b0cacf5", "f3ee904", "ecc3d1a", "dd10db0", "ecf9744", "02def81", "797f74d", "13e90c6", "68b4952"]
NOT_APPLICABLE = {}
PROOF_NOTE = ("Trusted: Lean 4.33 kernel and the axioms printed per theorem (propext, Quot.sound, Classical.choice at most); the statements in lean/Proofs/Props; "
              "the hand-written model is validated against the C by differential execution (bounded by generator quality), not derived from it; "
              "translator and harness themselves.")
CHECKS = {
 "C03": dict(category="proof",
   text=("Theorems: the ENCINT round trip (every legal 1-9 byte coding of every n < 2^63) and C03_headers_roundtrip / C03_open_roundtrip - for every well-formed directory specification (versions 2/3, any header field values, chunk size <= 8192, 1..100000 PMGL chunks holding any entries that fit: names of any length, directory entries, sections 0/1, offsets and lengths < 2^63) "
         "the model of chmd_read_headers/open() on the specification writer's bytes returns OK with exactly the header fields and, in order, exactly the entries the C keeps as files. The writer is fed to the real chmd_open (family chm.spec-headers). "
         "Index chunks, system files, reset table / SpanInfo, section 0 and LZX section 1 extraction with the decoder cache are executable Lean and agree with the implementation on generated helpfiles (chunk sizes, densities, index depth, both ControlData versions, reset-table variants incl. table offsets and odd entry sizes, UTF-8 names) and on the fixtures; "
         "the implementation is judged against the plan (listing fields, bytes; every member extracted forward and in reverse so decoding restarts at reset points)."),
   note=PROOF_NOTE, technique="Lean 4 theorems (ENCINT; directory listing round trip against a specification writer) + executable model + plan oracle and differential runs"),
 "C15": dict(category="proof",
   text=("Theorems on the model of chmd.c's name comparison: a name compares equal to itself and ASCII letter case is ignored. The binary search over quick-reference entries, the index descent and the chunk cache are "
         "modelled and agree with the implementation on every lookup of generated directories; the implementation is judged against the listing: every listed name and its case variants are found with the listing's "
         "section/offset/length, absent neighbours give OK with a null section, in shuffled order on open() and fast_open() handles."
         " Search correctness is now a theorem for index-free directories: C15_fastfind_roundtrip - on every directory the specification writer lays out (PMGL chain, quick-reference area not consulted) fast_find returns for each listed file its section/offset/length and not-found for every name compare() tells apart from all entries, from any cache state."),
   note=PROOF_NOTE + " towlower is the C locale's in harness and model.", technique="Lean 4 theorems on compare + exhaustive lookup oracle with model agreement"),
 "C16": dict(category="proof",
   text=("Theorems on a byte-exact model of create_output_name (validated on 5,000+/166,000+ names per run against the real function): for every name, flag combination and -d prefix the archive-determined part of the output "
         "has no leading slash or backslash, contains no '../' or '..\\' anywhere, no NUL, and no '..' component except possibly the last; the allocation is always sufficient; also for any towlower. "
         "The file-system clauses (nothing outside -d is created, modified or removed; no write through archive-path symlinks without -k) are checked on the real binary in jailed throw-away trees with hostile names, "
         "live and dangling symlinks and all option sets. Found and repaired: ecc3d1a, dd10db0, ecf9744."),
   note=PROOF_NOTE + " libc (towlower, iconv, stat/lstat/unlink/mkdir/fopen) and the kernel's path resolution are outside the model; races with other processes are not covered.",
   technique="Lean 4 theorems on the name sanitiser (induction with an output invariant) + differential runs + file-system snapshot oracle on the real binary"),
 "C17": dict(category="proof",
   text=("Theorems on a model of process_cabinet's member loop, for any fnmatch: all four modes act on the same members in the same order, each member exactly once without -F, a sub-sequence with -F, -p output is the concatenation of the selected members, -d does not change the selection. "
         "Contents, modes, mtimes, MD5s, listing format and exit status are checked on the real binary against an executable specification computed from the plan (generated cabinets, fixtures, split sets from every part, planted failures)."),
   note=PROOF_NOTE + " fnmatch, mktime, umask and locale are libc's; the expected values come from a Python specification of the property.",
   technique="Lean 4 theorems on the member-selection model + specification oracle on the real binary"),
 "C04": dict(category="proof",
   text=("Totality of every model function is checked by Lean (structural / well-founded recursion; fuel with an explicit `hang` outcome elsewhere). Theorems: the restart loop of cabd_find always advances "
         "and the fuel of the CAB stream feeder (two iterations per remaining block) always suffices, for every cabinet. The decoders' fuel is not yet proved sufficient. "
         "On the implementation every API call's executed control-flow edges are checked against a linear budget in input+output bytes (9x head-room over the measured maximum), with a watchdog, "
         "on malformed, shipped and pathological inputs; that found the cyclic-CHM hang repaired by f3ee904."
         " Since then proved (C04Loops): with the fuel the entry points pass, the out-of-fuel outcome is unreachable for every input in the LZSS/SZDD/KWAJ, OAB, CHM (headers, fast_find, section 0), KWAJ LZH, MSZIP and LZX loops and the CAB stored-folder loop."
         " Quantum (C04Qtm): no hang over any finite source for every state a session begun by qtmd_init reaches and every request below 2^32 - 2^21; the bound is sharp (the model and qtmd.c both spin on a 2^32-byte request, observation O3; not reachable through cabd). cabd_extract as a whole (C04CabExtract): fuel-invariant skeleton, discharged for all methods (C04CabSession): any session of extract() calls on single-cabinet folders never runs out of fuel; chains under a static condition on the model's fuel. CHM (C04ChmSession): no session of extract() calls on opened headers runs out of fuel."),
   note=PROOF_NOTE + " Wall-clock time is not covered; the budget constants are calibrated, not derived.", technique="Lean 4 termination measures + instrumented edge budget and watchdog on the implementation"),
 "C09": dict(category="proof",
   text=("Theorems on effect models of the SZDD, KWAJ and OAB decompressors over an instrumented mspack_system (ledger of live allocations and handles, fault plan, misuse monitor): for every client program (create; any list of decompress / open + extracts + close; destroy), every file content and every fault plan (any set of failing alloc/open/read/write/seek calls) the ledger after the program equals the ledger before it and no misuse is recorded "
         "(C09_szdd_*, C09_kwaj_*, C09_oab_*; KWAJ's LZH and MSZIP and OAB's LZX decoder bodies enter through a frame law: they only read and write on the two handles they get). The effect models are replayed against the implementation on every szdd/kwaj/oab run of the fault sweep (mspack-driver --sys). "
         "CAB and CHM: every single failure of alloc/open/read/write/seek (sampled in the quick tier, exhaustive on small directed scenarios; every call index in the thorough tier) in complete API sessions over well-formed and malformed archives: "
         "the instrumented system's ledger must be empty after close+destroy and no object may be released twice or used after release."),
   note=PROOF_NOTE + " The effect models are hand-written and validated by replaying every szdd/kwaj fault run on them; KWAJ's LZH/MSZIP decoder bodies are a hypothesis (frame law); for CAB/CHM/OAB the harness's instrumented mspack_system (ledger + monitor) is the reference and the enumeration covers the sampled scenarios only.",
   technique="Lean 4 theorems on effect models over an instrumented system (invariants Frame/Opened, induction over client programs) + --sys replay + single-fault enumeration with allocation/handle ledger"),
 "C10": dict(category="proof",
   text=("(c) proved on the header models for every file content: CAB, SZDD and KWAJ files of at least header length with wrong signature bytes are refused with MSPACK_ERR_SIGNATURE (CHM checked on the implementation). "
         "(a) last_error synchronisation and (b) single host failures are fault enumeration on the implementation: each faulted call must report failure or reproduce the failure-free result exactly. "
         "Found and repaired: 2d82274, 7e29eec, 332b038, b0be7a7; two residual cases where a read failure is indistinguishable from truncation are listed as known findings."
         " The signature clause is proved for CHM as well (ITSF signature and both GUIDs, open and fast_open; with the converse)."),
   note=PROOF_NOTE + " (a),(b): enumeration over sampled scenarios, not a theorem.", technique="Lean 4 theorems on header parsers + single-fault enumeration with failure-free reference runs"),
 "C11": dict(category="proof",
   text=("The models take the allocator's fill byte as a parameter wherever the C reads memory it did not write. Theorems: the MSZIP decoder state and hence extraction from stored and MSZIP CAB folders "
         "(any input) do not depend on it. Quantum/LZX/LZH are validated: every scenario under four fill bytes must give identical results, MemorySanitizer with poisoned allocations must stay silent, "
         "and model and implementation must agree per fill byte. Found and repaired: f814fba, 97e13b8, cc98207, b0cacf5."
         " Extended to the KWAJ LZH, LZX and Quantum decoders: for every source and every sequence of calls the trace of statuses and written bytes is the same for any two fill bytes (C11Decoders). END TO END for CAB (C11CabExtract): any session of extract() calls from a fresh decompressor shows the same statuses and bytes under any two fill bytes - all four methods, no side condition."),
   note=PROOF_NOTE, technique="Lean 4 (fill-independence of model states) + multi-fill differential runs + MemorySanitizer"),
 "C13": dict(category="proof",
   text=("Theorems on the heap model of cabd_merge: every refusal leaves the heap exactly as it was, and NULL, identical, already-joined, circular and mismatched-split-folder joins are refused with the documented codes. "
         "Order-independence of successful joins is validated: every order of the joins x append/prepend on generated split sets (exhaustive up to 4 parts), listings of every part compared with the model after every call and with the plan at the end, "
         "members of spanning folders extracted; refused joins checked for unchanged listings and clean separate close."
         " Order independence is now a theorem on the merge model: C13_join_order_independent - for every well-formed set of any number of parts, every sequence of adjacent joins (append or prepend) returns OK at every step and leaves in every part exactly the expected fused folder and file lists."),
   note=PROOF_NOTE, technique="Lean 4 theorems on the merge model + exhaustive join-order enumeration with model agreement"),
 "C20": dict(category="proof",
   text=("Theorem over the call-site inventory regenerated from today's sources: the library's eighteen open() calls pass caller-supplied or stored archive names with fixed modes (READ for archives/patches/bases, WRITE for outputs). "
         "All other clauses (handle liveness, seek modes, sizes, buffer bounds, copy overlap, free of live/NULL pointers, filename identity) are checked on every callback invocation by the instrumented system over enumerated scenarios and single faults."
         " The handle clauses follow from the ledger theorems on the effect models of all five APIs (C09*)."),
   note=PROOF_NOTE + " Dynamic clauses: enumeration, not a theorem.", technique="Lean 4 decide over regenerated call-site inventory + instrumented-system argument checks under fault enumeration"),
 "C06": dict(category="proof",
   text=("Theorems on the model of oabd.c: a well-formed full file (any block list, block_max, DECOMPBUF >= 1, trailing bytes) decompresses with status OK to exactly the blocks' data, and a well-formed patch applied to a base "
         "starting with the blocks' reference data to exactly the target (header SourceSize/SourceCRC/TargetCRC arbitrary); stored blocks and copy_fh's chunking are proved outright, an LZX block enters through its decoder law "
         "(init succeeds with the window size oabd.c derives, the data comes out, input ends after the payload, CRC matches) which is a hypothesis validated by differential runs; the window-size rule and CRC accumulation are theorems. "
         "The OAB and LZX DELTA models are executable Lean and agree with the implementation on generated files and patch/base pairs under many DECOMPBUF values; the implementation is judged against the plan."),
   note=PROOF_NOTE + " LZX DELTA decoding itself: differential validation, not a theorem.", technique="Lean 4 theorems (induction over the block list; copy_fh loop invariant) + executable model + plan oracle and differential runs"),
 "C05": dict(category="proof",
   text=("Theorems: C05_lzss_roundtrip - on the model of lzss_decompress, for every LZSS token list (literals, copies of 3..18 bytes from any ring position incl. the pre-filled ring and overlapping copies), every input buffer size >= 1, "
         "both ring start positions and any position of the stream in a file, the decoder returns OK and has written exactly the reference expansion; C05_szdd_roundtrip - a well-formed SZDD file is opened with exactly its header values "
         "(format, missing character, length) and decompress writes exactly the expansion. The models of szddd.c, kwajd.c (headers, all five methods incl. LZH and MSZIP) and lzssd.c are executable Lean and agree with the implementation on generated "
         "files (both SZDD variants, all 64 KWAJ header-flag combinations, all four LZH length encodings, shortest-possible LZH tails) and on the shipped fixtures; the implementation is judged against the plan. "
         "KWAJ headers and the LZH / MSZIP-KWAJ / xor payload round trips are not theorems."
         " Also proved: C05_szdd_qbasic_roundtrip and C05_kwaj_plain_roundtrip (KWAJ methods 0/1 with all 16 combinations of the length/unknown/extra-text fields: open() reports exactly the fields, decompress() writes exactly the data); the LZSS and KWAJ specification writers are fed to the real library (lzss.spec, kwaj.spec)."
         " Also proved: KWAJ LZH with the flat code-length tables round-trips against the specification writer, at decoder and at file level (C05_lzh_flat_roundtrip, C05_kwaj_lzh_roundtrip); for arbitrary codes the statement is false at the end of the stream (observation O2)."),
   note=PROOF_NOTE, technique="Lean 4 theorems (token-level specification, induction over groups of eight with a buffer-refill invariant) + differential execution of the models against the implementation + plan oracle"),
 "C07": dict(category="proof",
   text=("CAB: theorems, generic over the stream decoders' counting law, that extract never hands more than the declared length to the output (any input, strict or salvage, any cached state) "
         "and that in strict mode OK implies exactly the declared length; the counting law is proved for stored folders and is an explicit hypothesis for MSZIP/Quantum/LZX. "
         "CHM and OAB have no theorem yet. Everything is validated by the written-vs-declared oracle on the implementation (well-formed, malformed, fixtures, short writes, salvage) and model agreement."
         " CHM: for every file content and section-0 member extract writes at most the declared length, OK means exactly the declared bytes of the file (C07Chm)."
         " The counting law itself is now a theorem for MSZIP and LZX (C07Decoders: every source, fuel, state, request; written <= asked, OK => exactly asked), so CAB written <= declared holds for stored/MSZIP/LZX folders, CHM compressed members and OAB files and patches with no decoder hypothesis; Quantum's law is proved too (every method now), and strict-mode OK => exactly declared is unconditional for stored and MSZIP folders (joint decoder/feeder invariant); and, with the read-error law walked through LZX and Quantum too, for every compression type (C07_cab_ok_complete), as an invariant over whole sessions (C07_cab_session_counts_fresh). CHM compressed members: OK => exactly the bytes asked for (C07ChmComplete). Salvage mode: OK => complete is false by design (kernel-checked example)."),
   note=PROOF_NOTE, technique="Lean 4 theorems (case analysis over cabd_extract's phases + induction for the stored decoder) + written/declared/status oracle on the implementation"),
 "C08": dict(category="proof",
   text=("CAB: theorems that whenever the cached decoder is not re-usable for a request (other folder, backward seek, dead decoder) extract behaves exactly like a fresh instance, and C08_stored_any_order - for a stored folder ANY list of extract() calls on members inside the folder's data (forward through the cached decoder, backward through a rebuilt one, repeated) returns OK with exactly each member's bytes, the fresh-instance result. "
         "MSZIP: the chunking law is a theorem (C08Mszip: a then b = a+b, same bytes and final state, both directions; any split; a decoder-level model of the re-use rule serves any request list in any order), lifted to cabd's decoder call and through cabd_extract itself (C08MszipCab: any list of extract() calls on members of an MSZIP folder that decodes returns each member's slice of the one-shot result; single-cabinet folders unconditionally, multi-cabinet ones under a static fuel condition of the model); the LZX chunking law is not proved; Quantum's converse law is false for windows < 32 KiB (known finding D2); CHM: section-0 members are history-free in any session (C08Chm, C08ChmSession). MSZIP, strict mode: ANY history of extract() calls, failing ones included, every returning call equals the fresh instance (C08_mszip_history_free). These are covered by the oracle: in random histories (repetition, interleaved archives, damaged folders, two cabinets with a damaged second one) over CAB sets and CHM files, "
         "every call is compared with the same member on a fresh decompressor; plus model/implementation agreement per call."),
   note=PROOF_NOTE, technique="Lean 4 theorems (cache decision of cabd_extract; invariant over call sequences for stored folders) + history-vs-fresh oracle + differential runs"),
 "C02": dict(category="proof",
   text=("Theorems (all file contents, all parameter settings, all split-block chains): the CAB block reader never reads past d->input and every block it delivers leaves room for "
         "the Quantum trailer byte, against the buffer and limit constants extracted from today's cab.h; array dimensions of the decoder tables are those the models assume. "
         "Decoder-internal bounds, CHM/KWAJ/OAB parsing and call-sequence safety are validated, not proved: ASan+UBSan runs over malformed variants of generated archives of all five "
         "formats, the shipped crashers and guard-directed constructions, with model/implementation agreement on statuses. Found and repaired on the way: c13e5b8, 004b113, a66a89b."
         " Also: make_decode_table's acceptance rule (model Huff.accepts) is compared with the three instantiations on the ten shapes their callers use, and the same code-length vectors are fed through MSZIP and KWAJ LZH streams; found and repaired: 797f74d (use-after-free after joining a multi-folder cabinet with a PREV_AND_NEXT entry)."
         " Memory safety is now a theorem on the decoder models: the out-of-bounds (null-dereference, shift-width, division, uninitialised-table) outcomes are unreachable for every input and every sequence of calls in the LZSS, KWAJ header, KWAJ LZH, MSZIP, LZX (under LenStable and stream position < 2^31) and Quantum decoders and in the CHM layer (readHeaders, fastFind: no fault at all; extract: only what the LZX decoder passes on)."
         " CAB lift (C02CabLift): the feeder's own faults are only the two null dereferences of cabd_sys_read_block and none while it is live; Quantum/MSZIP folders have no oob/uninit/divZero/shiftWidth for every feeder state, stored folders no fault for any call sequence; the length announced to LZX is a read-closed invariant (LenStable over all feeder states is false, so the LZX lift is _partial: stated for the feeder with filtered announcements). OAB (C02OabExtract): never nullDeref/divZero/shiftWidth for any input. CHM (C02ChmExtract): no nullDeref/divZero/shiftWidth in any session, section-0/open/fast_find fault-free; oob of section-1 extracts per decoder call only. END TO END (C02CabExtract): for every files/params/member list, any session of extract() calls from a fresh decompressor never ends in oob/nullDeref/divZero/shiftWidth - no hypothesis left. LZX folders: LenStable discharged on reachable states by a relational walk (C02CabLift4: no oob/nullDeref/divZero/shiftWidth for the real feeder; position < 2^31 remains). MSZIP and Quantum folders: liveness threaded through the decoder (C02CabLift2, C02CabLift3) - no fault of any kind for any call sequence from a fresh folder state, no source hypothesis."),
   note=PROOF_NOTE + " Sanitizers see heap/stack/global object bounds, not sub-object overflows inside one allocation.",
   technique="Lean 4 theorems on the block reader/feeder model + sanitizer-instrumented differential fuzzing of malformed inputs"),
 "C01": dict(category="proof",
   text=("Kernel-checked: every decoder table extracted from today's source (LZX position slots/extra bits/position base, Quantum position and length tables, "
         "deflate length/distance tables, bit-length order, LSB masks) equals its closed form from the format documents, and the CAB record layout constants are those the "
         "container model hard-codes. The container model (headers, block reader with reserves/split blocks/checksums, feeder, extract, merge) and the stored and MSZIP decoders "
         "are executable Lean and agree with the implementation on every generated plan (all methods, block types, windows, reserves, split sets, parameter settings, both systems); "
         "the implementation is judged against the plan itself (listing and bytes). Bit-level decoder round trips are not theorems yet."
         " Since then proved: C01_headers_roundtrip (cabd_read_headers on the specification writer's bytes lists exactly the specified folders and files, any prefix, strict and salvage) and C01_stored_extract (for every list of well-formed CFDATA blocks of a stored folder, every member, every DECOMPBUF, a first extract() returns OK and exactly the member's bytes); the writer is itself fed to the real cabd_open."
         " MSZIP: for every frame the deflate specification writer lays out from stored and fixed-Huffman blocks (literals and matches of every length and distance class) the decoder model returns exactly the specified data (C01Mszip); the writer is fed to the real decoder."
         " LZX: streams of uncompressed blocks (any block list below 2 GiB, every window size, any buffer size and chunking, any split into calls) decode to exactly the data (C01Lzx)."),
   note=PROOF_NOTE + " Quantum's arithmetic coder has no independent specification (the generator's encoder inverts qtmd.c).",
   technique="Lean 4 (decide +kernel over regenerated tables; executable model) + plan-oracle and model/implementation differential runs"),
 "C18": dict(category="proof",
   text=("Theorems on the CAB model, for every file content: a listing accepted in strict mode is accepted identically in salvage mode; a data block the strict reader "
         "delivers is delivered identically under any combination of ignore-checksum / ignore-blocksize. The lift through feeder, decoders and extract is checked by "
         "model/implementation agreement and by the oracle: identical listing and bytes under all four SALVAGE x FIXMSZIP combinations for strict-valid cabinets; for the two listed "
         "defect classes salvage lists exactly the remaining members / extracts the original bytes."
         " For stored folders the lift is proved: C18_stored_params_irrelevant - any call sequence gives identical results under any two parameter records. Feeder and MSZIP decoder (C18Decoders): an OK strict run is reproduced byte for byte with SALVAGE/FIXMSZIP set; lifted through cabd_extract and whole sessions for stored and MSZIP folders (C18ExtractLift)."),
   note=PROOF_NOTE, technique="Lean 4 theorems (monotonicity of header and block readers in the relaxation flags, by induction) + differential runs over the four parameter combinations"),
 "C14": dict(category="proof",
   text=("Theorems on the model of cabd_find: the result is independent of the search-buffer size (every n>=1), the restart logic always advances "
         "(termination), every reported cabinet parses as a cabinet at its reported offset (no false positives), and completeness - C14_finds_planted: a cabinet behind any bytes that do not contain the signature MSCF (any prefix of it allowed, also directly in front of the cabinet) with plausible length fields is the first cabinet search() reports, any buffer size, strict or salvage. "
         "Several cabinets and look-alike headers in the filler are checked by the implementation-side oracle and model/implementation agreement on generated files with partial and fake signatures; "
         "that oracle found the defect repaired by commit 586d1d8 (cabinet preceded by M/MS/MSC)."
         " C14_finds_all_planted: junk/cabinet/junk/... with signature-free junk and cabinets of at least 20 bytes whose length field equals their extent: find returns exactly the planted cabinets in order."),
   note=PROOF_NOTE, technique="Lean 4 theorems by functional induction over the scanner model + differential runs (search results) + planted-cabinet oracle"),
 "C19": dict(category="proof",
   text=("Mechanism-level theorem: the inventory of writable static objects regenerated from today's objects (nm) and sources is exactly four never-written objects, "
         "and any interleaving of per-instance operation lists gives each instance its solo results (generic theorem, instantiated for the CAB model). "
         "Data races proper are outside a Lean model: ThreadSanitizer runs with 2-16 threads on own instances compare concurrent with solo results."
         " Also proved against the regenerated inventory: every symbol the library's objects import from outside the library is in an explicit list of libc entry points without process-wide mutable state (no setlocale, strtok, rand, ...)."),
   note=PROOF_NOTE + " The C memory model and thread schedules are not modelled.", technique="Lean 4 (decide over regenerated inventory; induction over interleavings) + TSan differential runs"),
 "C12": dict(category="proof",
   text=("CAB: theorems over all data/positions/values/seeds that any single-byte change of a checksummed block's payload, of either size-field byte, "
         "or of the stored checksum makes cabd_sys_read_block's test fail (or turns the stored checksum into 0 = 'no checksum', data untouched); "
         "crc32_table proved equal to the reflected 0xEDB88320 table. Tied to the code by prim-level and extract-level differential runs on every byte position of small cabinets; "
         "OAB part is partial by arithmetic necessity (CRC collisions)."
         " Lifted to the API for stored folders: C12_stored_extract_refused / C12_extract_payload_byte / C12_extract_usize_byte - intact blocks, then a block failing the reader's test: strict-mode extract() of any member returns OK with exactly the original bytes or an error. Every compression type (C12Decoders): a block error recorded by the feeder during extract() is never reported as OK, in any mode."),
   note=PROOF_NOTE, technique="Lean 4 theorems (XOR-linearity + injectivity of the word packers, functional induction) + differential model/implementation runs on exhaustively corrupted blocks"),
}
