"""Shared machinery of the host-failure checks (C09, C10, C20): API scenarios of all five formats,
a fault-free profiling pass that counts the callback invocations of each kind, and the single-fault
variants derived from it (quick: sampled; thorough: every call index of every kind)."""
import os, re
from lib import common as C
from checks import scenarios as S

KINDS = ["alloc", "open", "read", "write", "seek"]

def scenarios(ctx, n, malformed_share=0.3):
    """(lines, meta) of complete API scenarios: everything opened is closed, every instance destroyed"""
    rng = ctx.rng
    out = []
    for case in S.valid_cases(rng, n, sizes=("small", "small", "small", "medium"), avoid_defects=True):
        variants = [(case["files"], "valid")]
        if rng.random() < malformed_share:
            variants += S.malform(rng, case, 1)
        for files, how in variants:
            c2 = dict(case, files=files)
            kind = case["kind"]
            if kind == "cab":
                params = [("DECOMPBUF", rng.choice([5, 16, 17, 4096, 4097])), ("SALVAGE", rng.choice([0, 0, 1]))]
                ops, _ = S.cab_ops(c2, params, close=False)
                nparts = len(case["meta"]["order"]) if case["meta"].get("open") != "search" else 1
                ops += [f"close i0 h{j}" for j in range(nparts)] + ["destroy i0"]
            elif kind == "chm":
                nm = case["meta"]["order"][0]
                k = min(4, len(case["members"]))
                # forward, then backward: going back re-initialises the LZX decoder while an old one is live
                ops = ["new chm", f"open i0 {nm}"] + [f"extract i0 h0 {j} o{j}" for j in list(range(k)) + list(reversed(range(k)))]
                if case["members"]:
                    name = case["members"][-1]["name"].hex() or "="
                    ops += [f"fastopen i0 {nm}", f"fastfind i0 h1 {name}", f"ffextract i0 h1 {name} ff", "close i0 h1"]
                ops += ["close i0 h0", "destroy i0"]
            elif kind == "oab":
                ops = S.generic_ops(c2, [("DECOMPBUF", rng.choice([16, 17, 33, 4096, 4097]))])
            else:
                ops = S.generic_ops(c2)
            out.append((S.file_lines(c2) + ops, dict(family=kind + ".scenario", how=how, kind=kind,
                                                     salvage=any(o.startswith("param i0 SALVAGE 1") for o in ops))))
    # OAB blocks whose 32-bit size fields are at or above 2^31 (the data is short): sizes handed to the host stay sane
    import struct
    for big in (0x80000000, 0x80000010, 0xFFFFFFF0):
        f = struct.pack("<IIII", 3, 1, 0xFFFFFFFF, 0xFFFFFFFF) + struct.pack("<IIII", 0, 100, 100, 0) + bytes(100) + \
            struct.pack("<IIII", 0, big, big, 0) + bytes(6000)
        out.append(([f"file full.oab {f.hex()}", "new oab", "decompress i0 full.oab out", "destroy i0"], dict(family="oab.huge-sizes", how="directed", kind="oab")))
        pf = struct.pack("<IIIIIII", 3, 2, 0xFFFFFFFF, 0, 0xFFFFFFFF, 0, 0) + struct.pack("<IIII", big, 50, 0, 0) + bytes(6000)
        out.append(([f"file patch.oab {pf.hex()}", "file base.oab -", "new oab", "decompressinc i0 patch.oab base.oab out", "destroy i0"], dict(family="oab.huge-sizes", how="directed", kind="oab")))
    # optional format variants, small enough for EVERY fault point to be tried in the quick tier too (meta exhaustive):
    #  - a cabinet with all three reserved areas (header, folder, per-block) and blocks without checksum, stored and MSZIP
    #  - a CHM directory of several PMGL chunks without an index chunk, names looked up through fast_find()
    #  - a CHM reset table whose entry size is neither 4 nor 8 (SpanInfo fall-back)
    import zlib
    from lib import minicab
    def ck(d):
        co = zlib.compressobj(9, zlib.DEFLATED, -15); return b"CK" + co.compress(d) + co.flush()
    for comp in (0, 1):
        datas = [bytes(rng.choice(b"abcdefgh") for _ in range(k)) for k in (300, 120)]
        payloads = [((ck(d) if comp else d), len(d)) for d in datas]
        if comp: payloads = payloads[:1]
        tot = sum(u for _, u in payloads)
        cab, _ = minicab.build([(comp, payloads)], [dict(name=b"a.bin", length=100, offset=0, folder=0), dict(name=b"b.bin", length=tot - 100, offset=100, folder=0)],
                               header_res=b"hdr-reserve", folder_res=3, data_res=5, checksum=False)
        for salv in (0, 1):
            out.append(([f"file r.cab {cab.hex()}", "new cab", f"param i0 SALVAGE {salv}", "param i0 DECOMPBUF 64", "open i0 r.cab", "extract i0 h0 0 o0", "extract i0 h0 1 o1",
                         "close i0 h0", "destroy i0"], dict(family="cab.reserves", how="directed", kind="cab", salvage=bool(salv), exhaustive=True)))
    for _ in range(40):
        try:
            case = S.vgen_case(rng, "chm", "small", index_levels=0, chunk_size=64)
        except Exception:
            continue
        if case["meta"].get("depth") == 1 and case["meta"].get("nchunks", 0) >= 3 and len(case["members"]) >= 3: break
    else:
        case = None
    if case:
        nm = case["meta"]["order"][0]; mem = case["members"]
        names = [mem[0]["name"], mem[len(mem) // 2]["name"], mem[-1]["name"]]
        ops = ["new chm", f"fastopen i0 {nm}"]
        for j, n_ in enumerate(names): ops += [f"fastfind i0 h0 {n_.hex() or '='}"]
        ops += [f"fastfind i0 h0 {b'/zzzz-no-such-name'.hex()}", f"ffextract i0 h0 {names[-1].hex() or '='} ff", "close i0 h0", "destroy i0"]
        out.append((S.file_lines(case) + ops, dict(family="chm.pmgl-chain", how="directed", kind="chm", exhaustive=True)))
    # the same directory listed through open() (reads every chunk), one member extracted
    if case:
        nm = case["meta"]["order"][0]
        out.append((S.file_lines(case) + ["new chm", f"open i0 {nm}", "extract i0 h0 0 o0", "close i0 h0", "destroy i0"],
                    dict(family="chm.pmgl-chain-open", how="directed", kind="chm", exhaustive=True)))
    # small LZSS files with literals and matches of each kind (plain, overlapping, wrapping), SZDD and KWAJ method 2
    from vgen import szdd, kwaj, lz
    toks = [("L", 0x41 + i) for i in range(10)] + [("M", 10, 5), ("L", 0x7a), ("M", 1, 9), ("M", 4096, 3), ("L", 0x21), ("M", 3, 18), ("L", 0x22), ("M", 20, 4)]
    plain = lz.expand(toks, b"\x20" * 4096)
    out.append(([f"file f.sz_ {szdd.build(toks, False).hex()}", "new szdd", "open i0 f.sz_", "extract i0 h0 - o1", "close i0 h0", "decompress i0 f.sz_ o2", "destroy i0"],
                dict(family="szdd.small-matches", how="directed", kind="szdd", exhaustive=True)))
    out.append(([f"file f.kwj {kwaj.build(2, szdd.lzss_encode(toks, 4078), length=len(plain), name=b'A', ext=b'TXT', extra=b'xy').hex()}", "new kwaj", "open i0 f.kwj", "extract i0 h0 - o1", "close i0 h0",
                 "decompress i0 f.kwj o2", "destroy i0"], dict(family="kwaj.small-matches", how="directed", kind="kwaj", exhaustive=True)))
    # search() over a small file: junk, a stored cabinet, junk
    scab, _ = minicab.build([(0, [(b"payload-bytes", 13)])], [dict(name=b"p.bin", length=13, offset=0, folder=0)])
    out.append(([f"file s.bin {(b'junkMSjunk' + scab + b'MSCFtrail').hex()}", "new cab", "param i0 SEARCHBUF 16", "search i0 s.bin", "extract i0 h0 0 o0", "close i0 h0", "destroy i0"],
                dict(family="cab.search-small", how="directed", kind="cab", exhaustive=True)))
    # a file entry whose folder index names no folder (neither a real index nor one of the three CONTINUED codes), with a good
    # name: the entry is discarded (salvage) or the cabinet refused (strict) - whatever was allocated for it must go too
    import struct as _st
    bcab, _ = minicab.build([(0, [(b"0123456789abcdef", 16)])], [dict(name=b"first.txt", length=6, offset=0, folder=0), dict(name=b"badidx.txt", length=5, offset=6, folder=0),
                                                                 dict(name=b"last.txt", length=5, offset=11, folder=0)])
    bcab = bytearray(bcab); k = bcab.index(b"badidx.txt")
    for bad in (1, 7, 0xFFFC):
        _st.pack_into("<H", bcab, k - 16 + 8, bad)
        for salv in (0, 1):
            out.append(([f"file b.cab {bytes(bcab).hex()}", "new cab", f"param i0 SALVAGE {salv}", "open i0 b.cab", "extract i0 h0 0 o0", "extract i0 h0 1 o1", "close i0 h0",
                         "destroy i0"], dict(family="cab.bad-folder-index", how="directed", kind="cab", salvage=bool(salv))))
            out.append(([f"file b.cab {bytes(bcab).hex()}", "new cab", f"param i0 SALVAGE {salv}", "search i0 b.cab", "close i0 h0",
                         "destroy i0"], dict(family="cab.bad-folder-index-search", how="directed", kind="cab", salvage=bool(salv))))
    for rt in ("entry16", "entry12"):
        for _ in range(20):
            try:
                case = S.vgen_case(rng, "chm", "medium", rtable=rt)
            except Exception:
                continue
            if case["meta"].get("lzx", {}).get("reset_intervals", 0) >= 2: break
        else:
            continue
        mem = case["members"]; nm = case["meta"]["order"][0]
        far = sorted((j for j, m in enumerate(mem) if m["section"] == 1 and m["data"]), key=lambda j: -mem[j]["offset"])[:3]
        out.append((S.file_lines(case) + ["new chm", f"open i0 {nm}"] + [f"extract i0 h0 {j} o{j}" for j in far] + ["close i0 h0", "destroy i0"],
                    dict(family="chm.reset-entry-size", how="directed", kind="chm", rtable=rt)))
    # a few fixtures (search, split set)
    cabs = os.path.join(C.REPO, "cabextract/test/cabs")
    out.append(([f"fileref s.cab {cabs}/search.cab", "new cab", "param i0 SEARCHBUF 64", "search i0 s.cab", "extract i0 h0 0 o0", "extract i0 h3 0 o3",
                  "close i0 h0", "destroy i0"], dict(family="cab.search-fixture", how="valid", kind="cab")))
    sp = [f"fileref p{i}.cab {cabs}/split-{i}.cab" for i in range(1, 6)]
    out.append((sp + ["new cab"] + [f"open i0 p{i}.cab" for i in range(1, 6)] + [f"append i0 h{i} h{i + 1}" for i in range(4)] +
                [f"extract i0 h0 {j} o{j}" for j in (0, 2, 4)] + ["close i0 h0"] + [f"close i0 h{i}" for i in range(1, 5)] + ["destroy i0"],
                dict(family="cab.split-fixture", how="valid", kind="cab")))
    # two cabinets on one decompressor, extraction switching between them (the decoder's input handle is closed and another
    # file opened each time): every fault point
    from lib import minicab
    ca, _ = minicab.build([(0, [(b"cabinet-A-data", 14)])], [dict(name=b"a.txt", length=14, offset=0, folder=0)])
    cb, _ = minicab.build([(0, [(b"cabinet-B-data!", 15)])], [dict(name=b"b.txt", length=15, offset=0, folder=0)])
    out.append(([f"file a.cab {ca.hex()}", f"file b.cab {cb.hex()}", "new cab", "open i0 a.cab", "open i0 b.cab", "extract i0 h0 0 o0", "extract i0 h1 0 o1", "extract i0 h0 0 o2",
                 "extract i0 h1 0 o3", "close i0 h0", "close i0 h1", "destroy i0"], dict(family="cab.switch-cabinets", how="directed", kind="cab", exhaustive=True)))
    return out

_calls_re = re.compile(r"calls=alloc:(\d+),open:(\d+),read:(\d+),write:(\d+),seek:(\d+),tell:(\d+)")

def profile(ctx, cw_paths):
    """fault-free run with callback counting; returns {path: ({kind: total calls}, blocks)}"""
    res = C.run_tool(os.path.join(ctx.hdir, "apiharness"), cw_paths)
    out = {}
    for p, blocks in res.items():
        tot = dict.fromkeys(KINDS, 0)
        for b in blocks:
            m = _calls_re.search(b[0])
            if m:
                for k, v in zip(["alloc", "open", "read", "write", "seek"], m.groups()[:5]):
                    tot[k] += int(v)
        out[p] = (tot, blocks)
    return out

def strip_counters(line):
    return re.sub(r" edges=\d+| calls=\S+", "", line)

def fault_points(ctx, totals, per_kind_quick=3, exhaustive=False):
    """which (kind, k[, mode]) single faults to inject for a scenario with these call totals"""
    rng = ctx.rng
    pts = []
    for kind in KINDS:
        n = totals.get(kind, 0)
        if n == 0: continue
        if ctx.tier == "thorough" or (exhaustive and n <= 120):
            ks = range(1, n + 1) if n <= 400 else sorted(set(list(range(1, 200)) + rng.sample(range(200, n + 1), 200)))
        else:
            ks = sorted(set([1, n] + [rng.randint(1, n) for _ in range(per_kind_quick)]))
        for k in ks:
            if kind == "write":
                pts.append((kind, k, rng.choice(["err", "short"])))
            else:
                pts.append((kind, k, None))
    return pts
