"""C09 — every allocation and file handle is released exactly once on every path.

Theorems: Proofs/Props/C09.lean (effect model of the SZDD API over an instrumented system with an
arbitrary fault plan: after close + destroy the ledger is empty and nothing was released twice or
used after release — for every file content and every fault plan).
Fault enumeration on the implementation (all five formats): API scenarios in which the caller
closes what it opened and destroys the instance, under no fault and under every single failure of
alloc/open/read/write/seek at sampled (quick) or all (thorough) call indices; observable = the
instrumented system's ledger after destroy (live allocations, open handles) and its monitor
(free/close of unknown or already released objects, use of closed handles)."""
import os
from lib import common as C
from lib.pipeline import Finding
from checks import faults as F

PROP = "C09"
THEOREMS = {"Proofs.Props.C09": ["MsPack.Szdd.C09_szdd_ledger_restored", "MsPack.Szdd.C09_szdd_nothing_left"],
            "Proofs.Props.C09Kwaj": ["MsPack.Kwaj.C09_kwaj_ledger_restored", "MsPack.Kwaj.C09_kwaj_nothing_left"],
            "Proofs.Props.C09Oab": ["MsPack.Oab.C09_oab_ledger_restored", "MsPack.Oab.C09_oab_nothing_left"],
            "Proofs.Props.C09Chm": ["MsPack.Chm.C09_chm_ledger_restored", "MsPack.Chm.C09_chm_nothing_left", "MsPack.Chm.C09_chm_session_owns"],
            "Proofs.Props.C09Cab": ["MsPack.Cab.C09_cab_ledger_restored", "MsPack.Cab.C09_cab_nothing_left", "MsPack.Cab.C09_cab_session_invariant"]}
LEVEL = "proof"
ASSUMPTIONS = ["the effect models (lean/MsPack/Szdd/Api.lean, lean/MsPack/Kwaj/Api.lean, lean/MsPack/Oab/Api.lean over lean/MsPack/Sys.lean) are tied to szddd.c + lzssd.c + kwajd.c + oabd.c (with the allocation skeleton of lzxd_init/lzxd_free/lzxd_set_reference_data) by replaying every szdd, kwaj and oab scenario, fault-free and under every enumerated fault, on `mspack-driver --sys` and comparing all result lines and the final ledger line with the harness (kwaj methods 3 and 4 and OAB files with an LZX block are answered `unsupported` by the effect-model driver: the bit-level decoders enter the theorems through the frame law)",
               "the theorems cover the SZDD and KWAJ decompressors' APIs (create/open/extract/decompress/close/destroy incl. lzss_decompress, the KWAJ header allocations and the allocation skeletons of lzh_init/lzh_free, mszipd_init/mszipd_free); KWAJ's LZH and MSZIP and OAB's LZX decoder bodies are a hypothesis (`Decoders.Lawful` / `Lawful`: they only read and write on the two handles they are given); the OAB theorems cover decompress and decompress_incremental incl. copy_fh, the LZX set-up and tear-down on every exit path; "
               "the CHM and CAB effect models (lean/MsPack/Chm/Api.lean, lean/MsPack/Cab/Api.lean) model every system call of the whole APIs (open/fast_open/search/close/append/prepend/extract/fast_find, the decoder caches, the chunk cache) in order with the C's failure reactions, but the memory-only parsing that decides how many calls follow is an abstract parameter (`Parse`, the scanner script, a few Booleans): "
               "the theorems hold for every value of it; these two models are not replayed by the driver (no --sys for them), their tie to the C is the reading of the code plus the fault enumeration below; the CAB theorem assumes the client discipline that rules out the known findings D25/D26 (of two cabinets joined at least one is a single set)",
               "the instrumented mspack_system of the harness is the reference for 'released exactly once'"]
RULE = ("scenarios = complete API sessions (open/search/join/extract/fast_find/decompress, then close + destroy) over generated well-formed and malformed archives of all five formats and two fixtures; "
        "for each: the fault-free run plus single faults (kind x call index; write faults as error or short write); non-trivial = a run in which the planned fault actually fired or the fault-free run; "
        "distinct by scenario + fault point")

BAD = ("free-unknown", "double-free", "close-unknown", "double-close", "use-closed-handle", "unknown-handle")

def judge_run(meta, blocks):
    fs = []
    for b in blocks:
        for l in b:
            if l.startswith("MONITOR") and any(k in l for k in BAD):
                fs.append(Finding("violation", f"{meta['family']} fault={meta.get('fault')}: {l}"))
        if b[0].startswith("CRASH"):
            fs.append(Finding("violation", f"{meta['family']} fault={meta.get('fault')}: {b[0][:200]}"))
        if b[0].startswith("TIMEOUT"):
            fs.append(Finding("mismatch", f"{meta['family']} fault={meta.get('fault')}: {b[0]}"))
    end = next((C.kv(b[0]) for b in blocks if b[0].startswith("end ")), None)
    if end is not None and not any(b[0].startswith(("CRASH", "TIMEOUT")) for b in blocks):
        if end.get("allocs_live") != "0" or end.get("handles_live") != "0":
            fs.append(Finding("violation", f"{meta['family']} fault={meta.get('fault')}: after close+destroy {end.get('allocs_live')} allocations and {end.get('handles_live')} handles are still live"))
    return fs

def generate(ctx):
    return []

def join_search_lists(ctx):
    """joins among the cabinets search() returns (one file holding several cabinets): two members of one `next` list,
    the heads of two lists, a list member with a cabinet from open() - then the documented close of each list head.
    (Found while proving the CAB effect model: cabd_close owns a list through `next` and a set through
    prevcab/nextcab, and has no provision for a cabinet that is in both.)"""
    from lib import minicab
    cab, _ = minicab.build([(0, [(b"hello world", 11)])], [dict(name=b"a.txt", length=11, offset=0, folder=0)])
    two = cab + cab; three = cab + b"pad" + cab + cab
    F2 = [f"file two.cab {two.hex()}", f"file three.cab {three.hex()}", f"file one.cab {cab.hex()}", "new cab"]
    out = []
    out.append((F2 + ["search i0 two.cab", "append i0 h0 h1", "close i0 h0", "destroy i0"], dict(family="cab.join-search-siblings", how="directed", kind="cab", shape="siblings", nofaults=True)))
    out.append((F2 + ["search i0 three.cab", "append i0 h1 h2", "close i0 h0", "destroy i0"], dict(family="cab.join-search-siblings", how="directed", kind="cab", shape="later-siblings", nofaults=True)))
    out.append((F2 + ["search i0 two.cab", "search i0 two.cab", "append i0 h0 h2", "close i0 h0", "destroy i0"], dict(family="cab.join-search-heads", how="directed", kind="cab", shape="heads", nofaults=True)))
    # controls that the ownership rules do cover: a search head with an opened cabinet, an opened cabinet with a head
    out.append((F2 + ["search i0 one.cab", "open i0 one.cab", "append i0 h0 h1", "close i0 h0", "destroy i0"], dict(family="cab.join-search-open", how="directed", kind="cab", shape="head+open")))
    out.append((F2 + ["open i0 one.cab", "search i0 one.cab", "append i0 h0 h1", "close i0 h0", "destroy i0"], dict(family="cab.join-search-open", how="directed", kind="cab", shape="open+head")))
    return out

def custom_run(ctx, res, cw):
    n = 25 if ctx.tier == "quick" else 150
    base = F.scenarios(ctx, n) + join_search_lists(ctx)
    for lines, meta in base:
        cw.add(["edges on"] + lines, meta)
    prof = F.profile(ctx, list(cw.paths))
    viol, mism = [], []
    fired = 0
    base_paths = list(cw.paths)
    for p in base_paths:
        tot, blocks = prof.get(p, ({}, []))
        meta = cw.meta[p]
        res.cov["evaluations"] += 1
        for f in judge_run(meta, blocks):
            (viol if f.kind == "violation" else mism).append((p, meta, f))
        lines = [l for l in open(p).read().splitlines() if l != "edges on"]
        if meta.get("nofaults"): continue
        for (kind, k, mode) in F.fault_points(ctx, tot, exhaustive=meta.get("exhaustive", False)):
            fl = f"fault {kind} {k}" + (f" {mode}" if mode else "")
            cw.add([fl] + lines, dict(meta, fault=fl, base=os.path.basename(p)))
    fpaths = [p for p in cw.paths if p not in set(base_paths)]
    out = C.run_tool(os.path.join(ctx.hdir, "apiharness"), fpaths)
    dist = {}
    for p in fpaths:
        meta = cw.meta[p]
        blocks = out.get(p)
        res.cov["evaluations"] += 1
        if blocks is None:
            viol.append((p, meta, Finding("violation", "no harness output"))); continue
        k = meta["fault"].split()[1]
        dist[k] = dist.get(k, 0) + 1
        for f in judge_run(meta, blocks):
            (viol if f.kind == "violation" else mism).append((p, meta, f))
    # correspondence of the effect model the theorems are about: every szdd run, with and without faults
    # (oab: the effect model treats a planned write as a total failure, the harness's `short` mode accepts half the
    #  bytes - same status and ledger, different byte counts - so short-write runs of oab and kwaj (whose copy loop and decoders write several bytes per call) are left out)
    szp = [p for p in cw.paths if cw.meta[p].get("kind") == "szdd" or
           (cw.meta[p].get("kind") in ("kwaj", "oab") and not str(cw.meta[p].get("fault", "")).endswith("short"))]
    mout = C.run_tool(os.path.join(C.LEAN, ".lake/build/bin/mspack-driver"), szp, args=("--sys",))
    agree = 0; skipped = 0
    for p in szp:
        a = prof[p][1] if p in prof else out.get(p)
        if a is None: continue
        ai = [F.strip_counters(l) for b in a for l in b if not l.startswith("MONITOR")]
        bm = [l for b in (mout.get(p) or []) for l in b]
        if any("unsupported" in l for l in bm): skipped += 1; continue
        if ai == bm: agree += 1
        else:
            d = next((f"impl={x!r} model={y!r}" for x, y in zip(ai + ["<none>"] * len(bm), bm + ["<none>"] * len(ai)) if x != y), "?")
            mism.append((p, cw.meta[p], Finding("mismatch", f"{cw.meta[p].get('kind')} effect model (Szdd/Api.lean, Kwaj/Api.lean, Oab/Api.lean) and implementation differ under {cw.meta[p].get('fault', 'no fault')}: {d}")))
    res.cov["sys_model_runs"] = {"szdd_kwaj_oab_runs": len(szp), "agree": agree, "unsupported_by_effect_driver": skipped}
    res.cov["traces_validated_against_impl"] += agree
    res.cov["distinct_nontrivial"] = len(cw.paths)
    res.cov["input_distribution"] = {"scenarios": len(base_paths), "fault_runs_by_kind": dist,
                                     "scenario_families": {m["family"]: sum(1 for q in base_paths if cw.meta[q]["family"] == m["family"]) for m in [cw.meta[q] for q in base_paths]}}
    return viol, mism

def classify(ctx, meta, finding):
    t = finding.text
    if meta.get("family") == "cab.join-search-siblings" and "CRASH" in t and "cabd_close" in t and not meta.get("fault"): return "D25"
    if meta.get("family") == "cab.join-search-heads" and "allocations" in t and "still live" in t and not meta.get("fault"): return "D26"
    return None
