"""C11 — results depend only on the input: no uninitialised memory reaches any output.

Theorems: Proofs/Props/C11.lean (fill-independence of the models that take the allocator's fill
byte as a parameter: whatever is proved there holds for every input).
Search/validation on the implementation: every scenario is run with allocators that pre-fill
fresh memory with 0x00 / 0x55 / 0xaa / 0xff — statuses and outputs must be identical — and under
MemorySanitizer with poisoned allocations (no uninitialised byte may reach write(), a branch or a
callback argument).  Model/implementation agreement per fill byte where a model exists."""
import os
from lib import common as C
from lib.pipeline import Finding
from checks import scenarios as S

PROP = "C11"
LEVEL = "proof"
THEOREMS = {"Proofs.Props.C11": ["MsPack.C11.mszip_init_fill_independent", "MsPack.C11.initDec_fill_independent", "MsPack.C11.cab_stored_mszip_fill_independent"],
            "Proofs.Props.C11Decoders": ["MsPack.C11.C11_lzh_fill_independent", "MsPack.C11.C11_lzx_fill_independent", "MsPack.C11.C11_qtm_fill_independent"],
            "Proofs.Props.C11CabExtract": ["MsPack.CabFill.decompress_R", "MsPack.CabFill.C11_cab_extract_fill_independent", "MsPack.CabFill.C11_cab_session_fill_independent"]}
ASSUMPTIONS = ["fill-independence is proved on the models: the LZSS decoder (its ring is memset), stored and MSZIP CAB folders, and - for every source, every fuel and every sequence of calls (LZX: decompress / set_output_length / set_reference_data in any order) - the KWAJ LZH, LZX and Quantum decoders: status and bytes written are the same for any two fill bytes (simulation relations over the cells that differ: un-cleared parts of length arrays, blockLength before the first header, the E8 buffer beyond what was produced, adaptive-model tails); "
               "END TO END for CAB (C11CabExtract): for every set of files, every parameter record, every list of members and ANY two fill bytes, a session of extract() calls threaded through the decoder cache from a fresh decompressor shows the caller the same statuses and the same bytes (C11_cab_session_fill_independent) - stored, MSZIP, Quantum and LZX folders, no side condition (the Quantum simulation relation had to be strengthened to keep the input handles equal after a status return: cabd reads read_error from the feeder); OAB/CHM: validated by the four-fill oracle, MSan and model agreement",
               "MSan observes definedness at write(), branches and callback arguments"]
RULE = ("well-formed and malformed archives of all five formats (4-6 mutations each) plus directed constructions (a match before the first byte of the stream for MSZIP / Quantum / LZX, "
        "LZSS matches into the ring at/ahead of the initial write position (SZDD, QBasic, KWAJ), LZH code-length type nibbles 4-15, truncated LZH tables, short KWAJ files, CAB members declared longer than their folder's blocks hold), each run under 4 fill bytes and under MSan; non-trivial = a case that produced output or an error status; distinct by archive bytes")

FILLS = ["00", "55", "aa", "ff"]

def directed(rng):
    """inputs whose decoding refers to bytes the stream never produced"""
    from lib import minicab
    out = []
    # MSZIP: fixed-Huffman block, first token a match (length 3, distance 1)
    bits = []
    def put(v, n):
        for i in range(n): bits.append((v >> i) & 1)
    def huff(code, n):
        for i in range(n - 1, -1, -1): bits.append((code >> i) & 1)
    put(1, 1); put(1, 2); huff(0b0000001, 7); huff(0b00000, 5); huff(0b0000000, 7)
    by = bytearray()
    for i in range(0, len(bits), 8):
        v = 0
        for j, x in enumerate(bits[i:i + 8]): v |= x << j
        by.append(v)
    cab, _ = minicab.build([(1, [(b"CK" + bytes(by), 3)])], [dict(name=b"m.bin", length=3, offset=0, folder=0)])
    out.append(([f"file x.cab {cab.hex()}", "new cab", "open i0 x.cab", "extract i0 h0 0 o", "close i0 h0", "destroy i0"], dict(family="mszip.match-before-start")))
    # Quantum: first token a match (the Quantum modeller's assertion-free encoder)
    try:
        import importlib.util
        sp = importlib.util.spec_from_file_location("qtm_difftest", os.path.join(C.LEAN, "MsPack", "Qtm", "difftest.py"))
        qd = importlib.util.module_from_spec(sp); sp.loader.exec_module(qd)
        for wb in (10, 15):
            blocks, _e = qd.encode([("M", 1, 3), ("L", 65)], wb, lambda: b"")
            c = qd.cab(2 | wb << 8, blocks, [(b"q.bin", 0, 4)])
            out.append(([f"file x.cab {c.hex()}", "new cab", "open i0 x.cab", "extract i0 h0 0 o", "close i0 h0", "destroy i0"], dict(family="qtm.match-before-start")))
    except Exception as e:
        pass
    # LZX: crafted streams from the LZX modeller's corpus whose matches refer to bytes never produced
    # (R0 = 0 stored by an uncompressed block; repeated offsets reaching before the stream start)
    try:
        import importlib.util
        sp = importlib.util.spec_from_file_location("lzx_difftest", os.path.join(C.LEAN, "MsPack", "Lzx", "difftest.py"))
        dt = importlib.util.module_from_spec(sp); sp.loader.exec_module(dt)
        for name, wb, stream, total in dt.crafted():
            if not name.startswith("r0-"): continue
            c = dt.one_folder_cab(3 | wb << 8, dt.chunk_blocks(stream, total), [(0, total)])
            out.append(([f"file x.cab {c.hex()}", "new cab", "open i0 x.cab", "extract i0 h0 0 o", "close i0 h0", "destroy i0"], dict(family="lzx." + name)))
    except Exception as e:
        pass
    # the same through the OAB entry point (LZX DELTA without reference data: the window is whatever init left there)
    try:
        from vgen import oab as _oab
        for r0, name in [(0, "r0-zero"), (5, "r0-before-start"), (4, "r0-exact")]:
            c = dt.Craft(17); c.header(); c.uncompressed(4, (r0, 1, 1), b"abcd"); c.block(1, 20)
            c.trees(dt.lens_for(c.nmain, [0x62, 256 + 3, 256 + 8 + 3, 256 + 16 + 3]), [0] * 249)
            c.m(256 + 3); c.m(256 + 8 + 3); c.m(256 + 16 + 3); c.m(256 + 3); c.frame_end()
            f = _oab.full_file([{"data": bytes(24), "payload": b"\0\0" + c.done(), "lzx": True, "crc": 0}])
            out.append(([f"file full.oab {f.hex()}", "new oab", "decompress i0 full.oab o", "destroy i0"], dict(family="oab.lzx-" + name)))
    except Exception as e:
        C.log(f"C11: oab r0 family failed: {e!r}")
    # KWAJ LZH: code-length type nibbles 4..15, and a stream that ends inside the tables
    hdr = b"KWAJ\x88\xf0\x27\xd1" + b"\x03\x00" + b"\x0e\x00" + b"\x00\x00"
    for t in (4, 7, 15):
        body = bytes([(t << 4) | 0, 0x00, 0x00, 0x61, 0x62, 0x63, 0x64, 0x65, 0x66, 0x67, 0x68])
        out.append(([f"file f.kwj {(hdr + body).hex()}", "new kwaj", "open i0 f.kwj", "extract i0 h0 - o", "close i0 h0", "destroy i0"], dict(family="kwaj.lzh-type-%d" % t)))
    trunc = (hdr + bytes([0])).hex()
    out.append(([f"file f.kwj {trunc}", "new kwaj", "open i0 f.kwj", "extract i0 h0 - o", "close i0 h0", "destroy i0"], dict(family="kwaj.lzh-truncated-tables")))
    for data in (b"", b"KW", b"not-a-kwaj-file-at-all"):
        out.append(([f"file f.kwj {C.hexs(data)}", "new kwaj", "open i0 f.kwj", "destroy i0"], dict(family="kwaj.short")))
    # LZSS: match tokens carry absolute ring positions, so the very first token may copy from the part of the
    # ring at / ahead of the initial write position (4080.. for SZDD, 4078.. for QBasic and KWAJ) - initial
    # history that the decoder must have filled with spaces
    import struct
    for mpos in (4078, 4080, 4085, 4095, 0, 2000):
        for ln in (3, 18):
            tok = bytes([mpos & 0xFF, ((mpos >> 4) & 0xF0) | (ln - 3)])
            body = bytes([0x00]) + tok * 2 + bytes([0x03, 0x41, 0x42]) + tok
            out.append(([f"file f.sz_ {(bytes([0x53,0x5a,0x44,0x44,0x88,0xf0,0x27,0x33,0x41,0x5f]) + struct.pack('<I', 3 * ln + 2) + body).hex()}",
                         "new szdd", "open i0 f.sz_", "extract i0 h0 - o", "close i0 h0", "destroy i0"], dict(family="szdd.match-ahead-of-start", mpos=mpos)))
            out.append(([f"file f.sz_ {(bytes([0x53,0x5a,0x20,0x88,0xf0,0x27,0x33,0xd1]) + struct.pack('<I', 3 * ln + 2) + body).hex()}",
                         "new szdd", "open i0 f.sz_", "extract i0 h0 - o", "close i0 h0", "destroy i0"], dict(family="szdd.qbasic-match-ahead-of-start", mpos=mpos)))
            kw = b"KWAJ\x88\xf0\x27\xd1" + struct.pack("<HHH", 2, 14, 0) + body
            out.append(([f"file f.kwj {kw.hex()}", "new kwaj", "open i0 f.kwj", "extract i0 h0 - o", "close i0 h0", "destroy i0"], dict(family="kwaj.lzss-match-ahead-of-start", mpos=mpos)))
    # Quantum / LZX streams that end early: the decoder wants more bits than the (odd- or even-sized) input holds;
    # whatever it reads past the end must be the reader's padding, never stale buffer contents
    for comp in (2 | 10 << 8, 2 | 15 << 8, 3 | 15 << 8, 3 | 17 << 8):
        for plen in (1, 2, 3, 4, 5, 6, 7, 8, 9, 16, 17):
            payload = bytes(rng.randrange(256) for _ in range(plen))
            for flen in (7, 12, 100):
                try:
                    cab, _ = minicab.build([(comp, [(payload, min(flen, 32768))])], [dict(name=b"q.bin", length=flen, offset=0, folder=0)])
                except Exception:
                    continue
                out.append(([f"file x.cab {cab.hex()}", "new cab", f"param i0 DECOMPBUF {rng.choice([4, 5, 4096])}", "open i0 x.cab", "extract i0 h0 0 o", "close i0 h0", "destroy i0"],
                            dict(family="cab.stream-ends-early", comp=comp & 15, plen=plen)))
    # a folder that declares NO data blocks with a member of non-zero length in it, salvage mode (strict mode refuses
    # it up front), as the first thing this decompressor extracts and again after another folder was torn down
    for comp in (0, 1, 2 | 10 << 8, 3 | 15 << 8):
        try:
            cab, _ = minicab.build([(comp, []), (0, [(b"0123456789", 10)])], [dict(name=b"z.bin", length=7, offset=0, folder=0), dict(name=b"ok.bin", length=10, offset=0, folder=1)])
        except Exception:
            continue
        for order in ((0,), (0, 1, 0), (1, 0)):
            for salv in (1, 0):
                out.append(([f"file x.cab {cab.hex()}", "new cab", f"param i0 SALVAGE {salv}", "open i0 x.cab"] + [f"extract i0 h0 {k} o{j}" for j, k in enumerate(order)] + ["close i0 h0", "destroy i0"],
                            dict(family="cab.zero-block-folder", comp=comp & 15, salvage=salv, order=order)))
    # KWAJ headers with the name (0x08) and/or extension (0x10) field, the file ENDING inside the field with no NUL
    # among the bytes present; and complete fields of every length without / with the terminator
    for flags in (0x08, 0x10, 0x18):
        for nlen in range(0, 10):
            for term in (False, True):
                field = bytes(rng.choice(b"ABCDEFGH") for _ in range(nlen)) + (b"\0" if term else b"")
                for tail in (b"", b"\x41\x42\x43\x44\x45\x46\x47\x48\x49\x4a\x4b\x4c"):
                    if flags == 0x18: body = b"NAME\0" + field + tail
                    else: body = field + tail
                    kw = b"KWAJ\x88\xf0\x27\xd1" + struct.pack("<HHH", 0, 14 + len(body), flags) + body
                    out.append(([f"file f.kwj {kw.hex()}", "new kwaj", "open i0 f.kwj", "extract i0 h0 - o", "close i0 h0", "destroy i0"],
                                dict(family="kwaj.name-field", flags=flags, nlen=nlen, term=term, tail=len(tail))))
    # MSZIP blocks opening with a match into the previous block's history (what lies *before* window[0] is not history)
    xb = list(S.mszip_cross_block_cases(rng))
    for (label, cab, kw, plain) in xb[90:110] + [x for x in xb if x[0].startswith("run-across")]:
        out.append(([f"file x.cab {cab.hex()}", "new cab", "open i0 x.cab", "extract i0 h0 0 o", "close i0 h0", "destroy i0"], dict(family="mszip.cross-block", label=label)))
        out.append(([f"file f.kwj {kw.hex()}", "new kwaj", "open i0 f.kwj", "extract i0 h0 - o", "close i0 h0", "destroy i0"], dict(family="kwaj.mszip-cross-block", label=label)))
    # well-formed LZX / Quantum folders whose compressed stream has its trailing zero byte left off (odd length, shorter
    # than the input buffer): the reader's padding, not stale buffer contents, must complete the last word
    for comp in (3, 2):
        for _ in range(6):
            try:
                case = S.vgen_case(rng, "cab", "small", comp=comp, folders=1, parts=1, embed=False)
            except Exception:
                continue
            nm = case["meta"]["order"][0]; cabb = bytearray(case["files"][nm])
            import struct as _st
            # the last CFDATA block: walk the blocks of folder 0
            try:
                flags = _st.unpack_from("<H", cabb, 30)[0]
                if flags: continue
                coff, nblk = _st.unpack_from("<IH", cabb, 36)
                p = coff
                for _b in range(nblk - 1): p += 8 + _st.unpack_from("<H", cabb, p + 4)[0]
                csz = _st.unpack_from("<H", cabb, p + 4)[0]
                if p + 8 + csz != len(cabb) or csz < 3 or cabb[-1] != 0: continue
                cabb = cabb[:-1]; _st.pack_into("<H", cabb, p + 4, csz - 1); _st.pack_into("<I", cabb, p, 0); _st.pack_into("<I", cabb, 8, len(cabb))
            except Exception:
                continue
            c2 = dict(case, files={nm: bytes(cabb)})
            out.append((S.file_lines(c2) + S.generic_ops(c2, [("DECOMPBUF", 4096)]), dict(family="cab.trailing-zero-dropped", comp=comp)))
    # a member declared longer than what its folder's data blocks hold (the declared end still inside
    # num_blocks * 32768, so extract()'s up-front test lets it through): the decoder runs out of blocks
    # in the middle of the member; whatever it then hands to write() must not come from fresh memory
    import zlib
    for comp in (0, 1):
        for blocks in ((20,), (50, 7), (32768, 100)):
            datas = [bytes(rng.choice(b"abcdef") for _ in range(n)) for n in blocks]
            if comp == 1:
                def ck(d):
                    co = zlib.compressobj(9, zlib.DEFLATED, -15); return b"CK" + co.compress(d) + co.flush()
                payloads = [(ck(d), len(d)) for d in datas]
            else:
                payloads = [(d, len(d)) for d in datas]
            have = sum(blocks)
            for extra in (1, 13, 5000):
                files = [dict(name=b"a.bin", length=have + extra, offset=0, folder=0)]
                if have > 10: files.append(dict(name=b"b.bin", length=extra + 10, offset=have - 10, folder=0))
                try:
                    cab, _ = minicab.build([(comp, payloads)], files)
                except Exception:
                    continue
                for salv in (0, 1):
                    out.append(([f"file x.cab {cab.hex()}", "new cab", f"param i0 SALVAGE {salv}", "param i0 DECOMPBUF 64", "open i0 x.cab"] +
                                [f"extract i0 h0 {k} o{k}" for k in range(len(files))] + ["close i0 h0", "destroy i0"],
                                dict(family="cab.member-beyond-blocks", comp=comp, salvage=salv)))
    return out

def generate(ctx):
    return []

def results(blocks):
    out = []
    for b in blocks or []:
        w = b[0].split(" ", 1)[0]
        if w in C.OPWORDS and w != "end":
            d = C.kv(b[0].split(" edges=")[0])
            out.append((w, d.get("st"), d.get("err"), d.get("out"), d.get("written"), tuple(l for l in b[1:] if not l.startswith(("MONITOR", "ev ")))))
        elif w in ("CRASH", "TIMEOUT"):
            out.append((w, b[0][:120]))
    return out

def custom_run(ctx, res, cw):
    rng = ctx.rng
    viol, mism = [], []
    pre = list(cw.paths)
    base = []
    if pre:
        for p in pre:
            lines = [l for l in open(p).read().splitlines() if not l.startswith("fill ")]
            cw.meta[p].setdefault("family", "replay")
            base.append((lines, cw.meta[p]))
    if not any(cw.meta[p].get("replay") for p in pre):
        base += directed(rng)
        n = 40 if ctx.tier == "quick" else 2000
        for case in S.valid_cases(rng, n, avoid_defects=True):
            variants = [(case["files"], "valid")] + S.malform(rng, case, 2 if ctx.tier == "quick" else 5)
            for files, how in variants:
                c2 = dict(case, files=files)
                params = [("SALVAGE", rng.choice([0, 1])), ("FIXMSZIP", rng.choice([0, 1]))] if case["kind"] == "cab" else []
                base.append((S.file_lines(c2) + S.generic_ops(c2, params), dict(family=case["kind"] + "." + ("valid" if how == "valid" else "malformed"), how=how)))
    groups = []
    for lines, meta in base:
        ps = [cw.add([f"fill {f}"] + lines, dict(meta, fill=f)) for f in FILLS]
        groups.append((ps, meta))
    allp = [p for ps, _ in groups for p in ps]
    out = C.run_tool(os.path.join(ctx.hdir, "apiharness"), allp)
    mout = C.run_tool(C.DRIVER, allp)
    msan = os.path.join(ctx.hdir, "apiharness-msan")
    mspaths = [ps[1] for ps, _ in groups]
    msout = C.run_tool(msan, mspaths) if os.path.exists(msan) else {}
    for ps, meta in groups:
        res.cov["evaluations"] += len(ps)
        rs = [results(out.get(p)) for p in ps]
        for k in range(1, len(ps)):
            if rs[k] != rs[0]:
                j = next((i for i, (a, b) in enumerate(zip(rs[0], rs[k])) if a != b), -1)
                viol.append((ps[k], cw.meta[ps[k]], Finding("violation", f"{meta['family']}: result depends on the contents of fresh memory: fill {FILLS[0]} gives {str(rs[0][j])[:160] if j >= 0 else len(rs[0])}, "
                                                                            f"fill {FILLS[k]} gives {str(rs[k][j])[:160] if j >= 0 else len(rs[k])}")))
                break
        mb = msout.get(ps[1])
        if mb is not None:
            for b in mb:
                for l in b:
                    if l.startswith("MONITOR uninit") or (l.startswith("CRASH") and "msan" in l):
                        viol.append((ps[1], cw.meta[ps[1]], Finding("violation", f"{meta['family']}: MemorySanitizer: {l[:200]}")))
                        break
        for p in ps:
            mb2 = mout.get(p)
            if mb2 is None or any("unsupported" in b[0] or "FAULT" in b[0] for b in mb2): continue
            res.cov["traces_validated_against_impl"] += 1
            pi = [(r[0], r[1], r[3]) for r in results(out.get(p)) if len(r) > 3 and r[0] in ("open", "extract", "decompress")]
            pm = [(r[0], r[1], r[3]) for r in results(mb2) if len(r) > 3 and r[0] in ("open", "extract", "decompress")]
            if pi != pm and not any(r[0] in ("CRASH", "TIMEOUT") for r in results(out.get(p))):
                mism.append((p, cw.meta[p], Finding("mismatch", f"{meta['family']} fill {cw.meta[p]['fill']}: impl={pi[:4]} model={pm[:4]}")))
    res.cov["distinct_nontrivial"] = len(groups)
    res.cov["input_distribution"] = {"groups": len(groups), "fills": FILLS, "msan_runs": len(mspaths)}
    return viol, mism

def classify(ctx, meta, finding):
    fam = meta.get("family", "")
    if fam.startswith("mszip.match-before-start"): return "D3a"
    if fam.startswith("qtm.match-before-start"): return "D3b"
    if fam.startswith("kwaj.lzh"): return "D4"
    return None
