"""C14 — search() finds every embedded cabinet, at any offset, with any buffer size.

Theorems: Proofs/Props/C14.lean on the model of cabd_find (MsPack/Cab/Find.lean).
Correspondence: cab.search — model vs implementation on the whole search() result (offsets and
listings).  Oracle on the implementation: every planted cabinet that does not lie inside the
declared length of a cabinet found before it is reported at its true offset with the listing
open() gives for it alone, its members extract to the planted bytes, and nothing else is reported
unless it parses as a cabinet there (fakes never do)."""
import struct
from lib import common as C, minicab
from lib.pipeline import Finding
from lib.util import digest
from checks import scenarios

PROP = "C14"
LEVEL = "proof"
THEOREMS = {"Proofs.Props.C14": ["MsPack.Cab.C14_chunk_independent", "MsPack.Cab.C14_never_hangs",
                                 "MsPack.Cab.C14_sound", "MsPack.Cab.C14_finds_planted"],
            "Proofs.Props.C14Multi": ["MsPack.Cab.C14_finds_all_planted", "MsPack.Cab.C14_finds_all_planted_rec", "MsPack.Cab.C14_two_planted"]}
ASSUMPTIONS = ["fault-free host (read/seek never fail) in the theorems; host failures are C10's subject",
               "model of cabd_find/cabd_read_headers validated by differential execution"]
RULE = ("cab.search: files = filler drawn from an alphabet rich in M,S,C,F (incl. partial signatures directly before a cabinet and fake 20-byte headers) "
        "with 1-4 small well-formed cabinets (stored/MSZIP) planted at arbitrary offsets; SEARCHBUF in {4,5,7,19,20,21,64,32768}; "
        "non-trivial = at least one planted cabinet; distinct by file hash + buffer size")

BUFS = [4, 5, 7, 19, 20, 21, 64, 32768]

def filler(rng, n, kind):
    if kind == 0: return bytes(rng.choice(b"MSCF\x00\x01ab") for _ in range(n))
    if kind == 1: return bytes(rng.randrange(256) for _ in range(n))
    if kind == 2:
        b = bytearray(rng.choice(b"xyz\x00") for _ in range(n))
        # fake headers: MSCF + plausible length fields
        for _ in range(max(1, n // 40)):
            if n >= 24:
                o = rng.randrange(0, n - 23)
                b[o:o + 4] = b"MSCF"
                struct.pack_into("<I", b, o + 8, rng.choice([100, 60, 2000]))
                struct.pack_into("<I", b, o + 16, rng.choice([44, 10, 0]))
        return bytes(b)
    return b"\x00" * n

def make_file(rng):
    """returns (bytes, planted[(offset, cab, members)])"""
    parts = []; planted = []; pos = 0
    ncabs = rng.randint(1, 4)
    for k in range(ncabs):
        n = rng.choice([0, 1, 2, 3, 5, 17, 40, 100])
        f = filler(rng, n, rng.randrange(4))
        tail = rng.choice([b"", b"", b"M", b"MS", b"MSC", b"MM", b"MSM", b"MSCM", b"MSCF"[:rng.randint(1, 3)]])
        f = f + tail
        parts.append(f); pos += len(f)
        cab, members, _ = scenarios.small_cab(rng, nblocks=rng.randint(1, 2))
        planted.append((pos, cab, members))
        parts.append(cab); pos += len(cab)
    parts.append(filler(rng, rng.choice([0, 3, 30]), rng.randrange(4)))
    return b"".join(parts), planted

def generate(ctx):
    rng = ctx.rng
    n = 60 if ctx.tier == "quick" else 1500
    # regression corpus first: the D8 shapes
    for pre in (b"M", b"MS", b"MSC", b"xM", b"MM"):
        cab, members, _ = scenarios.small_cab(rng, comp=0, nblocks=1)
        data = pre + cab
        yield from one_case(rng, data, [(len(pre), cab, members)], [4, 32768], fam="cab.search.presig")
    # a complete stray signature 4..19 bytes in front of a cabinet's own: the stray candidate's length fields overlap the real
    # header (nearly always implausible, or unreadable as a cabinet), and the scan has to resume 4 bytes behind the stray "MSCF"
    for d in range(4, 20):
        cab, members, _ = scenarios.small_cab(rng, comp=rng.choice([0, 1]), nblocks=1)
        lead = rng.choice([b"", b"zz", b"\x00" * 7])
        data = lead + b"MSCF" + bytes(rng.choice(b"xyz\x00\x01") for _ in range(d - 4)) + cab + rng.choice([b"", b"tail"])
        yield from one_case(rng, data, [(len(lead) + d, cab, members)], [rng.choice([4, 7, 21]), 32768], fam="cab.search.stray-sig")
    # a look-alike that passes the plausibility test and has non-zero counts, but whose header runs past the end of the
    # file, in front of real cabinets
    for variant in range(3):
        cab, members, _ = scenarios.small_cab(rng, comp=0, nblocks=1)
        fake = bytearray(b"MSCF" + bytes(32))
        struct.pack_into("<I", fake, 8, 5000); struct.pack_into("<I", fake, 16, 44)
        struct.pack_into("<HH", fake, 26, [65535, 3, 1][variant], 1)
        if variant == 1: struct.pack_into("<H", fake, 30, 4)             # reserve flag: the reserve sizes are then read
        data = bytes(fake[:[36, 36, 30][variant]]) + b"qq" + cab
        if variant == 2: data = cab + b"pad" + bytes(fake[:30])           # fewer than 36 bytes left in the file
        yield from one_case(rng, data, [((0 if variant == 2 else len(data) - len(cab)), cab, members)], [64, 32768], fam="cab.search.lookalike-eof")
    for i in range(n):
        data, planted = make_file(rng)
        bufs = rng.sample(BUFS, 2 if ctx.tier == "quick" else 4)
        yield from one_case(rng, data, planted, bufs)

def one_case(rng, data, planted, bufs, fam="cab.search"):
    for buf in bufs:
        lines = [f"file big.bin {data.hex()}"]
        for k, (off, cab, members) in enumerate(planted):
            lines.append(f"file alone{k}.cab {cab.hex()}")
        lines += ["new cab", f"param i0 SEARCHBUF {buf}", "search i0 big.bin"]
        # handles h0.. are the found cabinets; then open each planted cabinet alone for its listing
        lines += [f"open i0 alone{k}.cab" for k in range(len(planted))]
        lines += ["extract i0 h0 0 o0"]
        meta = dict(family=fam, buf=buf, planted=[(off, len(cab), [digest(m[1]) for m in members]) for (off, cab, members) in planted],
                    sig=f"{hash(data)}-{buf}", flen=len(data))
        yield lines, meta

def parse_search(blocks):
    """-> (head kv, [ (off, len, [file lines normalised]) ])"""
    for b in blocks or []:
        if b[0].startswith("search"):
            cabs = []
            for l in b[1:]:
                if l.startswith("cab "):
                    d = C.kv(l); cabs.append([int(d["off"]), int(d["len"]), [], l])
                elif l.startswith(("file ", "folder ")) and cabs:
                    cabs[-1][2].append(l)
            return C.kv(b[0]), cabs
    return None, []

def parse_opens(blocks):
    res = []
    for b in blocks or []:
        if b[0].startswith("open"):
            res.append([l for l in b[1:] if l.startswith(("file ", "folder "))])
    return res

def judge(ctx, meta, impl, model):
    fs = []
    crash = [b[0] for b in impl if b[0].startswith(("CRASH", "TIMEOUT"))]
    if crash:
        return [Finding("violation" if crash[0].startswith("TIMEOUT") else "mismatch", "implementation: " + crash[0])]
    head, found = parse_search(impl)
    if head is None:
        return [Finding("mismatch", "no search result line")]
    opens = parse_opens(impl)
    # oracle: expected set = planted cabinets not covered by an earlier *found* cabinet
    covered_until = 0
    found_by_off = {c[0]: c for c in found}
    for k, (off, ln, digs) in enumerate(meta["planted"]):
        inside = any(c[0] < off < c[0] + c[1] for c in found if c[0] < off)
        if inside: continue
        if off not in found_by_off:
            fs.append(Finding("violation", f"cabinet planted at offset {off} (length {ln}) not found by search() with SEARCHBUF={meta['buf']}; found offsets {[c[0] for c in found]}"))
        elif k < len(opens) and found_by_off[off][2] != opens[k]:
            fs.append(Finding("violation", f"cabinet at {off}: listing from search() differs from open() alone"))
    planted_offs = {p[0] for p in meta["planted"]}
    for c in found:
        if c[0] not in planted_offs:
            fs.append(Finding("violation", f"search() reports a cabinet at offset {c[0]} where none was planted (planted: {sorted(planted_offs)})"))
    # members of the first cabinet extract to the planted bytes
    for b in impl:
        if b[0].startswith("extract "):
            e = C.kv(b[0])
            first = min(meta["planted"], key=lambda p: p[0])
            if meta.get("noextract"): continue
            if (not found or found[0][0] == first[0]) and (e.get("st") != "0" or e.get("out") != first[2][0]):
                fs.append(Finding("violation", f"first member of the cabinet at {first[0]} extracts to {e.get('out')} st={e.get('st')}, planted {first[2][0]}"))
    # correspondence
    if model is not None:
        mh, mfound = parse_search(model)
        pi = [(c[0], c[1], c[2]) for c in found]
        pm = [(c[0], c[1], c[2]) for c in mfound]
        if pi != pm:
            fs.append(Finding("mismatch", f"search results differ: impl offsets {[c[0] for c in found]} model offsets {[c[0] for c in mfound]}"))
    return fs

def classify(ctx, meta, finding):
    return None

def replay_meta(lines):
    """rebuild the oracle's expectations from a bare case file"""
    files = {}
    buf = 32768
    for l in lines:
        t = l.split(" ")
        if t[0] == "file": files[t[1]] = bytes.fromhex(t[2]) if t[2] != "-" else b""
        if t[0] == "param" and t[2] == "SEARCHBUF": buf = int(t[3])
    big = files.get("big.bin", b"")
    planted = []; pos = 0; k = 0
    while f"alone{k}.cab" in files:
        cab = files[f"alone{k}.cab"]
        off = big.find(cab, pos)
        if off >= 0:
            planted.append((off, len(cab), [None])); pos = off + len(cab)
        k += 1
    return dict(family="cab.search.replay", buf=buf, planted=planted, flen=len(big), noextract=True)
