"""C06 — OAB files and incremental patches decompress to the exact target.

Theorems: Proofs/Props/C06.lean on the model of oabd.c (lean/MsPack/Oab/Decompress.lean): full files
(C06_full_roundtrip, C06_stored_roundtrip) and patches (C06_patch_roundtrip) decompress to exactly
the blocks' data for every block list / block_max / DECOMPBUF / trailing bytes, LZX blocks under
their decoder law; the window-size rule (C06_window_bits); CRC accumulation over pieces
(crc32_append).
Correspondence + plan oracle: generated well-formed full files and patch/base pairs (stored and LZX
DELTA blocks, reference-data matches, extra-length matches, padding, block partitions) under many
DECOMPBUF values: the implementation must return OK with exactly the planned bytes, and the model
must agree with the implementation on status, bytes written and output."""
import os
from lib import common as C
from lib.pipeline import Finding
from lib.util import digest
from checks import scenarios as S

PROP = "C06"
LEVEL = "proof"
THEOREMS = {"Proofs.Props.C06": ["MsPack.Oab.C06_full_roundtrip", "MsPack.Oab.C06_stored_roundtrip", "MsPack.Oab.C06_patch_roundtrip",
                                 "MsPack.Oab.C06_window_bits", "MsPack.Oab.copyFh_spec"],
            "MsPack.Oab.Crc32": ["MsPack.Oab.crc32_append"]}
ASSUMPTIONS = ["the LZX DELTA decoder's correctness on a block (LzxLaw / PatchLaw: init succeeds, the block's data comes out, input ends after the payload, CRC matches) is a hypothesis of the round-trip theorems for LZX blocks; it is validated by running lzxd.c and the Lean LZX model on generated DELTA streams, not proved",
               "host without faults (C09/C10 cover failures)"]
RULE = ("oab.full / oab.patch: random plans from gen/vgen/oab.py (1-5 blocks, stored or LZX DELTA from random token streams incl. matches into reference data and extra-length matches, padding after LZX data, "
        "block_max slack), each run with 2-3 DECOMPBUF values from {16,17,18,33,64,100,4096,4097,65536}; non-trivial = at least one LZX block; distinct by file bytes + DECOMPBUF")

# (oab.directed: see directed())
BUFS = [16, 17, 18, 33, 64, 100, 4096, 4097, 65536]

def directed(rng, tier):
    """size relations the random plans rarely hit:
    * an LZX block that fills its window exactly (size 2^17, 2^18) and ends in a match;
    * patch blocks where rounding the source size up to 32 KiB moves source+target across a power of two
      (the window size - hence the number of main-tree symbols - must be derived from the rounded sum)."""
    from vgen import oab, lzx, lz
    FRAME = 32768
    def block(n, ref, kind="verbatim", runs=True):
        wb = oab.window_bits(((len(ref) + 32767) & ~32767) + n if ref else n)
        unit = bytes(rng.choice(b"abcdefghijklmnop ") for _ in range(rng.choice([700, 1500])))
        data = (unit * (n // len(unit) + 1))[:n]
        if len(ref) >= 4096:
            # the target starts with a piece of the START of the source: a match at (nearly) the largest distance the
            # window allows, i.e. in the highest position slots - a decoder that sized the window smaller cannot follow
            data = (ref[:2000] + data)[:n]
        toks = lz.greedy_tokens(data, lzx.max_offset(wb), 2, 32768, frame=FRAME, ref=ref, rng=rng)
        assert toks[-1][0] == "M"
        frames, total, info = lzx.lzx_frames(toks, wb, delta=True, ref=ref, blocks=[(kind, n)], rng=rng, runs=runs)
        return data, b"".join(frames)
    for n in ([1 << 17] if tier == "quick" else [1 << 17, 1 << 18, 1 << 17]):
        kind = rng.choice(["verbatim", "aligned"])
        data, payload = block(n, b"", kind)
        f = oab.full_file([{"data": data, "payload": payload, "lzx": True}])
        yield {"kind": "oab", "files": {"full.oab": f}, "members": [{"name": b"out", "data": data}],
               "meta": {"order": ["full.oab"], "blocks": [{"lzx_blocks": [kind]}], "directed": f"block-fills-window-2^{n.bit_length() - 1}"}}
        ref = b""
        data, payload = block(n, ref, kind)
        f = oab.patch_file([{"data": data, "payload": payload, "source_size": 0}], 0)
        yield {"kind": "oab", "files": {"patch.oab": f, "base.oab": b""}, "members": [{"name": b"out", "data": data}],
               "meta": {"order": ["patch.oab", "base.oab"], "blocks": [{"lzx_blocks": [kind]}], "directed": f"patch-block-fills-window-2^{n.bit_length() - 1}"}}
    for (ss, ds) in ([(70000, 50000), (200000, 40000)] if tier == "quick" else [(70000, 50000), (200000, 40000), (32769, 98300), (1, 131071), (140000, 110000)]):
        ref = bytes(rng.randrange(256) for _ in range(ss))
        # with and without pretree run symbols: without them every code length is sent on its own, so a decoder that
        # derives a different number of position slots from the sizes loses its place in the tree description at once
        for runs in (True, False):
            data, payload = block(ds, ref, runs=runs)
            f = oab.patch_file([{"data": data, "payload": payload, "source_size": ss}], ss)
            yield {"kind": "oab", "files": {"patch.oab": f, "base.oab": ref}, "members": [{"name": b"out", "data": data}],
                   "meta": {"order": ["patch.oab", "base.oab"], "blocks": [{"lzx_blocks": ["verbatim"]}], "directed": f"window-straddle-{ss}+{ds}-runs{int(runs)}"}}

def generate(ctx):
    rng = ctx.rng
    odd = [(c, rng.choice([16, 16, 18, 4096])) for c in S.oab_odd_uncompressed_cases(rng, 12 if ctx.tier == "quick" else 200)]
    for case, b in [(c, rng.choice(BUFS)) for c in directed(rng, ctx.tier)] + odd:
        order = case["meta"]["order"]; inc = len(order) > 1
        lines = S.file_lines(case) + ["new oab", f"param i0 DECOMPBUF {b}",
                                      f"decompressinc i0 {order[0]} {order[1]} out0" if inc else f"decompress i0 {order[0]} out0", "destroy i0"]
        yield lines, dict(family="oab.directed", bufs=[b], plan=dict(directed=case["meta"]["directed"]), want=digest(case["members"][0]["data"]), nontrivial=True)
    n = 40 if ctx.tier == "quick" else 1500
    k = 0
    while k < n:
        size = rng.choice(["small", "small", "small", "medium"] if ctx.tier == "quick" else ["small", "small", "medium", "medium", "large"])
        try:
            case = S.vgen_case(rng, "oab", size, patch=(k % 2 == 1))
        except Exception:
            continue
        k += 1
        order = case["meta"]["order"]
        inc = len(order) > 1
        bufs = rng.sample(BUFS, 2) + ([None] if rng.random() < 0.5 else [])
        lines = S.file_lines(case)
        for j, b in enumerate(bufs):
            lines += ["new oab"] + ([f"param i{j} DECOMPBUF {b}"] if b else [])
            lines += [f"decompressinc i{j} {order[0]} {order[1]} out{j}" if inc else f"decompress i{j} {order[0]} out{j}", f"destroy i{j}"]
        yield lines, dict(family="oab.patch" if inc else "oab.full", bufs=bufs, plan=S.short_meta(case), want=digest(case["members"][0]["data"]),
                          nontrivial=any(not m.get("stored") for m in case["meta"]["blocks"]))

def calls(blocks):
    return [C.kv(b[0]) for b in blocks or [] if b[0].startswith(("decompress ", "decompressinc "))]

def judge(ctx, meta, impl, model):
    fs = []
    crash = [b[0] for b in impl if b[0].startswith(("CRASH", "TIMEOUT"))]
    if crash: return [Finding("violation", f"{meta['family']}: implementation {crash[0][:200]}")]
    for b, d in zip(meta["bufs"], calls(impl)):
        if d.get("st") != "0" or d.get("out") != meta["want"]:
            fs.append(Finding("violation", f"{meta['family']} DECOMPBUF={b or 'default'}: st={d.get('st')} out={d.get('out')} planned {meta['want']}"))
            break
    if model is not None and not any("unsupported" in b[0] or "FAULT" in b[0] for b in model):
        pi = [(d.get("st"), d.get("written"), d.get("out")) for d in calls(impl)]
        pm = [(d.get("st"), d.get("written"), d.get("out")) for d in calls(model)]
        if pi != pm:
            fs.append(Finding("mismatch", f"model and implementation differ: impl={pi[:3]} model={pm[:3]}"))
    return fs

def classify(ctx, meta, finding):
    return None
