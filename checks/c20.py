"""C20 — the caller's mspack_system is used exactly as documented.

Theorems: Proofs/Props/C20.lean (the call-site inventory regenerated from today's sources: every
mspack_system::open in the library passes a caller-supplied filename and a fixed mode —
MSPACK_SYS_OPEN_READ for archives, patches and bases, MSPACK_SYS_OPEN_WRITE for outputs).
Fault enumeration on the implementation: every callback invocation of every scenario (with and
without injected failures) is checked by the instrumented system: handle liveness, open modes per
file role, filename identity, seek modes, non-negative sizes, buffers inside their allocation,
non-overlapping copy, free of NULL or live pointers only."""
import os
from lib import common as C
from lib.pipeline import Finding
from checks import faults as F, scenarios as S

PROP = "C20"
LEVEL = "proof"
THEOREMS = {"Proofs.Props.C20": ["MsPack.C20.open_call_sites", "MsPack.C20.open_modes_fixed"],
            "Proofs.Props.C09": ["MsPack.Szdd.C09_szdd_ledger_restored"],
            "Proofs.Props.C09Kwaj": ["MsPack.Kwaj.C09_kwaj_ledger_restored"],
            "Proofs.Props.C09Oab": ["MsPack.Oab.C09_oab_ledger_restored"],
            "Proofs.Props.C09Chm": ["MsPack.Chm.C09_chm_ledger_restored"], "Proofs.Props.C09Cab": ["MsPack.Cab.C09_cab_ledger_restored"]}
ASSUMPTIONS = ["the theorem is about the syntactic inventory of open() call sites; all other clauses are checked dynamically by the instrumented system on enumerated scenarios and fault points",
               "buffer checks see heap allocations made through alloc(); stack buffers are covered by AddressSanitizer"]
RULE = ("scenarios and single-fault variants as in C09 (all five formats; well-formed and malformed archives); every callback invocation is checked; non-trivial = a run that made at least one callback; "
        "distinct by scenario + fault point")

def generate(ctx):
    return []

def judge_run(meta, blocks):
    fs = []
    for b in blocks:
        for l in b:
            if l.startswith("MONITOR") and "uninit" not in l:
                fs.append(Finding("violation", f"{meta['family']} fault={meta.get('fault')}: {l}"))
        if b[0].startswith("CRASH"):
            fs.append(Finding("mismatch", f"{meta['family']} fault={meta.get('fault')}: {b[0][:200]} (memory safety is C02's subject)"))
    return fs

def custom_run(ctx, res, cw):
    viol, mism = [], []
    pre = list(cw.paths)
    if pre:
        out = C.run_tool(os.path.join(ctx.hdir, "apiharness"), pre)
        for p in pre:
            cw.meta[p].setdefault("family", "replay")
            res.cov["evaluations"] += 1
            for f in judge_run(cw.meta[p], out.get(p, [])): (viol if f.kind == "violation" else mism).append((p, cw.meta[p], f))
        if any(cw.meta[p].get("replay") for p in pre): return viol, mism
    n = 25 if ctx.tier == "quick" else 150
    base = F.scenarios(ctx, n, malformed_share=0.5)
    # directed: a stored folder whose first block claims to continue in a next cabinet that is not there
    # (the reader closes its handle and fails; a later extract from the same folder must not read from NULL)
    from lib import minicab
    for comp in (0, 1):
        from checks.scenarios import mszip_block
        d1, d2 = b"first-block-data", b"second-block-data!"
        blocks = [((d1 if comp == 0 else mszip_block(d1)), 0), ((d2 if comp == 0 else mszip_block(d2)), len(d2))]
        files = [dict(name=b"a.bin", length=8, offset=0, folder=0), dict(name=b"b.bin", length=8, offset=8, folder=0)]
        cab, _ = minicab.build([(comp, blocks)], files)
        for params in ([], ["param i0 FIXMSZIP 1"], ["param i0 SALVAGE 1"]):
            base.append(([f"file x.cab {cab.hex()}", "new cab"] + params + ["open i0 x.cab", "extract i0 h0 0 o0", "extract i0 h0 1 o1", "extract i0 h0 1 o2",
                          "close i0 h0", "destroy i0"], dict(family="cab.missing-continuation", how="directed", kind="cab")))
    # MSZIP blocks opening with matches into the previous block (copy() arguments when a decoder copies through the host)
    xb = list(S.mszip_cross_block_cases(ctx.rng))
    for (label, cab, kw, plain) in (xb[66:90] if ctx.tier == "quick" else xb):
        base.append(([f"file x.cab {cab.hex()}", "new cab", "open i0 x.cab", "extract i0 h0 0 o0", "close i0 h0", "destroy i0"],
                     dict(family="mszip.cross-block", how="directed", kind="cab", nofaults=True)))
    bpaths = [cw.add(["edges on"] + lines, meta) for lines, meta in base]
    prof = F.profile(ctx, bpaths)
    ncalls = 0
    for p in bpaths:
        tot, blocks = prof.get(p, ({}, []))
        ncalls += sum(tot.values())
        res.cov["evaluations"] += 1
        for f in judge_run(cw.meta[p], blocks): (viol if f.kind == "violation" else mism).append((p, cw.meta[p], f))
        lines = [l for l in open(p).read().splitlines() if l != "edges on"]
        if cw.meta[p].get("nofaults"): continue
        for (kind, k, mode) in F.fault_points(ctx, tot, per_kind_quick=2, exhaustive=cw.meta[p].get("exhaustive", False)):
            fl = f"fault {kind} {k}" + (f" {mode}" if mode else "")
            cw.add([fl] + lines, dict(cw.meta[p], fault=fl))
    fpaths = [p for p in cw.paths if p not in set(bpaths) and p not in set(pre)]
    out = C.run_tool(os.path.join(ctx.hdir, "apiharness"), fpaths)
    for p in fpaths:
        res.cov["evaluations"] += 1
        for f in judge_run(cw.meta[p], out.get(p, [])): (viol if f.kind == "violation" else mism).append((p, cw.meta[p], f))
    res.cov["distinct_nontrivial"] = len(cw.paths)
    res.cov["input_distribution"] = {"scenarios": len(bpaths), "fault_runs": len(fpaths), "callbacks_checked_fault_free": ncalls}
    return viol, mism

def classify(ctx, meta, finding):
    return None
