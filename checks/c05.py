"""C05 — SZDD and KWAJ headers are reported and payloads expanded exactly.

Models: MsPack/Szdd, MsPack/Kwaj (headers, LZH), MsPack/Lzss, MsPack/Zip/Kwaj.
Correspondence: szdd.plan / kwaj.plan (generated well-formed files: both SZDD variants, all five
KWAJ methods, all 64 header-flag combinations, all four LZH length encodings) and the shipped
kwajd fixtures: model vs implementation on header dump and bytes; the implementation vs the plan."""
import glob, os
from lib import common as C
from lib.pipeline import Finding
from lib.util import digest
from checks import scenarios as S

PROP = "C05"
LEVEL = "proof"
THEOREMS = {"Proofs.Props.C05": ["MsPack.Lzss.C05_lzss_roundtrip", "MsPack.Szdd.C05_szdd_roundtrip", "MsPack.Szdd.C05_szdd_qbasic_roundtrip"],
            "Proofs.Props.C05Kwaj": ["MsPack.Kwaj.C05_kwaj_plain_roundtrip", "MsPack.Kwaj.readHeaders_spec"],
            "Proofs.Props.C05Lzh": ["MsPack.Kwaj.Lzh.C05_lzh_flat_roundtrip", "MsPack.Kwaj.Lzh.C05_lzh_type3_flatlens_roundtrip_partial", "MsPack.Kwaj.C05_kwaj_lzh_roundtrip"],
            "Proofs.Props.Tables": ["MsPack.TableObligations.szdd_signatures"]}
ASSUMPTIONS = ["theorems: the LZSS round trip (every token list, every input buffer size, both ring start positions) and the SZDD file round trip (header values + payload) on the models of lzssd.c / szddd.c; "
               "KWAJ: header round trip for all 16 combinations of the optional length / unknown / extra-text parts and the stored and xor payload round trips are theorems (C05_kwaj_plain_roundtrip); the name/extension fields and the LZH / MSZIP payloads are not: covered by model/implementation agreement and the plan oracle",
               "models validated against the C by differential execution (7000+ cases incl. malformed, by the modeller's difftest; re-run here on fresh cases)"]
RULE = ("szdd.plan, kwaj.plan: random plans from gen/vgen (LZSS token streams incl. matches into the pre-filled ring and across the ring wrap; KWAJ methods none/xor/LZSS/LZH/MSZIP; "
        "every combination of optional header fields; LZH length encodings 0-3 per tree); fixtures libmspack/test/test_files/kwajd/*.kwj; non-trivial = payload of at least one byte; distinct by file bytes")

def spec_lzss_cases(ctx):
    """the LZSS *specification* of the C05 theorem (Lean `Lzss.encode` / `Lzss.expand`, run by the driver as
    `prim lzssenc`) against the real lzss_decompress: random token lists -> spec bytes -> the implementation must
    return OK and write exactly the spec's expansion"""
    import subprocess, tempfile
    rng = ctx.rng
    n = 60 if ctx.tier == "quick" else 1500
    reqs = []
    for _ in range(n):
        k = rng.choice([0, 1, 7, 8, 9, 16, 17, 40, 300])
        toks = []
        for _ in range(k):
            if rng.random() < 0.5: toks.append("L%02x" % rng.randrange(256))
            else: toks.append("M%d:%d" % (rng.choice([rng.randrange(4096), 4078, 4080, 4095, 0]), rng.randrange(3, 19)))
        reqs.append((rng.choice([0, 2]), toks))
    with tempfile.NamedTemporaryFile("w", suffix=".case", dir=C.BUILD, delete=False) as tf:
        tf.write("\n".join("prim lzssenc %d %s" % (m, " ".join(t)) for m, t in reqs) + "\n"); tp = tf.name
    try:
        out = [l for l in subprocess.run([C.DRIVER, tp], capture_output=True, text=True).stdout.splitlines() if l.startswith("prim lzssenc")]
    finally:
        os.unlink(tp)
    if len(out) != len(reqs) or any("bad-args" in l for l in out):
        C.log(f"C05: driver answered {len(out)} of {len(reqs)} prim lzssenc requests"); return
    lines = []; want = []
    for (m, _), l in zip(reqs, out):
        _, _, hx, dg = l.split(" ")
        lines.append(f"prim lzss {m} {'-' if hx in ('=', '-') else hx}"); want.append(dg)
    yield lines, dict(family="lzss.spec", want=want, nontrivial=True, sig="lzss.spec-%d" % ctx.seed)

def spec_kwaj_cases(ctx):
    """the KWAJ *specification* of C05_kwaj_plain_roundtrip (Lean `Kwaj.encodeKwaj`, run by the driver as `prim enckwaj`)
    against the real kwajd: random specifications (both methods, all 16 combinations of optional parts, empty and
    long blobs) -> spec bytes -> open() must report exactly the specified fields and extract() the data"""
    import subprocess, tempfile
    rng = ctx.rng
    n = 48 if ctx.tier == "quick" else 1200
    specs = []
    rb = lambda k: bytes(rng.randrange(256) for _ in range(k))
    for i in range(n):
        combo = i % 16
        length = rng.choice([0, 1, 5, 0xFFFFFFFF, rng.randrange(1 << 32)]) if combo & 1 else None
        unk1 = rng.randrange(65536) if combo & 2 else None
        unk2 = rb(rng.choice([0, 1, 2, 30])) if combo & 4 else None
        extra = rb(rng.choice([0, 1, 17, 300])) if combo & 8 else None
        data = rb(rng.choice([0, 1, 2, 100, 5000]))
        specs.append((rng.randrange(2), length, unk1, unk2, extra, data))
    hx = lambda b: "-" if b is None else ("=" if not b else b.hex())
    nn = lambda v: "-" if v is None else str(v)
    with tempfile.NamedTemporaryFile("w", suffix=".case", dir=C.BUILD, delete=False) as tf:
        tf.write("\n".join(f"prim enckwaj {x} {nn(l)} {nn(u1)} {hx(u2)} {hx(ex)} {d.hex() or '='}" for x, l, u1, u2, ex, d in specs) + "\n"); tp = tf.name
    try:
        out = [l for l in subprocess.run([C.DRIVER, tp], capture_output=True, text=True).stdout.splitlines() if l.startswith("prim enckwaj")]
    finally:
        os.unlink(tp)
    if len(out) != len(specs) or any("bad-args" in l for l in out):
        C.log(f"C05: driver answered {len(out)} of {len(specs)} prim enckwaj requests"); return
    for (x, l, u1, u2, ex, d), line in zip(specs, out):
        f = line.split(" ")[2]
        off = 14 + (4 if l is not None else 0) + (2 if u1 is not None else 0) + (2 + len(u2) if u2 is not None else 0) + (2 + len(ex) if ex is not None else 0)
        flags = (1 if l is not None else 0) | (2 if u1 is not None else 0) | (4 if u2 is not None else 0) | (0x20 if ex is not None else 0)
        yield [f"file f.kwj {f}", "new kwaj", "open i0 f.kwj", "extract i0 h0 - out", "close i0 h0", "destroy i0"], \
              dict(family="kwaj.spec", expect=digest(d), hdr=dict(comp=x, dataoff=off, length=l or 0, flags="0x%x" % flags, extra=ex, name=None),
                   nontrivial=True, plan=dict(method=x, parts=flags))

def cross_block_and_wrap(ctx):
    from vgen import szdd, kwaj, lz
    rng = ctx.rng
    cases = list(S.mszip_cross_block_cases(rng))
    if ctx.tier == "quick": cases = cases[36:66]
    for (label, cab, kw, plain) in cases:
        yield [f"file f.kwj {kw.hex()}", "new kwaj", "open i0 f.kwj", "extract i0 h0 - out", "close i0 h0", "destroy i0"], \
              dict(family="kwaj.mszip-cross-block.plan", label=label, expect=digest(plain), hdr={}, nontrivial=True)
    RING = b"\x20" * 4096
    for (label, pre, group, after, start) in S.lzss_wrap_group_cases(rng):
        toks = []; pos = start
        for t in pre + group + after:
            if t[0] == "L": toks.append(t); pos = (pos + 1) % 4096
            elif t[0] == "M": toks.append(("M", 1, t[2])); pos = (pos + t[2]) % 4096
            else:
                d = (pos - t[1]) % 4096 or 4096
                toks.append(("M", d, t[2])); pos = (pos + t[2]) % 4096
        plain = lz.expand(toks, RING)
        variants = [("szdd", szdd.build(toks, False), "f.sz_")] if start == 4080 else \
                   [("szdd", szdd.build(toks, True), "f.sz_"), ("kwaj", kwaj.build(2, szdd.lzss_encode(toks, 4078), length=len(plain)), "f.kwj")]
        for kind, f, nm in variants:
            yield [f"file {nm} {f.hex()}", f"new {kind}", f"open i0 {nm}", "extract i0 h0 - out", "close i0 h0", "destroy i0"], \
                  dict(family=f"{kind}.wrap-group.plan", label=label, expect=digest(plain), hdr={}, nontrivial=True)

def generate(ctx):
    yield from spec_lzss_cases(ctx)
    yield from spec_kwaj_cases(ctx)
    yield from cross_block_and_wrap(ctx)
    yield from plan_cases(ctx)

def plan_cases(ctx):
    rng = ctx.rng
    n = 60 if ctx.tier == "quick" else 1500
    for k in range(n):
        kind = "szdd" if k % 3 == 0 else "kwaj"
        case = S.vgen_case(rng, kind, rng.choice(["small", "small", "medium"]))
        m = case["members"][0]
        ops = S.generic_ops(case)
        if k % 3 == 1:
            # other calls on the same decompressor fail between open() and extract(): the result must not change
            j = next(i for i, o in enumerate(ops) if o.startswith("extract"))
            ops = ops[:j] + ["open i0 no-such-file", "open i0 junk.bin", "extract i0 h0 - out", "open i0 junk.bin"] + ops[j:]
            ops = [o for i, o in enumerate(ops) if not (o == "extract i0 h0 - out" and i == j + 2)]    # keep one extract: the judged one, after the failures
            ops.insert(0, "file junk.bin 6e6f742061206b77616a206f7220737a64642066696c65")
        lines = S.file_lines(case) + ops
        yield lines, dict(family=kind + ".plan", expect=digest(m["data"]), hdr=case["meta"].get("expect"), plan=S.short_meta(case),
                          nontrivial=len(m["data"]) > 0)
    # directed: LZH streams cut as short as they can be (the decoder's end-of-input rule is applied
    # right after the last operation): every final-bit alignment, last operation a match or a literal run
    try:
        from vgen import kwaj, lz
        made = 0; tries = 0
        want_n = 60 if ctx.tier == "quick" else 1500
        while made < want_n and tries < want_n * 4:
            tries += 1
            nlit = rng.randint(1, 12)
            toks = [("L", rng.choice(b"abcdefgh")) for _ in range(nlit)]
            for _ in range(rng.randint(0, 3)):
                toks.append(("M", rng.randint(1, nlit), rng.randint(3, 17)))
                toks += [("L", rng.choice(b"xyz")) for _ in range(rng.randint(0, 2))]
            if rng.random() < 0.7:
                toks.append(("M", rng.randint(1, nlit), rng.randint(3, 17)))
            want = lz.expand(toks, kwaj.RING)
            try:
                data, info = kwaj.lzh_encode(toks, rng)
            except AssertionError:
                continue
            # shortest prefix that still decodes to the plan
            while len(data) > 1 and kwaj.lzh_decode(data[:-1]) == want:
                data = data[:-1]
            f = kwaj.build(3, data)
            made += 1
            yield [f"file f.kwj {f.hex()}", "new kwaj", "open i0 f.kwj", "extract i0 h0 - out", "close i0 h0", "destroy i0"], \
                  dict(family="kwaj.lzh-tight-tail", expect=digest(want), hdr=None, plan=dict(last="match" if toks[-1][0] == "M" else "literal", nbytes=len(data)),
                       nontrivial=True)
    except ImportError:
        pass
    fx = sorted(glob.glob(os.path.join(C.REPO, "libmspack/test/test_files/kwajd/*.kwj")))
    for p in fx:
        yield [f"fileref f.kwj {p}", "new kwaj", "open i0 f.kwj", "extract i0 h0 - out", "close i0 h0", "destroy i0"], \
              dict(family="kwaj.fixture", fixture=os.path.basename(p), sig=p)

def judge(ctx, meta, impl, model):
    fs = []
    crash = [b[0] for b in impl if b[0].startswith(("CRASH", "TIMEOUT"))]
    if crash and (meta["family"].endswith(".plan") or meta["family"] in ("kwaj.lzh-tight-tail", "kwaj.spec")):
        return [Finding("violation", "well-formed file: implementation " + crash[0])]
    if meta["family"] == "lzss.spec":
        if crash: return [Finding("violation", "spec-encoded LZSS stream: implementation " + crash[0])]
        got = [C.kv(b[0]) for b in impl if b[0].startswith("prim lzss")]
        for k, (g, w) in enumerate(zip(got, meta["want"])):
            if g.get("st") != "0" or g.get("out") != w:
                fs.append(Finding("violation", f"spec-encoded LZSS stream {k}: lzss_decompress gives st={g.get('st')} out={g.get('out')}, the specification's expansion is {w}"))
                break
        if len(got) != len(meta["want"]): fs.append(Finding("mismatch", f"{len(got)} results for {len(meta['want'])} streams"))
        if model is not None:
            pm = [b[0] for b in model if b[0].startswith("prim lzss")]; pi = [b[0].split(" edges=")[0] for b in impl if b[0].startswith("prim lzss")]
            if pm != pi: fs.append(Finding("mismatch", "model and implementation differ on spec-encoded LZSS streams"))
        return fs
    op = next((b for b in impl if b[0].startswith("open")), None)
    ex = next((C.kv(b[0]) for b in impl if b[0].startswith("extract ")), None)
    if meta["family"].endswith(".plan") or meta["family"] in ("kwaj.lzh-tight-tail", "kwaj.spec"):
        if op is None or " st=0" not in op[0]:
            fs.append(Finding("violation", f"well-formed {meta['family']} refused by open(): {op[0] if op else None}"))
        else:
            hdr = meta.get("hdr") or {}
            d = C.kv(op[1]) if len(op) > 1 else {}
            for k_plan, k_dump in (("format", "fmt"), ("fmt", "fmt"), ("length", "len"), ("comp_type", "comp"), ("comp", "comp"), ("data_offset", "dataoff"), ("dataoff", "dataoff"), ("flags", "flags")):
                if k_plan == "flags" and k_plan in hdr and k_dump in d:
                    if int(str(hdr[k_plan]), 0) != int(d[k_dump], 0):
                        fs.append(Finding("violation", f"header field flags: reported {d[k_dump]}, planned {hdr[k_plan]}"))
                elif k_plan in hdr and k_dump in d and str(hdr[k_plan]) != d[k_dump]:
                    fs.append(Finding("violation", f"header field {k_dump}: reported {d[k_dump]}, planned {hdr[k_plan]}"))
            for k_plan, k_dump in (("missing", "missing"), ("filename", "name"), ("name", "name"), ("extra", "extra")):
                if k_plan in hdr and k_dump in d:
                    want = hdr[k_plan]
                    if isinstance(want, (bytes, bytearray)): want = want.hex() if want else "="
                    elif want is None: want = "-"
                    elif isinstance(want, int): want = "%02x" % want
                    if str(want) != d[k_dump]:
                        fs.append(Finding("violation", f"header field {k_dump}: reported {d[k_dump]}, planned {want}"))
            if ex is None or ex.get("st") != "0" or ex.get("out") != meta["expect"]:
                fs.append(Finding("violation", f"payload: st={ex.get('st') if ex else None} out={ex.get('out') if ex else None} planned {meta['expect']}"))
    if model is not None:
        def proj(blocks):
            out = []
            for b in blocks:
                w = b[0].split(" ", 1)[0]
                if w == "open": out.append([b[0].split(" edges=")[0]] + b[1:])
                elif w == "extract":
                    e = C.kv(b[0]); out.append(("extract", e.get("st"), e.get("err"), e.get("out"), e.get("written")))
            return out
        if not any("unsupported" in b[0] for b in model):
            pi, pm = proj(impl), proj(model)
            if pi != pm:
                fs.append(Finding("mismatch", f"model and implementation differ: impl={str(pi)[:300]} model={str(pm)[:300]}"))
    return fs

def classify(ctx, meta, finding):
    return None
