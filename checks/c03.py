"""C03 — CHM listing and extraction reproduce every stored file exactly.

Theorems: Proofs/Props/C03.lean (ENCINT round trip on the model of read_encint).
Correspondence: chm.plan — generated well-formed CHMs (chunk sizes, densities, index depth, header
versions, both ControlData versions, reset-table variants, SpanInfo fallback, UTF-8 names, both
sections): model vs implementation on listing, fast_find and bytes; the implementation vs the plan."""
import glob, os
from lib import common as C
from lib.pipeline import Finding
from lib.util import digest
from checks import scenarios as S

PROP = "C03"
LEVEL = "proof"
THEOREMS = {"Proofs.Props.C03": ["MsPack.Chm.C03_encint_roundtrip"]}
ASSUMPTIONS = ["header/directory/LZX round trips are not theorems yet (only ENCINT is): covered by model/implementation agreement and by the plan oracle",
               "CHM with E8 translation beyond the first reset interval is a known finding (D12) and is generated only in the directed family"]
RULE = ("chm.plan: random plans from gen/vgen/chm.py; every listed file is extracted in listing order and again in reverse order (decoding restarts at reset points); "
        "non-trivial = at least one member with data in the compressed section; distinct by file bytes")

def plan_case(case, order, family="chm.plan"):
    nm = case["meta"]["order"][0]
    mem = case["members"]
    lines = S.file_lines(case) + ["new chm", f"open i0 {nm}"]
    lines += [f"extract i0 h0 {j} o{j}" for j in order]
    lines += ["close i0 h0", "destroy i0"]
    return lines, dict(family=family, order=order, plan=S.short_meta(case),
                       members={(m["name"].hex() or "="): dict(sec=m["section"], off=m["offset"], len=len(m["data"]), digest=digest(m["data"])) for m in mem},
                       sysfiles=[s.hex() for s in case["meta"]["expect"].get("sysfiles", [])],
                       nontrivial=any(m["section"] == 1 and m["data"] for m in mem))

def generate(ctx):
    rng = ctx.rng
    # directed: the decoder is (re)initialised for a file beyond the first reset interval, for every
    # reset-table variant (normal, 4-byte entries, missing -> SpanInfo fallback, short table)
    # ... and with the table's entries NOT directly behind its 0x28-byte header (TableOffset 0x30 / 0x38)
    for rt, gap in [("missing", None), ("short", None), ("normal", None), ("entry4", None), ("normal", 8), ("entry4", 16), ("short", 8), ("entry16", None), ("entry12", 8), ("entry2", None)] * (1 if ctx.tier == "quick" else 12):
        for _ in range(20):
            try:
                case = S.vgen_case(rng, "chm", "medium", rtable=rt, rtgap=gap)
            except Exception:
                continue
            if case["meta"].get("lzx", {}).get("reset_intervals", 0) >= 2: break
        else:
            continue
        mem = case["members"]
        # listing index of compressed members, farthest into the stream first
        far = sorted((j for j, m in enumerate(mem) if m["section"] == 1 and m["data"]), key=lambda j: -mem[j]["offset"])
        order = far + [j for j in range(len(mem)) if j not in far]
        yield plan_case(case, order, "chm.restart-" + rt + ("-gap%d" % gap if gap else ""))
    n = 40 if ctx.tier == "quick" else 1200
    k = 0
    while k < n:
        try:
            case = S.vgen_case(rng, "chm", rng.choice(["small", "small", "medium"]))
        except Exception:
            continue
        k += 1
        nm = case["meta"]["order"][0]
        mem = case["members"]
        lines = S.file_lines(case) + ["new chm", f"open i0 {nm}"]
        nlist = len(mem)
        order = list(range(nlist)) + list(reversed(range(nlist)))
        lines += [f"extract i0 h0 {j} o{j}" for j in order]
        lines += ["close i0 h0", "destroy i0"]
        yield lines, dict(family="chm.plan", order=order, plan=S.short_meta(case),
                          members={(m["name"].hex() or "="): dict(sec=m["section"], off=m["offset"], len=len(m["data"]), digest=digest(m["data"])) for m in mem},
                          sysfiles=[s.hex() for s in case["meta"]["expect"].get("sysfiles", [])],
                          nontrivial=any(m["section"] == 1 and m["data"] for m in mem))
    fx = sorted(glob.glob(os.path.join(C.REPO, "libmspack/test/test_files/chmd/*.chm")))
    for p in fx[: (4 if ctx.tier == "quick" else len(fx))]:
        if os.path.getsize(p) > 2_000_000: continue
        yield [f"fileref f.chm {p}", "new chm", "open i0 f.chm"] + [f"extract i0 h0 {j} o{j}" for j in range(5)] + ["close i0 h0", "destroy i0"], \
              dict(family="chm.fixture", fixture=os.path.basename(p), sig=p)

def judge(ctx, meta, impl, model):
    fs = []
    crash = [b[0] for b in impl if b[0].startswith(("CRASH", "TIMEOUT"))]
    if meta["family"].startswith(("chm.plan", "chm.restart")):
        if crash: return [Finding("violation", "well-formed CHM: implementation " + crash[0])]
        op = next((b for b in impl if b[0].startswith("open")), None)
        if op is None or " st=0" not in op[0]:
            return [Finding("violation", f"well-formed CHM refused by open(): {op[0] if op else None}")]
        files = [C.kv(l) for l in op[1:] if l.startswith("file ")]
        sysf = [C.kv(l) for l in op[1:] if l.startswith("sysfile ")]
        want = meta["members"]
        listed = {}
        for f in files:
            listed[f.get("name")] = f
        for name, m in want.items():
            f = listed.get(name)
            if f is None:
                fs.append(Finding("violation", f"planned file {bytes.fromhex(name) if name != '=' else b''!r} is not listed")); continue
            if (int(f["sec"]), int(f["off"]), int(f["len"])) != (m["sec"], m["off"], m["len"]):
                fs.append(Finding("violation", f"file {name[:40]}: listed sec/off/len {(f['sec'], f['off'], f['len'])}, planned {(m['sec'], m['off'], m['len'])}"))
        extra = [n for n in listed if n not in want]
        if extra:
            fs.append(Finding("violation", f"open() lists {len(extra)} files that were not planned as files (directory entries must be dropped): {extra[:3]}"))
        if sorted(s.get("name") for s in sysf) != sorted(meta["sysfiles"]):
            fs.append(Finding("violation", f"system files listed {sorted(s.get('name') for s in sysf)[:3]}… differ from the plan ({len(meta['sysfiles'])} planned)"))
        ex = [C.kv(b[0]) for b in impl if b[0].startswith("extract ")]
        for j, e in zip(meta["order"], ex):
            if j >= len(files): continue
            m = want.get(files[j].get("name"))
            if m is None: continue
            if e.get("st") != "0" or e.get("out") != m["digest"]:
                fs.append(Finding("violation", f"extract of listing entry {j} ({files[j].get('name')[:30]}, section {m['sec']}): st={e.get('st')} out={e.get('out')} planned {m['digest']}"))
                break
    if model is not None and not any("unsupported" in b[0] for b in model) and not crash:
        def proj(blocks):
            out = []
            for b in blocks:
                w = b[0].split(" ", 1)[0]
                if w == "open": out.append([b[0].split(" edges=")[0]] + b[1:])
                elif w == "extract":
                    e = C.kv(b[0]); out.append(("extract", e.get("st"), e.get("out")))
            return out
        pi, pm = proj(impl), proj(model)
        if pi != pm:
            k = next((i for i, (x, y) in enumerate(zip(pi, pm)) if x != y), -1)
            fs.append(Finding("mismatch", f"model and implementation differ at op {k}: impl={str(pi[k])[:200] if k >= 0 else len(pi)} model={str(pm[k])[:200] if k >= 0 else len(pm)}"))
    return fs

def classify(ctx, meta, finding):
    return None
