"""C03 — CHM listing and extraction reproduce every stored file exactly.

Theorems: Proofs/Props/C03.lean (ENCINT round trip on the model of read_encint).
Correspondence: chm.plan — generated well-formed CHMs (chunk sizes, densities, index depth, header
versions, both ControlData versions, reset-table variants, SpanInfo fallback, UTF-8 names, both
sections): model vs implementation on listing, fast_find and bytes; the implementation vs the plan."""
import glob, os
from lib import common as C
from lib.pipeline import Finding
from lib.util import digest
from checks import scenarios as S

PROP = "C03"
LEVEL = "proof"
THEOREMS = {"Proofs.Props.C03": ["MsPack.Chm.C03_encint_roundtrip"],
            "Proofs.Props.C07Chm": ["MsPack.Chm.C03_chm_sec0_bytes", "MsPack.Chm.C07_chm_open_extract_sec0"],
            "Proofs.Props.C03Headers": ["MsPack.Chm.C03_headers_roundtrip", "MsPack.Chm.C03_open_roundtrip", "MsPack.Chm.C03_headers_roundtrip_files"]}
ASSUMPTIONS = ["the listing round trip (C03_headers_roundtrip: ITSF/ITSP headers and any number of PMGL chunks without index chunks, system files or non-minimal ENCINTs) and ENCINT are theorems; index chunks, system files, section-1 (LZX) content are covered by model/implementation agreement and by the plan oracle; the specification's writer is fed to the real chmd_open (`prim encchm`, family chm.spec-headers)",
               "CHM with E8 translation beyond the first reset interval is a known finding (D12) and is generated only in the directed family"]
RULE = ("chm.plan: random plans from gen/vgen/chm.py; every listed file is extracted in listing order and again in reverse order (decoding restarts at reset points); "
        "non-trivial = at least one member with data in the compressed section; distinct by file bytes")

def plan_case(case, order, family="chm.plan"):
    nm = case["meta"]["order"][0]
    mem = case["members"]
    lines = S.file_lines(case) + ["new chm", f"open i0 {nm}"]
    lines += [f"extract i0 h0 {j} o{j}" for j in order]
    lines += ["close i0 h0", "destroy i0"]
    return lines, dict(family=family, order=order, plan=S.short_meta(case),
                       members={(m["name"].hex() or "="): dict(sec=m["section"], off=m["offset"], len=len(m["data"]), digest=digest(m["data"])) for m in mem},
                       sysfiles=[s.hex() for s in case["meta"]["expect"].get("sysfiles", [])],
                       nontrivial=any(m["section"] == 1 and m["data"] for m in mem))

def encint_len(n):
    k = 1
    while n >> (7 * k): k += 1
    return k

def spec_header_cases(ctx):
    """the CHM *specification writer* of C03_headers_roundtrip (Lean `Chm.encodeChm`, run by the driver as `prim encchm`)
    against the real chmd_open: random well-formed directory specifications (versions 2/3, chunk sizes 40..600, 1-6 PMGL
    chunks, names of every length incl. 0 and 1 byte, directory entries, offsets/lengths up to 2^63-1) -> spec bytes ->
    open() must list exactly the spec's file entries, in order, and report its header fields"""
    import subprocess, tempfile
    rng = ctx.rng
    n = 40 if ctx.tier == "quick" else 1000
    specs = []
    for _ in range(n):
        cs = rng.choice([40, 64, 100, 256, 600])
        chunks = []
        for _c in range(rng.choice([1, 1, 2, 3, 6])):
            es = []; used = 22
            for _e in range(rng.choice([0, 1, 2, 5, 12])):
                ln = rng.choice([0, 1, 2, 3, 8, 20, 60])
                name = bytes(rng.choice(b"/abcXYZ.\xc3\xa9") for _ in range(ln))
                if name[:2] == b"::": name = b"/" + name[1:]
                if rng.random() < 0.2 and ln: name = name[:-1] + b"/"
                sec = rng.choice([0, 1])
                off = rng.choice([0, 0, 5, 127, 128, 300, 1 << 20, (1 << 63) - 1, rng.randrange(1 << 40)])
                le = rng.choice([0, 0, 1, 70000, (1 << 63) - 1, rng.randrange(1 << 33)])
                sz = encint_len(len(name)) + len(name) + encint_len(sec) + encint_len(off) + encint_len(le)
                if used + sz > cs: continue
                used += sz; es.append((name, sec, off, le))
            chunks.append(es)
        specs.append((rng.choice([2, 3]), rng.getrandbits(32), rng.choice([0x409, rng.getrandbits(32)]), cs, rng.choice([0, 1, 2, 5, 40, (1 << 32) - 1]),
                      bytes(rng.randrange(256) for _ in range(rng.choice([0, 3, 100]))), chunks))
    def line(sp):
        v, ts, la, cs, de, content, chunks = sp
        t = [f"prim encchm {v} {ts} {la} {cs} {de} {content.hex() or '='} {len(chunks)}"]
        for es in chunks:
            t.append(str(len(es)))
            for (nm, sec, off, le) in es: t.append(f"{nm.hex() or '='} {sec} {off} {le}")
        return " ".join(t)
    with tempfile.NamedTemporaryFile("w", suffix=".case", dir=C.BUILD, delete=False) as tf:
        tf.write("\n".join(line(sp) for sp in specs) + "\n"); tp = tf.name
    try:
        out = [l for l in subprocess.run([C.DRIVER, tp], capture_output=True, text=True).stdout.splitlines() if l.startswith("prim encchm")]
    finally:
        os.unlink(tp)
    if len(out) != len(specs) or any("bad-args" in l for l in out):
        C.log(f"C03: driver answered {len(out)} of {len(specs)} prim encchm requests"); return
    for sp, l in zip(specs, out):
        v, ts, la, cs, de, content, chunks = sp
        f = l.split(" ")[2]
        want = []
        for es in chunks:
            for (nm, sec, off, le) in es:
                if len(nm) < 2 or nm[0] == 0 or nm[1] == 0: continue
                if off == 0 and le == 0 and nm.endswith(b"/"): continue
                want.append([nm.hex(), sec, off, le])
        hdr = dict(ver=v, ts=ts, lang=la, chunksize=cs, density=de, nchunks=len(chunks), depth=1, indexroot=0xFFFFFFFF, firstpmgl=0, lastpmgl=len(chunks) - 1,
                   len=len(f) // 2)
        yield [f"file f.chm {f}", "new chm", "open i0 f.chm", "close i0 h0", "destroy i0"], dict(family="chm.spec-headers", want=want, hdr=hdr, nontrivial=bool(want))

def generate(ctx):
    rng = ctx.rng
    yield from spec_header_cases(ctx)
    # directed: the decoder is (re)initialised for a file beyond the first reset interval, for every
    # reset-table variant (normal, 4-byte entries, missing -> SpanInfo fallback, short table)
    # ... and with the table's entries NOT directly behind its 0x28-byte header (TableOffset 0x30 / 0x38)
    for rt, gap in [("missing", None), ("short", None), ("normal", None), ("entry4", None), ("normal", 8), ("entry4", 16), ("short", 8), ("entry16", None), ("entry12", 8), ("entry2", None)] * (1 if ctx.tier == "quick" else 12):
        for _ in range(60):
            try:
                case = S.vgen_case(rng, "chm", "medium", rtable=rt, rtgap=gap)
            except Exception:
                continue
            lzm = case["meta"].get("lzx", {})
            # at least two reset intervals AND a compressed member that starts beyond the first one (so that decoding
            # really is set up from a reset-table entry other than 0 when that member is extracted first)
            if lzm.get("reset_intervals", 0) >= 2 and any(m["section"] == 1 and m["data"] and m["offset"] >= lzm.get("reset_frames", 1) * 32768 for m in case["members"]): break
        else:
            continue
        mem = case["members"]
        # listing index of compressed members, farthest into the stream first
        far = sorted((j for j, m in enumerate(mem) if m["section"] == 1 and m["data"]), key=lambda j: -mem[j]["offset"])
        order = far + [j for j in range(len(mem)) if j not in far]
        yield plan_case(case, order, "chm.restart-" + rt + ("-gap%d" % gap if gap else ""))
    n = 40 if ctx.tier == "quick" else 1200
    k = 0
    while k < n:
        try:
            case = S.vgen_case(rng, "chm", rng.choice(["small", "small", "medium"]))
        except Exception:
            continue
        k += 1
        nm = case["meta"]["order"][0]
        mem = case["members"]
        lines = S.file_lines(case) + ["new chm", f"open i0 {nm}"]
        nlist = len(mem)
        order = list(range(nlist)) + list(reversed(range(nlist)))
        lines += [f"extract i0 h0 {j} o{j}" for j in order]
        lines += ["close i0 h0", "destroy i0"]
        yield lines, dict(family="chm.plan", order=order, plan=S.short_meta(case),
                          members={(m["name"].hex() or "="): dict(sec=m["section"], off=m["offset"], len=len(m["data"]), digest=digest(m["data"])) for m in mem},
                          sysfiles=[s.hex() for s in case["meta"]["expect"].get("sysfiles", [])],
                          nontrivial=any(m["section"] == 1 and m["data"] for m in mem))
    fx = sorted(glob.glob(os.path.join(C.REPO, "libmspack/test/test_files/chmd/*.chm")))
    for p in fx[: (4 if ctx.tier == "quick" else len(fx))]:
        if os.path.getsize(p) > 2_000_000: continue
        yield [f"fileref f.chm {p}", "new chm", "open i0 f.chm"] + [f"extract i0 h0 {j} o{j}" for j in range(5)] + ["close i0 h0", "destroy i0"], \
              dict(family="chm.fixture", fixture=os.path.basename(p), sig=p)

def judge(ctx, meta, impl, model):
    fs = []
    crash = [b[0] for b in impl if b[0].startswith(("CRASH", "TIMEOUT"))]
    if meta["family"].startswith(("chm.plan", "chm.restart")):
        if crash: return [Finding("violation", "well-formed CHM: implementation " + crash[0])]
        op = next((b for b in impl if b[0].startswith("open")), None)
        if op is None or " st=0" not in op[0]:
            return [Finding("violation", f"well-formed CHM refused by open(): {op[0] if op else None}")]
        files = [C.kv(l) for l in op[1:] if l.startswith("file ")]
        sysf = [C.kv(l) for l in op[1:] if l.startswith("sysfile ")]
        want = meta["members"]
        listed = {}
        for f in files:
            listed[f.get("name")] = f
        for name, m in want.items():
            f = listed.get(name)
            if f is None:
                fs.append(Finding("violation", f"planned file {bytes.fromhex(name) if name != '=' else b''!r} is not listed")); continue
            if (int(f["sec"]), int(f["off"]), int(f["len"])) != (m["sec"], m["off"], m["len"]):
                fs.append(Finding("violation", f"file {name[:40]}: listed sec/off/len {(f['sec'], f['off'], f['len'])}, planned {(m['sec'], m['off'], m['len'])}"))
        extra = [n for n in listed if n not in want]
        if extra:
            fs.append(Finding("violation", f"open() lists {len(extra)} files that were not planned as files (directory entries must be dropped): {extra[:3]}"))
        if sorted(s.get("name") for s in sysf) != sorted(meta["sysfiles"]):
            fs.append(Finding("violation", f"system files listed {sorted(s.get('name') for s in sysf)[:3]}… differ from the plan ({len(meta['sysfiles'])} planned)"))
        ex = [C.kv(b[0]) for b in impl if b[0].startswith("extract ")]
        for j, e in zip(meta["order"], ex):
            if j >= len(files): continue
            m = want.get(files[j].get("name"))
            if m is None: continue
            if e.get("st") != "0" or e.get("out") != m["digest"]:
                fs.append(Finding("violation", f"extract of listing entry {j} ({files[j].get('name')[:30]}, section {m['sec']}): st={e.get('st')} out={e.get('out')} planned {m['digest']}"))
                break
    if meta["family"] == "chm.spec-headers":
        if crash: return [Finding("violation", "spec-encoded CHM: implementation " + crash[0])]
        op = next((b for b in impl if b[0].startswith("open")), None)
        if op is None or " st=0" not in op[0]:
            return [Finding("violation", f"spec-encoded CHM refused by open(): {op[0] if op else None}")]
        files = [C.kv(l) for l in op[1:] if l.startswith("file ")]
        got = [[f.get("name") if f.get("name") not in ("=", "-") else "", int(f["sec"]), int(f["off"]), int(f["len"])] for f in files]
        if got != meta["want"]:
            k = next((i for i, (x, y) in enumerate(zip(got, meta["want"])) if x != y), min(len(got), len(meta["want"])))
            fs.append(Finding("violation", f"spec-encoded CHM: open() lists {len(got)} files, the specification has {len(meta['want'])}; first difference at {k}: "
                                           f"{got[k] if k < len(got) else None} vs {meta['want'][k] if k < len(meta['want']) else None}"))
        hd = next((C.kv(l) for l in op[1:] if l.startswith("chm ")), {})
        for k_, v_ in meta["hdr"].items():
            if k_ in hd and str(v_) != hd[k_]:
                fs.append(Finding("violation", f"spec-encoded CHM: header field {k_} reported {hd[k_]}, specified {v_}"))
    if model is not None and not any("unsupported" in b[0] for b in model) and not crash:
        def proj(blocks):
            out = []
            for b in blocks:
                w = b[0].split(" ", 1)[0]
                if w == "open": out.append([b[0].split(" edges=")[0]] + b[1:])
                elif w == "extract":
                    e = C.kv(b[0]); out.append(("extract", e.get("st"), e.get("out")))
            return out
        pi, pm = proj(impl), proj(model)
        if pi != pm:
            k = next((i for i, (x, y) in enumerate(zip(pi, pm)) if x != y), -1)
            fs.append(Finding("mismatch", f"model and implementation differ at op {k}: impl={str(pi[k])[:200] if k >= 0 else len(pi)} model={str(pm[k])[:200] if k >= 0 else len(pm)}"))
    return fs

def classify(ctx, meta, finding):
    return None
