"""C01 — CAB extraction reproduces every member byte-for-byte, with its metadata.

Theorems: Proofs/Props/C01.lean (header/listing round trip of the CAB container model, stored
folders end to end) and Proofs/Props/Tables.lean (every decoder table extracted from today's
source equals its closed form).
Correspondence: cab.plan — well-formed cabinets and split sets from the plan generator
(gen/vgen: all four methods, all block types, window sizes, reserves, split points), under varied
parameter settings and both mspack_systems: model vs implementation on listing and bytes, and the
implementation vs the plan (oracle: listing = planned members, status OK, bytes = planned bytes)."""
import os
from lib import common as C
from lib.pipeline import Finding
from lib.util import digest
from checks import scenarios as S

PROP = "C01"
LEVEL = "proof"
THEOREMS = {
    "Proofs.Props.C01": ["MsPack.Cab.C01_headers_roundtrip", "MsPack.Cab.C01_stored_extract"],
    "Proofs.Props.Tables": ["MsPack.TableObligations.lzx_extra_bits", "MsPack.TableObligations.lzx_position_base",
                            "MsPack.TableObligations.lzx_position_slots", "MsPack.TableObligations.qtm_extra_bits",
                            "MsPack.TableObligations.qtm_position_base", "MsPack.TableObligations.qtm_length_extra",
                            "MsPack.TableObligations.qtm_length_base", "MsPack.TableObligations.zip_lit_lengths",
                            "MsPack.TableObligations.zip_lit_extrabits", "MsPack.TableObligations.zip_dist_offsets",
                            "MsPack.TableObligations.zip_dist_extrabits", "MsPack.TableObligations.zip_bitlen_order",
                            "MsPack.TableObligations.lsb_bit_mask", "MsPack.TableObligations.cab_layout"],
            "Proofs.Props.C01Lzx": ["MsPack.Lzx.C01_lzx_uncompressed_roundtrip", "MsPack.Lzx.C01_lzx_uncompressed_roundtrip_src", "MsPack.Lzx.C01_lzx_uncompressed_roundtrip_calls",
                                    "MsPack.Lzx.init_some"],
            "Proofs.Props.C01Mszip": ["MsPack.Zip.C01_mszip_stored_roundtrip", "MsPack.Zip.C01_mszip_fixed_roundtrip", "MsPack.Zip.C01_mszip_blocks_roundtrip",
                                      "MsPack.Zip.C01_mszip_blocks_roundtrip_src", "MsPack.Zip.C01_mszip_blocks_roundtrip_chunked"]
}
ASSUMPTIONS = ["decoder round trips (MSZIP/LZX/Quantum bit level) are not theorems yet: covered by model/implementation agreement and by the plan oracle",
               "Quantum's arithmetic coder has no independent specification: the generator's encoder inverts qtmd.c",
               "model validated against the C by differential execution"]
RULE = ("cab.plan: random plans from gen/vgen/cab.py (1-3 folders; stored, MSZIP stored/fixed/dynamic blocks from tokens or zlib, Quantum windows 10-21, "
        "LZX windows 15-21 verbatim/aligned/uncompressed blocks with E8; reserves; 1-5 parts with block/folder cuts; embedded-for-search blobs), each run with "
        "a parameter setting drawn from DECOMPBUF x FIXMSZIP x SALVAGE and sometimes the default stdio system; non-trivial = at least one member with data; distinct by archive bytes + parameters")

BUFS = [4, 5, 16, 17, 4096, 65536]

def spec_header_cases(ctx):
    """the *writer* the C01 theorem is stated against (Lean `Cab.encodeHeaders`, run by the driver as `prim enccab`)
    is fed to the real cabd_open: random listings -> spec bytes (+ one stored data block per folder) -> listing
    printed by the implementation must be the listing asked for"""
    import subprocess, tempfile
    rng = ctx.rng
    n = 25 if ctx.tier == "quick" else 400
    specs = []
    for _ in range(n):
        nfo = rng.choice([1, 1, 2, 3, 10]); nfi = rng.choice([1, 2, 3, 8, 40])
        folders = [(rng.choice([0, 36, 1000, 0xfffffff0]), rng.choice([0, 1, 2, 65535]), rng.choice([0, 1, 0x1503, 0x0f02, 0xffff])) for _ in range(nfo)]
        files = []
        for _ in range(nfi):
            ln = rng.choice([1, 1, 8, 12, 100, 255])
            name = bytes(rng.choice([rng.randrange(1, 256), rng.choice(b"abc./\\ ")]) for _ in range(ln))
            files.append((name, rng.choice([0, 1, 70000, 0xffffffff]), rng.choice([0, 5, 0xfffffffe]), rng.randrange(nfo), rng.choice([0, 0x20, 0xa1, 0xffff]),
                          rng.choice([1980, 1997, 2107, rng.randrange(1980, 2108)]), rng.randrange(16), rng.randrange(32), rng.randrange(32), rng.randrange(64), 2 * rng.randrange(32)))
        embedded = rng.random() < 0.4          # found by search() at a non-zero offset: the scanner wants a plausible size field
        enc_len = 36 + 8 * nfo + sum(17 + len(f[0]) for f in files)
        specs.append((enc_len if embedded else rng.choice([0, 1000, 0xffffffff]), rng.randrange(65536), rng.randrange(65536), folders, files, embedded))
    reqs = []
    for (ln, sid, six, folders, files, embedded) in specs:
        t = ["prim", "enccab", str(ln), str(sid), str(six), str(len(folders))]
        for f in folders: t += [str(x) for x in f]
        t.append(str(len(files)))
        for f in files: t += [f[0].hex()] + [str(x) for x in f[1:]]
        reqs.append(" ".join(t))
    with tempfile.NamedTemporaryFile("w", suffix=".case", dir=C.BUILD, delete=False) as tf:
        tf.write("\n".join(reqs) + "\n"); tp = tf.name
    try:
        out = [l for l in subprocess.run([C.DRIVER, tp], capture_output=True, text=True).stdout.splitlines() if l.startswith("prim enccab")]
    finally:
        os.unlink(tp)
    if len(out) != len(specs) or any("bad-args" in l for l in out):
        C.log(f"C01: driver answered {len(out)} of {len(specs)} prim enccab requests"); return
    for (ln, sid, six, folders, files, embedded), l in zip(specs, out):
        hexs = l.split(" ")[2]
        pre = rng.choice([b"x", b"xx" * 7, b"junk" * 100]) if embedded else b""
        blob = pre + bytes.fromhex(hexs) + rng.choice([b"", b"trailing bytes"])
        ops = [f"file x.cab {blob.hex()}", "new cab", "param i0 SEARCHBUF 64"] + (["open i0 x.cab"] if not pre else ["search i0 x.cab"])
        yield ops + ["destroy i0"], dict(family="cab.spec-headers", pre=len(pre), want=dict(len=ln, set=sid, idx=six,
                     folders=[[f[2], f[1]] for f in folders],
                     files=[[f[0].hex(), f[1], f[4], "%d/%d/%d" % (f[5], f[6], f[7]), "%d:%d:%d" % (f[8], f[9], f[10]), f[3], f[2]] for f in files]))

def judge_spec(ctx, meta, impl, model):
    fs = []
    w = meta["want"]
    b = next((b for b in impl if b[0].startswith(("open", "search"))), None)
    if b is None or " st=0" not in b[0] or "NULL" in b[0]:
        return [Finding("violation", f"cabinet written by the specification's encoder is refused: {b[0] if b else None}")]
    head = C.kv(next((l for l in b[1:] if l.startswith("cab ")), "cab"))
    got_fo = [[int(C.kv(l)["comp"], 16), int(C.kv(l)["nblocks"])] for l in b[1:] if l.startswith("folder ")]
    got_fi = [[C.kv(l)["name"], int(C.kv(l)["len"]), int(C.kv(l)["attr"], 16), C.kv(l)["date"], C.kv(l)["time"], int(C.kv(l)["folder"]), int(C.kv(l)["off"])] for l in b[1:] if l.startswith("file ")]
    if (int(head.get("off", -1)), int(head.get("len", -1)), int(head.get("set", -1)), int(head.get("idx", -1))) != (meta["pre"], w["len"], w["set"], w["idx"]):
        fs.append(Finding("violation", f"spec-encoded cabinet: header listed as {head}, specified {(meta['pre'], w['len'], w['set'], w['idx'])}"))
    if got_fo != w["folders"]:
        fs.append(Finding("violation", f"spec-encoded cabinet: folders listed {got_fo[:4]}, specified {w['folders'][:4]}"))
    if got_fi != w["files"]:
        k = next((i for i, (a, c) in enumerate(zip(got_fi, w["files"])) if a != c), min(len(got_fi), len(w["files"])))
        fs.append(Finding("violation", f"spec-encoded cabinet: file {k} listed {got_fi[k] if k < len(got_fi) else None}, specified {w['files'][k] if k < len(w['files']) else None}"))
    if model is not None:
        pi = [[l.split(" edges=")[0] for l in x] for x in impl if x[0].startswith(("open", "search"))]
        pm = [x for x in model if x[0].startswith(("open", "search"))]
        if pi != pm: fs.append(Finding("mismatch", f"model and implementation differ on a spec-encoded cabinet: {str(pi)[:150]} vs {str(pm)[:150]}"))
    return fs

def spec_deflate_cases(ctx):
    """the MSZIP *specification writer* of the C01_mszip_* round-trip theorems (Lean `Deflate.encFrame`, run by the driver as
    `prim encdeflate`) against the real mszipd: random lists of stored and fixed-Huffman blocks (literals, matches of every
    length class and distance class incl. overlapping ones) -> frame bytes in a one-block MSZIP folder -> extract() must
    return OK with exactly the data the specification assigns to the block list"""
    import subprocess, tempfile
    rng = ctx.rng
    n = 40 if ctx.tier == "quick" else 800
    reqs = []
    for _ in range(n):
        blocks = []; out = 0
        for _b in range(rng.choice([1, 1, 2, 3, 5])):
            if out >= 30000: break
            if rng.random() < 0.4:
                k = rng.choice([0, 1, 5, 300, 2000]); k = min(k, 32768 - out)
                blocks.append("S" + (bytes(rng.randrange(256) for _ in range(k)).hex() or "=")); out += k
            else:
                toks = []
                for _t in range(rng.choice([0, 1, 8, 60, 400])):
                    if out >= 32000: break
                    if out == 0 or rng.random() < 0.6:
                        toks.append("L%02x" % rng.randrange(256)); out += 1
                    else:
                        ln = rng.choice([3, 4, 10, 11, 12, 13, 18, 19, 34, 35, 130, 257, 258, rng.randint(3, 258)]); ln = min(ln, 32768 - out)
                        if ln < 3: continue
                        d = rng.choice([1, 2, 3, 4, 5, 7, 9, 24, 33, 257, 1025, 4097, 16385, out, rng.randint(1, out)]); d = min(d, out)
                        toks.append("M%d:%d" % (ln, d)); out += ln
                blocks.append("F" + ",".join(toks))
        if out == 0: blocks.append("S41"); out = 1
        reqs.append(blocks)
    with tempfile.NamedTemporaryFile("w", suffix=".case", dir=C.BUILD, delete=False) as tf:
        tf.write("\n".join("prim encdeflate " + " ".join(b) for b in reqs) + "\n"); tp = tf.name
    try:
        out = [l for l in subprocess.run([C.DRIVER, tp], capture_output=True, text=True).stdout.splitlines() if l.startswith("prim encdeflate")]
    finally:
        os.unlink(tp)
    if len(out) != len(reqs) or any("bad-args" in l for l in out):
        C.log(f"C01: driver answered {len(out)} of {len(reqs)} prim encdeflate requests"); return
    from lib import minicab
    for l in out:
        _, _, fh, dh = l.split(" ")
        frame = bytes.fromhex(fh); data = b"" if dh in ("=", "-") else bytes.fromhex(dh)
        if not data or len(data) > 32768: continue
        cab, _ = minicab.build([(1, [(frame, len(data))])], [dict(name=b"s.bin", length=len(data), offset=0, folder=0)])
        buf = rng.choice(BUFS)
        yield [f"file x.cab {cab.hex()}", "new cab", f"param i0 DECOMPBUF {buf}", "open i0 x.cab", "extract i0 h0 0 o0", "close i0 h0", "destroy i0"], \
              dict(family="mszip.cross-block", label="spec-encoded frame", want=digest(data), buf=buf, fix=0, nontrivial=True)

def generate(ctx):
    yield from spec_header_cases(ctx)
    yield from spec_deflate_cases(ctx)
    yield from mszip_cross_block(ctx)
    yield from plan_cases(ctx)

def mszip_cross_block(ctx):
    """later MSZIP blocks opening with matches that reach into the previous block (straddling the 32768 boundary, at the far
    end of the window, one-byte runs across it), short and long, under the parameter combinations"""
    rng = ctx.rng
    cases = list(S.mszip_cross_block_cases(rng))
    if ctx.tier == "quick": cases = cases[:36]
    for (label, cab, kw, plain) in cases:
        buf, fix = rng.choice(BUFS), rng.choice([0, 1])
        yield [f"file x.cab {cab.hex()}", "new cab", f"param i0 DECOMPBUF {buf}", f"param i0 FIXMSZIP {fix}", "open i0 x.cab", "extract i0 h0 0 o0", "close i0 h0", "destroy i0"], \
              dict(family="mszip.cross-block", label=label, want=digest(plain), buf=buf, fix=fix, nontrivial=True)

def plan_cases(ctx):
    rng = ctx.rng
    n = 70 if ctx.tier == "quick" else 2500
    sizes = ["small"] * 6 + ["medium"] * 2 + (["large"] if ctx.tier == "thorough" else [])
    for k in range(n + n // 7):
        if k >= n:
            # directed: multi-frame LZX folders with tiny input buffers (the frame-size / refill order matters there)
            if k % 3 == 0:
                try:
                    case = lzx_e8_beyond_window(rng, rng.choice([15, 16]))
                except Exception as e:
                    C.log(f"C01: lzx_e8_beyond_window failed: {e!r}"); continue
            elif k % 2:
                case = S.vgen_case(rng, "cab", "medium", comp=3, folders=1, parts=1, embed=False)
            else:
                case = lzx_uncompressed_two_frames(rng, rng.choice([40000, 32768 + 2, 65536 + 100]))
            variants = [(b, 0, 0, False) for b in (4, 8, 16, 4096)]
        else:
            case = S.vgen_case(rng, "cab", rng.choice(sizes))
            variants = [(rng.choice(BUFS), rng.choice([0, 1]), rng.choice([0, 1]), rng.random() < 0.1)]
        if k < n and (ctx.tier == "thorough" or k % 5 == 0):
            variants.append((rng.choice(BUFS), 0, 0, False))
        for (buf, fix, salv, dflt) in variants:
            params = [("DECOMPBUF", buf), ("FIXMSZIP", fix), ("SALVAGE", salv)]
            lines = S.file_lines(case)
            ops, nf = S.cab_ops(case, params)
            if dflt:
                ops = [("new cab default" if o == "new cab" else o) for o in ops]
            if case["meta"].get("open") != "search":
                # listing of the joined set, before extraction
                j = max(i for i, o in enumerate(ops) if o.startswith(("open", "append")))
                ops.insert(j + 1, "dump i0 h0")
            meta = dict(family="cab.plan", buf=buf, fix=fix, salvage=salv, default=dflt, plan=S.short_meta(case),
                        members=[dict(name=m["name"].hex(), length=m["length"], attribs=m["attribs"], date=list(m["date"]), time=list(m["time"]),
                                      digest=digest(m["data"])) for m in case["members"]],
                        search=case["meta"].get("open") == "search", quirks=case["meta"].get("quirks", []),
                        hidden=case["meta"].get("hidden_by_find_defect", []),
                        nontrivial=any(m["length"] for m in case["members"]))
            yield lines + ops, meta

def lzx_uncompressed_two_frames(rng, n=40000, wb=15):
    """one LZX folder holding a single uncompressed block of n bytes (two CFDATA blocks): no
    bit-level prefetch happens while raw bytes are copied, so the input buffer can drain exactly
    at the end of the first CFDATA block"""
    from vgen import lzx, cab
    data = bytes(rng.choice(b"abcdefgh \n") for _ in range(n))
    toks = [("L", b) for b in data]
    frames, total, info = lzx.lzx_frames(toks, wb, blocks=[("uncompressed", n)], rng=rng)
    blocks = [(f, min(32768, total - 32768 * i)) for i, f in enumerate(frames)]
    f = dict(name=b"big.bin", length=n, offset=0, folder=0, attribs=0x20, date=(2001, 2, 3), time=(4, 5, 6))
    c = cab.build_cab([{"comp": 3 | wb << 8, "blocks": blocks}], [f])
    return {"kind": "cab", "files": {"d1.cab": c}, "members": [dict(f, data=data)],
            "meta": {"open": "open", "order": ["d1.cab"], "quirks": ["lzx-last-frame-buffer:folder0"], "directed": "lzx-uncompressed-two-frames"}}

def lzx_e8_beyond_window(rng, wb=15, nwin=3):
    """one LZX folder several windows long with Intel E8 translation on and call sites in every frame (the translation
    works with the position in the *stream*, which differs from the position in the window once the window has wrapped)"""
    import struct
    from vgen import lzx, cab, lz
    n = nwin * (1 << wb) + 5000
    body = bytearray(rng.choice(b"abcdefgh \n") for _ in range(n))
    filesize = rng.choice([n, 0x00100000, 0x7FFFFFFF])
    for p in range(50, n - 10, 197):
        body[p] = 0xE8
        # displacements in every range the translation distinguishes, and on each border: inside the image, the
        # wrap-around range [filesize-p, filesize) (stored as a negative number), just outside on either side
        v = rng.choice([0x1388, 0x10, 70000, -50, 0x20000, 5, -(p // 2), n - 100,
                        filesize - p, filesize - p - 1, filesize - p + rng.randrange(p), filesize - 1, filesize, -p, -p - 1, -1, 0])
        if not -(1 << 31) <= v < (1 << 31): v = -1
        struct.pack_into("<i", body, p + 1, v)
    data = bytes(body)
    raw = lzx.e8_encode(data, filesize)
    toks = lz.greedy_tokens(raw, lzx.max_offset(wb), 2, 257, frame=32768, rng=rng)
    frames, total, info = lzx.lzx_frames(toks, wb, intel_filesize=filesize, rng=rng)
    blocks = [(f, min(32768, total - 32768 * i)) for i, f in enumerate(frames)]
    cuts = [0, 100, (1 << wb) - 7, (1 << wb) + 33000, n]
    files = [dict(name=b"p%d.dll" % i, length=cuts[i + 1] - cuts[i], offset=cuts[i], folder=0, attribs=0x20, date=(2001, 2, 3), time=(4, 5, 6)) for i in range(4)]
    c = cab.build_cab([{"comp": 3 | wb << 8, "blocks": blocks}], files)
    return {"kind": "cab", "files": {"d1.cab": c}, "members": [dict(f, data=data[f["offset"]:f["offset"] + f["length"]]) for f in files],
            "meta": {"open": "open", "order": ["d1.cab"], "quirks": [], "directed": "lzx-e8-beyond-window"}}

def file_lines_of(block):
    return [C.kv(l) for l in block[1:] if l.startswith("file ")]

def judge(ctx, meta, impl, model):
    fs = []
    crash = [b[0] for b in impl if b[0].startswith(("CRASH", "TIMEOUT"))]
    if crash:
        return [Finding("violation", "well-formed cabinet: implementation " + crash[0])]
    if meta["family"] == "cab.spec-headers":
        return judge_spec(ctx, meta, impl, model)
    if meta["family"] == "mszip.cross-block":
        ex = [C.kv(b[0]) for b in impl if b[0].startswith("extract ")]
        if not ex or ex[0].get("st") != "0" or ex[0].get("out") != meta["want"]:
            fs.append(Finding("violation", f"MSZIP folder whose second block opens with a match into the previous block ({meta['label']}): st={ex[0].get('st') if ex else None} out={ex[0].get('out') if ex else None}, the data is {meta['want']}"))
        if model is not None and not any("unsupported" in b[0] for b in model):
            em = [C.kv(b[0]) for b in model if b[0].startswith("extract ")]
            if ex and em and (ex[0].get("st"), ex[0].get("out")) != (em[0].get("st"), em[0].get("out")):
                fs.append(Finding("mismatch", f"model and implementation differ on {meta['label']}: impl {ex[0].get('st')}/{ex[0].get('out')} model {em[0].get('st')}/{em[0].get('out')}"))
        return fs
    mem = meta["members"]
    ex = [C.kv(b[0]) for b in impl if b[0].startswith("extract ")]
    if not meta["search"]:
        dumps = [b for b in impl if b[0].startswith("dump")]
        if not dumps:
            fs.append(Finding("violation", "well-formed set: no joined listing (open or append failed): " +
                              "; ".join(b[0] for b in impl if b[0].startswith(("open", "append")))[:300]))
        else:
            fl = file_lines_of(dumps[0])
            got = [(f.get("name"), int(f.get("len", -1)), int(f.get("attr", "0"), 16), f.get("date"), f.get("time")) for f in fl]
            want = [((m["name"] or "="), m["length"], m["attribs"], "%d/%d/%d" % tuple(m["date"]), "%d:%d:%d" % tuple(m["time"])) for m in mem]
            if got != want:
                k = next((i for i, (a, b) in enumerate(zip(got, want)) if a != b), min(len(got), len(want)))
                fs.append(Finding("violation", f"listing differs from the plan at entry {k}: got {got[k] if k < len(got) else None} want {want[k] if k < len(want) else None} ({len(got)} vs {len(want)} entries)"))
    if meta["search"] and meta["hidden"]:
        pass  # cabinets the (repaired) scanner used to miss are judged by C14
    if len(ex) != len(mem) and not meta["search"]:
        fs.append(Finding("mismatch", f"{len(ex)} extract results for {len(mem)} members"))
    for k, (e, m) in enumerate(zip(ex, mem)):
        if "st" not in e:
            if not meta["search"]:
                fs.append(Finding("violation", f"member {k}: {e}"))
            continue
        if e.get("st") != "0" or e.get("out") != m["digest"]:
            fs.append(Finding("violation", f"member {k} ({m['length']} bytes): st={e.get('st')} out={e.get('out')} planned {m['digest']} "
                                           f"[DECOMPBUF={meta['buf']} FIXMSZIP={meta['fix']} SALVAGE={meta['salvage']} default={meta['default']}] quirks={meta['quirks']}"))
    if model is not None and not meta["default"]:
        def proj(blocks):
            out = []
            for b in blocks:
                w = b[0].split(" ", 1)[0]
                if w in ("open", "search", "dump"):
                    out.append([b[0].split(" edges=")[0]] + b[1:])
                elif w in ("append", "prepend"):
                    out.append(b[0].split(" edges=")[0])
                elif w == "extract":
                    e = C.kv(b[0]); out.append(("extract", e.get("st"), e.get("out"), e.get("written")))
            return out
        pi, pm = proj(impl), proj(model)
        # skip what the model does not cover yet
        if any(isinstance(x, tuple) and x[1] is None for x in pm) or any("unsupported" in b[0] for b in model):
            pairs = [(a, b) for a, b in zip(pi, pm) if not (isinstance(b, tuple) and b[1] is None)]
            pi, pm = [a for a, _ in pairs], [b for _, b in pairs]
        if pi != pm:
            k = next((i for i, (a, b) in enumerate(zip(pi, pm)) if a != b), -1)
            fs.append(Finding("mismatch", f"model and implementation differ at op {k}: impl={str(pi[k])[:200] if k >= 0 else len(pi)} model={str(pm[k])[:200] if k >= 0 else len(pm)}"))
    return fs

def classify(ctx, meta, finding):
    q = " ".join(meta.get("quirks", []))
    if "lzx-last-frame-buffer" in q and meta.get("buf", 4096) < 4096 and "st=8" in finding.text: return "D1"
    if "qtm-wrap-request" in q and "st=11" in finding.text: return "D2"
    return None
