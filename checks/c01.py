"""C01 — CAB extraction reproduces every member byte-for-byte, with its metadata.

Theorems: Proofs/Props/C01.lean (header/listing round trip of the CAB container model, stored
folders end to end) and Proofs/Props/Tables.lean (every decoder table extracted from today's
source equals its closed form).
Correspondence: cab.plan — well-formed cabinets and split sets from the plan generator
(gen/vgen: all four methods, all block types, window sizes, reserves, split points), under varied
parameter settings and both mspack_systems: model vs implementation on listing and bytes, and the
implementation vs the plan (oracle: listing = planned members, status OK, bytes = planned bytes)."""
import os
from lib import common as C
from lib.pipeline import Finding
from lib.util import digest
from checks import scenarios as S

PROP = "C01"
LEVEL = "proof"
THEOREMS = {
    # "Proofs.Props.C01": ["MsPack.Cab.C01_headers_roundtrip", "MsPack.Cab.C01_stored_block_roundtrip"],
    "Proofs.Props.Tables": ["MsPack.TableObligations.lzx_extra_bits", "MsPack.TableObligations.lzx_position_base",
                            "MsPack.TableObligations.lzx_position_slots", "MsPack.TableObligations.qtm_extra_bits",
                            "MsPack.TableObligations.qtm_position_base", "MsPack.TableObligations.qtm_length_extra",
                            "MsPack.TableObligations.qtm_length_base", "MsPack.TableObligations.zip_lit_lengths",
                            "MsPack.TableObligations.zip_lit_extrabits", "MsPack.TableObligations.zip_dist_offsets",
                            "MsPack.TableObligations.zip_dist_extrabits", "MsPack.TableObligations.zip_bitlen_order",
                            "MsPack.TableObligations.lsb_bit_mask", "MsPack.TableObligations.cab_layout"],
}
ASSUMPTIONS = ["decoder round trips (MSZIP/LZX/Quantum bit level) are not theorems yet: covered by model/implementation agreement and by the plan oracle",
               "Quantum's arithmetic coder has no independent specification: the generator's encoder inverts qtmd.c",
               "model validated against the C by differential execution"]
RULE = ("cab.plan: random plans from gen/vgen/cab.py (1-3 folders; stored, MSZIP stored/fixed/dynamic blocks from tokens or zlib, Quantum windows 10-21, "
        "LZX windows 15-21 verbatim/aligned/uncompressed blocks with E8; reserves; 1-5 parts with block/folder cuts; embedded-for-search blobs), each run with "
        "a parameter setting drawn from DECOMPBUF x FIXMSZIP x SALVAGE and sometimes the default stdio system; non-trivial = at least one member with data; distinct by archive bytes + parameters")

BUFS = [4, 5, 16, 17, 4096, 65536]

def generate(ctx):
    rng = ctx.rng
    n = 70 if ctx.tier == "quick" else 2500
    sizes = ["small"] * 6 + ["medium"] * 2 + (["large"] if ctx.tier == "thorough" else [])
    for k in range(n + n // 7):
        if k >= n:
            # directed: multi-frame LZX folders with tiny input buffers (the frame-size / refill order matters there)
            if k % 2:
                case = S.vgen_case(rng, "cab", "medium", comp=3, folders=1, parts=1, embed=False)
            else:
                case = lzx_uncompressed_two_frames(rng, rng.choice([40000, 32768 + 2, 65536 + 100]))
            variants = [(b, 0, 0, False) for b in (4, 8, 16, 4096)]
        else:
            case = S.vgen_case(rng, "cab", rng.choice(sizes))
            variants = [(rng.choice(BUFS), rng.choice([0, 1]), rng.choice([0, 1]), rng.random() < 0.1)]
        if k < n and (ctx.tier == "thorough" or k % 5 == 0):
            variants.append((rng.choice(BUFS), 0, 0, False))
        for (buf, fix, salv, dflt) in variants:
            params = [("DECOMPBUF", buf), ("FIXMSZIP", fix), ("SALVAGE", salv)]
            lines = S.file_lines(case)
            ops, nf = S.cab_ops(case, params)
            if dflt:
                ops = [("new cab default" if o == "new cab" else o) for o in ops]
            if case["meta"].get("open") != "search":
                # listing of the joined set, before extraction
                j = max(i for i, o in enumerate(ops) if o.startswith(("open", "append")))
                ops.insert(j + 1, "dump i0 h0")
            meta = dict(family="cab.plan", buf=buf, fix=fix, salvage=salv, default=dflt, plan=S.short_meta(case),
                        members=[dict(name=m["name"].hex(), length=m["length"], attribs=m["attribs"], date=list(m["date"]), time=list(m["time"]),
                                      digest=digest(m["data"])) for m in case["members"]],
                        search=case["meta"].get("open") == "search", quirks=case["meta"].get("quirks", []),
                        hidden=case["meta"].get("hidden_by_find_defect", []),
                        nontrivial=any(m["length"] for m in case["members"]))
            yield lines + ops, meta

def lzx_uncompressed_two_frames(rng, n=40000, wb=15):
    """one LZX folder holding a single uncompressed block of n bytes (two CFDATA blocks): no
    bit-level prefetch happens while raw bytes are copied, so the input buffer can drain exactly
    at the end of the first CFDATA block"""
    from vgen import lzx, cab
    data = bytes(rng.choice(b"abcdefgh \n") for _ in range(n))
    toks = [("L", b) for b in data]
    frames, total, info = lzx.lzx_frames(toks, wb, blocks=[("uncompressed", n)], rng=rng)
    blocks = [(f, min(32768, total - 32768 * i)) for i, f in enumerate(frames)]
    f = dict(name=b"big.bin", length=n, offset=0, folder=0, attribs=0x20, date=(2001, 2, 3), time=(4, 5, 6))
    c = cab.build_cab([{"comp": 3 | wb << 8, "blocks": blocks}], [f])
    return {"kind": "cab", "files": {"d1.cab": c}, "members": [dict(f, data=data)],
            "meta": {"open": "open", "order": ["d1.cab"], "quirks": ["lzx-last-frame-buffer:folder0"], "directed": "lzx-uncompressed-two-frames"}}

def file_lines_of(block):
    return [C.kv(l) for l in block[1:] if l.startswith("file ")]

def judge(ctx, meta, impl, model):
    fs = []
    crash = [b[0] for b in impl if b[0].startswith(("CRASH", "TIMEOUT"))]
    if crash:
        return [Finding("violation", "well-formed cabinet: implementation " + crash[0])]
    mem = meta["members"]
    ex = [C.kv(b[0]) for b in impl if b[0].startswith("extract ")]
    if not meta["search"]:
        dumps = [b for b in impl if b[0].startswith("dump")]
        if not dumps:
            fs.append(Finding("violation", "well-formed set: no joined listing (open or append failed): " +
                              "; ".join(b[0] for b in impl if b[0].startswith(("open", "append")))[:300]))
        else:
            fl = file_lines_of(dumps[0])
            got = [(f.get("name"), int(f.get("len", -1)), int(f.get("attr", "0"), 16), f.get("date"), f.get("time")) for f in fl]
            want = [((m["name"] or "="), m["length"], m["attribs"], "%d/%d/%d" % tuple(m["date"]), "%d:%d:%d" % tuple(m["time"])) for m in mem]
            if got != want:
                k = next((i for i, (a, b) in enumerate(zip(got, want)) if a != b), min(len(got), len(want)))
                fs.append(Finding("violation", f"listing differs from the plan at entry {k}: got {got[k] if k < len(got) else None} want {want[k] if k < len(want) else None} ({len(got)} vs {len(want)} entries)"))
    if meta["search"] and meta["hidden"]:
        pass  # cabinets the (repaired) scanner used to miss are judged by C14
    if len(ex) != len(mem) and not meta["search"]:
        fs.append(Finding("mismatch", f"{len(ex)} extract results for {len(mem)} members"))
    for k, (e, m) in enumerate(zip(ex, mem)):
        if "st" not in e:
            if not meta["search"]:
                fs.append(Finding("violation", f"member {k}: {e}"))
            continue
        if e.get("st") != "0" or e.get("out") != m["digest"]:
            fs.append(Finding("violation", f"member {k} ({m['length']} bytes): st={e.get('st')} out={e.get('out')} planned {m['digest']} "
                                           f"[DECOMPBUF={meta['buf']} FIXMSZIP={meta['fix']} SALVAGE={meta['salvage']} default={meta['default']}] quirks={meta['quirks']}"))
    if model is not None and not meta["default"]:
        def proj(blocks):
            out = []
            for b in blocks:
                w = b[0].split(" ", 1)[0]
                if w in ("open", "search", "dump"):
                    out.append([b[0].split(" edges=")[0]] + b[1:])
                elif w in ("append", "prepend"):
                    out.append(b[0].split(" edges=")[0])
                elif w == "extract":
                    e = C.kv(b[0]); out.append(("extract", e.get("st"), e.get("out"), e.get("written")))
            return out
        pi, pm = proj(impl), proj(model)
        # skip what the model does not cover yet
        if any(isinstance(x, tuple) and x[1] is None for x in pm) or any("unsupported" in b[0] for b in model):
            pairs = [(a, b) for a, b in zip(pi, pm) if not (isinstance(b, tuple) and b[1] is None)]
            pi, pm = [a for a, _ in pairs], [b for _, b in pairs]
        if pi != pm:
            k = next((i for i, (a, b) in enumerate(zip(pi, pm)) if a != b), -1)
            fs.append(Finding("mismatch", f"model and implementation differ at op {k}: impl={str(pi[k])[:200] if k >= 0 else len(pi)} model={str(pm[k])[:200] if k >= 0 else len(pm)}"))
    return fs

def classify(ctx, meta, finding):
    q = " ".join(meta.get("quirks", []))
    if "lzx-last-frame-buffer" in q and meta.get("buf", 4096) < 4096 and "st=8" in finding.text: return "D1"
    if "qtm-wrap-request" in q and "st=11" in finding.text: return "D2"
    return None
