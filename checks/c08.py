"""C08 — extraction results do not depend on what was extracted before.

Theorems: Proofs/Props/C08.lean (a cache that is not re-usable — other folder, backward seek,
dead decoder — makes extract behave exactly like a fresh instance).
Oracle on the implementation: in a random history of extract() calls (any order, repetition,
interleaving over folders / cabinets / helpfiles of one decompressor, also after failed
extractions from deliberately damaged folders) every call returns the status and bytes the same
member gives on a freshly created decompressor.  Correspondence: model vs implementation per call."""
import os
from lib import common as C
from lib.pipeline import Finding
from checks import scenarios as S

PROP = "C08"
LEVEL = "proof"
THEOREMS = {"Proofs.Props.C08": ["MsPack.Cab.C08_not_reusable_is_fresh", "MsPack.Cab.C08_backward_seek_is_fresh"],
            "Proofs.Props.C08Stored": ["MsPack.Cab.C08_stored_any_order"],
            "Proofs.Props.C08Mszip": ["MsPack.Zip.C08_mszip_chunk_law", "MsPack.Zip.C08_mszip_chunk_law_fuel", "MsPack.Zip.C08_mszip_chunk_split", "MsPack.Zip.C08_mszip_fuel_irrelevant",
                                      "MsPack.Zip.C08_mszip_calls", "MsPack.Zip.C08_mszip_any_order_model", "MsPack.Cab.C08_mszip_cab_chunk", "MsPack.Cab.C08_mszip_cab_chunk_fuel"],
            "Proofs.Props.C08MszipCab": ["MsPack.Cab.C08_mszip_any_order", "MsPack.Cab.C08_mszip_any_order_single", "MsPack.Cab.C08_mszip_any_order_partial",
                                         "MsPack.Cab.C08_mszip_any_order_fuel_partial", "MsPack.Cab.extract_mszip_cached"],
            "Proofs.Props.C08Chm": ["MsPack.Chm.C08_chm_sec0_history_free", "MsPack.Chm.C08_chm_any_order_sec0", "MsPack.Chm.c08_sec0_keeps", "MsPack.Chm.c08_initDecomp", "MsPack.Chm.c08_lzxCall"],
            "Proofs.Props.C08MszipFree": ["MsPack.Zip.ZipFree.skip_join", "MsPack.Cab.extract_mszip_free", "MsPack.Cab.C08_mszip_free_after_ok", "MsPack.Cab.C08_mszip_free_after_ok_single"],
            "Proofs.Props.C08ChmSession": ["MsPack.Chm.c08_extract_keeps", "MsPack.Chm.C08_chm_sec0_history_free_session", "MsPack.Chm.C08_chm_any_order"],
            "Proofs.Props.C08MszipFull": ["MsPack.Zip.C08_mszip_fail_sticky", "MsPack.Zip.C08_mszip_sticky_call", "MsPack.Zip.C08_mszip_fail_request_free",
                                          "MsPack.Cab.runPhases_after_failure", "MsPack.Cab.extract_mszip_after_failure"],
            "Proofs.Props.C08MszipHistory": ["MsPack.Cab.extract_full_cache", "MsPack.Cab.extract_full_fresh", "MsPack.Cab.C08_mszip_history_free", "MsPack.Cab.C08_mszip_history_free_single"],
            "Proofs.Props.C08Qtm": ["MsPack.Qtm.C08_qtm_pending_exact", "MsPack.Qtm.C08_qtm_chunk_law_pending"]}
ASSUMPTIONS = ["forward re-use of a live decoder is proved for stored folders (C08_stored_any_order: any call sequence, any order, repeated members); for MSZIP the decoder's chunking law is a theorem (C08Mszip: asking for a then b is asking for a+b - same bytes, same final state, both directions; any split of N into call sizes gives the same data; a decoder-level model of cabd_extract's re-use rule returns each member's slice for any request list in any order) and is lifted through cabd_extract itself (C08MszipCab: for an MSZIP folder whose data [0,N) a fresh decoder delivers with OK as D, ANY list of extract() calls on members inside [0,N) - forward through the cached decoder, backward through a rebuilt one, repeated, overlapping - returns OK with exactly each member's slice of D; unconditional for a folder inside one cabinet, for multi-cabinet folders under one static fuel condition on the fresh feeder, which is about the model's fuel, not the C); and without any decodability premise on the requested member (C08MszipFree: after any history of OK extractions, ANY further call - a member beyond the decodable part, in a damaged block, failing - returns exactly the fresh instance's status and bytes); and after a FAILED call too (C08MszipFull, strict MSZIP: the error is sticky, a failure does not depend on the request size, so from the cache a failed call leaves any later extract() returns the fresh instance's status and bytes: extract_mszip_after_failure); and the induction (C08MszipHistory): C08_mszip_history_free - for a strict-mode MSZIP folder ANY list of extract() calls on ANY members, nothing assumed to decode, failing calls anywhere in the history: every call that returns gives exactly the fresh instance's status and bytes (single-cabinet folders outright; chains under the model's static fuel condition); outside: repair mode (fix_mszip), the chunking law of LZX; Quantum: only the stored-up part of the law holds (C08Qtm) - the converse law is FALSE of model and code for windows < 32 KiB (a request ending inside a window-wrapping match takes qtmd.c's bail-out: known finding D2, rediscovered by the proof attempt); CHM (C08Chm): a section-0 member extracts exactly as on a fresh instance from every cache state whose handle for this header is on this header's file (the cached LZX decoder, offsets, positions, sticky error: anything), and any list of section-0 calls over several files, in any order, failing ones included, returns the fresh results; and this holds in any session: every extract call of either section, succeeding or failing, keeps the cache consistent (C08ChmSession: c08_extract_keeps), so in any mixed list of calls each section-0 call returns the fresh-instance result (C08_chm_any_order); section-1 members themselves: covered by the history oracle and model agreement",
               "fault-free host"]
RULE = ("cab.history / chm.history: well-formed generated archives (cab: 1-3 folders, split sets; chm: both sections), a history of 6-14 extract calls drawn with repetition over "
        "all members (two archives interleaved on one decompressor in a third of the cases; one block of one folder damaged in a quarter), each call compared with the same member "
        "on a fresh decompressor; non-trivial = at least 2 distinct members; distinct by archive bytes + history")

def cab_open_lines(case, inst, h0):
    order = case["meta"]["order"]
    lines = [f"open i{inst} {n}" for n in order]
    lines += [f"append i{inst} h{h0 + i} h{h0 + i + 1}" for i in range(len(order) - 1)]
    return lines, len(order)

def damage(rng, case):
    """flip a byte well inside the data area of one part (keeps headers intact most of the time)"""
    files = dict(case["files"])
    nm = rng.choice(list(files)); b = bytearray(files[nm])
    if len(b) > 120:
        p = rng.randrange(len(b) * 2 // 3, len(b)); b[p] ^= 0x41
    files[nm] = bytes(b)
    return dict(case, files=files)

def e8_multi_interval(rng):
    """directed (known finding D12): a CHM whose LZX stream has E8 translation on and spans three reset intervals,
    with E8 call sites in each; the member in the last interval is extracted after the first one (decoding runs
    through the resets) and on a fresh decompressor (decoding starts at its reset point)"""
    case = S.chm_e8_multi_interval(rng)
    lines = [f"file A0_{nm} {bts.hex()}" for nm, bts in case["files"].items()]
    nm = "A0_" + case["meta"]["order"][0]
    names = [m["name"] for m in case["members"]]
    ia, ib, ic = names.index(b"/a.bin"), names.index(b"/b.bin"), names.index(b"/c.bin")
    hist = [(0, ia), (0, ic), (0, ib)]
    lines += ["new chm", f"open i0 {nm}"] + [f"extract i0 h0 {j} out" for (_, j) in hist]
    inst = 1
    for (_, j) in sorted(set(hist)):
        lines += ["new chm", f"open i{inst} {nm}", f"extract i{inst} h{inst} {j} out", f"destroy i{inst}"]; inst += 1
    return lines, dict(family="chm.e8-multi-interval", hist=[list(x) for x in hist], distinct=[list(x) for x in sorted(set(hist))],
                       damaged=False, two=False, nontrivial=True, directed="e8-multi-interval")

def mixed_sections(rng):
    """directed: a stored (section 0) file extracted between two compressed ones - the section-0 read moves the shared
    input handle while the LZX decoder is kept for the next compressed file"""
    for kind in ("uncompressed", "verbatim"):
        case = S.chm_mixed_sections(rng, kind)
        lines0 = [f"file A0_{nm} {bts.hex()}" for nm, bts in case["files"].items()]
        nm = "A0_" + case["meta"]["order"][0]
        idx = {m["name"]: j for j, m in enumerate(case["members"])}
        a, b, c, d = idx[b"/a.bin"], idx[b"/b.txt"], idx[b"/c.bin"], idx[b"/d.bin"]
        for hist in ([a, b, c], [a, b, d], [c, b, d, b, a, b, c], [a, c, b, d]):
            h = [(0, j) for j in hist]
            lines = lines0 + ["new chm", f"open i0 {nm}"] + [f"extract i0 h0 {j} out" for j in hist]
            inst = 1
            for (_, j) in sorted(set(h)):
                lines += ["new chm", f"open i{inst} {nm}", f"extract i{inst} h{inst} {j} out", f"destroy i{inst}"]; inst += 1
            yield lines, dict(family="chm.mixed-sections", hist=[list(x) for x in h], distinct=[list(x) for x in sorted(set(h))],
                              damaged=False, two=False, nontrivial=True, directed="mixed-sections-" + kind)

def generate(ctx):
    rng = ctx.rng
    try:
        yield e8_multi_interval(rng)
    except Exception as e:
        C.log(f"C08: e8-multi-interval generator failed: {e!r}")
    try:
        yield from mixed_sections(rng)
    except Exception as e:
        C.log(f"C08: mixed-sections generator failed: {e!r}")
    # directed: two unrelated cabinets on one decompressor, the second with a folder that cannot be set up (unknown
    # method, window size out of range): its failure must not disturb the first cabinet's members
    for (dl, dm) in S.two_cabinets_damaged_second(rng):
        files = [l for l in dl if l.startswith("file ")]
        hist = [(0, 0), (1, 0), (0, 0), (0, 1), (1, 1), (0, 1), (1, 0), (0, 0)]
        lines = files + ["new cab", "open i0 a.cab", "open i0 b.cab"] + [f"extract i0 h{ai} {j} out" for (ai, j) in hist]
        inst = 1; nh = 2
        for (ai, j) in sorted(set(hist)):
            lines += ["new cab", f"open i{inst} a.cab", f"open i{inst} b.cab", f"extract i{inst} h{nh + ai} {j} out", f"destroy i{inst}"]
            nh += 2; inst += 1
        yield lines, dict(family="cab.history-two-cabinets", hist=[list(x) for x in hist], distinct=[list(x) for x in sorted(set(hist))],
                          damaged=True, two=True, nontrivial=True, **dm)
    # directed: the ResetTable cannot be read (its entry claims the compressed section), SpanInfo takes its place: the
    # first extraction of a compressed member and the same call repeated must agree (with each other and a fresh instance)
    for _ in range(2 if ctx.tier == "quick" else 20):
        r = S.chm_rtable_in_section1(rng)
        if r is None: continue
        case, js = r
        nm = case["meta"]["order"][0]
        hist = [(0, js[0]), (0, js[0]), (0, js[-1]), (0, js[0])]
        lines = [f"file A0_{nm} {case['files'][nm].hex()}", "new chm", f"open i0 A0_{nm}"] + [f"extract i0 h0 {j} out" for (_, j) in hist]
        inst = 1; nh = 1
        for (ai, j) in sorted(set(hist)):
            lines += ["new chm", f"open i{inst} A0_{nm}", f"extract i{inst} h{nh} {j} out", f"destroy i{inst}"]
            nh += 1; inst += 1
        yield lines, dict(family="chm.rtable-in-section1", hist=[list(x) for x in hist], distinct=[list(x) for x in sorted(set(hist))],
                          damaged=False, two=False, nontrivial=True)
    n = 40 if ctx.tier == "quick" else 1500
    k = 0
    while k < n:
        kind = rng.choice(["cab", "cab", "chm"])
        try:
            a = S.vgen_case(rng, kind, rng.choice(["small", "small", "medium"]), **({"avoid_defects": True, "embed": False} if kind == "cab" else {}))
            b = S.vgen_case(rng, kind, "small", **({"avoid_defects": True, "embed": False} if kind == "cab" else {})) if rng.random() < 0.33 else None
        except Exception:
            continue
        if kind == "chm" and a["meta"].get("lzx", {}).get("e8") and len(a["members"]) > 0 and False:
            continue
        k += 1
        damaged = rng.random() < 0.25
        if damaged: a = damage(rng, a)
        archives = [a] + ([b] if b else [])
        # rename files of the second archive to avoid clashes
        lines = []
        for ai, arc in enumerate(archives):
            lines += [f"file A{ai}_{nm} {bts.hex() if bts else '-'}" for nm, bts in arc["files"].items()]
        def open_ops(inst, h0):
            ops = []; heads = []; h = h0
            for ai, arc in enumerate(archives):
                names = [f"A{ai}_{nm}" for nm in arc["meta"]["order"]]
                heads.append(h)
                ops += [f"open i{inst} {nm}" for nm in names]
                if kind == "cab":
                    ops += [f"append i{inst} h{h + i} h{h + i + 1}" for i in range(len(names) - 1)]
                h += len(names)
            return ops, heads, h
        members = [(ai, j) for ai, arc in enumerate(archives) for j in range(len(arc["members"]))]
        if len(members) < 1: continue
        hist = [rng.choice(members) for _ in range(rng.randint(6, 14))]
        if rng.random() < 0.5 and len(members) >= 2:
            hist += sorted(set(hist), reverse=True)       # make sure backward orders occur
        ops, heads, nh = open_ops(0, 0)
        lines += [f"new {kind}"] + ops
        for (ai, j) in hist:
            lines.append(f"extract i0 h{heads[ai]} {j} out")
        # baselines: every distinct member on its own fresh decompressor (for a damaged archive: every member of it,
        # so that the damaged folders - the ones with a member that fails on a fresh decompressor - are known)
        inst = 1; base = {}
        baseline = sorted(set(hist) | ({(0, j) for j in range(len(a["members"]))} if damaged else set()))
        for (ai, j) in baseline:
            ops2, heads2, nh2 = open_ops(inst, nh)
            lines += [f"new {kind}"] + ops2 + [f"extract i{inst} h{heads2[ai]} {j} out"]
            # close what was opened so that handle numbering stays simple
            lines += [f"destroy i{inst}"]
            nh = nh2; inst += 1
        def folder_of(arc, j):
            m = arc["members"][j]
            if kind == "cab": return m.get("folder", 0)
            return 1 if m.get("section") == 1 else -1 - j           # CHM: the LZX stream is one unit, stored members stand alone
        yield lines, dict(family=kind + ".history", hist=[list(x) for x in hist], distinct=[list(x) for x in baseline],
                          folders={f"{ai}:{j}": folder_of(arc, j) for ai, arc in enumerate(archives) for j in range(len(arc["members"]))},
                          damaged=damaged, two=b is not None, nontrivial=len(set(hist)) >= 2)

def judge(ctx, meta, impl, model):
    fs = []
    crash = [b[0] for b in impl if b[0].startswith(("CRASH", "TIMEOUT"))]
    if crash:
        return [Finding("mismatch", "implementation " + crash[0])]
    ex = [C.kv(b[0]) for b in impl if b[0].startswith("extract ")]
    nh = len(meta["hist"]); dist = [tuple(x) for x in meta["distinct"]]
    if len(ex) != nh + len(dist):
        return [Finding("mismatch", f"expected {nh + len(dist)} extract results, got {len(ex)}")]
    fresh = {m: (e.get("st"), e.get("out")) for m, e in zip(dist, ex[nh:])}
    fol = meta.get("folders") or {}
    # the damaged folders: those with a member that fails on a fresh decompressor.  The property promises undisturbed
    # results for members of INTACT folders; a member of a damaged folder that a fresh decompressor can still deliver
    # (its data lies before the damage) may see the folder's decoder in its failed state.
    bad_folders = {(m[0], fol.get(f"{m[0]}:{m[1]}")) for m in dist if fresh[m][0] != "0"} if meta["damaged"] else set()
    for k, (m, e) in enumerate(zip(meta["hist"], ex[:nh])):
        got = (e.get("st"), e.get("out"))
        if meta["damaged"] and (fresh[tuple(m)][0] != "0" or (m[0], fol.get(f"{m[0]}:{m[1]}")) in bad_folders):
            continue        # a member of a damaged folder: the property speaks of members of intact folders
        if got != fresh[tuple(m)]:
            fs.append(Finding("violation", f"call {k} (archive {m[0]} member {m[1]}) after history {meta['hist'][:k]}: {got}, on a fresh decompressor: {fresh[tuple(m)]}"
                                           + (" [archive damaged]" if meta["damaged"] else "")))
            break
    if model is not None and not any("unsupported" in b[0] for b in model):
        mex = [C.kv(b[0]) for b in model if b[0].startswith("extract ")]
        pi = [(e.get("st"), e.get("out")) for e in ex]; pm = [(e.get("st"), e.get("out")) for e in mex]
        if pi != pm:
            k = next((i for i, (x, y) in enumerate(zip(pi, pm)) if x != y), -1)
            fs.append(Finding("mismatch", f"model and implementation differ at extract {k}: impl={pi[k] if k >= 0 else len(pi)} model={pm[k] if k >= 0 else len(pm)}"))
    return fs

def classify(ctx, meta, finding):
    # D12: only the directed construction (E8 on, >= 2 reset intervals) and only a difference in bytes with both calls OK
    if meta.get("directed") == "e8-multi-interval" and finding.kind == "violation" and "('0', " in finding.text and finding.text.count("('0', ") == 2:
        return "D12"
    return None
