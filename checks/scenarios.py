"""Scenario case files shared by several checks (built on lib/minicab and, when present, gen/vgen)."""
import zlib
from lib import common as C, minicab

def mszip_block(data):
    co = zlib.compressobj(9, zlib.DEFLATED, -15)
    return b"CK" + co.compress(data) + co.flush()

def small_cab(rng, comp=None, nblocks=None):
    comp = rng.choice([0, 1]) if comp is None else comp
    nblocks = nblocks or rng.randint(1, 3)
    datas = [bytes(rng.choice(b"abcdefgh \n") for _ in range(rng.choice([1, 10, 100, 1000, 5000]))) for _ in range(nblocks)]
    payloads = [(d, len(d)) if comp == 0 else (mszip_block(d), len(d)) for d in datas]
    whole = b"".join(datas)
    cuts = sorted(set([0, len(whole)] + [rng.randrange(len(whole) + 1) for _ in range(rng.randint(0, 3))]))
    members = []; files = []
    for i in range(len(cuts) - 1):
        nm = b"f%d.bin" % i
        members.append((nm, whole[cuts[i]:cuts[i + 1]]))
        files.append(dict(name=nm, length=cuts[i + 1] - cuts[i], offset=cuts[i], folder=0))
    cab, layout = minicab.build([(comp, payloads)], files, data_res=rng.choice([0, 0, 4]))
    return cab, members, layout

def small_all_formats(rng, n):
    for k in range(n):
        cab, members, _ = small_cab(rng)
        lines = [f"file x.cab {cab.hex()}", "new cab", "open i0 x.cab"]
        for i in range(len(members)):
            lines.append(f"extract i0 h0 {i} o{i}")
        lines += ["close i0 h0", "destroy i0"]
        yield lines, dict(family="cab.small", members=len(members))
