"""Scenario case files shared by the checks: small hand-built cabinets (lib/minicab) and
well-formed archives of every format from the generator package /verif/gen/vgen."""
import os, sys, zlib
from lib import common as C, minicab
from lib.util import digest

sys.path.insert(0, os.path.join(C.VERIF, "gen"))

def mszip_block(data):
    co = zlib.compressobj(9, zlib.DEFLATED, -15)
    return b"CK" + co.compress(data) + co.flush()

def small_cab(rng, comp=None, nblocks=None):
    comp = rng.choice([0, 1]) if comp is None else comp
    nblocks = nblocks or rng.randint(1, 3)
    datas = [bytes(rng.choice(b"abcdefgh \n") for _ in range(rng.choice([1, 10, 100, 1000, 5000]))) for _ in range(nblocks)]
    payloads = [(d, len(d)) if comp == 0 else (mszip_block(d), len(d)) for d in datas]
    whole = b"".join(datas)
    cuts = sorted(set([0, len(whole)] + [rng.randrange(len(whole) + 1) for _ in range(rng.randint(0, 3))]))
    members = []; files = []
    for i in range(len(cuts) - 1):
        nm = b"f%d.bin" % i
        members.append((nm, whole[cuts[i]:cuts[i + 1]]))
        files.append(dict(name=nm, length=cuts[i + 1] - cuts[i], offset=cuts[i], folder=0))
    # every optional part of the header now and then: header / folder / data reserve areas
    cab, layout = minicab.build([(comp, payloads)], files, data_res=rng.choice([0, 0, 4]),
                                header_res=rng.choice([None, None, b"", b"R" * 24, bytes(rng.randrange(256) for _ in range(rng.choice([1, 100])))]),
                                folder_res=rng.choice([0, 0, 0, 6]))
    return cab, members, layout

def small_all_formats(rng, n):
    for k in range(n):
        cab, members, _ = small_cab(rng)
        lines = [f"file x.cab {cab.hex()}", "new cab", "open i0 x.cab"]
        for i in range(len(members)):
            lines.append(f"extract i0 h0 {i} o{i}")
        lines += ["close i0 h0", "destroy i0"]
        yield lines, dict(family="cab.small", members=len(members))

# ------------------------------------------------------------------ vgen-based scenarios

def vgen_case(rng, kind, size="small", **kw):
    """a random well-formed archive; a generator hiccup (an encoder's internal assertion on an unlucky plan) is retried
    with fresh random choices - it must not take a check down"""
    import vgen
    mod = __import__("vgen." + kind, fromlist=["random_case"])
    last = None
    for _ in range(8):
        try:
            return mod.random_case(rng, size, **kw)
        except (AssertionError, ValueError, IndexError, KeyError, ZeroDivisionError) as e:
            last = e
    raise RuntimeError(f"vgen.{kind}.random_case failed 8 times in a row: {last!r}")

def file_lines(case):
    return [f"file {n} {b.hex() if b else '-'}" for n, b in case["files"].items()]

def cab_ops(case, params=(), join="append-ltr", extract_order=None, close=True):
    """ops for a vgen cab case: open every part, join them, extract every member of the joined
    list (by index), close, destroy.  Returns (lines, nfiles)"""
    order = case["meta"]["order"]
    lines = ["new cab"] + [f"param i0 {k} {v}" for k, v in params]
    if case["meta"].get("open") == "search":
        lines += [f"search i0 {order[0]}"]
        # members carry 'cab' = index of the embedded cabinet; handles h0.. in chain order
        idx = {}
        for m in case["members"]:
            k = m.get("cab", 0); j = idx.get(k, 0); idx[k] = j + 1
            lines.append(f"extract i0 h{k} {j} o{k}_{j}")
        if close: lines += ["close i0 h0", "destroy i0"]
        return lines, len(case["members"])
    lines += [f"open i0 {n}" for n in order]
    for i in range(len(order) - 1):
        lines.append(f"append i0 h{i} h{i + 1}")
    n = len(case["members"])
    for j in (extract_order if extract_order is not None else range(n)):
        lines.append(f"extract i0 h0 {j} o{j}")
    if close: lines += ["close i0 h0", "destroy i0"]
    return lines, n

def generic_ops(case, params=(), close=True):
    kind = case["kind"]
    if kind == "cab":
        return cab_ops(case, params, close=close)[0]
    order = case["meta"]["order"]
    if kind == "chm":
        n = case["meta"].get("nfiles", len(case["members"]))
        lines = ["new chm", f"open i0 {order[0]}"]
        nlist = len(case["meta"]["expect"]["files"]) if "expect" in case["meta"] and "files" in case["meta"]["expect"] else len(case["members"])
        lines += [f"extract i0 h0 {j} o{j}" for j in range(nlist)]
        if close: lines += ["close i0 h0", "destroy i0"]
        return lines
    if kind in ("szdd", "kwaj"):
        lines = [f"new {kind}", f"open i0 {order[0]}", "extract i0 h0 - out"]
        if close: lines += ["close i0 h0", "destroy i0"]
        return lines
    if kind == "oab":
        lines = ["new oab"] + [f"param i0 {k} {v}" for k, v in params if k == "DECOMPBUF"]
        if case["meta"].get("open") == "incremental" or len(order) > 1:
            lines.append(f"decompressinc i0 {order[0]} {order[1]} out")
        else:
            lines.append(f"decompress i0 {order[0]} out")
        if close: lines.append("destroy i0")
        return lines
    raise ValueError(kind)

def expect_by_name(case):
    """name(hex) -> [digest,...] of the members (names may repeat)"""
    d = {}
    for m in case["members"]:
        d.setdefault(m["name"].hex() if m["name"] else "=", []).append(digest(m["data"]))
    return d

def short_meta(case):
    m = case["meta"]
    out = {k: v for k, v in m.items() if k not in ("expect", "sub", "blocks") and not isinstance(v, (bytes,))}
    return out

# ------------------------------------------------------------------ corpora for the cross-cutting properties

KINDS = ["cab", "cab", "cab", "chm", "chm", "szdd", "kwaj", "kwaj", "oab"]

def valid_cases(rng, n, sizes=("small", "small", "small", "medium"), kinds=KINDS, **kw):
    """n well-formed archives of mixed formats (vgen dicts)"""
    for k in range(n):
        kind = rng.choice(kinds)
        try:
            yield vgen_case(rng, kind, rng.choice(sizes), **(kw if kind == "cab" else {}))
        except Exception as e:          # a generator hiccup must not take a check down
            continue

def malform(rng, case, count=4):
    """mutated copies of a well-formed case: bit flips / byte sets (biased to the first 128 bytes and
    to the first bytes after), truncations, a splice.  Returns list of (files dict, description)"""
    out = []
    names = list(case["files"].keys())
    for _ in range(count):
        files = dict(case["files"])
        nm = rng.choice(names); b = bytearray(files[nm])
        if not b:
            continue
        how = rng.choice(["flip", "flip", "set", "set", "trunc", "trunc", "splice", "zero-run", "ff-run"])
        if how == "flip":
            for _ in range(rng.choice([1, 1, 2, 5])):
                p = rng.randrange(min(len(b), 128)) if rng.random() < 0.6 else rng.randrange(len(b))
                b[p] ^= 1 << rng.randrange(8)
        elif how == "set":
            for _ in range(rng.choice([1, 1, 3])):
                p = rng.randrange(min(len(b), 160)) if rng.random() < 0.7 else rng.randrange(len(b))
                b[p] = rng.choice([0, 1, 0x7f, 0x80, 0xff, rng.randrange(256)])
        elif how == "trunc":
            b = b[:rng.randrange(len(b))]
        elif how == "splice":
            p = rng.randrange(len(b)); q = rng.randrange(len(b)); ln = rng.randrange(1, 64)
            b[p:p + ln] = b[q:q + ln]
        elif how == "zero-run":
            p = rng.randrange(len(b)); b[p:p + rng.choice([2, 4, 8, 32])] = bytes(rng.choice([2, 4, 8, 32]))
        else:
            p = rng.randrange(len(b)); ln = rng.choice([2, 4, 8]); b[p:p + ln] = b"\xff" * ln
        files[nm] = bytes(b)
        out.append((files, how))
    return out

def fixture_files():
    """(kind, path) of every archive shipped with the repository (incl. the crashers)"""
    import glob
    res = []
    for p in sorted(glob.glob(os.path.join(C.REPO, "cabextract/test/cabs/*.cab")) + glob.glob(os.path.join(C.REPO, "cabextract/test/bugs/*.cab")) +
                    glob.glob(os.path.join(C.REPO, "libmspack/test/test_files/cabd/*.cab"))):
        if os.path.getsize(p) < 3_000_000: res.append(("cab", p))
    for p in sorted(glob.glob(os.path.join(C.REPO, "libmspack/test/test_files/chmd/*.chm"))):
        if os.path.getsize(p) < 3_000_000: res.append(("chm", p))
    for p in sorted(glob.glob(os.path.join(C.REPO, "libmspack/test/test_files/kwajd/*.kwj"))):
        res.append(("kwaj", p))
    return res

def fixture_ops(kind, path, nextract=6, params=()):
    nm = "fx." + kind
    lines = [f"fileref {nm} {path}", f"new {kind}"] + [f"param i0 {k} {v}" for k, v in params]
    if kind in ("szdd", "kwaj"):
        return lines + [f"open i0 {nm}", "extract i0 h0 - out", "close i0 h0", "destroy i0"]
    lines += [f"open i0 {nm}"] + [f"extract i0 h0 {j} o{j}" for j in range(nextract)] + ["close i0 h0", "destroy i0"]
    return lines

# ------------------------------------------------------------------ directed CHM constructions

def chm_e8_multi_interval(rng, intervals=3, rframes=2, wb=16):
    """a well-formed CHM whose LZX stream has Intel E8 translation switched on and spans several
    reset intervals, with E8 call sites in every interval; members: one at the start, one in the
    last interval.  (Sequential decoding and decoding from a reset point must give the same bytes.)"""
    import struct
    from vgen import chm, lzx, lz
    FRAME = 32768
    rb = rframes * FRAME; n = intervals * rb
    body = bytearray(rng.choice(b"abcdefgh \n") for _ in range(n))
    for p in range(100, n - 10, 211):
        body[p] = 0xE8
        struct.pack_into("<i", body, p + 1, rng.choice([0x1388, 0x10, 70000, -50, 0x20000, 5]))
    data = bytes(body)
    filesize = 0x00100000
    raw = lzx.e8_encode(data, filesize)
    toks = lz.greedy_tokens(raw, lzx.max_offset(wb), 2, 257, frame=FRAME, reset=rb, rng=rng)
    frames, tot, info = lzx.lzx_frames(toks, wb, intel_filesize=filesize, reset_interval=rframes, rng=rng)
    offs = [0]
    for fr in frames: offs.append(offs[-1] + len(fr))
    content = b"".join(frames)
    sysfiles = [(chm.CONTENT, content), (chm.CONTROL, chm.control_data(2, rframes, wb)), (chm.SPANINFO, struct.pack("<Q", n)),
                (chm.RTABLE, chm.reset_table(offs[:-1], n, offs[-1], 8))]
    members = [{"name": b"/a.bin", "section": 1, "offset": 0, "data": data[:10]},
               {"name": b"/b.bin", "section": 1, "offset": (intervals - 1) * rb, "data": data[(intervals - 1) * rb:(intervals - 1) * rb + 1000]},
               {"name": b"/c.bin", "section": 1, "offset": rb + 5, "data": data[rb + 5:rb + 405]}]
    s0 = bytearray(); entries = []
    for nm, d in sysfiles:
        entries.append((nm, 0, len(s0), len(d))); s0 += d
    entries += [(m["name"], 1, m["offset"], len(m["data"])) for m in members]
    f, fields = chm.build(entries, bytes(s0), version=3, chunk_size=4096, density=2)
    members.sort(key=lambda m: chm.sort_key(m["name"]))
    return {"kind": "chm", "files": {"f.chm": f}, "members": members,
            "meta": {"order": ["f.chm"], "directed": "e8-multi-interval", "expect": {"header": fields, "sysfiles": [x for x, _ in sysfiles]}}}

def chm_member_at_padded_end(rng, rframes=2, wb=16, last_entry_zero=False):
    """a CHM whose directory declares a 5-byte member starting exactly at the (padded) end of the
    LZX stream, with a reset-table entry for that frame: nothing can be extracted for it, so a
    success status would be wrong"""
    import struct
    from vgen import chm, lzx, lz
    FRAME = 32768
    rb = rframes * FRAME; n = 3 * rb
    data = bytes(rng.choice(b"abcdefgh \n") for _ in range(n))
    toks = lz.greedy_tokens(data, lzx.max_offset(wb), 2, 257, frame=FRAME, reset=rb, rng=rng)
    frames, tot, info = lzx.lzx_frames(toks, wb, reset_interval=rframes, rng=rng)
    offs = [0]
    for fr in frames: offs.append(offs[-1] + len(fr))
    content = b"".join(frames)
    # one entry more than there are frames: the frame that would start at the end of the stream
    rt = chm.reset_table(offs[:-1] + [0] if last_entry_zero else offs, n, offs[-1], 8)
    sysfiles = [(chm.CONTENT, content), (chm.CONTROL, chm.control_data(2, rframes, wb)), (chm.SPANINFO, struct.pack("<Q", n)), (chm.RTABLE, rt)]
    s0 = bytearray(); entries = []
    for nm, d in sysfiles:
        entries.append((nm, 0, len(s0), len(d))); s0 += d
    entries += [(b"/ok.bin", 1, 0, 10), (b"/past-end.bin", 1, n, 5)]
    f, fields = chm.build(entries, bytes(s0), version=3, chunk_size=4096, density=2)
    return {"kind": "chm", "files": {"f.chm": f}, "members": [{"name": b"/ok.bin", "section": 1, "offset": 0, "data": data[:10]}],
            "meta": {"order": ["f.chm"], "directed": "member-at-padded-end"}}


def oab_crc_zero_case(rng, patch=False, kinds=("uncompressed", "verbatim")):
    """a well-formed OAB full file / patch with two LZX DELTA blocks; the second block's correct CRC
    (register style: init 0xffffffff, not inverted) is exactly 0x00000000 — an ordinary value in this
    format.  The blocks are coded as single LZX blocks of the given kinds (an 'uncompressed' LZX block
    keeps decoding after almost any payload alteration)."""
    import struct
    from vgen import oab, lzx, lz
    blocks = []; base = b""
    for k in range(2):
        n = rng.choice([40, 64, 77, 200])
        data = bytes(rng.choice(b"abcdefgh \n") for _ in range(n))
        if k == 1:
            data = data[:-4] + struct.pack("<I", oab.crc(data[:-4]))     # feeding the register to itself clears it
            assert oab.crc(data) == 0
        ref = bytes(rng.randrange(256) for _ in range(rng.choice([0, 50]))) if patch else b""
        wb = oab.window_bits(((len(ref) + 32767) & ~32767) + n if patch else n)
        toks = [("L", x) for x in data]
        frames, total, info = lzx.lzx_frames(toks, wb, delta=True, ref=ref, blocks=[(kinds[k % len(kinds)], n)], rng=rng)
        payload = b"".join(frames)
        if patch:
            blocks.append({"data": data, "payload": payload, "source_size": len(ref)}); base += ref
        else:
            blocks.append({"data": data, "payload": payload, "lzx": True})
    plain = b"".join(b["data"] for b in blocks)
    if patch:
        f = oab.patch_file(blocks, len(base))
        files = {"patch.oab": f, "base.oab": base}; order = ["patch.oab", "base.oab"]
    else:
        files = {"full.oab": oab.full_file(blocks)}; order = ["full.oab"]
    # layout of the blocks inside the first file: (header offset, payload offset, payload length)
    pos = 28 if patch else 16; layout = []
    for b in blocks:
        layout.append((pos, pos + 16, len(b["payload"]))); pos += 16 + len(b["payload"])
    return {"kind": "oab", "files": files, "members": [{"name": b"out", "data": plain}],
            "meta": {"open": "oabinc" if patch else "oab", "order": order, "nblocks": 2, "layout": layout, "patch": patch,
                     "crcs": [oab.crc(b["data"]) for b in blocks], "blocks": [{"lzx_blocks": [kinds[k % len(kinds)]]} for k in range(2)]}}


def chm_huge_lengths(rng, rtable_len=(1 << 32) + 40, file_len_add=1 << 32, which="rtable"):
    """a CHM that is well formed except for 64-bit length fields above 2^32: the directory entry of one system file
    (ResetTable / ControlData / SpanInfo / Content) claims `rtable_len` bytes and the header's file length is raised
    so that "longer than the file" tests pass.  Lengths are read as 64-bit ENCINTs but buffers are sized with ints."""
    import struct
    from vgen import chm, lzx, lz
    FRAME = 32768; rframes = 2; wb = 16
    rb = rframes * FRAME; n = 2 * rb
    data = bytes(rng.choice(b"abcdefgh \n") for _ in range(n))
    toks = lz.greedy_tokens(data, lzx.max_offset(wb), 2, 257, frame=FRAME, reset=rb, rng=rng)
    frames, tot, info = lzx.lzx_frames(toks, wb, reset_interval=rframes, rng=rng)
    offs = [0]
    for fr in frames: offs.append(offs[-1] + len(fr))
    content = b"".join(frames)
    sysfiles = [(chm.CONTENT, content), (chm.CONTROL, chm.control_data(2, rframes, wb)), (chm.SPANINFO, struct.pack("<Q", n)),
                (chm.RTABLE, chm.reset_table(offs[:-1], n, offs[-1], 8))]
    members = [{"name": b"/a.bin", "section": 1, "offset": 0, "data": data[:10]},
               {"name": b"/b.bin", "section": 1, "offset": rb + 100, "data": data[rb + 100:rb + 1100]}]
    s0 = bytearray(); entries = []
    target = {"rtable": chm.RTABLE, "control": chm.CONTROL, "spaninfo": chm.SPANINFO, "content": chm.CONTENT}[which]
    for nm, d in sysfiles:
        entries.append((nm, 0, len(s0), rtable_len if nm == target else len(d))); s0 += d
    entries += [(m["name"], 1, m["offset"], len(m["data"])) for m in members]
    f, fields = chm.build(entries, bytes(s0), version=3, chunk_size=4096, density=2)
    f = bytearray(f)
    hs0 = struct.unpack_from("<Q", f, 0x38)[0]
    flen = struct.unpack_from("<Q", f, hs0 + 8)[0]
    struct.pack_into("<Q", f, hs0 + 8, flen + file_len_add)
    members.sort(key=lambda m: chm.sort_key(m["name"]))
    return {"kind": "chm", "files": {"f.chm": bytes(f)}, "members": members, "meta": {"order": ["f.chm"], "directed": "huge-length-" + which}}


def chm_mixed_sections(rng, kind="uncompressed"):
    """a well-formed CHM with one stored (section 0) member between two compressed (section 1) members whose
    compressed data lies far apart (poorly compressible, so that the second needs input well beyond the
    decoder's 4096-byte buffer); LZX blocks of the given kind"""
    import struct
    from vgen import chm, lzx, lz
    FRAME = 32768; rframes = 2; wb = 16
    rb = rframes * FRAME; n = 2 * rb
    data = bytes(rng.randrange(256) for _ in range(n))
    toks = [("L", x) for x in data] if kind == "uncompressed" else lz.greedy_tokens(data, lzx.max_offset(wb), 2, 257, frame=FRAME, reset=rb, rng=rng)
    nb = [(kind, min(FRAME, n - p)) for p in range(0, n, FRAME)]
    frames, tot, info = lzx.lzx_frames(toks, wb, reset_interval=rframes, blocks=[(kind, rb)] * 2, rng=rng)
    offs = [0]
    for fr in frames: offs.append(offs[-1] + len(fr))
    content = b"".join(frames)
    plain = bytes(rng.choice(b"plain text ") for _ in range(3000))
    sysfiles = [(chm.CONTENT, content), (chm.CONTROL, chm.control_data(2, rframes, wb)), (chm.SPANINFO, struct.pack("<Q", n)),
                (chm.RTABLE, chm.reset_table(offs[:-1], n, offs[-1], 8))]
    members = [{"name": b"/a.bin", "section": 1, "offset": 0, "data": data[:100]},
               {"name": b"/b.txt", "section": 0, "offset": None, "data": plain},
               {"name": b"/c.bin", "section": 1, "offset": 20000, "data": data[20000:50000]},
               {"name": b"/d.bin", "section": 1, "offset": rb + 7, "data": data[rb + 7:rb + 30007]}]
    s0 = bytearray(); entries = []
    for nm, d in sysfiles:
        entries.append((nm, 0, len(s0), len(d))); s0 += d
    members[1]["offset"] = len(s0); s0 += plain
    entries += [(m["name"], m["section"], m["offset"], len(m["data"])) for m in members]
    f, fields = chm.build(entries, bytes(s0), version=3, chunk_size=4096, density=2)
    members.sort(key=lambda m: chm.sort_key(m["name"]))
    return {"kind": "chm", "files": {"f.chm": f}, "members": members, "meta": {"order": ["f.chm"], "directed": "mixed-sections-" + kind}}

# ------------------------------------------------------------------------------------------------------------------
# directed families that came out of the fourth round of seeded changes (used by several checks)

def mszip_cross_block_cases(rng):
    """MSZIP folders of two or three blocks whose later blocks open with a match reaching back into the previous
    block's history: the source straddling the 32768 boundary (it starts in the old data and runs into the new), at
    the very end of the window, a run of one byte (distance 1) crossing the boundary - short (< 12, byte loop) and
    long (>= 12, fast loop) matches, as a cabinet folder and as a KWAJ method-4 file.
    yields (label, cab bytes, kwaj bytes, plaintext)"""
    from vgen import deflate, lz, kwaj
    from lib import minicab
    FR = 32768
    def first_block(runbyte=None):
        # incompressible-ish first frame whose tail is distinctive (so that a wrong source is visible)
        d = bytearray(rng.choice(b"abcdefghijklmnopqrstuvwxyz0123456789") for _ in range(FR))
        if runbyte is not None: d[-40:] = bytes([runbyte]) * 40
        return bytes(d)
    plans = []
    for w in (0, 1, 5):
        for ln in (3, 8, 11, 12, 13, 40, 258):
            for j in (1, 2, ln - 1, ln):                 # source starts j bytes before the boundary (straddles when j < ln)
                if j < 1: continue
                plans.append(("straddle", w, w + j, ln, None))
            plans.append(("far", w, FR, ln, None)); plans.append(("far-1", w, FR - 1, ln, None))
            plans.append(("far-200", w, FR - rng.randrange(2, 257), ln, None))
    for ln in (3, 11, 12, 100, 258):
        plans.append(("run-across", 0, 1, ln, rng.choice([0x41, 0xEE, 0xFF])))
    rng.shuffle(plans)
    for (label, w, dist, ln, runbyte) in plans:
        b1 = first_block(runbyte)
        toks = [("L", x) for x in b1]
        lits2 = [("L", rng.choice(b"XYZ")) for _ in range(w)]
        toks += lits2 + [("M", dist, ln)] + [("L", rng.choice(b"pqrs")) for _ in range(rng.choice([0, 3, 50]))]
        if rng.random() < 0.5:
            toks += [("M", rng.choice([1, 7, 300]), rng.choice([3, 12, 60]))]
        try:
            plain = lz.expand(toks)
            blocks = deflate.mszip_blocks(toks, mode=rng.choice(["fixed", "dynamic"]), rng=rng)
        except Exception:
            continue
        cab, _ = minicab.build([(1, blocks)], [dict(name=b"x.bin", length=len(plain), offset=0, folder=0)])
        kw = kwaj.build(4, kwaj.mszip_payload(blocks), length=len(plain))
        yield f"{label}-w{w}-d{dist}-l{ln}", cab, kw, plain

def lzss_wrap_group_cases(rng):
    """LZSS streams in which a group of eight literals (control byte 0xFF) starts at each ring position 4088..4095, i.e.
    is written across the ring's wrap, followed by matches that read ring positions 0..17 - for the three start
    positions (SZDD 4080, QBasic/KWAJ 4078).  yields (label, tokens, start)"""
    for start in (4080, 4078):
        for target in range(4086, 4096):
            need = target - start                      # bytes to emit before the literal group
            # first groups: 8 tokens each; use k literals + matches of length 3.. to land exactly
            toks = []
            # one group of 7 literals + 1 match of length m (3..18) advances 7 + m; else plain 8-literal groups
            rem = need
            while rem >= 8 + 10 + 8: toks += [("L", rng.randrange(256)) for _ in range(8)]; rem -= 8
            if rem >= 10:
                m = rem - 7
                if 3 <= m <= 18: toks += [("L", rng.randrange(256)) for _ in range(7)] + [("M", None, m)]; rem = 0
            if rem != 0: continue
            group = [("L", 0x60 + i) for i in range(8)]
            after = [("Mabs", 0, 8), ("Mabs", 2, 3), ("L", 0x21), ("Mabs", (target + 8) % 4096 - 3 if (target + 8) % 4096 >= 3 else 0, 5)]
            yield f"start{start}-group@{target}", toks, group, after, start

def chm_sec0_beyond_length(rng):
    """a well-formed CHM whose header section 0 then claims a file length that ends inside (or before) an uncompressed
    member: the member's extent lies beyond `chm->length` although the bytes are there (a CHM with trailing data, or a
    lying length).  yields (label, case, member index, declared length)"""
    import struct
    for _ in range(60):
        try:
            case = vgen_case(rng, "chm", "small")
        except Exception:
            continue
        mem = case["members"]
        cand = [j for j, m in enumerate(mem) if m["section"] == 0 and len(m["data"]) >= 8]
        if not cand: continue
        nm = case["meta"]["order"][0]; b = bytearray(case["files"][nm])
        hdr = case["meta"]["expect"]["header"]; sec0 = hdr["sec0"]
        hs0 = struct.unpack_from("<Q", b, 0x38)[0]
        j = rng.choice(cand); m = mem[j]
        for label, newlen in (("ends-inside", sec0 + m["offset"] + len(m["data"]) // 2), ("ends-at-start", sec0 + m["offset"]),
                              ("ends-before", max(0x60, sec0 + m["offset"] - 5)), ("ends-one-short", sec0 + m["offset"] + len(m["data"]) - 1)):
            b2 = bytearray(b); struct.pack_into("<Q", b2, hs0 + 8, newlen)
            yield label, dict(case, files={nm: bytes(b2)}), j, len(m["data"])
        return

def two_cabinets_damaged_second(rng):
    """two unrelated single-part cabinets opened on one decompressor: members of A, then a member of B whose folder
    cannot be set up (unknown method / bad window size), then members of A again.  yields (lines, expected digests of A)"""
    from lib import minicab
    import zlib
    def ck(d):
        co = zlib.compressobj(9, zlib.DEFLATED, -15); return b"CK" + co.compress(d) + co.flush()
    for comp_a in (0, 1):
        da = bytes(rng.choice(b"abcdefg\n") for _ in range(3000)); db = bytes(rng.choice(b"ABCDEFG ") for _ in range(3000))
        pa = [((ck(da) if comp_a else da), len(da))]
        caba, _ = minicab.build([(comp_a, pa)], [dict(name=b"good.bin", length=1000, offset=0, folder=0), dict(name=b"next.bin", length=2000, offset=1000, folder=0)])
        for bad in (4, 15, 3 | (9 << 8), 2 | (30 << 8), 3 | (26 << 8)):
            cabb, _ = minicab.build([(bad, [(db, len(db))]), (0, [(db, len(db))])], [dict(name=b"bad.bin", length=3000, offset=0, folder=0), dict(name=b"fine.bin", length=3000, offset=0, folder=1)])
            yield ([f"file a.cab {caba.hex()}", f"file b.cab {cabb.hex()}", "new cab", "open i0 a.cab", "open i0 b.cab",
                    "extract i0 h0 0 a0", "extract i0 h1 0 bad", "extract i0 h0 0 a0again", "extract i0 h0 1 a1", "extract i0 h1 1 fine", "extract i0 h0 1 a1again",
                    "close i0 h1", "close i0 h0", "destroy i0"], dict(comp_a=comp_a, bad=bad))

def oab_odd_uncompressed_cases(rng, count=10):
    """OAB full files whose single LZX DELTA block is a run of tiny uncompressed LZX blocks (1 and 2 bytes: each costs a
    header, 12 bytes of R0-R2 and a pad byte) followed by one large uncompressed block that crosses the 32 KiB chunk
    boundary: the position of that boundary relative to the decoder's input buffer sweeps all residues, odd ones
    included.  yields case dicts (kind oab)"""
    from vgen import oab, lzx
    for k in range(count):
        a = rng.randrange(0, 16); b = rng.randrange(0, 8); big = rng.choice([33000, 39505, 40001, 65537 - a - 2 * b])
        n = a + 2 * b + big
        data = bytes(rng.choice(b"abcdefgh\x00\xe8") for _ in range(n))
        toks = [("L", x) for x in data]
        blocks = [("uncompressed", 1)] * a + [("uncompressed", 2)] * b + [("uncompressed", big)]
        rng.shuffle(blocks); blocks.sort(key=lambda x: x[1] > 2)       # the big one last, the small ones in random order
        try:
            frames, total, info = lzx.lzx_frames(toks, oab.window_bits(n), delta=True, ref=b"", blocks=blocks, rng=rng)
        except Exception:
            continue
        f = oab.full_file([{"data": data, "payload": b"".join(frames), "lzx": True}])
        yield {"kind": "oab", "files": {"full.oab": f}, "members": [{"name": b"out", "data": data}],
               "meta": {"order": ["full.oab"], "blocks": [{"lzx_blocks": ["uncompressed"] * len(blocks)}], "directed": f"odd-uncompressed-{a}x1+{b}x2+{big}"}}

def chm_rtable_in_section1(rng):
    """a CHM whose directory claims that the ResetTable system file lies in the compressed section (one byte of the
    listing changed): reading it fails, SpanInfo takes its place.  returns (case, index of a compressed member) or None"""
    name = b"::DataSpace/Storage/MSCompressed/Transform/{7FC28940-9D31-11D0-9B27-00A0C91E9C7C}/InstanceData/ResetTable"
    for _ in range(200):
        try:
            case = vgen_case(rng, "chm", "small", rtable="normal")
        except Exception:
            continue
        mem = case["members"]; js = [j for j, m in enumerate(mem) if m["section"] == 1 and m["data"]]
        if not js: continue
        nm = case["meta"]["order"][0]; b = bytearray(case["files"][nm])
        i = b.find(name)
        if i < 0 or b[i + len(name)] != 0: continue
        b[i + len(name)] = 1
        return dict(case, files={nm: bytes(b)}), js
    return None
