"""C12 — checksummed data is never accepted after being altered (CAB blocks; OAB blocks).

Theorems: Proofs/Props/C12.lean (block level, every length/position/value) on the model of
cabd_checksum + the block test of cabd_sys_read_block; Proofs/Props/Tables.lean ties crc32_table.
Correspondence: prim cksum (model vs cabd_checksum), cab.corrupt (model vs implementation on
extract of corrupted cabinets), and the property's own oracle on the implementation:
status OK with bytes different from the original member = violation."""
import struct, zlib
from lib import common as C, minicab
from lib.pipeline import Finding
from lib.util import fnv1a, digest

PROP = "C12"
LEVEL = "proof"
THEOREMS = {
    "Proofs.Props.C12": ["MsPack.Cab.C12_payload_altered", "MsPack.Cab.C12_sizes_altered",
                         "MsPack.Cab.C12_stored_altered", "MsPack.Cab.C12_cksum_single_byte"],
    "Proofs.Props.C12Extract": ["MsPack.Cab.C12_stored_extract_refused", "MsPack.Cab.C12_extract_payload_byte", "MsPack.Cab.C12_extract_usize_byte"],
    "Proofs.Props.C12Decoders": ["MsPack.Cab.C12_cab_ok_keeps_nr", "MsPack.Cab.C12_cab_feeder_error_refused", "MsPack.Cab.C12_not_nr_iff",
                                 "MsPack.Cab.C12_cab_checksum_refused", "MsPack.Cab.C12_cab_ok_cache_nr"],
    "Proofs.Props.Tables": ["MsPack.TableObligations.crc32_table_is_crc32"],
}
ASSUMPTIONS = [
    "Lean kernel; axioms listed in coverage.trusted_base",
    "model of cabd_checksum/cabd_sys_read_block validated by differential execution, not derived from the C",
    "lift through cabd_extract for EVERY compression type (C12Decoders): if the feeder handed back by an extract() call shows a block error (a wrong checksum, a truncated block, a missing continuation cabinet - anything but the harmless 'read past the folder's last block' record), the call's status is not OK, in any mode; a recorded CHECKSUM/READ/OPEN never goes with OK (C12_cab_checksum_refused). The literal 'any recorded feeder error => not OK' is false: decoders read ahead past the last block on every small folder, which records DATAFORMAT and is rightly ignored (kernel-checked example). Not proved: which members of an MSZIP/LZX/Quantum folder depend on a given damaged block (the decoders' read-ahead can make an earlier member fail too)",
    "OAB: a CRC-32 cannot exclude collisions of multi-byte output changes (probability 2^-32); claimed only: OK implies stored CRC matches, single-byte output differences and CRC-field alterations are always caught",
]
RULE = ("prim.cksum: random byte strings (length 0..48, all lengths mod 4) x random seeds; cab.corrupt: for small cabinets "
        "(stored and MSZIP folders, 1-3 checksummed blocks, with/without data reserve) every byte of payload (sampled above 96 bytes), "
        "both bytes of the uncompressed-size field and all four bytes of the stored checksum x replacement values "
        "{+1, ^0x80, 0x00, 0xff}; oab.corrupt: full files and patches of two LZX DELTA blocks (LZX block kinds uncompressed/verbatim/aligned; the second block's correct CRC is 0), "
        "every byte of each block's uncompressed-size and CRC fields and sampled payload bytes x the same values; a case is non-trivial if the altered byte differs from the original; distinct by file hash")

def mszip_block(data):
    co = zlib.compressobj(9, zlib.DEFLATED, -15)
    return b"CK" + co.compress(data) + co.flush()

def make_cabs(rng, tier):
    """yields (name, cab bytes, layout, members[(name, data)])"""
    out = []
    sizes = [(5,), (33, 7), (64, 1, 30)] if tier == "quick" else [(5,), (33, 7), (64, 1, 30), (200, 3), (96,)]
    for si, blocks in enumerate(sizes):
        for comp in (0, 1):
            for res in ((0,) if tier == "quick" and si else (0, 3)):
                datas = [bytes(rng.randrange(256) if comp == 0 else rng.choice(b"abcab ") for _ in range(n)) for n in blocks]
                payloads = [(d, len(d)) if comp == 0 else (mszip_block(d), len(d)) for d in datas]
                whole = b"".join(datas)
                cut = len(whole) // 2
                members = [(b"a.bin", whole[:cut]), (b"b.bin", whole[cut:])]
                files = [dict(name=b"a.bin", length=cut, offset=0, folder=0),
                         dict(name=b"b.bin", length=len(whole) - cut, offset=cut, folder=0)]
                cab, layout = minicab.build([(comp, payloads)], files, data_res=res)
                out.append((f"s{si}c{comp}r{res}", cab, layout, members))
                if len(blocks) > 1 and res == 0:
                    # one member per block: a failure in block k must not let member k+1 through with wrong bytes
                    members = []; files = []; o = 0
                    for k, d in enumerate(datas):
                        members.append((b"m%d.bin" % k, d))
                        files.append(dict(name=b"m%d.bin" % k, length=len(d), offset=o, folder=0)); o += len(d)
                    cab, layout = minicab.build([(comp, payloads)], files, data_res=res)
                    out.append((f"s{si}c{comp}aligned", cab, layout, members))
    return out

def generate(ctx):
    rng = ctx.rng
    # --- prim.cksum
    n = 300 if ctx.tier == "quick" else 3000
    lines = []
    for i in range(n):
        ln = rng.choice([0, 1, 2, 3, 4, 5, 6, 7, 8, 9, 15, 16, 17, 31, 32, 33, 48, rng.randrange(49)])
        d = bytes(rng.randrange(256) for _ in range(ln))
        seed = rng.choice([0, 0xffffffff, rng.randrange(2**32)])
        lines.append(f"prim cksum {C.hexs(d)} {seed}")
    yield lines, dict(family="prim.cksum", sig="prim.cksum-%d" % ctx.seed, n=n)
    # --- cab.corrupt
    for (name, cab, layout, members) in make_cabs(rng, ctx.tier):
        exp = [digest(m[1]) for m in members]
        tail = ["open i0 x.cab"] + [f"extract i0 h0 {k} o{k}" for k in range(len(members))] + ["close i0 h0", "destroy i0"]
        base = ["new cab"] + tail
        # strict mode, said in each way the API allows: by default, with the other parameters set (in either order
        # relative to SALVAGE 0), after salvage mode was switched on and off again
        def strict_prefix():
            n = rng.choice([4, 5, 64, 4096, 4097, 65536])
            return rng.choice([[], [], [f"param i0 DECOMPBUF {n}"], ["param i0 SALVAGE 0", f"param i0 DECOMPBUF {n}"], [f"param i0 DECOMPBUF {n}", "param i0 SALVAGE 0"],
                               ["param i0 SALVAGE 0", "param i0 FIXMSZIP 0", f"param i0 SEARCHBUF {rng.choice([4, 4096, 65536])}"],
                               ["param i0 SALVAGE 1", "param i0 SALVAGE 0"]])
        yield [f"file x.cab {cab.hex()}"] + base, dict(family="cab.corrupt", variant="original", cab=name, expect=exp, altered=False)
        res = layout["data_res"]
        for bi, (off, plen) in enumerate(layout["blocks"][0]):
            positions = [("cksum", off + k) for k in range(4)] + [("usize", off + 6), ("usize", off + 7)]
            pstart = off + 8 + res
            pp = list(range(plen))
            if plen > 96 and ctx.tier == "quick":
                pp = sorted(set(pp[:16] + pp[-16:] + rng.sample(pp, 32)))
            positions += [("payload", pstart + k) for k in pp]
            for (what, pos) in positions:
                o = cab[pos]
                vals = {(o + 1) & 255, o ^ 0x80, 0, 255} - {o}
                if ctx.tier == "quick" and what == "payload":
                    vals = set(rng.sample(sorted(vals), min(2, len(vals))))
                for v in sorted(vals):
                    c2 = cab[:pos] + bytes([v]) + cab[pos + 1:]
                    pre = strict_prefix()
                    yield [f"file x.cab {c2.hex()}", "new cab"] + pre + tail, dict(family="cab.corrupt", variant=what, cab=name, block=bi,
                                                                                  pos=pos, value=v, expect=exp, altered=True, params=pre)
    # --- cab.corrupt-split: a checksummed block split across two cabinets of a set (each part carries its own checksum):
    # payload bytes of the leading and of the trailing part, their checksum and size fields
    yield from split_block_cases(ctx)
    # --- oab.corrupt
    yield from oab_cases(ctx)

def split_block_cases(ctx):
    from vgen import cab as vcab
    import struct
    rng = ctx.rng
    for comp in (0, 1):
        datas = [bytes(rng.choice(b"abcab \n") if comp else rng.randrange(256) for _ in range(k)) for k in (400, 150)]
        payloads = [(d, len(d)) if comp == 0 else (mszip_block(d), len(d)) for d in datas]
        whole = b"".join(datas)
        files = [dict(name=b"a.bin", length=300, offset=0, folder=0, attribs=0x20, date=(2001, 2, 3), time=(4, 5, 6)),
                 dict(name=b"b.bin", length=len(whole) - 300, offset=300, folder=0, attribs=0x20, date=(2001, 2, 3), time=(4, 5, 6))]
        cut = len(payloads[0][0]) // 2
        try:
            parts = vcab.build_set([{"comp": comp, "blocks": payloads}], files, [("block", 0, 0, cut)], [(b"p1.cab", b"d1"), (b"p2.cab", b"d2")])
        except Exception as e:
            C.log(f"C12: split set generator failed: {e!r}"); continue
        exp = [digest(whole[:300]), digest(whole[300:])]
        tail = ["open i0 p1.cab", "open i0 p2.cab", "append i0 h0 h1", "extract i0 h0 0 o0", "extract i0 h0 1 o1", "close i0 h0", "destroy i0"]
        yield [f"file p1.cab {parts[0].hex()}", f"file p2.cab {parts[1].hex()}", "new cab"] + tail, \
              dict(family="cab.corrupt", variant="original", cab=f"split-c{comp}", expect=exp, altered=False)
        # locate the CFDATA headers: the last block of part 1 (the leading piece, cbUncomp = 0) and the first of part 2
        def data_blocks(cabb):
            flags = struct.unpack_from("<H", cabb, 30)[0]; p = 36
            if flags & 4: p = 40 + struct.unpack_from("<H", cabb, 36)[0]
            for bit in (1, 2):
                if flags & bit:
                    for _ in range(2): p = cabb.index(b"\0", p) + 1
            coff, nblk = struct.unpack_from("<IH", cabb, p)
            out = []; q = coff
            for _ in range(nblk):
                cs = struct.unpack_from("<H", cabb, q + 4)[0]; out.append((q, cs)); q += 8 + cs
            return out
        try:
            lead = data_blocks(parts[0])[-1]; trail = data_blocks(parts[1])[0]
        except Exception as e:
            C.log(f"C12: cannot locate split blocks: {e!r}"); continue
        for which, (pi, (off, plen)) in (("leading", (0, lead)), ("trailing", (1, trail))):
            positions = [("cksum", off + k) for k in range(4)] + [("usize", off + 6), ("usize", off + 7)]
            pp = list(range(plen))
            if ctx.tier == "quick" and plen > 40: pp = sorted(set(pp[:10] + pp[-10:] + rng.sample(pp, 20)))
            positions += [("payload", off + 8 + k) for k in pp]
            for (what, pos) in positions:
                o = parts[pi][pos]
                for v in sorted({(o + 1) & 255, o ^ 0x80} - {o}):
                    c2 = parts[pi][:pos] + bytes([v]) + parts[pi][pos + 1:]
                    fl = [f"file p1.cab {(c2 if pi == 0 else parts[0]).hex()}", f"file p2.cab {(c2 if pi == 1 else parts[1]).hex()}"]
                    yield fl + ["new cab"] + tail, dict(family="cab.corrupt", variant=what + "-" + which, cab=f"split-c{comp}", block=0, pos=pos, value=v, expect=exp, altered=True)

def oab_cases(ctx):
    """OAB full files and patches (incl. blocks whose correct CRC is 0): every byte of the uncompressed-size
    and CRC fields of every LZX block, and (sampled) payload bytes, x replacement values"""
    from checks import scenarios as S
    rng = ctx.rng
    plans = []
    for patch in (False, True):
        for kinds in (("uncompressed", "uncompressed"), ("verbatim", "uncompressed")) + ((("aligned", "verbatim"),) if ctx.tier != "quick" else ()):
            try: plans.append(S.oab_crc_zero_case(rng, patch, kinds))
            except Exception as e: C.log(f"C12: oab case generator failed: {e!r}")
    for ci, case in enumerate(plans):
        order = case["meta"]["order"]; patch = case["meta"]["patch"]
        f = case["files"][order[0]]
        exp = [digest(case["members"][0]["data"])]
        op = f"decompressinc i0 {order[0]} {order[1]} out" if patch else f"decompress i0 {order[0]} out"
        base = ([f"file {order[1]} {case['files'][order[1]].hex() or '-'}"] if patch else []) + ["new oab", op, "destroy i0"]
        yield [f"file {order[0]} {f.hex()}"] + base, dict(family="oab.corrupt", variant="original", cab=f"oab{ci}", expect=exp, altered=False)
        for bi, (hoff, poff, plen) in enumerate(case["meta"]["layout"]):
            positions = [("usize", hoff + (4 if patch else 8) + k) for k in range(4)] + [("cksum", hoff + 12 + k) for k in range(4)]
            pp = list(range(plen))
            if ctx.tier == "quick" and plen > 48: pp = sorted(set(pp[:12] + pp[-24:] + rng.sample(pp, 12)))
            positions += [("payload", poff + k) for k in pp]
            for (what, pos) in positions:
                o = f[pos]
                vals = {(o + 1) & 255, o ^ 0x80, 0, 255} - {o}
                if ctx.tier == "quick" and what == "payload": vals = set(rng.sample(sorted(vals), min(2, len(vals))))
                for v in sorted(vals):
                    f2 = f[:pos] + bytes([v]) + f[pos + 1:]
                    yield [f"file {order[0]} {f2.hex()}"] + base, dict(family="oab.corrupt", variant=what, cab=f"oab{ci}", block=bi, pos=pos, value=v,
                                                                         crc_zero=case["meta"]["crcs"][bi] == 0, expect=exp, altered=True)

def extracts(blocks):
    return [C.kv(b[0]) for b in (blocks or []) if b and b[0].startswith(("extract ", "decompress ", "decompressinc "))]

def judge(ctx, meta, impl, model):
    fs = []
    fam = meta.get("family")
    crash = [b[0] for b in impl if b[0].startswith(("CRASH", "TIMEOUT"))]
    if fam == "prim.cksum":
        il = [b[0] for b in impl if b[0].startswith("prim")]
        ml = [b[0] for b in (model or []) if b[0].startswith("prim")]
        if crash: fs.append(Finding("mismatch", "harness crashed on prim cksum: " + crash[0]))
        if model is not None and il != ml:
            k = next((i for i, (a, b) in enumerate(zip(il, ml)) if a != b), min(len(il), len(ml)))
            fs.append(Finding("mismatch", f"prim cksum line {k}: impl={il[k] if k < len(il) else None} model={ml[k] if k < len(ml) else None}"))
        return fs
    ie = extracts(impl)
    if crash:
        fs.append(Finding("mismatch", "implementation crashed: " + crash[0]))
    for k, e in enumerate(ie):
        if k < len(meta["expect"]) and e.get("st") == "0" and e.get("out") != meta["expect"][k]:
            fs.append(Finding("violation", f"extract of member {k} returned MSPACK_ERR_OK with content {e.get('out')} != original {meta['expect'][k]} "
                                           f"after altering {meta.get('variant')} byte at {meta.get('pos')} to {meta.get('value')}"))
    if not meta.get("altered"):
        for k, e in enumerate(ie):
            if e.get("st") != "0":
                fs.append(Finding("mismatch", f"unaltered cabinet: member {k} fails with st={e.get('st')} (generator or implementation broken)"))
    if model is not None:
        me = extracts(model)
        if any(b[0].endswith("unsupported") for b in model if b[0].startswith(("extract", "decompress"))):
            return fs
        pi = [(e.get("st"), e.get("out")) for e in ie]
        pm = [(e.get("st"), e.get("out")) for e in me]
        if pi != pm:
            fs.append(Finding("mismatch", f"extract results differ: impl={pi} model={pm}"))
    return fs

def classify(ctx, meta, finding):
    return None
