"""C15 — CHM fast_find() agrees with the full directory listing.

Theorems: Proofs/Props/C15.lean (properties of the name comparison `compare` that the chunk search
relies on).
Correspondence: chm.dir — generated directories (entry counts, chunk sizes, quick-reference
densities, index depth, multi-byte names): model vs implementation on every lookup.  Oracle on the
implementation: for every listed name (also via fast_open) fast_find returns the listing's section,
offset and length; for case variants the same; for absent names (neighbours of listed names that
differ by more than case) 'not found' = OK with a null section; answers independent of lookup
order (each name is looked up in a shuffled order, twice)."""
import os
from lib import common as C
from lib.pipeline import Finding
from checks import scenarios as S

PROP = "C15"
LEVEL = "proof"
THEOREMS = {"Proofs.Props.C15": ["MsPack.Chm.C15_compare_refl", "MsPack.Chm.C15_compare_ascii_case"],
            "Proofs.Props.C15Find": ["MsPack.Chm.C15_fastfind_roundtrip", "MsPack.Chm.C15_fastfind_roundtrip_ascii", "MsPack.Chm.C15_fastfind_anycase_ascii",
                                     "MsPack.Chm.C15_fastfind_found", "MsPack.Chm.C15_fastfind_notfound"]}
ASSUMPTIONS = ["C15_fastfind_roundtrip covers directories written by the specification writer (PMGL chain without index chunks, chunks whose quick-reference area is not consulted: `noQuickrefs`), any cache state, any earlier error: every listed file is found with its section/offset/length, every name compare() tells apart from all entries is reported not found; "
               "the multi-group binary search over quick-reference entries and the index (PMGI) descent are not theorems: covered by exhaustive lookups per generated directory with model agreement",
               "towlower is the C locale's (ASCII only) in harness and model"]
RULE = ("chm.dir: generated CHMs (1-400 entries, chunk sizes 64..8192, densities 0-4, 0-3 index levels); lookups = every listed name, an ASCII case variant of each, and absent neighbours "
        "(last byte +/-1, a byte appended, a byte dropped), in shuffled order, on handles from open() and fast_open(); non-trivial = a directory with at least 2 chunks; distinct by file bytes")

def swapcase_ascii(b):
    return bytes((c ^ 0x20) if (65 <= c <= 90 or 97 <= c <= 122) else c for c in b)

def generate(ctx):
    rng = ctx.rng
    n = 30 if ctx.tier == "quick" else 800
    k = 0
    while k < n:
        try:
            case = S.vgen_case(rng, "chm", rng.choice(["small", "small", "medium"]))
        except Exception:
            continue
        k += 1
        nm = case["meta"]["order"][0]
        names = [m["name"] for m in case["members"]]
        present = {}
        for m in case["members"]:
            present[m["name"]] = (m["section"], m["offset"], len(m["data"]))
        folded = {swapcase_ascii(x).lower() if False else bytes(c | 0x20 if 65 <= c <= 90 else c for c in x) for x in names}
        lookups = []
        for x in names:
            lookups.append((x, "present"))
            v = swapcase_ascii(x)
            if v != x: lookups.append((v, "case"))
            for y in (x[:-1] + bytes([(x[-1] + 1) & 0xff]) if x else b"\x01", x + b"!", x[:-1]):
                fy = bytes(c | 0x20 if 65 <= c <= 90 else c for c in y)
                # names are UTF-8: a byte string that is not (a truncated or damaged multi-byte character) is compared
                # through U+FFFD replacement by chmd.c and may then EQUAL a listed name containing U+FFFD - not an absent name
                try: y.decode("utf-8")
                except UnicodeDecodeError: continue
                if y and b"\0" not in y and fy not in folded:
                    lookups.append((y, "absent"))
            # neighbours at the character level: one non-ASCII character replaced by the next code point / one in the next
            # 256-block (stays clear of the surrogates, which UTF-8 cannot carry)
            try:
                u = x.decode("utf-8")
            except UnicodeDecodeError:
                u = None
            if u:
                for i, ch in enumerate(u):
                    cp = ord(ch)
                    if cp < 0x80: continue
                    for cp2 in (cp + 1, cp ^ 0x100, cp ^ 0x400):
                        if cp2 > 0x10FFFF or 0xD800 <= cp2 <= 0xDFFF or cp2 < 0x80: continue
                        y = (u[:i] + chr(cp2) + u[i + 1:]).encode("utf-8")
                        fy = bytes(c | 0x20 if 65 <= c <= 90 else c for c in y)
                        if fy not in folded: lookups.append((y, "absent"))
        rng.shuffle(lookups)
        if ctx.tier == "quick": lookups = lookups[:80]
        # the system files open() lists (::DataSpace/...), asked of both kinds of header
        sysl = [(bytes.fromhex(sx) if isinstance(sx, str) else sx) for sx in case["meta"]["expect"].get("sysfiles", [])]
        lines = S.file_lines(case) + ["new chm", f"open i0 {nm}", f"fastopen i0 {nm}"]
        meta_l = []
        for (x, kind) in lookups:
            h = rng.choice([0, 1])
            lines.append(f"fastfind i0 h{h} {x.hex()}")
            want = present.get(x) if kind == "present" else present.get(swapcase_ascii(x)) if kind == "case" else None
            meta_l.append([kind, list(want) if want else None, x.hex()])
        for sx in sysl:
            for h in (0, 1):
                lines.append(f"fastfind i0 h{h} {sx.hex()}")
                meta_l.append(["system", None, sx.hex()])
        lines += ["close i0 h1", "close i0 h0", "destroy i0"]
        yield lines, dict(family="chm.dir", lookups=meta_l, plan={k2: case["meta"].get(k2) for k2 in ("chunk_size", "density", "depth", "nchunks", "nfiles")},
                          nontrivial=(case["meta"].get("nchunks") or 0) >= 2)

def judge(ctx, meta, impl, model):
    fs = []
    crash = [b[0] for b in impl if b[0].startswith(("CRASH", "TIMEOUT"))]
    if crash: return [Finding("violation", "well-formed CHM: implementation " + crash[0])]
    ff = [C.kv(b[0]) for b in impl if b[0].startswith("fastfind")]
    if len(ff) != len(meta["lookups"]):
        return [Finding("mismatch", f"{len(ff)} fastfind results for {len(meta['lookups'])} lookups")]
    prev = None
    for (kind, want, xh), r in zip(meta["lookups"], ff):
        if kind == "system":
            got = (r.get("st"), r.get("sec"), r.get("off"), r.get("len"))
            if got[0] != "0" or got[1] == "-1":
                fs.append(Finding("violation", f"fast_find({bytes.fromhex(xh)!r}) for a system file open() lists = st/sec/off/len {got}; directory {meta['plan']}"))
                break
            if prev is not None and prev[0] == xh and prev[1] != got:
                fs.append(Finding("violation", f"fast_find({bytes.fromhex(xh)!r}) answers {prev[1]} on the open() header and {got} on the fast_open() header"))
                break
            prev = (xh, got)
            continue
        if want is not None:
            got = (r.get("st"), r.get("sec"), r.get("off"), r.get("len"))
            exp = ("0", str(want[0]), str(want[1]), str(want[2]))
            if got != exp:
                fs.append(Finding("violation", f"fast_find({bytes.fromhex(xh)!r}) [{kind}] = st/sec/off/len {got}, the listing says {exp}; directory {meta['plan']}"))
                break
        else:
            if r.get("st") != "0" or r.get("sec") != "-1":
                fs.append(Finding("violation", f"fast_find({bytes.fromhex(xh)!r}) for an absent name = st={r.get('st')} sec={r.get('sec')} (expected OK with a null section); directory {meta['plan']}"))
                break
    if model is not None and not any("unsupported" in b[0] for b in model):
        mf = [b[0].split(" edges=")[0] for b in model if b[0].startswith("fastfind")]
        fi = [b[0].split(" edges=")[0] for b in impl if b[0].startswith("fastfind")]
        if mf != fi:
            k = next((i for i, (x, y) in enumerate(zip(fi, mf)) if x != y), -1)
            fs.append(Finding("mismatch", f"lookup {k}: impl '{fi[k] if k >= 0 else len(fi)}' model '{mf[k] if k >= 0 else len(mf)}'"))
    return fs

def classify(ctx, meta, finding):
    return None
