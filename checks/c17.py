"""C17 — cabextract's modes agree with the archive and with each other.

The real `cabextract` binary built from the tree is run (TZ=UTC, umask 022/077/027/000) in throw-away
trees /verif/build/fs17/<pid>-<n>/ on cabinets built from an explicit plan (members: name, bytes,
attributes, DOS date/time; stored, MSZIP, and - through gen/vgen when present - LZX and Quantum
folders; several folders; zero-length members; duplicate names; split sets started from every part;
two cabinets in one file) and on the shipped fixtures.  Everything expected is computed in Python
from the plan: an executable statement of the property, not a model of the code.

  extraction  exactly the selected members exist under the destination with their bytes, mode
              (0444 | exec->0111 | !readonly->0222) & ~umask, mtime = the DOS stamp read as local time;
              stdout is the header, one `extracting` line per selected member in order, the footer
  -p          stdout = concatenation of the selected members' bytes in order; no file created
  -t          one `OK` line with the MD5 (hashlib) of the member's true content each; no file created
  -l          every selected member once, in order, with size, date, time and output name
  -F          the same selection (fnmatch, case folded, on the output name without the -d prefix) in all modes
  sets        every starting part gives the same members; -s with all parts named gives them once
  exit status 0 exactly when nothing failed (failures made: corrupted block, path blocked by a
              regular file, missing cabinet, garbage file, truncated cabinet)"""
import calendar, fnmatch, glob, hashlib, os, shutil, stat, struct, subprocess, zlib
from concurrent.futures import ThreadPoolExecutor
from lib import common as C, minicab
from lib.pipeline import Finding

try:
    from vgen import cab as vcab
except Exception:                      # gen/ not on the path or not built yet: stored + MSZIP only
    vcab = None

PROP = "C17"
LEVEL = "proof"
USES_MODEL = True
THEOREMS = {"Proofs.Props.C17": ["MsPack.C17.filter_same_members", "MsPack.C17.list_each_once", "MsPack.C17.selected_sublist",
                                 "MsPack.C17.pipe_concat", "MsPack.C17.selection_dir_independent"]}
ASSUMPTIONS = [
    "the theorems cover the selection mechanism only (model of process_cabinet's member loop, MsPack/Cabx/Modes.lean: the filter is applied to the output name without the -d prefix before the mode is looked at; "
    "they hold for every fnmatch function); that extraction delivers the member's bytes, the output formats, MD5, mode/mtime and the exit status are NOT theorems: they are checked on the real binary against the specification below",
    "the selection model is tied to the code by `prim select` (driver, glob fragment * ? literal, ASCII case folding) compared with the members the real binary lists under -F, for ASCII names and bracket-free patterns",
    "implementation-versus-specification oracle: the expected stdout, file tree, modes, times and exit status are computed in Python from the plan that built the cabinet; there is no Lean model of process_cabinet",
    "TZ=UTC, years 1980-2037, valid calendar dates (mktime's normalisation of impossible dates and DST gaps are not exercised); file system keeps 1 s mtimes and all mode bits; run as root (so `unwritable` is made with a regular file in the way, not with permissions)",
    "-F patterns without backslashes; names are valid UTF-8 after conversion when -F or -L is used with non-ASCII letters; -L on non-ASCII is checked only for letters whose simple lower-case mapping is 1:1 (Latin-1, Greek, Cyrillic)",
    "LZX/Quantum folders come from gen/vgen encoders (single frame, no window wrap) or from the shipped fixtures; for fixtures using them the content oracle is mode-against-mode (extracted bytes vs -t MD5 vs -p stream)",
    "hostile member names are C16's subject; names here contain no '..', no leading separator and no mixed separators",
]
RULE = ("plans: 1-8 members in 1-3 folders (stored/MSZIP/LZX/Quantum), sizes 0..70000 bytes incl. block-spanning, attributes from {readonly, hidden, system, archive, exec, utf8-name}, "
        "DOS stamps incl. odd seconds, names flat / with DOS or UNIX directories / upper case / UTF-8 / Latin-1 bytes / duplicates; variants: split into 2-5 parts (every part as start, -s), "
        "two cabinets in one file; option sets over {-d, -L, -q, -F (1-2 patterns), -n with a pre-existing file, -s} x umask; each plan is run in the four modes; failure plans as listed in the module doc; "
        "fixtures /repo/cabextract/test/cabs/*.cab; one evaluation = one run of the binary; non-trivial = a run that selects at least one member; distinct by plan+options+mode")

FSROOT = os.path.join(C.BUILD, "fs17")
STATS = {"plans": 0, "runs": 0, "mode": {}, "opts": {}, "comp": {}, "umask": {}, "split_parts_started": 0, "members_checked": 0, "failure_plans": {}, "fixtures": 0, "vgen": vcab is not None}
FIXDIR = os.path.join(C.REPO, "cabextract", "test", "cabs")
ENV = None
HDR = b" File size | Date       Time     | Name\n-----------+---------------------+-------------\n"
OKFOOT = b"\nAll done, no errors.\n"
SPLIT_MD5 = [(b"small1.bin", "2ad5ba0f497f1e597ab187a2dfaa2e29"), (b"small2.bin", "1f862f9e36a32a74202c1120b9f06af7"), (b"medium1.bin", "0a7bd124a4c03a30329bd9ff06f71df7"),
             (b"medium2.bin", "b4b0a02ad6a1170d4b3db18cec616fcc"), (b"small3.bin", "bbaecacfeba976165e9d77bbecb0cbde"), (b"medium3.bin", "b98fe17e8afbcf05aefc5b2c4badbc28")]

def md5(b): return hashlib.md5(b).hexdigest()

# ------------------------------------------------------------------------------------------ specification

LOWER_1TO1 = "ÀÉÎÕÜÇÑΑΒΓΩДЖЯ"

def spec_outname(name, utf8, lower, isunix):
    """the output name of a *harmless* member name (no '..', no leading separator)"""
    if utf8:
        s = name.decode("utf-8")
        if lower: s = "".join(ch.lower() if (ord(ch) < 0x80 or ch in LOWER_1TO1) else ch for ch in s)
        b = s.encode("utf-8")
    else:
        b = bytes((c + 32 if (lower and 0x41 <= c <= 0x5A) else c) for c in name)
    if not isunix:
        b = bytes({0x5C: 0x2F, 0x2F: 0x5C}.get(c, c) for c in b)
    return b

def spec_isunix(names):
    return any(b"/" in n for n in names) and not any(b"\\" in n for n in names)

def spec_match(patterns, outname):
    """-F: fnmatch(pattern, name, FNM_CASEFOLD), any pattern"""
    if not patterns: return True
    s = outname.decode("utf-8", errors="surrogateescape").lower()
    return any(fnmatch.fnmatchcase(s, p.lower()) for p in patterns)

def spec_mode(attribs, umask):
    m = 0o444
    if attribs & 0x40: m |= 0o111
    if not attribs & 0x01: m |= 0o222
    return m & ~umask

def spec_mtime(date, time):
    (y, mo, d), (h, mi, s) = date, time
    return calendar.timegm((y, mo, d, h, mi, s & ~1, 0, 0, 0))

def spec_listline(m, outname):
    (y, mo, d), (h, mi, s) = m["date"], m["time"]
    return b"%10d | %02d.%02d.%04d %02d:%02d:%02d | %s\n" % (len(m["data"]), d, mo, y, h, mi, s & ~1, outname)

def spec_testline(m, outname):
    return b"  " + outname + b"  OK  " + b" " * max(0, 79 - (len(outname) + 8 + 32)) + md5(m["data"]).encode() + b"\n"

# ------------------------------------------------------------------------------------------ plans

def rand_data(rng, n):
    k = rng.randrange(3)
    if k == 0: return bytes(rng.choice(b"abcdefgh \n") for _ in range(n))
    if k == 1: return bytes(rng.randrange(256) for _ in range(min(n, 4096))) * (n // 4096 + 1) if n else b""
    return (b"The quick brown fox %d\r\n" % rng.randrange(1000)) * (n // 20 + 1)

def rand_names(rng, n, style, ascii_only=False):
    """style: flat | dos | unix ; returns [(name bytes, utf8 flag)]"""
    sep = {"flat": None, "dos": b"\\", "unix": b"/"}[style]
    out = []
    for i in range(n):
        k = rng.random()
        if ascii_only and 0.55 <= k < 0.8: k = 0.1
        utf8 = False
        def comp():
            return "".join(rng.choice("abcdeXYZ019_- ") for _ in range(rng.randint(1, 9))).strip() or "f"
        if k < 0.55:
            base = (comp() + rng.choice([".txt", ".TXT", ".bin", "", ".c"])).encode()
        elif k < 0.7:
            base = ("".join(rng.choice("aé中ÉΩДяß-") for _ in range(rng.randint(1, 8))) + ".txt").encode("utf-8"); utf8 = True
        elif k < 0.8:
            base = bytes(rng.choice([0x61, 0xE9, 0xC9, 0xFC, 0x80, 0x41]) for _ in range(rng.randint(1, 6))) + b".dat"
        elif k < 0.9:
            base = comp().upper().encode() + b".TXT"
        else:
            base = b"n%d" % i
        if sep and rng.random() < 0.6:
            dirs = [rng.choice([b"sub", b"Sub", b"DIR two", b"a.d", b"deep"]) for _ in range(rng.randint(1, 3))]
            base = sep.join(dirs + [base])
        out.append((base[:200], utf8))
    if n >= 2 and rng.random() < 0.15:          # duplicate name: the later member wins on disk
        j, k = rng.sample(range(n), 2); out[k] = out[j]
    if n >= 2 and rng.random() < 0.1:           # names that differ in case only (collide under -L)
        j, k = rng.sample(range(n), 2)
        if not out[j][1]: out[k] = (out[j][0].swapcase(), False)
    return out

def rand_stamp(rng):
    y = rng.choice([1980, 1997, 2000, 2024, 2037, rng.randint(1980, 2037)])
    mo = rng.randint(1, 12)
    d = rng.randint(1, [31, 28, 31, 30, 31, 30, 31, 31, 30, 31, 30, 31][mo - 1])
    return (y, mo, d), (rng.randint(0, 23), rng.randint(0, 59), rng.randint(0, 59))

def mszip_block(data):
    co = zlib.compressobj(9, zlib.DEFLATED, -15)
    return b"CK" + co.compress(data) + co.flush()

def make_plan(rng, comps=None, nmembers=None, big=True, ascii_only=False):
    """-> dict(members=[dict(name, utf8, data, attribs, date, time, folder, offset)], folders=[(comp word, blocks)], style)"""
    style = rng.choice(["flat", "dos", "dos", "unix"])
    n = nmembers or rng.choice([1, 2, 3, 4, 6, 8])
    names = rand_names(rng, n, style, ascii_only)
    nf = rng.choice([1, 1, 2, 3])
    members = []
    for (nm, u) in names:
        size = rng.choice([0, 1, 10, 100, 1000, 5000] + ([33000, 70000] if big else []))
        date, time = rand_stamp(rng)
        attr = rng.choice([0x20, 0, 0x01, 0x40, 0x41, 0x02, 0x04, 0x21, 0x27, 0x67, rng.getrandbits(7) & 0x67]) | (0x80 if u else 0)
        members.append(dict(name=nm, utf8=u, data=rand_data(rng, size)[:size], attribs=attr, date=date, time=time, folder=rng.randrange(nf)))
    return layout_plan(rng, members, comps, style)

def layout_plan(rng, members, comps, style):
    members.sort(key=lambda m: m["folder"])
    used = sorted(set(m["folder"] for m in members))
    for m in members: m["folder"] = used.index(m["folder"])
    folders = []
    for j in range(len(used)):
        mine = [m for m in members if m["folder"] == j]
        plain = b"".join(m["data"] for m in mine)
        choices = [0, 1, 1] + ([2, 3] if vcab and len(plain) < 20000 else [])
        comp = (comps[j % len(comps)] if comps else rng.choice(choices))
        if comp in (2, 3) and (vcab is None or len(plain) >= 20000 or len(plain) == 0): comp = 1
        if comp in (2, 3):
            word, blocks, plain2, meta = vcab.make_folder(rng, len(plain), comp, data=plain, level=(rng.randint(15, 17) if comp == 2 else None))
            if plain2 != plain or (comp == 2 and meta.get("wraps")):
                comp = 1
            else:
                folders.append((word, blocks))
        if comp in (0, 1):
            chunks = [plain[i:i + 32768] for i in range(0, len(plain), 32768)] or [b""]
            if plain == b"": chunks = [b""]
            blocks = [(c if comp == 0 else mszip_block(c), len(c)) for c in chunks]
            folders.append((comp, blocks))
        off = 0
        for m in mine:
            m["offset"] = off; off += len(m["data"])
        STATS["comp"][comp] = STATS["comp"].get(comp, 0) + 1
    return dict(members=members, folders=folders, style=style)

def files_of(plan):
    return [dict(name=m["name"], length=len(m["data"]), offset=m["offset"], folder=m["folder"], date=m["date"], time=m["time"], attribs=m["attribs"]) for m in plan["members"]]

def build_single(plan):
    cab, layout = minicab.build([(w, b) for (w, b) in plan["folders"]], files_of(plan))
    return cab, layout

# ------------------------------------------------------------------------------------------ running

def snapshot(top):
    out = {}
    for dp, dn, fn in os.walk(top):
        for n in dn + fn:
            p = os.path.join(dp, n)
            st = os.lstat(p)
            rel = os.path.relpath(p, top)
            if stat.S_ISREG(st.st_mode):
                out[rel] = ("file", open(p, "rb").read(), stat.S_IMODE(st.st_mode), int(st.st_mtime))
            elif stat.S_ISDIR(st.st_mode):
                out[rel] = ("dir", None, stat.S_IMODE(st.st_mode), None)
            else:
                out[rel] = ("other", None, 0, None)
    return out

def run_bin(exe, args, cwd, umask):
    cmd = [b"/bin/sh", b"-c", b'umask %03o; exec "$0" "$@"' % umask, exe.encode()] + args
    r = subprocess.run(cmd, cwd=cwd, capture_output=True, env=ENV, timeout=120)
    return r

class Case:
    """one plan + option set; .check(exe, idx) runs the four modes and returns findings"""
    def __init__(self, kind, cabfiles, start, groups, opts=(), patterns=(), umask=0o022, dest=None, chain_msgs=b"", skipped_msgs=b"", pre=None, desc=""):
        # groups: list of member lists, one per cabinet found (isunix is decided per cabinet)
        self.kind, self.cabfiles, self.start, self.groups = kind, cabfiles, start, groups
        self.opts, self.patterns, self.umask, self.dest = list(opts), list(patterns), umask, dest
        self.chain_msgs, self.skipped_msgs, self.pre, self.desc = chain_msgs, skipped_msgs, pre or {}, desc
        self.model_sel = None      # indices the Lean model selects (set by custom_run when the case is in the model's fragment)

    def model_request(self):
        """`prim select` line, or None if the case is outside the fragment the driver's glob matcher covers"""
        if len(self.groups) != 1 or not self.patterns: return None
        if any("[" in p or "\\" in p for p in self.patterns): return None
        ms = self.groups[0]
        if any(any(c >= 0x80 for c in m["name"]) for m in ms): return None
        d = "-" if not self.dest else self.dest.encode().hex()
        return (f"prim select {1 if '-L' in self.opts else 0} {d} {len(self.patterns)} " + " ".join(p.encode().hex() for p in self.patterns) + " " +
                " ".join(f"{C.hexs(m['name'])} {1 if m['utf8'] else 0}" for m in ms)).rstrip()

    def selection(self):
        lower = "-L" in self.opts
        sel = []
        for g in self.groups:
            isunix = spec_isunix([m["name"] for m in g])
            for m in g:
                on = spec_outname(m["name"], m["utf8"], lower, isunix)
                if spec_match(self.patterns, on):
                    sel.append((m, on))
        return sel

    def describe(self):
        return (f"{self.kind}: {self.desc} options {' '.join(self.opts + ['-F ' + p for p in self.patterns]) or '(none)'} -d {self.dest} umask {self.umask:03o} "
                f"start {[s.decode() for s in self.start]} members {[m['name'] for g in self.groups for m in g][:8]!r}")

    def args(self):
        a = [o.encode() for o in self.opts]
        for p in self.patterns: a += [b"-F", p.encode()]
        return a

    def check(self, exe, idx):
        root = os.path.join(FSROOT, f"{os.getpid()}-{idx}")
        shutil.rmtree(root, ignore_errors=True)
        os.makedirs(root)
        fs = []
        def bad(mode, what):
            fs.append(Finding("violation", f"{mode}: {what} [{self.describe()}]"))
        try:
            for fn, data in self.cabfiles.items():
                open(os.path.join(root, fn), "wb").write(data)
            sel = self.selection()
            if self.model_sel is not None:
                ids = [id(m) for m in self.groups[0]]
                spec_idx = [ids.index(id(m)) for (m, on) in sel]
                if spec_idx != self.model_sel:
                    fs.append(Finding("mismatch", f"-F selection: the Lean model selects members {self.model_sel}, the specification {spec_idx} [{self.describe()}]"))
            quiet = "-q" in self.opts
            pfx = (self.dest.encode() + b"/") if self.dest else b""
            arg0 = self.start[0]
            base = snapshot(root)
            def framed(verb, lines, force_quiet=False):
                q = quiet or force_quiet
                out = b""
                if not q: out += self.chain_msgs
                if verb == b"Viewing":
                    if not q: out += b"Viewing cabinet: " + arg0 + b"\n"
                    out += HDR
                elif not q:
                    out += verb + b" cabinet: " + arg0 + b"\n"
                out += b"".join(lines)
                if not q: out += self.skipped_msgs + OKFOOT
                return out
            dargs = [b"-d", self.dest.encode()] if self.dest else []
            # ---- -l
            r = run_bin(exe, [b"-l"] + self.args() + dargs + self.start, root, self.umask)
            STATS["runs"] += 1
            exp = framed(b"Viewing", [spec_listline(m, pfx + on) for (m, on) in sel])
            if r.stdout != exp: bad("-l", f"stdout differs from the specification: got {r.stdout[-300:]!r} expected {exp[-300:]!r}")
            elif self.model_sel is not None: STATS["selection_model_vs_binary"] = STATS.get("selection_model_vs_binary", 0) + 1
            if r.returncode != 0: bad("-l", f"exit status {r.returncode} although nothing failed; stderr {r.stderr[-200:]!r}")
            if snapshot(root) != base: bad("-l", "created or changed files")
            # ---- -t
            r = run_bin(exe, [b"-t"] + self.args() + dargs + self.start, root, self.umask)
            STATS["runs"] += 1
            exp = framed(b"Testing", [spec_testline(m, pfx + on) for (m, on) in sel])
            if r.stdout != exp: bad("-t", f"stdout differs from the specification: got {r.stdout[-300:]!r} expected {exp[-300:]!r}")
            if r.returncode != 0: bad("-t", f"exit status {r.returncode} although nothing failed; stderr {r.stderr[-200:]!r}")
            if snapshot(root) != base: bad("-t", "created or changed files")
            # ---- -p
            r = run_bin(exe, [b"-p"] + self.args() + dargs + self.start, root, self.umask)
            STATS["runs"] += 1
            exp = b"".join(m["data"] for (m, on) in sel)
            if r.stdout != exp: bad("-p", f"stdout ({len(r.stdout)} bytes, md5 {md5(r.stdout)}) is not the concatenation of the selected members ({len(exp)} bytes, md5 {md5(exp)})")
            if r.returncode != 0: bad("-p", f"exit status {r.returncode} although nothing failed; stderr {r.stderr[-200:]!r}")
            if snapshot(root) != base: bad("-p", "created or changed files")
            # ---- extraction
            destdir = os.path.join(root, self.dest) if self.dest else root
            keepold = {}
            for rel, data in self.pre.items():
                p = os.path.join(destdir.encode(), rel)
                os.makedirs(os.path.dirname(p), exist_ok=True)
                open(p, "wb").write(data); os.chmod(p, 0o640); os.utime(p, (1234567890, 1234567890))
                keepold[rel] = data
            before = snapshot(root)
            r = run_bin(exe, self.args() + dargs + self.start, root, self.umask)
            STATS["runs"] += 1
            nover = "-n" in self.opts
            lines, expect_files = [], {}
            for (m, on) in sel:
                if nover and (on in keepold or on in expect_files):
                    # -n: a file that is there (from before, or from an earlier member of this run) is kept
                    lines.append(b"  skipping " + pfx + on + b"\n"); continue
                lines.append(b"  extracting " + pfx + on + b"\n")
                expect_files[on] = m
            if quiet: lines = []
            exp = framed(b"Extracting", lines)
            if r.stdout != exp: bad("extract", f"stdout differs from the specification: got {r.stdout[-300:]!r} expected {exp[-300:]!r}")
            if r.returncode != 0: bad("extract", f"exit status {r.returncode} although nothing failed; stderr {r.stderr[-200:]!r}")
            after = snapshot(root)
            got = {}
            for rel, v in after.items():
                if rel in before and before[rel] == v: continue
                if v[0] == "file": got[os.fsencode(os.path.relpath(os.path.join(root, rel), destdir))] = v
            for on, m in expect_files.items():
                STATS["members_checked"] += 1
                v = got.pop(on, None)
                if v is None:
                    # identical to what was there before?  (only possible for a pre-existing file that is replaced by equal content)
                    bad("extract", f"member {on!r} was not created under the destination"); continue
                if v[1] != m["data"]: bad("extract", f"member {on!r}: content differs ({len(v[1])} bytes md5 {md5(v[1])}, member has {len(m['data'])} bytes md5 {md5(m['data'])})")
                em = spec_mode(m["attribs"], self.umask)
                if v[2] != em: bad("extract", f"member {on!r} attribs 0x{m['attribs']:02x}: mode {v[2]:04o}, specified {em:04o}")
                et = spec_mtime(m["date"], m["time"])
                if v[3] != et: bad("extract", f"member {on!r} stamp {m['date']} {m['time']}: mtime {v[3]}, specified {et}")
            if got: bad("extract", f"files created or changed that no selected member accounts for: {sorted(got)[:4]!r}")
            for rel, data in keepold.items():
                if nover:
                    p = os.path.join(destdir.encode(), rel)
                    if open(p, "rb").read() != data: bad("extract -n", f"pre-existing file {rel!r} was overwritten")
        except subprocess.TimeoutExpired:
            fs.append(Finding("violation", f"cabextract did not finish within 120 s [{self.describe()}]"))
        finally:
            shutil.rmtree(root, ignore_errors=True)
        return fs

class FailCase:
    """something must fail: exit status non-zero, nothing wrong reported as right"""
    def __init__(self, kind, cabfiles, start, members, must_ok, must_fail, pre=None, desc="", expect_exit_nonzero=True):
        self.kind, self.cabfiles, self.start, self.members = kind, cabfiles, start, members
        self.must_ok, self.must_fail, self.pre, self.desc = must_ok, must_fail, pre or {}, desc

    def describe(self):
        return f"{self.kind}: {self.desc} start {[s.decode() for s in self.start]} members {[m['name'] for m in self.members][:8]!r}"

    def check(self, exe, idx):
        root = os.path.join(FSROOT, f"{os.getpid()}-{idx}")
        shutil.rmtree(root, ignore_errors=True)
        os.makedirs(root)
        fs = []
        def bad(mode, what):
            fs.append(Finding("violation", f"{mode}: {what} [{self.describe()}]"))
        try:
            for fn, data in self.cabfiles.items():
                open(os.path.join(root, fn), "wb").write(data)
            isunix = spec_isunix([m["name"] for m in self.members])
            names = [spec_outname(m["name"], m["utf8"], False, isunix) for m in self.members]
            # ---- -t
            r = run_bin(exe, [b"-t"] + self.start, root, 0o022)
            STATS["runs"] += 1
            if self.kind == "blocked-path":
                if r.returncode != 0: bad("-t", f"exit status {r.returncode} although nothing can fail when testing (the blocked path is not used)")
            elif r.returncode == 0: bad("-t", f"exit status 0 although a failure was planted; stdout {r.stdout[-300:]!r}")
            if b"AddressSanitizer" in r.stderr or b"runtime error:" in r.stderr: bad("-t", "sanitizer report: " + r.stderr.decode(errors="replace")[:300])
            for i, (m, on) in enumerate(zip(self.members, names)):
                okline = spec_testline(m, on)
                if i in self.must_ok and okline not in r.stdout: bad("-t", f"member {on!r} is not affected by the planted failure but is not reported OK with its MD5; stdout {r.stdout[-300:]!r}")
                if i in self.must_fail and (b"  " + on + b"  OK  ") in r.stdout: bad("-t", f"member {on!r} lies in the corrupted block but is reported OK")
                # whatever is reported OK must carry the right digest
                for l in r.stdout.split(b"\n"):
                    if l.startswith(b"  " + on + b"  OK  ") and l + b"\n" != okline and names.count(on) == 1:
                        bad("-t", f"member {on!r} reported OK with a wrong MD5: {l!r}")
            # ---- extraction
            os.makedirs(os.path.join(root, "out"))
            for rel, data in self.pre.items():
                p = os.path.join(root.encode(), b"out", rel)
                os.makedirs(os.path.dirname(p), exist_ok=True)
                open(p, "wb").write(data)
            r = run_bin(exe, [b"-d", b"out"] + self.start, root, 0o022)
            STATS["runs"] += 1
            if r.returncode == 0: bad("extract", f"exit status 0 although a failure was planted; stdout {r.stdout[-300:]!r} stderr {r.stderr[-200:]!r}")
            if b"AddressSanitizer" in r.stderr or b"runtime error:" in r.stderr: bad("extract", "sanitizer report: " + r.stderr.decode(errors="replace")[:300])
            for i, (m, on) in enumerate(zip(self.members, names)):
                if i in self.must_ok and names.count(on) == 1:
                    p = os.path.join(root.encode(), b"out", on)
                    if not os.path.isfile(p) or open(p, "rb").read() != m["data"]:
                        bad("extract", f"member {on!r} is not affected by the planted failure but was not extracted with its bytes")
            # ---- -p: exit status only
            r = run_bin(exe, [b"-p", b"-d", b"out"] + self.start, root, 0o022)
            STATS["runs"] += 1
            if self.kind != "blocked-path" and r.returncode == 0: bad("-p", "exit status 0 although a failure was planted")
            if self.kind == "blocked-path" and r.returncode != 0: bad("-p", f"exit status {r.returncode} although nothing can fail when piping (the blocked path is not used)")
        except subprocess.TimeoutExpired:
            fs.append(Finding("violation", f"cabextract did not finish within 120 s [{self.describe()}]"))
        finally:
            shutil.rmtree(root, ignore_errors=True)
        return fs

# ------------------------------------------------------------------------------------------ case generators

PATTERNS = ["*.txt", "*.TXT", "sub/*", "*", "a*", "*[0-9]*", "?*.bin", "nomatch-*", "*/*", "*e*", "n?", "SUB/*", "*.c", "[!a-m]*"]

def option_sets(rng, plan_names_ascii):
    opts = []
    if rng.random() < 0.35: opts.append("-L")
    if rng.random() < 0.25: opts.append("-q")
    if rng.random() < 0.1: opts.append("-s")
    pats = []
    if rng.random() < 0.45:
        pats = rng.sample(PATTERNS, rng.choice([1, 1, 2]))
    dest = rng.choice([None, "out", "out", "new/deep dir", "out/", "new/deep dir/"])
    umask = rng.choice([0o022, 0o022, 0o077, 0o027, 0o000])
    return opts, pats, dest, umask

def normal_cases(rng, n):
    for i in range(n):
        plan = make_plan(rng, big=(i % 4 == 0))
        cab, _ = build_single(plan)
        opts, pats, dest, umask = option_sets(rng, True)
        # -F / -L on names that are not valid UTF-8 after conversion: outside the stated domain
        if pats or "-L" in opts:
            if any((not m["utf8"]) and any(c >= 0x80 for c in m["name"]) for m in plan["members"]):
                pats = []
                if "-L" in opts: opts.remove("-L")
        pre = {}
        if rng.random() < 0.3:
            # a pre-existing file at the place of one member; with -n it must survive
            c0 = Case("single", {}, [b"x.cab"], [plan["members"]], opts, pats, umask, dest)
            sel = c0.selection()
            if sel:
                pre[rng.choice(sel)[1]] = b"old content\n"
                if rng.random() < 0.5: opts.append("-n")
        fn = rng.choice(["x.cab", "My Cab.CAB", "a-b_c.cab"])
        yield Case("single", {fn: cab}, [fn.encode()], [plan["members"]], opts, pats, umask, dest, pre=pre, desc=f"{len(plan['folders'])} folder(s) comp {[f[0] & 15 for f in plan['folders']]}")
    # -F on ASCII names with bracket-free patterns: the fragment in which the Lean selection model is compared too
    for i in range(max(10, n // 2)):
        plan = make_plan(rng, big=False, ascii_only=True, nmembers=rng.choice([2, 4, 6, 8]))
        cab, _ = build_single(plan)
        opts, pats, dest, umask = option_sets(rng, True)
        pats = rng.sample([p for p in PATTERNS if "[" not in p], rng.choice([1, 1, 2, 3]))
        yield Case("single-F", {"x.cab": cab}, [b"x.cab"], [plan["members"]], opts, pats, umask, dest, desc="ASCII names, -F")
    # two cabinets in one file
    for i in range(max(2, n // 10)):
        p1, p2 = make_plan(rng, big=False), make_plan(rng, big=False)
        c1, c2 = build_single(p1)[0], build_single(p2)[0]
        opts, pats, dest, umask = option_sets(rng, True)
        if any((not m["utf8"]) and any(c >= 0x80 for c in m["name"]) for m in p1["members"] + p2["members"]):
            pats = []; opts = [o for o in opts if o != "-L"]
        yield Case("two-in-one", {"both.bin": c1 + c2}, [b"both.bin"], [p1["members"], p2["members"]], opts, pats, umask, dest, desc="two cabinets concatenated in one file")

def skip_cases(rng, n):
    """-F selects an early member of a multi-block compressed folder but not the rest of it, and a member of a later
    (stored or compressed) folder: what the abandoned folder leaves behind in the decompressor must not reach the next"""
    for i in range(n):
        members = []
        sizes0 = [rng.choice([100, 3000]), rng.choice([33000, 40000]), rng.choice([1000, 30000])]
        for k, size in enumerate(sizes0):
            date, time = rand_stamp(rng)
            members.append(dict(name=b"a%d.txt" % k, utf8=False, data=rand_data(rng, size)[:size], attribs=0x20, date=date, time=time, folder=0))
        for k in range(rng.choice([1, 2])):
            size = rng.choice([16, 500, 5000]); date, time = rand_stamp(rng)
            members.append(dict(name=b"b%d.dat" % k, utf8=False, data=rand_data(rng, size)[:size], attribs=0x20, date=date, time=time, folder=1))
        if rng.random() < 0.5:
            date, time = rand_stamp(rng)
            members.append(dict(name=b"c0.txt", utf8=False, data=rand_data(rng, 700)[:700], attribs=0x20, date=date, time=time, folder=2))
        plan = layout_plan(rng, members, [rng.choice([1, 1, 0]), rng.choice([0, 0, 1]), rng.choice([0, 1])], "flat")
        cab, _ = build_single(plan)
        pats = rng.choice([["a0.txt", "b0.dat"], ["a0.txt", "b*"], ["a1.txt", "b0.dat", "c0.txt"], ["a0.txt", "c*", "b1.dat"], ["b0.dat"], ["a0.txt"]])
        opts = [o for o in option_sets(rng, True)[0] if o != "-s"]
        yield Case("single-skip", {"x.cab": cab}, [b"x.cab"], [plan["members"]], opts, pats, 0o022, rng.choice([None, "out"]), desc="-F skips the rest of a multi-block folder")

def split_cases(rng, n):
    if vcab is None: return
    for i in range(n):
        plan = make_plan(rng, comps=[rng.choice([0, 1])], big=True, nmembers=rng.choice([3, 5, 8]))
        folders = [{"comp": w, "blocks": b} for (w, b) in plan["folders"]]
        cand = [("folder", j) for j in range(1, len(folders))]
        for j, fo in enumerate(folders):
            for b, (p, u) in enumerate(fo["blocks"]):
                if len(p) > 2: cand.append(("block", j, b, rng.randint(1, len(p) - 1)))
        if not cand: continue
        k = min(len(cand), rng.choice([1, 2, 3, 4]))
        cuts = sorted(set(rng.sample(cand, k)), key=lambda c: (c[1], -1, -1) if c[0] == "folder" else c[1:])
        nparts = len(cuts) + 1
        # the names the parts carry in their headers; on disk the files may differ from them in letter case (a set copied
        # from a case-insensitive medium): cabextract looks the neighbours up without regard to case
        mixed = rng.random() < 0.5
        names = [((b"Part%d.CAB" if mixed else b"part%d.cab") % (q + 1), rng.choice([b"", b"Disk %d" % (q + 1)])) for q in range(nparts)]
        try:
            cabs = vcab.build_set(folders, files_of(plan), cuts, names, set_id=rng.getrandbits(16))
        except Exception:
            continue
        if any(struct.unpack_from("<H", cb, 28)[0] == 0 for cb in cabs):
            continue        # a part without any file entry (cut behind the last member's data) is not a well-formed cabinet
        disk = [b"part%d.cab" % (q + 1) for q in range(nparts)]
        files = {disk[q].decode(): cabs[q] for q in range(nparts)}
        STATS["plans"] += 1
        for start in range(nparts):
            msgs = b""
            me = disk[start]
            for q in range(start - 1, -1, -1):
                msgs += me + b": extends backwards to " + names[q][0] + b" (" + names[q][1] + b")\n"
            for q in range(start + 1, nparts):
                msgs += me + b": extends to " + names[q][0] + b" (" + names[q][1] + b")\n"
            opts, pats, dest, umask = option_sets(rng, True)
            opts = [o for o in opts if o != "-s"]
            if any((not m["utf8"]) and any(c >= 0x80 for c in m["name"]) for m in plan["members"]):
                pats = []; opts = [o for o in opts if o != "-L"]
            STATS["split_parts_started"] += 1
            yield Case("split", files, [me], [plan["members"]], opts, pats, umask, dest, chain_msgs=msgs, desc=f"set of {nparts} parts, cuts {[c[0] for c in cuts]}, started from part {start + 1}")
        # -s with every part on the command line, in a shuffled order: the members once
        order = list(range(nparts)); rng.shuffle(order)
        first = order[0]; me = disk[first]
        msgs = b""
        for q in range(first - 1, -1, -1): msgs += me + b": extends backwards to " + names[q][0] + b" (" + names[q][1] + b")\n"
        for q in range(first + 1, nparts): msgs += me + b": extends to " + names[q][0] + b" (" + names[q][1] + b")\n"
        skipped = b"".join(disk[q] + b": skipping known cabinet (from " + me + b")\n" for q in order[1:])
        yield Case("split-s", files, [disk[q] for q in order], [plan["members"]], ["-s"], [], 0o022, "out", chain_msgs=msgs, skipped_msgs=skipped, desc=f"-s with all {nparts} parts named, order {order}")

def fail_cases(rng, n):
    for i in range(n):
        kind = ["corrupt", "corrupt", "blocked-path", "missing-cab", "garbage", "truncated"][i % 6]
        STATS["failure_plans"][kind] = STATS["failure_plans"].get(kind, 0) + 1
        plan = make_plan(rng, comps=[rng.choice([0, 1]), rng.choice([0, 1]), 0], big=(i % 3 == 0))
        # unique harmless names for the failure plans
        for k, m in enumerate(plan["members"]):
            m["name"] = b"m%d.bin" % k; m["utf8"] = False; m["attribs"] &= 0x7f
        cab, layout = build_single(plan)
        mem = plan["members"]
        if kind == "corrupt":
            cands = [(j, b) for j, bl in enumerate(layout["blocks"]) for b, (off, plen) in enumerate(bl) if plen > 0]
            if not cands: continue
            j, b = rng.choice(cands)
            off, plen = layout["blocks"][j][b]
            pos = off + 8 + rng.randrange(plen)
            cab2 = bytearray(cab); cab2[pos] ^= rng.choice([1, 0x80, 0xff]); cab2 = bytes(cab2)
            bstart = sum(u for (_, u) in plan["folders"][j][1][:b]); bend = bstart + plan["folders"][j][1][b][1]
            # members of other folders are unaffected; so are earlier members of a STORED folder.  (In a compressed folder
            # cabd_sys_read fills the decoder's input buffer across block boundaries, so a bad block can fail earlier members.)
            stored = (plan["folders"][j][0] & 15) == 0
            must_ok = {k for k, m in enumerate(mem) if m["folder"] != j or (stored and m["offset"] + len(m["data"]) <= bstart)}
            must_fail = {k for k, m in enumerate(mem) if m["folder"] == j and len(m["data"]) > 0 and m["offset"] < bend and m["offset"] + len(m["data"]) > bstart}
            if not must_fail: continue
            yield FailCase(kind, {"x.cab": cab2}, [b"x.cab"], mem, must_ok, must_fail, desc=f"byte {pos} of block {b} of folder {j} (comp {plan['folders'][j][0]}) altered")
        elif kind == "blocked-path":
            mem[0]["name"] = b"blocked\\inner.bin"
            cab, _ = build_single(plan)
            yield FailCase(kind, {"x.cab": cab}, [b"x.cab"], mem, set(range(1, len(mem))), set(), pre={b"blocked": b"i am a regular file\n"}, desc="out/blocked is a regular file, member 0 is blocked\\inner.bin")
        elif kind == "missing-cab":
            yield FailCase(kind, {"x.cab": cab}, [b"x.cab", b"nothere.cab"], mem, set(range(len(mem))), set(), desc="second cabinet argument does not exist")
        elif kind == "garbage":
            yield FailCase(kind, {"x.cab": cab, "junk.cab": bytes(rng.randrange(256) for _ in range(300))}, [b"junk.cab", b"x.cab"], mem, set(range(len(mem))), set(), desc="first argument is not a cabinet")
        else:
            if len(cab) < 80 or not any(len(m["data"]) for m in mem): continue
            last = max(k for k, m in enumerate(mem) if len(m["data"]))
            # cut inside the last data block: at least the last non-empty member of the last folder cannot be read
            lastf = len(plan["folders"]) - 1
            off, plen = layout["blocks"][lastf][-1]
            if plen == 0: continue
            # some member with bytes must need that block (an empty MSZIP folder has a 4-byte block nobody reads)
            bstart = sum(u for (_, u) in plan["folders"][lastf][1][:-1])
            if not any(m["folder"] == lastf and len(m["data"]) > 0 and m["offset"] + len(m["data"]) > bstart for m in mem): continue
            cut = off + 8 + plen // 2
            yield FailCase(kind, {"x.cab": cab[:cut]}, [b"x.cab"], mem, set(), set(), desc=f"file cut at {cut} of {len(cab)}")

# ---- fixtures

def parse_cab(data, base=0):
    """minimal independent reader of one cabinet: members with folder/offset, folder plaintext for stored/MSZIP folders"""
    sig, _, size, _, foff, _, vmin, vmaj, nfold, nfiles, flags, setid, idx = struct.unpack_from("<4sIIIIIBBHHHHH", data, base)
    p = base + 36; fres = dres = 0
    if flags & 4:
        hres, fres, dres = struct.unpack_from("<HBB", data, p); p += 4 + hres
    def cstr(p):
        e = data.index(b"\0", p); return data[p:e], e + 1
    if flags & 1:
        _, p = cstr(p); _, p = cstr(p)
    if flags & 2:
        _, p = cstr(p); _, p = cstr(p)
    folders = []
    for j in range(nfold):
        doff, nblocks, comp = struct.unpack_from("<IHH", data, p); p += 8 + fres
        plain = b""; q = base + doff; ok = (comp & 15) in (0, 1)
        z = None
        for b in range(nblocks):
            ck, clen, ulen = struct.unpack_from("<IHH", data, q); q += 8 + dres
            payload = data[q:q + clen]; q += clen
            if (comp & 15) == 0: plain += payload
            elif (comp & 15) == 1:
                d = zlib.decompressobj(-15, zdict=plain[-32768:]) if plain else zlib.decompressobj(-15)
                plain += d.decompress(payload[2:])
        folders.append((comp, plain if ok else None))
    members = []
    p = base + foff
    for k in range(nfiles):
        ln, off, fo, dd, tt, attr = struct.unpack_from("<IIHHHH", data, p); p += 16
        nm, p = cstr(p)
        members.append(dict(name=nm, utf8=bool(attr & 0x80), attribs=attr, length=ln, folder=fo, offset=off,
                            date=((dd >> 9) + 1980, (dd >> 5) & 15, dd & 31), time=(tt >> 11, (tt >> 5) & 63, (tt << 1) & 62)))
    for m in members:
        pl = folders[m["folder"]][1] if m["folder"] < len(folders) else None
        m["data"] = pl[m["offset"]:m["offset"] + m["length"]] if pl is not None else None
    return members, size

def fixture_findings(exe):
    """shipped fixtures: listing/size/stamps from an independent header parse; content from the parse when the folder is
    stored/MSZIP, otherwise mode-against-mode"""
    fs = []
    root = os.path.join(FSROOT, f"{os.getpid()}-fixtures")
    shutil.rmtree(root, ignore_errors=True); os.makedirs(root)
    def bad(what): fs.append(Finding("violation", "fixture " + what))
    try:
        for name in ["simple.cab", "dir.cab", "mixed.cab", "case-ascii.cab", "case-utf8.cab", "utf8-stresstest.cab", "encoding-latin1.cab", "encoding-koi8.cab", "encoding-sjis.cab"]:
            path = os.path.join(FIXDIR, name)
            if not os.path.exists(path): continue
            STATS["fixtures"] += 1
            data = open(path, "rb").read()
            try:
                members, _ = parse_cab(data)
            except Exception as e:
                bad(f"{name}: the check's own reader failed: {e!r}"); continue
            harmless = all(b".." not in m["name"] and m["name"][:1] not in (b"/", b"\\") for m in members) and name != "utf8-stresstest.cab"
            isunix = spec_isunix([m["name"] for m in members])
            for lower in ([False, True] if name.startswith("case-") or name == "simple.cab" else [False]):
                lo = [b"-L"] if lower else []
                out = os.path.join(root, name + (".L" if lower else ""))
                r_l = run_bin(exe, [b"-l"] + lo + [path.encode()], root, 0o022)
                r_t = run_bin(exe, [b"-t"] + lo + [path.encode()], root, 0o022)
                r_p = run_bin(exe, [b"-p"] + lo + [path.encode()], root, 0o022)
                r_x = run_bin(exe, lo + [b"-d", out.encode(), path.encode()], root, 0o022)
                STATS["runs"] += 4
                for (mode, r) in (("-l", r_l), ("-t", r_t), ("-p", r_p), ("extract", r_x)):
                    if r.returncode != 0: bad(f"{name} {mode}: exit status {r.returncode}; stderr {r.stderr[-200:]!r}")
                # every member once in -l with size and stamp from the header
                lines = r_l.stdout.split(HDR, 1)[1].split(b"\n") if HDR in r_l.stdout else []
                lines = lines[:lines.index(b"")] if b"" in lines else lines
                if len(lines) != len(members): bad(f"{name} -l: {len(lines)} lines for {len(members)} members")
                names_listed = []
                for m, l in zip(members, lines):
                    head = spec_listline(dict(m, data=b"\0" * 0), b"")[:-1]
                    head = b"%10d" % m["length"] + head[10:]
                    if not l.startswith(head): bad(f"{name} -l: line {l!r} does not start with {head!r}")
                    names_listed.append(l[len(head):])
                    if harmless and lower is False:
                        on = spec_outname(m["name"], m["utf8"], False, isunix)
                        if l[len(head):] != on: bad(f"{name} -l: name {l[len(head):]!r}, specified {on!r}")
                if len(set(names_listed)) != len(names_listed) and name not in ("case-ascii.cab", "case-utf8.cab"):
                    pass
                # mode against mode: extracted bytes, -t digests, -p stream
                stream = b""
                tl = [l for l in r_t.stdout.split(b"\n") if b"  OK  " in l]
                if len(tl) != len(members): bad(f"{name} -t: {len(tl)} OK lines for {len(members)} members")
                seen_last = {}
                for k, (m, on) in enumerate(zip(members, names_listed)): seen_last[on] = k
                for k, (m, on) in enumerate(zip(members, names_listed)):
                    p = os.path.join(out.encode(), on)
                    content = None
                    if seen_last[on] == k:
                        if not os.path.isfile(p): bad(f"{name} extract: {on!r} missing"); continue
                        content = open(p, "rb").read()
                        st = os.stat(p)
                        if int(st.st_mtime) != spec_mtime(m["date"], m["time"]): bad(f"{name} extract: {on!r} mtime {int(st.st_mtime)} specified {spec_mtime(m['date'], m['time'])}")
                        if stat.S_IMODE(st.st_mode) != spec_mode(m["attribs"], 0o022): bad(f"{name} extract: {on!r} mode {stat.S_IMODE(st.st_mode):04o} specified {spec_mode(m['attribs'], 0o022):04o}")
                        if len(content) != m["length"]: bad(f"{name} extract: {on!r} has {len(content)} bytes, header says {m['length']}")
                    if m["data"] is not None:
                        if content is not None and content != m["data"]: bad(f"{name} extract: {on!r} differs from the independently decoded content")
                        content = m["data"]
                    if content is None: stream = None
                    elif stream is not None: stream += content
                    if content is not None and k < len(tl) and not tl[k].endswith(md5(content).encode()):
                        bad(f"{name} -t: member {on!r} digest line {tl[k]!r}, content has md5 {md5(content)}")
                if stream is not None and r_p.stdout != stream: bad(f"{name} -p: stdout ({len(r_p.stdout)} bytes) is not the concatenation of the members ({len(stream)} bytes)")
        # the shipped split set from every part, and -s with all parts
        parts = [os.path.join(FIXDIR, f"split-{k}.cab") for k in range(1, 6)]
        if all(os.path.exists(p) for p in parts):
            ref_p = None
            for k, p in enumerate(parts):
                STATS["fixtures"] += 1; STATS["split_parts_started"] += 1
                r_t = run_bin(exe, [b"-t", p.encode()], root, 0o022)
                r_l = run_bin(exe, [b"-l", p.encode()], root, 0o022)
                r_p = run_bin(exe, [b"-p", p.encode()], root, 0o022)
                out = os.path.join(root, f"split-from-{k + 1}")
                r_x = run_bin(exe, [b"-q", b"-d", out.encode(), p.encode()], root, 0o022)
                STATS["runs"] += 4
                for (mode, r) in (("-l", r_l), ("-t", r_t), ("-p", r_p), ("extract", r_x)):
                    if r.returncode != 0: bad(f"split set from part {k + 1} {mode}: exit status {r.returncode}; stderr {r.stderr[-200:]!r}")
                got = [(l.split(b"  ")[1], l[-32:].decode()) for l in r_t.stdout.split(b"\n") if b"  OK  " in l]
                if got != SPLIT_MD5: bad(f"split set from part {k + 1} -t: members {got!r}, expected {SPLIT_MD5!r}")
                listed = [l.rsplit(b" | ", 1)[1] for l in r_l.stdout.split(b"\n") if l.count(b" | ") == 2 and b"Date" not in l]
                if listed != [n for n, _ in SPLIT_MD5]: bad(f"split set from part {k + 1} -l: names {listed!r}")
                if ref_p is None: ref_p = r_p.stdout
                elif r_p.stdout != ref_p: bad(f"split set from part {k + 1} -p: stream differs from the one started at part 1")
                pos = 0
                for (n, dg) in SPLIT_MD5:
                    fp = os.path.join(out.encode(), n)
                    if not os.path.isfile(fp) or md5(open(fp, "rb").read()) != dg: bad(f"split set from part {k + 1}: extracted {n!r} does not have md5 {dg}")
                    else:
                        ln = os.path.getsize(fp)
                        if md5(r_p.stdout[pos:pos + ln]) != dg: bad(f"split set from part {k + 1} -p: bytes of {n!r} in the stream do not have md5 {dg}")
                        pos += ln
            r = run_bin(exe, [b"-s", b"-t"] + [p.encode() for p in parts], root, 0o022)
            STATS["runs"] += 1
            got = [(l.split(b"  ")[1], l[-32:].decode()) for l in r.stdout.split(b"\n") if b"  OK  " in l]
            if got != SPLIT_MD5 or r.returncode != 0: bad(f"split set -s with all parts: exit {r.returncode}, members {got!r}")
    finally:
        shutil.rmtree(root, ignore_errors=True)
    return fs

# ------------------------------------------------------------------------------------------ pipeline hooks

def big_member_findings(exe, workdir):
    """a member of 2^29 + 2 bytes (MSZIP, every block the same 32 KiB pattern): -t must print the MD5 of exactly
    those bytes (the byte count crosses 2^29, where the bit length no longer fits 32 bits), -l the size"""
    import zlib, struct as st, tempfile
    fs = []
    pat = bytes((i * 7) & 255 for i in range(256)) * 128
    def ck(d):
        co = zlib.compressobj(9, zlib.DEFLATED, -15); return b"CK" + co.compress(d) + co.flush()
    N = (1 << 29) // 32768; tail = b"tail!"
    big = (1 << 29) + 2
    cab, layout = minicab.build([(1, [(ck(pat), 32768), (ck(tail), len(tail))])],
                                [dict(name=b"big.bin", length=big, offset=0, folder=0), dict(name=b"rest.bin", length=3, offset=big, folder=0)])
    (o0, p0), (o1, p1) = layout["blocks"][0]
    first = cab[o0:o1]
    cab = bytearray(cab[:o1] + first * (N - 1) + cab[o1:])
    st.pack_into("<I", cab, 8, len(cab))
    fo = layout.get("folders_off", None)
    # CFFOLDER: coffCabStart(4) cCFData(2) typeCompress(2); locate it by its coffCabStart field
    k = bytes(cab).find(st.pack("<IHH", o0, 2, 1))
    if k < 0: return [Finding("mismatch", "big-member cabinet: folder entry not found")]
    st.pack_into("<H", cab, k + 4, N + 1)
    h = hashlib.md5()
    for _ in range(N): h.update(pat)
    h.update(tail[:2]); want = h.hexdigest().encode()
    d = tempfile.mkdtemp(prefix="big17-", dir=workdir)
    try:
        open(os.path.join(d, "big.cab"), "wb").write(bytes(cab))
        r = run_bin(exe, [b"-t", b"big.cab"], d, 0o022); STATS["runs"] += 1
        if r.returncode != 0 or b"  big.bin  OK" not in r.stdout:
            fs.append(Finding("violation", f"member of 2^29+2 bytes: -t exit {r.returncode}, output {r.stdout[-200:]!r} {r.stderr[-200:]!r}"))
        elif want not in r.stdout:
            got = r.stdout.split(b"big.bin  OK")[1].split()[0]
            fs.append(Finding("violation", f"member of 2^29+2 bytes: -t reports MD5 {got.decode()} but the member's bytes have MD5 {want.decode()} (and says OK)"))
        r = run_bin(exe, [b"-l", b"big.cab"], d, 0o022); STATS["runs"] += 1
        if b"%10d |" % big not in r.stdout:
            fs.append(Finding("violation", f"member of 2^29+2 bytes: -l does not list its size: {r.stdout[-200:]!r}"))
    finally:
        shutil.rmtree(d, ignore_errors=True)
    STATS["big_member"] = 1
    return fs

def generate(ctx):
    return iter(())

def judge(ctx, meta, impl, model):
    return []

def private_copy(exe, d):
    """the harness directory is shared and is deleted when another check builds a harness for different sources
    (lib/common.harness_dir drops `stale` builds); a long run keeps its own copy of the binary"""
    try:
        dst = os.path.join(d, "cabextract.bin")
        shutil.copy2(exe, dst)
        return dst
    except OSError:
        return exe

def custom_run(ctx, res, cw):
    global ENV
    ENV = dict(os.environ, ASAN_OPTIONS="detect_leaks=0:abort_on_error=0", TZ="UTC", LC_ALL="C")
    viol, mism = [], []
    exe = private_copy(os.path.join(ctx.hdir, "cabextract"), cw.dir)
    if not os.path.exists(exe):
        return viol, [("", {"family": "modes"}, Finding("mismatch", "the cabextract binary was not built"))]
    os.makedirs(FSROOT, exist_ok=True)
    rng = ctx.rng
    quick = ctx.tier == "quick"
    cases = []
    cases += list(normal_cases(rng, 70 if quick else 2500))
    cases += list(skip_cases(rng, 10 if quick else 300))
    cases += list(split_cases(rng, 8 if quick else 250))
    cases += list(fail_cases(rng, 24 if quick else 600))
    STATS["plans"] += len(cases)
    # the Lean model's -F selection for the cases inside its fragment, one driver run
    reqs = [(i, c.model_request()) for i, c in enumerate(cases) if isinstance(c, Case)]
    reqs = [(i, r) for (i, r) in reqs if r]
    if reqs and os.path.exists(C.DRIVER):
        mp = os.path.join(cw.dir, "select-model.case")
        open(mp, "w").write("\n".join(r for (_, r) in reqs) + "\n")
        out = [l for l in subprocess.run([C.DRIVER, mp], capture_output=True, text=True).stdout.splitlines() if l.startswith("prim select")]
        if len(out) == len(reqs) and not any("bad-args" in l for l in out):
            for (i, _), l in zip(reqs, out):
                cases[i].model_sel = [int(x) for x in l.split(" ")[2:] if x]
        else:
            mism.append((mp, {"family": "modes.select"}, Finding("mismatch", f"driver answered {len(out)} of {len(reqs)} `prim select` requests: {out[:2]}")))
    def work(i):
        try:
            return cases[i].check(exe, i)
        except Exception as e:
            import traceback
            return [Finding("mismatch", f"runner raised {e!r} {traceback.format_exc()[-600:]} [{cases[i].describe()}]")]
    seen = set()
    with ThreadPoolExecutor(max_workers=max(2, C.NCPU)) as ex:
        for i, fs in enumerate(ex.map(work, range(len(cases)))):
            c = cases[i]
            STATS["mode"][c.kind] = STATS["mode"].get(c.kind, 0) + 1
            for o in getattr(c, "opts", []): STATS["opts"][o] = STATS["opts"].get(o, 0) + 1
            if getattr(c, "patterns", None): STATS["opts"]["-F"] = STATS["opts"].get("-F", 0) + 1
            if getattr(c, "dest", None): STATS["opts"]["-d"] = STATS["opts"].get("-d", 0) + 1
            if hasattr(c, "umask"): STATS["umask"]["%03o" % c.umask] = STATS["umask"].get("%03o" % c.umask, 0) + 1
            sig = hashlib.sha256(c.describe().encode() + b"".join(c.cabfiles[k] for k in sorted(c.cabfiles))).hexdigest()
            nontriv = isinstance(c, FailCase) or bool(c.selection())
            if nontriv and sig not in seen:
                seen.add(sig); res.cov["distinct_nontrivial"] += (4 if isinstance(c, Case) else 3)
            for f in fs[:3]:
                lines = ["# C17 scenario (checks/c17.py); the cabinet files of the failing run:"] + [f"file {k} {c.cabfiles[k].hex()}" for k in sorted(c.cabfiles)] + ["# " + c.describe()]
                p = cw.add(lines, dict(family="modes." + c.kind))
                (viol if f.kind == "violation" else mism).append((p, dict(family="modes." + c.kind), f))
    for f in fixture_findings(exe):
        p = cw.add(["# C17 fixture run", "# " + f.text[:200]], dict(family="modes.fixture"))
        viol.append((p, dict(family="modes.fixture"), f))
    for f in big_member_findings(exe, cw.dir):
        p = cw.add(["# C17 big-member run (checks/c17.py big_member_findings builds the cabinet: 16384 identical MSZIP blocks)", "# " + f.text[:200]], dict(family="modes.big-member"))
        (viol if f.kind == "violation" else mism).append((p, dict(family="modes.big-member"), f))
    res.cov["evaluations"] += STATS["runs"]
    res.cov["traces_validated_against_impl"] += STATS.get("selection_model_vs_binary", 0)
    try: os.rmdir(FSROOT)
    except OSError: pass
    return viol[:20], mism

def classify(ctx, meta, finding):
    return None

def distribution(ctx):
    return dict(STATS)
