"""C16 — cabextract never writes outside the destination directory.

Theorems (Proofs/Props/C16.lean) on the model of create_output_name (MsPack/Cabx/OutName.lean): for
every member name, flag combination, directory and locale the archive-controlled part of the output
name has no leading slash of either kind, no "../" or "..\\" anywhere, hence no ".." component except
possibly the last one, and no NUL; the C's allocation is large enough.
Correspondence, family `prim.outname`: the real static function (harness op `prim outname`) against
the model, line by line, plus the property's name-level oracle on the implementation's own output.
Family `fs`: the real `cabextract` binary built from the tree, run in throw-away trees
/verif/build/fs/<pid>-<n>/{dest,outside,x.cab}: nothing under the test root except dest/ may change
(full snapshot: type, link target, size, content hash, mode, mtime, inode), and without -k every
regular file created or changed inside dest/ must lie, physically, at the lexical path of a member's
output name (so nothing was written through a symlink); `cabextract -l` must print exactly the names
the model predicts (isunix from the model of unix_path_seperators)."""
import hashlib, os, re, shutil, stat, subprocess
from concurrent.futures import ProcessPoolExecutor
from lib import common as C, minicab
from lib.pipeline import Finding, run_cases

PROP = "C16"
LEVEL = "proof"
THEOREMS = {"Proofs.Props.C16": ["MsPack.C16.name_sanitised", "MsPack.C16.name_sanitised_any_locale",
                                 "MsPack.C16.final_dotdot_survives", "MsPack.C16.lone_dotdot_survives",
                                 "MsPack.C16.createOutputName_fits"],
            "Proofs.Lemmas.OutName": ["MsPack.Cabx.convUtf8_fuel_enough"]}
ASSUMPTIONS = [
    "the theorems are about names only; what can_write/ensure_filepath/fopen do with a name on a file system with symlinks is observed on the real binary (family fs), not proved",
    "model of create_output_name validated by differential execution against the real static function (isunix=0 in the harness op; isunix=1 only through `cabextract -l` in family fs)",
    "towlower/tolower: the model is the C locale's (harness never calls setlocale); the real binary selects C.UTF-8, so with -L the -l/model comparison is skipped for names with non-ASCII letters; "
    "the sanitising theorems hold for every lower-casing function (name_sanitised_any_locale)",
    "POSIX host file system semantics as implemented by this kernel; no concurrent modification of the test tree; single-threaded cabextract",
    "the fs oracle learns the lexical output paths from the model (or, where the model comparison is skipped, from the binary's own -l output)",
]
RULE = ("prim.outname: member names up to 255 bytes (random bytes; separators/dots soup; atoms incl. overlong, truncated, surrogate, >0x10FFFF UTF-8; random valid UTF-8; exhaustive short strings over a "
        "hostile alphabet) x utf8 flag x lower flag x dir in {NULL, '', 'd', 'a/b'}; one evaluation = one case file of up to 500 names. "
        "fs: regression corpus (dangling final-component symlink in every -d mode, unlink through an intermediate symlink, classic traversal names) then random scenarios: 1-4 members with hostile "
        "names (absolute, ../, ..\\, mixed, long, overlong/invalid UTF-8, names of pre-existing symlinks as intermediate and final component) x pre-existing dest trees with live and dangling symlinks "
        "pointing inside and outside x options from {-L,-k,-n,-e ENC} x destination mode {-d rel, -d abs, -d rel/, cwd=dest, cwd=dest -d .}; non-trivial = at least one member whose raw name contains "
        "a separator, a '..' or the name of a pre-existing symlink; distinct by scenario text")

FSROOT = os.path.join(C.BUILD, "fs")
# The test root lies DEPTH directories below the per-scenario jail /verif/build/fs/<pid>-<n>: a cabextract whose `../`
# replacement is broken climbs at most 85 levels with a 255-byte name, so it stays inside the jail, where the snapshot sees it.
# Names that start with a separator always continue with the jail's own absolute path in the same separator style (contain()).
DEPTH = 88

RUN_ID = None      # pid of the process that planned the scenarios (worker processes inherit it)
def jail_of(idx): return os.path.join(FSROOT, f"{RUN_ID or os.getpid()}-{idx}").encode()
def root_of(idx): return jail_of(idx) + b"/j" * DEPTH
def subst(b, root):
    """@ROOT@ = absolute path of the test root, @ROOTB@ = the same written with backslashes"""
    return b.replace(b"@ROOTB@", root.replace(b"/", b"\\")).replace(b"@ROOT@", root)
def short(k): return k.replace(b"j/" * DEPTH, b"<root>/").replace(b"/j" * DEPTH, b"/<root>")
STATS = {"prim_names": 0, "fs_scenarios": 0, "fs_with_links_outside": 0, "fs_with_dangling_final": 0, "fs_opts": {}, "fs_dmode": {},
         "fs_family": {}, "fs_listings_compared_with_model": 0, "fs_listings_isunix1": 0, "fs_listings_skipped_locale": 0, "fs_files_written_inside": 0, "fs_runs_nonzero_exit": 0}

# ------------------------------------------------------------------------------------------ names

ATOMS = [b"/", b"\\", b".", b"..", b"../", b"..\\", b"...", b"a", b"B", b"Z", b"x", b" ", b"\xc3\x89", b"\xe2\x84\xaa", b"\xc0\xaf", b"\xc0\xae",
         b"\xe0\x80\xaf", b"\xe0\x80\xae", b"\xf0\x80\x80\xaf", b"\xf0\x80\x80\xae", b"\xe0\x81\x9c", b"\xed\xa0\x80", b"\xef\xbf\xbe", b"\xef\xbf\xbf",
         b"\xf4\x90\x80\x80", b"\xf4\x8f\xbf\xbf", b"\xe0\x80\x80", b"\xc2", b"\xe0\x80", b"\xf0\x80\x80", b"\xf5", b"\xff", b"\x80", b"\xc1\xaf", b"\xdf\xbf",
         b"\xf0\x9f\x98\x80", b"\x01", b"\x7f", b"\n", b"\xc4\xb0", b"I"]
DIRS = ["-", "=", "64", "612f62"]

def rand_name(rng):
    k = rng.randrange(6)
    n = rng.choice([0, 1, 2, 3, 4, 5, 8, 16, 40, 100, 254, 255])
    if k == 0: b = bytes(rng.randrange(1, 256) for _ in range(n))
    elif k == 1: b = bytes(rng.choice(b"./\\.a") for _ in range(n))
    elif k == 2: b = b"".join(rng.choice(ATOMS) for _ in range(rng.randrange(12)))
    elif k == 3:
        b = "".join(chr(rng.choice([rng.randrange(1, 0x80), rng.randrange(0x80, 0x800), rng.randrange(0x800, 0xd800),
                                    rng.randrange(0xe000, 0x10000), rng.randrange(0x10000, 0x110000)])) for _ in range(rng.randrange(10))).encode()
    elif k == 4: b = bytes(rng.choice([0x2e, 0x2f, 0x5c, 0xc0, 0xc2, 0xe0, 0xed, 0xf0, 0xf4, 0x80, 0xaf, 0xae, 0xbf, 0x41]) for _ in range(n))
    else: b = rng.choice([b"/", b"\\", b"//", b"\\/"]) * rng.randrange(4) + b"".join(rng.choice(ATOMS) for _ in range(rng.randrange(6)))
    return b[:255]

def exhaustive(maxlen):
    alpha = [0x2e, 0x2f, 0x5c, 0x41, 0xc0, 0xc2, 0xe0, 0x80, 0xae, 0xaf, 0xf0]
    cur = [b""]
    for _ in range(maxlen):
        cur = [p + bytes([a]) for p in cur for a in alpha]
        yield from cur

def body_problems(body):
    """the name-level oracle of the property on an archive-controlled name part"""
    ps = []
    if body[:1] in (b"/", b"\\"): ps.append("leading slash")
    if b"\0" in body: ps.append("NUL byte")
    if b"../" in body or b"..\\" in body: ps.append("'..' followed by a slash")
    if b".." in body.split(b"/")[:-1]: ps.append("'..' component")
    return ps

def generate(ctx):
    rng = ctx.rng
    quick = ctx.tier == "quick"
    lines = []
    def flush(fam):
        nonlocal lines
        if lines:
            out = (lines, dict(family=fam, n=len(lines)))
            lines = []
            return [out]
        return []
    # regression corpus: the shapes the sanitising passes exist for
    for nm in [b"..\\..\\etc\\passwd", b"../../etc/passwd", b"/etc/passwd", b"\\\\host\\share", b"\\/\\/", b"..", b"a\\..", b"...\\x", b".../x",
               b"\xe0\x80\xae\xe0\x80\xae\\x", b"\xf0\x80\x80\xae.\xe0\x80\xafx", b"\xc0\xae\xc0\xae\\x", b"A" * 255, b"\\" * 255, b"..\\" * 85, b"\xff" * 255, b"\xf4\x8f\xbf\xbf" * 63]:
        for u in (0, 1):
            for lo in (0, 1):
                for d in DIRS:
                    lines.append(f"prim outname {C.hexs(nm)} {u} {lo} {d}")
    yield from flush("prim.outname")
    for nm in exhaustive(3 if quick else 4):
        lines.append(f"prim outname {nm.hex()} 1 {rng.randrange(2)} {rng.choice(DIRS)}")
        if len(lines) >= 500: yield from flush("prim.outname")
    yield from flush("prim.outname")
    n = 4000 if quick else 150000
    for i in range(n):
        nm = rand_name(rng)
        lines.append(f"prim outname {C.hexs(nm)} {rng.randrange(2)} {rng.randrange(2)} {rng.choice(DIRS)}")
        if len(lines) >= 500: yield from flush("prim.outname")
    yield from flush("prim.outname")

def judge(ctx, meta, impl, model):
    fs = []
    if meta.get("family", "").startswith("fs"):
        return fs
    crash = [b[0] for b in impl if b[0].startswith(("CRASH", "TIMEOUT"))]
    if crash:
        return [Finding("violation", "create_output_name on the implementation: " + crash[0] + " (memory-safety finding; input = the line after the last answered one)")]
    il = [b[0].split(" edges=")[0] for b in impl if b[0].startswith("prim ")]
    STATS["prim_names"] += len(il)
    if any(l.endswith("unavailable") for l in il):
        return [Finding("mismatch", "prim outname unavailable: cabextract.c no longer compiles in the harness wrapper")]
    # the property's own oracle on the implementation's output
    reqs = meta.get("_reqs")
    for k, l in enumerate(il):
        t = l.split(" ")
        if len(t) != 3 or t[2] in ("NULL", "bad-args"): continue
        out = b"" if t[2] == "=" else bytes.fromhex(t[2])
        d = reqs[k][5] if reqs and k < len(reqs) else None
        if d is None: continue
        pre = b"" if d == "-" else (b"" if d == "=" else bytes.fromhex(d)) + b"/"
        if not out.startswith(pre):
            fs.append(Finding("violation", f"create_output_name result {out!r} does not start with the directory prefix {pre!r} (request: {' '.join(reqs[k])})"))
            continue
        ps = body_problems(out[len(pre):])
        if ps:
            fs.append(Finding("violation", f"create_output_name result {out!r}: archive-controlled part has {', '.join(ps)} (request: {' '.join(reqs[k])})"))
            break
    if model is not None:
        ml = [b[0] for b in model if b[0].startswith("prim ")]
        if il != ml:
            k = next((i for i in range(min(len(il), len(ml))) if il[i] != ml[i]), min(len(il), len(ml)))
            req = " ".join(reqs[k]) if reqs and k < len(reqs) else "?"
            fs.append(Finding("mismatch", f"create_output_name: implementation and model differ at line {k}: request `{req}` impl `{il[k] if k < len(il) else None}` model `{ml[k] if k < len(ml) else None}`"))
    return fs

# ------------------------------------------------------------------------------------------ fs family

BASE_PRE = [("dir", b"outside"), ("dir", b"outside/dir"), ("dir", b"outside/tdir"), ("file", b"outside/secret.txt", b"secret\n"),
            ("file", b"outside/dir/keep.txt", b"keep\n"), ("file", b"outside/dir/evil.txt", b"not evil yet\n"),
            ("dir", b"outside/dir/deep"), ("dir", b"outside/dir/deep/er"), ("file", b"outside/dir/deep/settings.txt", b"settings\n"),
            ("dir", b"dest"), ("dir", b"dest/sub"), ("file", b"dest/sub/in.txt", b"inside\n"), ("file", b"dest/file.txt", b"file\n")]
# name -> (path under root, target relative form, target absolute form, points outside, dangling, is dir-like)
LINKS = {
    b"ld_out":      (b"dest/ld_out", b"../outside/dir", b"@ROOT@/outside/dir", True, False, True),
    b"ld_in":       (b"dest/ld_in", b"sub", b"@ROOT@/dest/sub", False, False, True),
    b"ld_dang":     (b"dest/ld_dang", b"../outside/nodir", b"@ROOT@/outside/nodir", True, True, True),
    b"lf_out":      (b"dest/lf_out", b"../outside/secret.txt", b"@ROOT@/outside/secret.txt", True, False, False),
    b"lf_in":       (b"dest/lf_in", b"file.txt", b"@ROOT@/dest/file.txt", False, False, False),
    b"lf_dang_out": (b"dest/lf_dang_out", b"../outside/created.txt", b"@ROOT@/outside/created.txt", True, True, False),
    b"lf_dang_in":  (b"dest/lf_dang_in", b"sub/created_in.txt", b"@ROOT@/dest/sub/created_in.txt", False, True, False),
    b"sub/ld_out2": (b"dest/sub/ld_out2", b"../../outside/tdir", b"@ROOT@/outside/tdir", True, False, True),
    b"l_chain":     (b"dest/l_chain", b"lf_dang_out", b"@ROOT@/dest/lf_dang_out", True, True, False),
    b"l_self":      (b"dest/l_self", b"l_self", b"@ROOT@/dest/l_self", False, True, False),
}
DMODES = ["rel", "abs", "relslash", "cwd", "cwddot"]

UNPRIV = 65534     # the uid scenarios with `uid` run cabextract as (root never sees unlink()/open() refused)

def scenario(members, links, opts, dmode, family="fs", absolute_links=False, note="", hard=False, extra_pre=(), uid=None):
    """members: [(name, utf8flag, data)]; links: names from LINKS; hard: dest/hl_out is a hard link to outside/secret.txt"""
    pre = list(BASE_PRE)
    if hard: pre.append(("hard", b"dest/hl_out", b"outside/secret.txt"))
    for l in links:
        p, rel, ab, out, dang, isdir = LINKS[l]
        if l == b"l_chain" and b"lf_dang_out" not in links:
            p2, rel2, ab2 = LINKS[b"lf_dang_out"][:3]
            pre.append(("link", p2, ab2 if absolute_links else rel2))
        pre.append(("link", p, ab if absolute_links else rel))
    pre += list(extra_pre)
    return dict(members=members, pre=pre, opts=opts, dmode=dmode, family=family, links=[l.decode() for l in links], note=note, uid=uid)

def scn_lines(s):
    lines = ["# fs scenario of checks/c16.py (replayed by `bin/check C16 --replay FILE`); @ROOT@ = the throw-away test root"]
    for (nm, u, data) in s["members"]:
        lines.append(f"fs member {C.hexs(nm)} {1 if u else 0} {C.hexs(data)}")
    for e in s["pre"]:
        lines.append("fs pre " + e[0] + " " + " ".join(C.hexs(x) for x in e[1:]))
    lines.append("fs opts " + " ".join(s["opts"]))
    lines.append("fs dmode " + s["dmode"])
    if s.get("uid") is not None: lines.append(f"fs uid {s['uid']}")
    return lines

def scn_parse(lines):
    s = dict(members=[], pre=[], opts=[], dmode="rel", family="fs", links=[], note="replay")
    hx = lambda t: b"" if t == "-" else bytes.fromhex(t)
    for l in lines:
        t = l.split(" ")
        if t[:2] == ["fs", "member"]: s["members"].append((hx(t[2]), t[3] == "1", hx(t[4])))
        elif t[:2] == ["fs", "pre"]: s["pre"].append(tuple([t[2]] + [hx(x) for x in t[3:]]))
        elif t[:2] == ["fs", "opts"]: s["opts"] = [x for x in t[2:] if x]
        elif t[:2] == ["fs", "dmode"]: s["dmode"] = t[2]
        elif t[:2] == ["fs", "uid"]: s["uid"] = int(t[2])
    s["links"] = [e[1].decode(errors="replace") for e in s["pre"] if e[0] == "link"]
    return s

def hostile_names(rng, links, lower):
    """a pool of member names for one scenario; @ROOT@ is replaced by the absolute test root"""
    sep = rng.choice([b"\\", b"\\", b"/"])
    other = b"/" if sep == b"\\" else b"\\"
    pool = [b"..S..Soutside/escaped.txt".replace(b"S", sep), b"..Soutside" + sep + b"escaped.txt", b"@ROOT@/outside/abs.txt", b"@ROOTB@\\outside\\abs.txt", b"//@ROOT@/outside/abs2.txt", b"\\\\@ROOTB@\\outside\\abs2.txt", b"\xe0\x80\xaf@ROOT@/outside/ovlabs.txt",
            b"subS..S..SoutsideSescaped.txt".replace(b"S", sep), b"..OoutsideOescaped.txt".replace(b"O", other), b"subS..O..OoutsideSsecret.txt".replace(b"S", sep).replace(b"O", other),
            b"...S...SoutsideSx".replace(b"S", sep), b"..", b"subS..".replace(b"S", sep), b".", b"subS.Sok.txt".replace(b"S", sep), b"plain.txt", b"subSnew.txt".replace(b"S", sep),
            b"newdirSdeepSf.txt".replace(b"S", sep), b"file.txt", sep * 3 + (b"@ROOT@" if sep == b"/" else b"@ROOTB@") + sep + b"outside" + sep + b"x", b"\xe0\x80\xae\xe0\x80\xae" + sep + b"outside" + sep + b"ovl.txt",
            b"\xf0\x80\x80\xae." + b"\xe0\x80\xaf" + b"outside/ovl2.txt", b"\xc0\xae\xc0\xae" + sep + b"outside" + sep + b"c0.txt", b"\xff\xfe" + sep + b"..\xff" + sep + b"x",
            (b"a" + sep) * 100 + b"f", b"L" * 255, b"d" * 200 + sep + b"e" * 54, b"..S".replace(b"S", sep) * 40 + b"outside" + sep + b"far.txt",
            b"+AC4ALgAv-outside+AC8-utf7.txt", b"\xc9t\xe9" + sep + b"\xd1.txt"]
    for l in links:
        ln = l.replace(b"/", sep)
        isdir = LINKS[l][5]
        pool += [ln] * 3
        pool += [ln + sep + b"evil.txt", ln + sep + b"keep.txt", ln + sep + b"new" + sep + b"deep.txt", ln + sep + b".." + sep + b"outside" + sep + b"viaparent.txt"] * (2 if isdir else 1)
    nm = rng.choice(pool)
    if lower and rng.random() < 0.5:
        nm = re.sub(rb"@ROOTB?@|[^@]+|@", lambda m: m.group(0) if m.group(0).startswith(b"@ROOT") else m.group(0).upper(), nm)
    if rng.random() < 0.1:
        nm = nm + rng.choice([b"", sep, b".", b" ", sep + b".."])
    return nm[:255]

LEAD_ATOMS = [(b"/", 0), (b"\\", 1), (b"\xe0\x80\xaf", 0), (b"\xf0\x80\x80\xaf", 0), (b"\xc0\xaf", 0), (b"\xe0\x81\x9c", 1), (b"\xf0\x80\x81\x9c", 1), (b"\xc1\x9c", 1)]

def contain(nm, allow_abs=True):
    """fs family only.  A name may start with separators (plain or overlong-encoded) only if they are all of one kind and are
    followed by the absolute path of the test root written with that kind; otherwise the leading separators are dropped.
    So even a cabextract that no longer strips leading slashes writes inside the throw-away jail."""
    rest, kinds = nm, set()
    while True:
        for (a, k) in LEAD_ATOMS:
            if rest.startswith(a):
                rest = rest[len(a):]; kinds.add(k); break
        else:
            break
    if not kinds: return nm
    if allow_abs and len(kinds) == 1:
        # "@ROOT@" itself starts with '/', "@ROOTB@" with '\\': put the placeholder back behind the stripped lead
        if kinds == {0} and rest.startswith(b"@ROOT@"): return nm
        if kinds == {1} and rest.startswith(b"@ROOTB@"): return nm
    return rest or b"x"

ENCODINGS = ["ISO-8859-1", "KOI8-R", "CP1252", "SHIFT_JIS", "SHIFT_JIS", "UTF-7", "UTF-16LE", "TSCII"]

def fs_scenarios(ctx):
    rng = ctx.rng
    D = b"payload-"
    one = lambda nm, u=False: [(nm, u, D + nm[:8])]
    # ---- regression corpus
    for dm in DMODES:
        yield scenario(one(b"lf_dang_out"), [b"lf_dang_out"], [], dm, "fs.dangling-final", note="D7 shape")
    yield scenario(one(b"lf_dang_out"), [b"lf_dang_out"], ["-n"], "rel", "fs.dangling-final", note="D7 shape with -n")
    yield scenario(one(b"lf_dang_out"), [b"lf_dang_out"], [], "rel", "fs.dangling-final", absolute_links=True, note="D7 shape, absolute target")
    yield scenario(one(b"LF_DANG_OUT"), [b"lf_dang_out"], ["-L"], "rel", "fs.dangling-final", note="D7 shape reached through -L")
    yield scenario(one(b"l_chain"), [b"l_chain"], [], "rel", "fs.dangling-final", note="link to dangling link")
    yield scenario(one(b"lf_dang_in"), [b"lf_dang_in"], [], "rel", "fs.dangling-final", note="dangling link pointing inside dest")
    yield scenario(one(b"l_self"), [b"l_self"], [], "rel", "fs.dangling-final", note="self-referential link (ELOOP)")
    yield scenario(one(b"lf_dang_out"), [b"lf_dang_out"], ["-k"], "rel", "fs.keep", note="-k: following is allowed")
    for dm in ("rel", "cwd"):
        yield scenario(one(b"ld_out\\keep.txt"), [b"ld_out"], [], dm, "fs.unlink-through-link", note="existing outside file behind an intermediate symlink")
        yield scenario(one(b"ld_out\\evil.txt") + one(b"ld_out\\fresh.txt"), [b"ld_out"], [], dm, "fs.unlink-through-link")
        yield scenario(one(b"sub\\ld_out2\\x.txt"), [b"sub/ld_out2"], [], dm, "fs.corpus")
        # the link is NOT the last directory component: the rest of the path exists as real directories under its target
        yield scenario(one(b"ld_out\\deep\\settings.txt") + one(b"ld_out\\deep\\new.txt"), [b"ld_out"], [], dm, "fs.link-not-last",
                       note="symlinked directory followed by existing real directories")
        yield scenario(one(b"ld_out\\deep\\er\\new2.txt"), [b"ld_out"], ["-n"], dm, "fs.link-not-last")
        yield scenario(one(b"ld_out/deep/er/new3.txt") + one(b"LD_OUT\\DEEP\\NEW4.TXT"), [b"ld_out"], ["-L"], dm, "fs.link-not-last")
        yield scenario(one(b"lf_out"), [b"lf_out"], [], dm, "fs.corpus", note="live file link as final component is replaced")
        yield scenario(one(b"lf_out"), [b"lf_out"], ["-n"], dm, "fs.corpus")
        yield scenario(one(b"ld_dang\\x.txt"), [b"ld_dang"], [], dm, "fs.corpus")
        yield scenario(one(b"..\\outside\\escaped.txt") + one(b"../outside/escaped2.txt") + one(b"@ROOT@/outside/abs.txt") + one(b"\\\\@ROOTB@\\outside\\abs2.txt"), [], [], dm, "fs.corpus")
        yield scenario(one(b"\xe0\x80\xae\xe0\x80\xae\\outside\\ovl.txt", True) + one(b"\xf0\x80\x80\xae.\xe0\x80\xafoutside/ovl2.txt", True), [], [], dm, "fs.corpus")
        yield scenario(one(b"ld_in\\viain.txt") + one(b"lf_in"), [b"ld_in", b"lf_in"], ["-k"], dm, "fs.keep")
        yield scenario(one(b"+AC4ALgAv-outside+AC8-utf7.txt"), [], ["-e", "UTF-7"], dm, "fs.encoding")
    yield scenario(one(b"\xff" * 8 + b"\x82" * 6), [], ["-e", "TSCII"], "rel", "fs.encoding", note="invalid bytes then bytes that expand to 12 UTF-8 bytes")
    yield scenario(one(b"plain.txt"), [], ["-e", "UTF-7"], "rel", "fs.encoding", note="encoding whose converter rejects NUL")
    yield scenario(one(b"ab"), [], ["-e", "UTF-16LE"], "rel", "fs.encoding", note="terminating NUL is half a code unit")
    yield scenario(one(b"..\\outside\\lat\xe9.txt") + one(b"\x81\\..\\x\x81"), [], ["-e", "ISO-8859-1"], "rel", "fs.encoding")
    yield scenario(one(b"\x83\x5c..\x83\x5c..\\outside\\sjis.txt") + one(b"\x83"), [], ["-e", "SHIFT_JIS"], "cwd", "fs.encoding", note="0x5C as trail byte")
    # the extracting user may not modify the directory that holds a link (mode 0555; a sticky directory with someone else's
    # link gives the same refusal): unlink() of the link fails, and nothing may then be written through it
    for dm in ("rel", "cwd"):
        for opts in ([], ["-L"], ["-n"]):
            for lk, tgt in ((b"dest/shared/report.txt", b"../../outside/secret.txt"), (b"dest/shared/new.txt", b"../../outside/created.txt")):
                base = lk.rsplit(b"/", 1)[1]
                yield scenario(one(b"shared\\" + base), [], opts, dm, "fs.unlink-refused", uid=UNPRIV,
                               extra_pre=[("dir", b"dest/shared"), ("link", lk, tgt), ("chmod", b"dest/shared", b"555")],
                               note="link in a directory the extracting user cannot modify")
    yield scenario(one(b"shared\\report.txt"), [], [], "rel", "fs.unlink-refused", uid=UNPRIV,
                   extra_pre=[("dir", b"dest/shared"), ("link", b"dest/shared/report.txt", b"../../outside/secret.txt")], note="control: same layout, directory writable")
    yield scenario(one(b"hl_out"), [], [], "rel", "fs.corpus", hard=True, note="hard link to an outside file as final component: replaced, not written through")
    yield scenario(one(b"hl_out"), [], ["-n"], "cwd", "fs.corpus", hard=True)
    # ---- random
    n = 260 if ctx.tier == "quick" else 30000
    lnames = list(LINKS)
    for i in range(n):
        opts = []
        if rng.random() < 0.3: opts.append("-L")
        if rng.random() < 0.25: opts.append("-n")
        keep = rng.random() < 0.15
        if keep: opts.append("-k")
        if rng.random() < 0.15: opts += ["-e", rng.choice(ENCODINGS)]
        links = rng.sample(lnames, rng.choice([0, 1, 2, 3, 5, len(lnames)]))
        members = []
        for k in range(rng.randint(1, 4)):
            nm = hostile_names(rng, links, "-L" in opts) if rng.random() < 0.85 else rand_name(rng).replace(b"\n", b"_") or b"e"
            nm = contain(nm, allow_abs="-e" not in opts)
            members.append((nm, rng.random() < 0.4, bytes(rng.choice(b"abc\n") for _ in range(rng.choice([0, 1, 7, 40])))))
        hard = rng.random() < 0.2
        if hard: members.append((rng.choice([b"hl_out", b"HL_OUT" if "-L" in opts else b"hl_out"]), False, b"over the hard link\n"))
        yield scenario(members, links, opts, rng.choice(DMODES), "fs.random", absolute_links=rng.random() < 0.3, hard=hard)

def nontrivial(s):
    for (nm, u, d) in s["members"]:
        if b"/" in nm or b"\\" in nm or b".." in nm or any(nm.lower().startswith(l.encode().split(b"/")[0]) for l in s["links"]):
            return True
    return False

def sha(b): return hashlib.sha256(b).hexdigest()[:16]

def snapshot(top, skip=None):
    """physical walk (symlinks not followed): relpath -> (kind, link target, size, content hash, mode, mtime_ns, inode)"""
    out = {}
    def visit(p, rel):
        try:
            st = os.lstat(p)
        except OSError as e:
            out[rel] = ("error", str(e.errno)); return
        m = st.st_mode
        if stat.S_ISLNK(m):
            out[rel] = ("link", os.readlink(p), 0, "", stat.S_IMODE(m), st.st_mtime_ns, st.st_ino)
        elif stat.S_ISDIR(m):
            out[rel] = ("dir", b"", 0, "", stat.S_IMODE(m), st.st_mtime_ns, st.st_ino)
            try:
                names = sorted(os.listdir(p))
            except OSError:
                names = []
            for nm in names:
                q = p + b"/" + nm
                if skip is not None and q == skip: continue
                visit(q, rel + b"/" + nm if rel != b"." else nm)
        elif stat.S_ISREG(m):
            try:
                data = open(p, "rb").read()
            except OSError:
                data = b"<unreadable>"
            out[rel] = ("file", b"", st.st_size, sha(data), stat.S_IMODE(m), st.st_mtime_ns, st.st_ino)
        else:
            out[rel] = ("other", b"", 0, "", stat.S_IMODE(m), st.st_mtime_ns, st.st_ino)
    visit(top, b".")
    return out

def snap_diff(a, b, limit=4):
    ds = []
    for k in sorted(set(a) | set(b)):
        if a.get(k) != b.get(k):
            if k not in b: ds.append(f"{short(k)!r} removed (was {a[k][0]})")
            elif k not in a: ds.append(f"{short(k)!r} created ({b[k][0]}, {b[k][2]} bytes)")
            else:
                what = [n for n, x, y in zip(("type", "link target", "size", "content", "mode", "mtime", "inode"), a[k], b[k]) if x != y]
                ds.append(f"{short(k)!r} changed ({', '.join(what)})")
    return ds[:limit], len(ds)

def norm_lex(path):
    """lexical normal form of a path: no empty and no '.' components"""
    return b"/".join(c for c in path.split(b"/") if c not in (b"", b"."))

HDR = b"-----------+---------------------+-------------\n"

def to_utf8_for_e(name, enc):
    """what convert_filename makes of a non-UTF8-flagged name for the encodings that cannot fail; None = unknown"""
    if enc == "ISO-8859-1": return name.decode("latin-1").encode("utf-8")
    if enc == "KOI8-R": return name.decode("koi8-r").encode("utf-8")
    return None

def only_caseless_ascii_letters(name_utf8ish, utf8):
    """True if lower-casing in a UTF-8 locale cannot differ from the C locale's for this name"""
    if not utf8:
        return True     # tolower() on single bytes >= 0x80 is the identity in C.UTF-8 as well (observed by this very comparison)
    try:
        s = name_utf8ish.decode("utf-8")
    except UnicodeDecodeError:
        s = name_utf8ish.decode("utf-8", errors="replace")
    return all(ord(ch) < 0x80 or not ch.isalpha() for ch in s)

def san_finding(what, stderr, members):
    """a sanitizer report of the real binary, classified by where it happened"""
    txt = stderr.decode(errors="replace")
    summ = next((l for l in txt.splitlines() if "ERROR: AddressSanitizer" in l or "runtime error:" in l), "")[:200]
    acc = next((l.strip() for l in txt.splitlines() if l.startswith(("READ of size", "WRITE of size"))), "")
    import re
    summ = re.sub(r"\s+", " ", re.sub(r"==\d+==|(on address|at pc|bp|sp) 0x[0-9a-f]+|0x[0-9a-f]+", "", summ)).strip()
    acc = re.sub(r" at 0x[0-9a-f]+ thread T0", "", acc)
    frames = [l.split(" in ", 1)[1].split(" ")[0] for l in txt.splitlines() if l.lstrip().startswith("#") and " in " in l][:4]
    f = Finding("violation", f"sanitizer report in {what}, member names {[m[0] for m in members]!r}: {summ} {acc} at {' < '.join(frames)}")
    f.shape = ""
    if "convert_filename" in txt and acc.startswith("WRITE"):
        f.shape = "enc-overflow"
        f.text += (" -- convert_filename(): after an invalid input byte it writes U+FFFD (3 bytes) and then does `olen += 3` instead of `olen -= 3`, so iconv() is told there is "
                   "more room than there is; with an encoding in which one byte expands to more than 4 UTF-8 bytes the 4x buffer is overrun")
    elif "convert_filename" in txt and acc.startswith("READ"):
        f.shape = "enc-unterminated"
        f.text += (" -- convert_filename() relies on iconv() converting the terminating NUL; when iconv() rejects it (EILSEQ/EINVAL: glibc UTF-7, or a lone byte in a 16-bit encoding) "
                   "the NUL is replaced by U+FFFD and the new name is left unterminated")
    return f

def run_fs(exe, idx, s, model_line):
    """runs one scenario; returns (findings, stats dict)"""
    jail, root = jail_of(idx), root_of(idx)
    shutil.rmtree(jail, ignore_errors=True)
    os.makedirs(root)
    fs, st = [], {}
    try:
        R = lambda b: subst(b, root)
        for e in s["pre"]:
            p = root + b"/" + e[1]
            if e[0] == "dir": os.makedirs(p, exist_ok=True)
            elif e[0] == "file":
                open(p, "wb").write(e[2]); os.utime(p, (1000000000, 1000000000))
            elif e[0] == "link": os.symlink(R(e[2]), p)
            elif e[0] == "hard": os.link(root + b"/" + e[2], p)
        uid = s.get("uid")
        if uid is not None:
            if os.geteuid() != 0:
                st["skipped_not_root"] = 1
                return fs, st
            # the whole test root belongs to the extracting user; then the modes the scenario asks for
            for dp, dn, fn in os.walk(root):
                os.lchown(dp, uid, uid)
                for f in dn + fn: os.lchown(os.path.join(dp, f), uid, uid)
        for e in s["pre"]:
            if e[0] == "chmod": os.chmod(root + b"/" + e[1], int(e[2].decode(), 8))
        members = [(R(nm)[:255], u, d) for (nm, u, d) in s["members"]]
        whole = b"".join(d for (_, _, d) in members)
        files, off = [], 0
        for (nm, u, d) in members:
            files.append(dict(name=nm, length=len(d), offset=off, folder=0, attribs=0x20 | (0x80 if u else 0))); off += len(d)
        cab, _ = minicab.build([(0, [(whole, len(whole))])], files)
        open(root + b"/x.cab", "wb").write(cab)
        runas = dict(user=uid, group=uid, extra_groups=[]) if uid is not None else {}
        dest = root + b"/dest"
        dm = s["dmode"]
        if dm == "rel": cwd, dargs, cabp, dirarg = root, [b"-d", b"dest"], b"x.cab", b"dest"
        elif dm == "abs": cwd, dargs, cabp, dirarg = root, [b"-d", dest], b"x.cab", dest
        elif dm == "relslash": cwd, dargs, cabp, dirarg = root, [b"-d", b"dest/"], b"x.cab", b"dest/"
        elif dm == "cwddot": cwd, dargs, cabp, dirarg = dest, [b"-d", b"."], b"../x.cab", b"."
        else: cwd, dargs, cabp, dirarg = dest, [], b"../x.cab", None
        opts = [o.encode() for o in s["opts"]]
        env = dict(os.environ, ASAN_OPTIONS="detect_leaks=0:abort_on_error=0", UBSAN_OPTIONS="print_stacktrace=1", TZ="UTC")
        keep = "-k" in s["opts"]
        lower = "-L" in s["opts"]
        enc = s["opts"][s["opts"].index("-e") + 1] if "-e" in s["opts"] else None
        before_out = snapshot(jail, skip=dest)
        before_in = snapshot(dest)
        # --- listing
        rl = subprocess.run([exe.encode(), b"-l"] + opts + dargs + [cabp], cwd=cwd, capture_output=True, env=env, timeout=60, **runas)
        if b"AddressSanitizer" in rl.stderr or b"runtime error:" in rl.stderr:
            fs.append(san_finding("`cabextract -l " + " ".join(s["opts"]) + "`", rl.stderr, members))
        listed = None
        if HDR in rl.stdout:
            blk = rl.stdout.split(HDR, 1)[1]
            k = blk.rfind(b"\nAll done")
            blk = blk[:k] if k >= 0 else blk
            pfx = len("%10u | 12.03.1997 11:13:52 | " % 0)
            listed = [l[pfx:] for l in blk.split(b"\n")[:-1]]
        elif enc and b"not recognised" in rl.stderr:
            st["enc_unknown"] = 1
            return fs, st
        # expected names from the model
        lex = None
        if model_line is not None:
            toks = model_line.split(" ")
            mnames = [b"" if t in ("=", "-") else bytes.fromhex(t) for t in toks[3:]]
            skip_cmp = (lower and not all(only_caseless_ascii_letters(m["name"], m["utf8"]) for m in s["_model_members"])) or s.get("_model_unknown")
            if skip_cmp:
                st["listing_skipped"] = 1
            elif listed is None:
                fs.append(Finding("mismatch", f"`cabextract -l` printed no listing (exit {rl.returncode}): {rl.stderr.decode(errors='replace')[:200]}"))
            else:
                st["listing_compared"] = 1
                if listed != mnames:
                    k = next((i for i in range(min(len(listed), len(mnames))) if listed[i] != mnames[i]), -1)
                    fs.append(Finding("mismatch", f"names printed by `cabextract -l {' '.join(s['opts'])}` differ from the model ({toks[2]}): "
                                                  f"printed {listed[k] if 0 <= k < len(listed) else listed!r} model {mnames[k] if 0 <= k < len(mnames) else mnames!r}"))
            if not skip_cmp: lex = mnames
        names_known = not (lex is None and listed is None)     # no listing (e.g. -l crashed): the inside oracle has nothing to compare with
        if lex is None: lex = listed or []
        # name-level oracle on what the binary itself prints
        pre = (dirarg + b"/") if dirarg is not None else b""
        for nm in (listed or []):
            ps = body_problems(nm[len(pre):]) if nm.startswith(pre) else ["missing directory prefix"]
            if ps:
                fs.append(Finding("violation", f"`cabextract -l` prints the output name {nm!r}: archive-controlled part has {', '.join(ps)}")); break
        mid_out = snapshot(jail, skip=dest)
        if mid_out != before_out or snapshot(dest) != before_in:
            fs.append(Finding("violation", "`cabextract -l` changed the file system: " + "; ".join(snap_diff(before_out, mid_out)[0])))
        # where each lexical output path leads in the tree as it is BEFORE extraction (to name the shape of a failure)
        resolved = []
        for nm in lex:
            rel = nm
            if dirarg is not None:
                if not nm.startswith(dirarg + b"/"): continue
                rel = nm[len(dirarg) + 1:]
            comps = [c for c in rel.split(b"/") if c not in (b"", b".")]
            if not comps or b".." in comps: continue
            full = dest + b"/" + b"/".join(comps)
            inter = any(os.path.islink(dest + b"/" + b"/".join(comps[:k])) for k in range(1, len(comps)))
            resolved.append(dict(final_link=os.path.islink(full), inter_link=inter, real=os.path.realpath(full), existed=os.path.exists(full)))
        # --- extraction
        rx = subprocess.run([exe.encode()] + opts + dargs + [cabp], cwd=cwd, capture_output=True, env=env, timeout=60, **runas)
        if (b"AddressSanitizer" in rx.stderr or b"runtime error:" in rx.stderr) and not any(getattr(f, "shape", "").startswith("enc-") for f in fs):
            fs.append(san_finding("`cabextract " + " ".join(s["opts"]) + "` (extraction)", rx.stderr, members))
        if rx.returncode != 0: st["nonzero"] = 1
        after_out = snapshot(jail, skip=dest)
        after_in = snapshot(dest)
        links_out = any(e[0] in ("link", "hard") and (b"outside" in e[2]) for e in s["pre"]) or any(e[0] == "link" and e[1].endswith(b"l_chain") for e in s["pre"])
        desc = f"options {' '.join(s['opts']) or '(none)'}, destination mode {dm}, members {[short(m[0]) for m in members]!r}, pre-existing links {s['links']}"
        if after_out != before_out and not (keep and links_out):
            ds, nd = snap_diff(before_out, after_out)
            dang = [e for e in s["pre"] if e[0] == "link"]
            text = f"cabextract changed the file system outside the destination ({nd} entries): {'; '.join(ds)} [{desc}]"
            created = [jail + b"/" + k for k in after_out if k not in before_out]
            removed = [jail + b"/" + k for k in before_out if k not in after_out]
            # anything else than a directory whose mtime moved because an entry came or went
            modified = [k for k in after_out if k in before_out and after_out[k] != before_out[k] and not (after_out[k][0] == "dir" and before_out[k][:5] == after_out[k][:5])]
            dang = all(any(r["final_link"] and not r["existed"] and r["real"] == c for r in resolved) for c in created)
            thru = all(any(r["inter_link"] and r["real"] == c for r in resolved) for c in removed)
            kind = None
            if not modified and dang and thru:
                if created:
                    kind = "dangling-final"
                    text += (" -- a dangling symlink inside the destination is the FINAL component of a member's output name: can_write() uses stat(), which fails with ENOENT for a dangling "
                             "link, so the link is neither skipped (-n) nor unlinked, and fopen(name, \"wb\") follows it and creates its target")
                if removed:
                    kind = kind or "unlink-through-link"
                    text += (" -- can_write() runs before ensure_filepath(): stat(name) and unlink(name) resolve the symlinked INTERMEDIATE directory, so an existing file outside "
                             "the destination with the member's basename is deleted before the symlink itself is replaced by a directory")
            f = Finding("violation", text); f.shape = kind
            fs.append(f)
        if not keep and names_known:
            allowed = set()
            for nm in lex:
                full = nm if dirarg is not None else nm
                # make the lexical path relative to dest
                if dirarg is not None:
                    if not nm.startswith(dirarg + b"/"): continue
                    full = nm[len(dirarg) + 1:]
                allowed.add(norm_lex(full))
            bad = []
            nwritten = 0
            for k, v in after_in.items():
                if v[0] != "file": continue
                o = before_in.get(k)
                if o is not None and o == v: continue
                nwritten += 1
                if norm_lex(k) not in allowed:
                    bad.append(k)
            st["written"] = nwritten
            if bad:
                f = Finding("violation", f"inside the destination the regular file(s) {bad[:3]!r} were created or modified although no member's output name is that path: "
                                         f"written through a pre-existing symlink [{desc}]; output names: {sorted(allowed)[:6]!r}")
                f.shape = "dangling-final" if all(any(r["final_link"] and not r["existed"] and r["real"] == dest + b"/" + k for r in resolved) for k in bad) else None
                fs.append(f)
    except subprocess.TimeoutExpired:
        fs.append(Finding("violation", "cabextract did not finish within 60 s"))
    finally:
        # directories may have lost their write bit
        for dp, dn, fn in os.walk(jail):
            try: os.chmod(dp, 0o755)
            except OSError: pass
        shutil.rmtree(jail, ignore_errors=True)
    return fs, st

def model_request(s, idx):
    """the `prim outnames` line for the scenario (names as the binary sees them after -e conversion)"""
    root = root_of(idx)
    dm = s["dmode"]
    dirarg = {"rel": b"dest", "abs": root + b"/dest", "relslash": b"dest/", "cwddot": b".", "cwd": None}[dm]
    enc = s["opts"][s["opts"].index("-e") + 1] if "-e" in s["opts"] else None
    mm = []
    s["_model_unknown"] = False
    for (nm, u, d) in s["members"]:
        nm = subst(nm, root)[:255]
        if enc and not u:
            c = to_utf8_for_e(nm, enc)
            if c is None: s["_model_unknown"] = True; c = nm
            else: u = True
            nm = c
        mm.append(dict(name=nm, utf8=u))
    s["_model_members"] = mm
    d = "-" if dirarg is None else (dirarg.hex() or "=")
    return f"prim outnames {1 if '-L' in s['opts'] else 0} {d} " + " ".join(f"{C.hexs(m['name'])} {1 if m['utf8'] else 0}" for m in mm)

def _fs_job(job):
    exe, i, s, mline = job
    try:
        return run_fs(exe, i, s, mline)
    except Exception as e:
        import traceback
        return [Finding("mismatch", "fs runner raised " + repr(e) + traceback.format_exc()[-500:])], {}

class _Sub:
    """the case-file view run_cases needs"""
    def __init__(self, cw, paths): self.paths, self.meta = paths, cw.meta

def private_copy(exe, d):
    """the harness directory is shared and is deleted when another check builds a harness for different sources
    (lib/common.harness_dir drops `stale` builds); a long run keeps its own copy of the binary"""
    try:
        dst = os.path.join(d, "cabextract.bin")
        shutil.copy2(exe, dst)
        return dst
    except OSError:
        return exe

def custom_run(ctx, res, cw):
    viol, mism = [], []
    # ---- prim.outname through the normal case-file path
    prim = [p for p in cw.paths if any(l.startswith("prim ") for l in open(p))]
    for p in prim:
        cw.meta[p]["_reqs"] = [l.split(" ") for l in open(p).read().splitlines() if l.startswith("prim ")]
    model_ok = os.path.exists(C.DRIVER)
    if prim:
        import sys
        v, m = run_cases(ctx, sys.modules[__name__], res, _Sub(cw, prim), use_model=model_ok)
        viol += v; mism += m
    for p in prim:
        cw.meta[p].pop("_reqs", None)
    # ---- fs
    exe = private_copy(os.path.join(ctx.hdir, "cabextract"), cw.dir)
    if not os.path.exists(exe):
        mism.append((cw.paths[0] if cw.paths else "", {"family": "fs"}, Finding("mismatch", "the cabextract binary was not built")))
        return viol, mism
    replay = [p for p in cw.paths if any(l.startswith("fs ") for l in open(p))]
    scns = [(p, scn_parse(open(p).read().splitlines())) for p in replay]      # witnesses of findings / --replay
    if not any("replay" in cw.meta[p] for p in cw.paths):
        for s in fs_scenarios(ctx):
            p = cw.add(scn_lines(s), dict(family=s["family"], opts=s["opts"], dmode=s["dmode"], links=s["links"], note=s["note"]))
            scns.append((p, s))
    os.makedirs(FSROOT, exist_ok=True)
    global RUN_ID
    RUN_ID = os.getpid()
    # model names for all scenarios in one driver run
    mlines = {}
    if model_ok and scns:
        reqs = [model_request(s, i) for i, (p, s) in enumerate(scns)]
        mp = os.path.join(cw.dir, "fs-model-names.case")
        open(mp, "w").write("\n".join(reqs) + "\n")
        r = subprocess.run([C.DRIVER, mp], capture_output=True, text=True)
        outs = [l for l in r.stdout.splitlines() if l.startswith("prim outnames")]
        if len(outs) == len(reqs):
            mlines = dict(enumerate(outs))
        else:
            mism.append((mp, {"family": "fs"}, Finding("mismatch", f"driver answered {len(outs)} of {len(reqs)} `prim outnames` requests: {r.stdout[-200:]} {r.stderr[-200:]}")))
    seen = set()
    # worker processes (the Python side - snapshots, hashing - is CPU-bound, threads would serialise on the GIL)
    jobs = [(exe, i, scns[i][1], mlines.get(i)) for i in range(len(scns))]
    with ProcessPoolExecutor(max_workers=max(2, C.NCPU)) as ex:
        for i, (fs, st) in enumerate(ex.map(_fs_job, jobs, chunksize=4)):
            p, s = scns[i]
            res.cov["evaluations"] += 1
            STATS["fs_scenarios"] += 1
            if st.get("listing_compared"):
                res.cov["traces_validated_against_impl"] += 1
                STATS["fs_listings_compared_with_model"] += 1
            if st.get("listing_skipped"): STATS["fs_listings_skipped_locale"] += 1
            if st.get("listing_compared") and " isunix=1" in (mlines.get(i) or ""): STATS["fs_listings_isunix1"] += 1
            STATS["fs_family"][s["family"]] = STATS["fs_family"].get(s["family"], 0) + 1
            STATS["fs_files_written_inside"] += st.get("written", 0)
            STATS["fs_runs_nonzero_exit"] += st.get("nonzero", 0)
            for o in s["opts"]:
                if o.startswith("-"): STATS["fs_opts"][o] = STATS["fs_opts"].get(o, 0) + 1
            if not s["opts"]: STATS["fs_opts"]["(none)"] = STATS["fs_opts"].get("(none)", 0) + 1
            STATS["fs_dmode"][s["dmode"]] = STATS["fs_dmode"].get(s["dmode"], 0) + 1
            if any(e[0] == "link" and b"outside" in e[2] for e in s["pre"]): STATS["fs_with_links_outside"] += 1
            if any(e[0] == "link" and (b"created" in e[2] or b"lf_dang" in e[2]) for e in s["pre"]): STATS["fs_with_dangling_final"] += 1
            sig = hashlib.sha256("\n".join(scn_lines(s)).encode()).hexdigest()
            if nontrivial(s) and sig not in seen:
                seen.add(sig); res.cov["distinct_nontrivial"] += 1
            meta = dict(cw.meta.get(p, {}))
            for f in fs:
                meta2 = dict(meta, shape=getattr(f, "shape", None))
                (viol if f.kind == "violation" else mism).append((p, meta2, f))
    try: os.rmdir(FSROOT)
    except OSError: pass
    if mism:
        res.notes.append("first correspondence mismatches: " + " || ".join(f.text[:300] for (_, _, f) in mism[:4]))
    # one representative per shape is enough in the report; keep the regression-corpus one first
    return dedupe(viol), mism

def dedupe(viol):
    out, shapes = [], set()
    for (p, meta, f) in viol:
        sh = meta.get("shape")
        if sh is not None:
            if sh in shapes: continue
            shapes.add(sh)
        out.append((p, meta, f))
    return out

def classify(ctx, meta, finding):
    sh = meta.get("shape")
    if sh == "dangling-final": return "D7"
    if sh == "unlink-through-link": return "D17"
    if sh == "enc-overflow": return "D18"
    if sh == "enc-unterminated": return "D19"
    return None

def replay_meta(lines):
    if any(l.startswith("fs ") for l in lines):
        return dict(family="fs.replay")
    return dict(family="prim.outname")

def distribution(ctx):
    return dict(STATS)
