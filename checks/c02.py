"""C02 — no input or call sequence makes any decompressor touch memory unsafely.

Theorems: Proofs/Props/C02.lean (the guards of the CAB block reader keep every block inside the
input buffer — for all file contents, against the buffer size extracted from today's header — and
the model never takes the `oob`/`nullDeref` outcomes there) + the table/size obligations.
Search/validation: all five formats under AddressSanitizer + UndefinedBehaviorSanitizer
(bounds, null, pointer-overflow, shift-exponent, integer-divide-by-zero): malformed variants of
generated archives, the repository's crashers, guard-directed constructions, all parameter
settings and fill patterns; observable = no sanitizer report, no signal, no invalid free.
Model/implementation agreement on statuses is checked where a model exists."""
import os, struct
from lib import common as C, minicab
from lib.pipeline import Finding
from checks import scenarios as S

PROP = "C02"
LEVEL = "proof"
THEOREMS = {"Proofs.Props.C02": ["MsPack.Cab.C02_block_fits_buffer", "MsPack.Cab.C02_readBlock_no_oob", "MsPack.Cab.C02_feeder_no_oob"],
            "Proofs.Props.C02LzssKwaj": ["MsPack.Lzss.C02_lzss_no_oob", "MsPack.Lzss.C02_lzss_file_no_ub", "MsPack.Kwaj.C02_kwaj_readHeaders_no_fault", "MsPack.Kwaj.C02_kwaj_open_no_fault",
                                         "MsPack.Kwaj.Lzh.C02_lzh_no_oob", "MsPack.Kwaj.Lzh.C02_lzh_file_no_ub", "MsPack.Kwaj.Lzh.C02_lzh_calls_no_oob"],
            "Proofs.Props.C02Lzx": ["MsPack.Lzx.C02_lzx_no_oob", "MsPack.Lzx.C02_lzx_faults_benign", "MsPack.Lzx.C02_lzx_init_inv", "MsPack.Lzx.C02_lzx_inv_preserved",
                                    "MsPack.Lzx.C02_lzx_seq_no_oob", "MsPack.Lzx.C02_lzx_from_init_no_oob"],
            "Proofs.Props.C02Qtm": ["MsPack.Qtm.C02_qtm_no_oob", "MsPack.Qtm.C02_qtm_fault_origin", "MsPack.Qtm.C02_qtm_init", "MsPack.Qtm.C02_qtm_preserved",
                                    "MsPack.Qtm.C02_qtm_session_no_oob", "MsPack.Qtm.C02_qtm_cab_no_oob", "MsPack.Qtm.C02_qtm_no_divZero"],
            "Proofs.Props.C02Chm": ["MsPack.Chm.C02_readHeaders_no_fault", "MsPack.Chm.C02_fastFind_no_fault", "MsPack.Chm.C02_fastFind_inv",
                                    "MsPack.Chm.C02_extract_faults_from_lzx", "MsPack.Chm.C02_extract_sec0_no_fault", "MsPack.Chm.C02_extract_inv"],
            "Proofs.Props.C02Zip": ["MsPack.Zip.C02_zip_decompress_no_oob", "MsPack.Zip.C02_zip_decompress_faults", "MsPack.Zip.C02_zip_session_no_oob",
                                    "MsPack.Zip.C02_cab_mszip_no_oob", "MsPack.Zip.C02_kwaj_mszip_faults"],
            "Proofs.Props.C02CabLift": ["MsPack.CabLift.C02_cab_feeder_fault_kinds", "MsPack.CabLift.C02_cab_feeder_no_fault", "MsPack.CabLift.C02_cab_feeder_live",
                                        "MsPack.CabLift.C02_cab_fresh_feeder", "MsPack.CabLift.C02_cab_qtm_no_ub", "MsPack.CabLift.C02_cab_mszip_no_ub",
                                        "MsPack.CabLift.C02_cab_none_calls_no_fault", "MsPack.CabLift.C02_cab_decompress_fault_kinds",
                                        "MsPack.CabLift.C02_cab_lzx_lenStable_on", "MsPack.CabLift.C02_cab_lzx_len_exists", "MsPack.CabLift.C02_cab_lzx_no_oob_partial",
                                        "MsPack.CabLift.C02_cab_lenStable_fails", "MsPack.CabLift.C02_cab_feeder_srcInv"],
            "Proofs.Props.C02CabLift2": ["MsPack.CabLift.C02_cab_mszip_no_fault", "MsPack.CabLift.C02_cab_mszip_no_ub_all", "MsPack.CabLift.C02_cab_mszip_decompress_no_fault",
                                         "MsPack.CabLift.C02_cab_mszip_calls_no_fault", "MsPack.CabLift.C02_cab_mszip_fresh", "MsPack.CabLift.C02_cab_mszip_fresh_no_fault"],
            "Proofs.Props.C02CabLift3": ["MsPack.CabLift.C02_cab_qtm_no_fault", "MsPack.CabLift.C02_cab_qtm_no_ub_all", "MsPack.CabLift.C02_cab_qtm_decompress_no_fault",
                                         "MsPack.CabLift.C02_cab_qtm_calls_no_fault", "MsPack.CabLift.C02_cab_qtm_fresh", "MsPack.CabLift.C02_cab_qtm_fresh_no_fault"],
            "Proofs.Props.C02CabLift4": ["MsPack.CabLift.C02_cab_lzx_run_eq", "MsPack.CabLift.C02_cab_lzx_no_oob", "MsPack.CabLift.C02_cab_lzx_no_fault",
                                         "MsPack.CabLift.C02_cab_lzx_no_ub", "MsPack.CabLift.C02_cab_lzx_fresh", "MsPack.CabLift.C02_cab_lzx_status_sticky"],
            "Proofs.Props.C02CabExtract": ["MsPack.CabLift.C02_cab_lzx_decompress_no_fault", "MsPack.CabLift.C02_cab_lzx_calls_no_fault", "MsPack.CabLift.C02_cab_lzx_fresh_no_fault",
                                           "MsPack.CabLift.memberCheck_cap", "MsPack.CabLift.C02_cab_extract_safe", "MsPack.CabLift.C02_cab_extract_no_ub",
                                           "MsPack.CabLift.C02_cab_session_no_ub", "MsPack.CabLift.C02_cab_session_fresh_no_ub"],
            "Proofs.Props.C02ChmExtract": ["MsPack.ChmLift.C02_chm_lzx_no_oob", "MsPack.ChmLift.C02_chm_lzx_faults_mild", "MsPack.ChmLift.C02_chm_extract_faults_mild",
                                           "MsPack.ChmLift.C02_chm_extract_no_ub_but_oob", "MsPack.ChmLift.C02_chm_extract_sec0_no_fault", "MsPack.ChmLift.C02_chm_session_no_ub_but_oob",
                                           "MsPack.ChmLift.C02_chm_open_find_no_fault", "MsPack.CabLift.LzxMild.decompress_mild"],
            "Proofs.Props.C02OabExtract": ["MsPack.OabLift.sysRead_no_fault", "MsPack.OabLift.C02_oab_no_ub_but_oob", "MsPack.OabLift.C02_oab_faults_mild"],
            "Proofs.Props.Tables": ["MsPack.TableObligations.cab_block_fits", "MsPack.TableObligations.lzx_dims",
                                    "MsPack.TableObligations.qtm_dims", "MsPack.TableObligations.zip_dims"]}
ASSUMPTIONS = ["END TO END for CAB (C02CabExtract): for every set of files, every parameter setting (salvage included), every list of members and every list of extract() calls threaded through the decoder cache from a fresh decompressor, the model's cabd_extract never ends in an out-of-bounds, null-dereference, division or shift-width outcome - no hypothesis left (C02_cab_session_fresh_no_ub); the position bound 2^31 of the LZX theorem is discharged by memberCheck's cap (offset + length <= CAB_LENGTHMAX), LenStable by the feeder invariant; the only fault outcomes left are the model's fuel (`hang`, C04's subject) and LZX's unbuilt-table outcome (`uninit`, C11's subject). ",
               "CHM end to end (C02ChmExtract): the LZX model has no null-dereference, division or shift-width site at all (decompress_mild: any state, any fault-free source), CHM's file-backed source never faults and never announces a length (LenStable holds outright), so for every file, instance and session of extract() calls on opened headers: never nullDeref/divZero/shiftWidth, section-0 members no fault at all, open and fast_find no fault at all; an out-of-bounds outcome of a section-1 extract is excluded per decoder call under position < 2^31 (C02_chm_lzx_no_oob) but not yet threaded through chmd_extract (CHM offsets are 64-bit: needs a named premise on the member and a DState/decoder offset invariant). ",
               "OAB (C02OabExtract): for every input, base, buffer size and fill, oabd decompress / decompress_incremental never end in a null-dereference, division or shift-width outcome (container walk + the LZX fact above; no hypothesis); excluding oob there needs blk_dsize < 2^31, which 32-bit header fields do not imply: left to the sanitizer runs. ",
               "theorems: on the models the out-of-bounds (and null-dereference, shift-width, division, uninitialised-table) outcomes are unreachable for every input - CAB container buffers, the LZSS decoder, the KWAJ header reader (13-byte name buffer), the KWAJ LZH decoder and the MSZIP decoder (window, input buffer, bit-length table; CAB and KWAJ entry points, any sequence of calls); "
               "a fault can only be one the source's own read() raised (none for the file-backed sources) or the model's fuel running out; the LZX decoder (all its window, input-buffer, length-array, position-table and E8-buffer accesses, any sequence of calls, CAB/CHM/DELTA) under two stated side conditions: the stream length announced to the decoder does not change once set (`LenStable`; lzxd_set_output_length called with a second, different value after a short last frame IS an out-of-bounds write on the model - not reachable through the public API, where cabd sets it once) and the stream position stays below 2^31 (beyond it `match_offset - window_posn` wraps as an int on the model; CAB caps offsets there, a CHM stream beyond 2 GiB is outside what this sandbox can replay); "
               "the Quantum decoder (window, input buffer, the nine adaptive models incl. the division by the model's total frequency: the invariant keeps it non-zero), any sequence of calls; "
               "the CAB feeder (`C02CabLift.lean`): in every state its only faults are the two null dereferences of `cabd_sys_read_block` (`d->infh`, `d->data`) and none at all while it is live (a handle and a part list; fresh feeders are, delivering reads keep it, a failed read leaves `read_error` set and the decoders' sticky error keeps them from reading again - that last step is threaded through the MSZIP and Quantum decoders (`C02CabLift2.lean`, `C02CabLift3.lean`: with the invariant 'window ok, and no sticky error => feeder live', which a fresh folder state satisfies and every call keeps, NO fault of any kind for any sequence of calls on a CAB MSZIP or Quantum folder - no hypothesis on the source left); LZX folders (`C02CabLift4.lean`): the same walk done relationally (the run over the feeder equals the run over the feeder with announcements filtered to the folder's length, from every state with a live, length-consistent feeder) discharges `LenStable` on reachable states: C02_cab_lzx_no_oob / _no_fault / _no_ub hold for the real feeder, a fresh LZX folder state satisfies the invariant, every call keeps it; what remains there is the position bound 2^31 and the `uninit` outcome (an unbuilt decode table - C11's subject); stored folders: no fault for any sequence of calls); the stream length the feeder announces to LZX is the folder's total uncompressed size and is closed under every read (`FeederLen`) - `LenStable` over ALL feeder states is false (`C02_cab_lenStable_fails`), which is why the LZX lift goes through the filtered feeder and a run-equality; "
               "the CHM layer: readHeaders and fastFind return no fault at all for any file and any cache state (their internal fuels are proved sufficient), extract has no fault of its own (reset-table reads, system-file pointers, the handle) - only one passed on from the LZX decoder; "
               "the OAB container is covered by sanitizer runs and model agreement (theorems where listed in DESIGN 0.2)",
               "sanitizers observe heap/stack/global objects; writes past an array member but inside its struct are not C02 violations as worded and are not observed",
               "memory model: one C object = one bounded region"]
RULE = ("*.malformed: 4-6 mutations (bit flips, byte sets, truncations, splices; biased to headers) of generated well-formed archives of all five formats, "
        "x parameter settings (SALVAGE/FIXMSZIP/DECOMPBUF/SEARCHBUF) x fill byte in {00,55,aa,ff}; fixtures incl. the shipped crashers; guard-directed constructions "
        "(short/non-KWAJ files, CHM density>=32, salvage-mode dangling merge pointer, block sizes at the limits, MSZIP blocks inflating past the 32 KiB window through every kind of token); non-trivial = the archive differs from the valid original; distinct by bytes+params")

FILLS = ["00", "55", "aa", "ff"]

def directed(rng):
    """guard-directed constructions (regression corpus; always run first)"""
    # short and non-KWAJ files through kwajd_open (header struct with uninitialised pointers)
    for data in (b"", b"K", b"KWAJ", b"nonsense-not-kwaj-file", b"KWAJ\x88\xf0\x27\xd1"):
        for fill in ("aa", "00"):
            yield [f"fill {fill}", f"file f.kwj {C.hexs(data)}", "new kwaj", "open i0 f.kwj", "destroy i0"], dict(family="kwaj.short", fill=fill)
    # salvage mode: a CONTINUED_TO_NEXT entry whose name is bad is freed while fol->merge_next still points at it
    blocks = [(b"hello world", 11)]
    files = [dict(name=b"A" * 256, length=5, offset=0, folder=0xFFFE), dict(name=b"ok.bin", length=6, offset=5, folder=0)]
    cab, _ = minicab.build([(0, blocks)], files)
    # the name must have no NUL within the 256 bytes cabd_read_string reads, and the next entry must start right after them
    k = cab.index(b"A" * 256) + 256
    cab = bytearray(cab[:k] + cab[k + 1:])
    struct.pack_into("<I", cab, 8, struct.unpack_from("<I", cab, 8)[0] - 1)
    struct.pack_into("<I", cab, 36, struct.unpack_from("<I", cab, 36)[0] - 1)
    cab = bytes(cab)
    cab2, _ = minicab.build([(0, blocks)], [dict(name=b"b.bin", length=11, offset=0, folder=0xFFFD)])
    yield [f"file a.cab {cab.hex()}", f"file b.cab {cab2.hex()}", "new cab", "param i0 SALVAGE 1", "open i0 a.cab", "open i0 b.cab",
           "append i0 h0 h1", "extract i0 h0 0 o0", "close i0 h0", "destroy i0"], dict(family="cab.salvage-merge-dangling")
    # block size limits, strict and salvage
    for size in (38912, 38913, 65535):
        for salv in (0, 1):
            payload = bytes(size)
            cab, _ = minicab.build([(2 | (10 << 8), [(payload, 32768)])], [dict(name=b"q.bin", length=100, offset=0, folder=0)])
            yield [f"file a.cab {cab.hex()}", "new cab", f"param i0 SALVAGE {salv}", "open i0 a.cab", "extract i0 h0 0 o0", "close i0 h0", "destroy i0"], \
                  dict(family="cab.blocksize", size=size, salvage=salv)

def mszip_overrun(rng):
    """MSZIP blocks that try to inflate past the 32768-byte window, the bytes crossing the boundary coming
    from each kind of token: literal, short match (byte loop), long match (fast loop) with the source
    ahead / behind / overlapping the destination / wrapping.  All must be answered with an error."""
    from vgen import deflate
    def fill_to(P):
        toks = [("L", 0x61)]; pos = 1
        while P - pos >= 258 + 3: toks.append(("M", 1, 258)); pos += 258
        while pos < P:
            ln = min(258, P - pos)
            if P - pos - ln in (1, 2): ln -= 3
            if ln < 3: toks += [("L", 0x62)] * ln; pos += ln
            else: toks.append(("M", rng.choice([1, 2, 7]), ln)); pos += ln
        return toks
    crossings = [("literal", 32768, [("L", 0x63)]),
                 ("short-match", 32765, [("M", 1, 9)]), ("short-match-far", 32765, [("M", 30000, 11)]),
                 ("long-overlap", 32760, [("M", 5, 100)]), ("long-overlap-1", 32767, [("M", 1, 258)]), ("long-overlap-11", 32750, [("M", 11, 40)]),
                 ("long-behind", 32700, [("M", 300, 258)]), ("long-source-at-end", 32700, [("M", 32700, 258)]),
                 ("long-wrapped-source", 300, [("M", 400, 258)] + [("M", 1, 258)] * 126)]
    for name, P, cross in crossings:
        toks = fill_to(P) + cross
        for kind in ("fixed", "dynamic"):
            try:
                blk = deflate.mszip_block(toks, None, [(kind, 0)], rng)
            except Exception:
                continue
            cab, _ = minicab.build([(1, [(blk, 32768)])], [dict(name=b"z.bin", length=32768, offset=0, folder=0)])
            for salv in (0, 1):
                yield [f"file a.cab {cab.hex()}", "new cab", f"param i0 SALVAGE {salv}", "param i0 FIXMSZIP 1", "open i0 a.cab", "extract i0 h0 0 o0", "close i0 h0", "destroy i0"], \
                      dict(family="mszip.window-overrun", crossing=name, huff=kind, salvage=salv)
            # the same frame followed by a second block and a second member: what the over-long frame leaves behind
            # (o_ptr/o_end, bytes_output) is consumed by the *next* extract() call, in repair mode too
            import zlib
            co = zlib.compressobj(9, zlib.DEFLATED, -15); blk2 = b"CK" + co.compress(bytes(1000)) + co.flush()
            cab, _ = minicab.build([(1, [(blk, 32768), (blk2, 1000)])], [dict(name=b"a.bin", length=32768, offset=0, folder=0),
                                                                        dict(name=b"b.bin", length=1000, offset=32768, folder=0),
                                                                        dict(name=b"c.bin", length=33000, offset=500, folder=0)])
            for fix in (0, 1):
                yield [f"file a.cab {cab.hex()}", "new cab", f"param i0 FIXMSZIP {fix}", "open i0 a.cab", "extract i0 h0 0 o0", "extract i0 h0 1 o1", "extract i0 h0 2 o2",
                       "extract i0 h0 1 o1b", "close i0 h0", "destroy i0"], dict(family="mszip.window-overrun-next-call", crossing=name, huff=kind, fix=fix)
            kw = b"KWAJ\x88\xf0\x27\xd1" + struct.pack("<HHH", 4, 14, 0) + struct.pack("<H", len(blk)) + blk
            yield [f"file f.kwj {kw.hex()}", "new kwaj", "open i0 f.kwj", "extract i0 h0 - out", "close i0 h0", "destroy i0"], \
                  dict(family="mszip.window-overrun", crossing=name, huff=kind, container="kwaj")

def chm_huge(rng):
    """64-bit length fields just above 2^32 (low 32 bits small) for each CHM system file, with the header's file length
    raised accordingly: every buffer sized from such a length must still be indexed within its real size"""
    for which in ("rtable", "control", "spaninfo", "content"):
        for low in (40, 48, 0x28 + 8 * 3, 1, 0):
            for fadd in (1 << 32, 0):
                try:
                    c = S.chm_huge_lengths(rng, (1 << 32) + low, fadd, which)
                except Exception as e:
                    C.log(f"C02: chm_huge_lengths failed: {e!r}"); continue
                yield S.file_lines(c) + ["new chm", "open i0 f.chm", "extract i0 h0 1 o1", "extract i0 h0 0 o0", "close i0 h0", "destroy i0"], \
                      dict(family="chm.huge-length", which=which, low=low, fadd=fadd)

# (instantiation, nsyms, nbits, longest length the caller can pass, table entries the caller's struct declares)
HUFF_SHAPES = [("lsb", 288, 9, 15, 1152), ("lsb", 32, 6, 15, 128),                       # mszipd.c LITERAL / DISTANCE
               ("msb", 656, 12, 16, 4096 + 1312), ("msb", 250, 12, 16, 4096 + 500),      # lzxd.c MAINTREE / LENGTH
               ("msb", 8, 7, 7, 128 + 16), ("msb", 20, 6, 15, 64 + 40),                  # lzxd.c ALIGNED (3-bit lengths) / PRETREE
               ("msb-kwaj", 16, 9, 255, 512 + 32), ("msb-kwaj", 32, 9, 255, 512 + 64),   # kwajd.c: lengths are bytes the reader can wrap
               ("msb-kwaj", 64, 9, 255, 512 + 128), ("msb-kwaj", 256, 9, 255, 512 + 512)]

def huff_vectors(rng, nsyms, nbits, maxlen, n):
    """code-length vectors of every kind: complete, under-subscribed, over-subscribed through short codes, over-subscribed
    ONLY through codes longer than the lookup width, all zero, single code, random, lengths above 16 where the caller can
    pass them"""
    top = min(maxlen, 16)
    for _ in range(n):
        style = rng.choice(["complete", "under", "over-short", "over-long-only", "over-long-only", "zeros", "single", "random", "big"])
        lens = [0] * nsyms
        if style == "zeros": pass
        elif style == "single": lens[rng.randrange(nsyms)] = rng.choice([1, min(nbits, top), top])
        elif style == "random": lens = [rng.choice([0, 0, rng.randint(1, top)]) for _ in range(nsyms)]
        elif style == "big": lens = [rng.choice([0, rng.randint(1, top), min(17, maxlen), min(200, maxlen)]) for _ in range(nsyms)]
        else:
            # fill the Kraft budget (units of 2^-16) with codes, short ones first
            budget = 65536; short_budget = {"over-long-only": rng.choice([65536 - (1 << (16 - nbits)), 65536 // 2, 65536 - 256])}.get(style, 65536)
            order = list(range(nsyms)); rng.shuffle(order)
            if rng.random() < 0.5 and nsyms > (1 << nbits) // 2:
                # a short code for a symbol >= 2^(nbits-1): its table entry, read as a node pointer, leads into the gap
                hi = rng.randrange((1 << nbits) // 2, nsyms); order.remove(hi); order.insert(0, hi)
            used = 0; longlo = min(nbits + 1, top)
            for i in order:
                l = rng.randint(1, min(nbits, top)) if used < short_budget else rng.randint(longlo, top)
                u = 1 << (16 - l)
                if style == "over-long-only":
                    if l <= nbits and used + u > short_budget: l = rng.randint(longlo, top); u = 1 << (16 - l)
                    lens[i] = l; used += u
                    if used > 65536 + (1 << (16 - nbits)) * 3: break
                elif style == "over-short":
                    lens[i] = l; used += u
                    if used > 65536: break
                else:
                    if used + u > budget: continue
                    lens[i] = l; used += u
                    if style == "under" and used > budget * 0.8: break
        yield style, [min(x, 255) for x in lens]

def huff_tables(ctx):
    """make_decode_table() called directly (all three instantiations, the ten shapes its callers use) on the code-length
    vectors each caller can pass, the table memory pre-filled by each fill byte.  The table is followed by as much room as
    the smallest remainder of a caller's struct behind that table (observation O1: for vectors it goes on to reject the
    function writes up to about 16-nbits+longcodes pairs past the declared size, inside the struct - not a C02 violation
    as worded); a write beyond that leaves the heap object in the callers too.  The answer itself is compared with the
    model's acceptance rule."""
    rng = ctx.rng
    n = 12 if ctx.tier == "quick" else 150
    for kind, nsyms, nbits, maxlen, decl in HUFF_SHAPES:
        tsize = decl + 2 * (nsyms + 16)
        vecs = [bytes(v) for _, v in huff_vectors(rng, nsyms, nbits, maxlen, n)]
        for fill in FILLS:
            yield [f"fill {fill}"] + [f"prim mdt {kind} {nsyms} {nbits} {tsize} {v.hex()}" for v in vecs], \
                  dict(family="huff.tables", shape=f"{kind}-{nsyms}-{nbits}", fill=fill, sig=f"huff-{kind}-{nsyms}-{nbits}-{fill}-{ctx.seed}")

def huff_streams(ctx):
    """the same vectors through the real decoders: an MSZIP dynamic block (in a cabinet and in a KWAJ file) whose
    literal/distance code lengths are the vector, and a KWAJ LZH stream whose five length tables are vectors - the
    decoder's own struct is the object that must not be left, whatever the allocator put in it"""
    from vgen import deflate, huff
    from vgen.bits import LSBBytes
    rng = ctx.rng
    n = 10 if ctx.tier == "quick" else 120
    def mszip(ll, dl):
        bw = LSBBytes(); bw.raw(b"CK"); bw.put(1, 1); bw.put(2, 2)
        nl = max(257, max([i for i, x in enumerate(ll) if x] + [0]) + 1); nd = max(1, max([i for i, x in enumerate(dl) if x] + [0]) + 1)
        cl = [0] * 19
        for v in range(16): cl[v] = 4                       # sixteen 4-bit codes for the lengths 0..15, no repeat codes
        cc = huff.canonical(cl)
        bw.put(nl - 257, 5); bw.put(nd - 1, 5); bw.put(19 - 4, 4)
        for s in deflate.CL_ORDER: bw.put(cl[s], 3)
        for v in ll[:nl] + dl[:nd]: bw.huff(*cc[v])
        bw.align(0); bw.raw(bytes(rng.randrange(256) for _ in range(24)))
        return bw.getvalue()
    lits = list(huff_vectors(rng, 286, 9, 15, n)); dists = list(huff_vectors(rng, 30, 6, 15, n))
    for k in range(n):
        (sl, ll), (sd, dl) = lits[k], dists[rng.randrange(n)]
        if rng.random() < 0.5: dl = [5] * 30; sd = "fixed"
        elif rng.random() < 0.3: ll = list(deflate.FIXED_LIT[:286]); sl = "fixed"
        blk = mszip(ll, dl)
        cab, _ = minicab.build([(1, [(blk, 32768)])], [dict(name=b"z.bin", length=32768, offset=0, folder=0)])
        kw = b"KWAJ\x88\xf0\x27\xd1" + struct.pack("<HHH", 4, 14, 0) + struct.pack("<H", len(blk)) + blk
        fill = FILLS[k % len(FILLS)]
        yield [f"fill {fill}", f"file a.cab {cab.hex()}", "new cab", f"param i0 FIXMSZIP {k & 1}", "open i0 a.cab", "extract i0 h0 0 o0", "close i0 h0", "destroy i0"], \
              dict(family="huff.streams", container="cab-mszip", lit=sl, dist=sd, fill=fill)
        yield [f"fill {fill}", f"file f.kwj {kw.hex()}", "new kwaj", "open i0 f.kwj", "extract i0 h0 - out", "close i0 h0", "destroy i0"], \
              dict(family="huff.streams", container="kwaj-mszip", lit=sl, dist=sd, fill=fill)
    # KWAJ LZH: five 4-bit type nibbles, then per table its lengths in that type's coding (type 3 = raw 4-bit lengths,
    # type 1 = run coding whose `++c` can count past 15)
    for k in range(n):
        bits = []
        def put(v, nb):
            for i in range(nb - 1, -1, -1): bits.append((v >> i) & 1)
        styles = []
        types = [rng.choice([3, 3, 3, 1]) for _ in range(5)]
        for t in types: put(t, 4)
        put(rng.randrange(16), 4)                            # the sixth nibble is read and ignored
        for t, ns in zip(types, (16, 16, 32, 64, 256)):
            st, v = next(huff_vectors(rng, ns, 9, 15, 1)); styles.append(st)
            if t == 3:
                for x in v: put(x, 4)
            else:
                c = v[0]; put(c, 4)
                for x in v[1:]:
                    if x == c: put(0, 1)
                    elif x == c + 1: put(2, 2); c = x
                    else: put(3, 2); put(x, 4); c = x
        for _ in range(200): bits.append(rng.getrandbits(1))
        while len(bits) % 8: bits.append(0)
        data = bytearray()
        for i in range(0, len(bits), 8):                     # bytes are injected one at a time, most significant bit first
            w = 0
            for bb in bits[i:i + 8]: w = (w << 1) | bb
            data.append(w)
        kw = b"KWAJ\x88\xf0\x27\xd1" + struct.pack("<HHH", 3, 14, 0) + bytes(data)
        fill = FILLS[k % len(FILLS)]
        yield [f"fill {fill}", f"file f.kwj {kw.hex()}", "new kwaj", "open i0 f.kwj", "extract i0 h0 - out", "close i0 h0", "destroy i0"], \
              dict(family="huff.streams", container="kwaj-lzh", styles="/".join(styles), fill=fill)

def generate(ctx):
    rng = ctx.rng
    yield from huff_tables(ctx)
    yield from huff_streams(ctx)
    # well-formed OAB files whose LZX chunk boundary falls on every residue of the input buffer (reads at the buffer's last byte)
    for case in S.oab_odd_uncompressed_cases(rng, 16 if ctx.tier == "quick" else 300):
        for b in (16, 4096):
            yield [f"fill {rng.choice(FILLS)}"] + S.file_lines(case) + ["new oab", f"param i0 DECOMPBUF {b}", "decompress i0 full.oab out0", "destroy i0"], \
                  dict(family="oab.odd-uncompressed", plan=case["meta"]["directed"], buf=b)
    for lines, meta in directed(rng):
        yield lines, meta
    for lines, meta in chm_huge(rng):
        yield lines, meta
    for lines, meta in mszip_overrun(rng):
        yield lines, meta
    n = 60 if ctx.tier == "quick" else 3000
    for case in S.valid_cases(rng, n, avoid_defects=True):
        for files, how in S.malform(rng, case, 4 if ctx.tier == "quick" else 6):
            c2 = dict(case, files=files)
            params = []
            if case["kind"] == "cab":
                params = [("SALVAGE", rng.choice([0, 0, 1])), ("FIXMSZIP", rng.choice([0, 1])), ("DECOMPBUF", rng.choice([4, 5, 16, 17, 4096, 4097]))]
            fill = rng.choice(FILLS)
            lines = [f"fill {fill}"] + S.file_lines(c2) + S.generic_ops(c2, params)
            if case["kind"] == "chm":
                # also the fast path
                nm = case["meta"]["order"][0]
                lines = lines[:-2] + [f"fastopen i0 {nm}", f"fastfind i0 h1 {case['members'][0]['name'].hex() or '='}", "close i0 h1", "close i0 h0", "destroy i0"] \
                    if case["members"] else lines
            yield lines, dict(family=case["kind"] + ".malformed", how=how, fill=fill, params=params)
    fx = S.fixture_files()
    if ctx.tier == "quick":
        fx = [f for f in fx if "cve" in f[1].lower() or "bad" in f[1].lower() or "bug" in f[1].lower() or "partial" in f[1].lower()] + fx[:10]
    for kind, p in fx:
        for params in ((), (("SALVAGE", 1), ("FIXMSZIP", 1))):
            if kind != "cab" and params: continue
            yield ["fill aa"] + S.fixture_ops(kind, p, params=params), dict(family=kind + ".fixture", fixture=os.path.basename(p), params=list(params), sig=p + str(params))

def judge(ctx, meta, impl, model):
    fs = []
    for b in impl:
        l = b[0]
        if l.startswith("CRASH"):
            fs.append(Finding("violation", f"{meta['family']}: {l[:300]}"))
        elif l.startswith("TIMEOUT"):
            fs.append(Finding("mismatch", f"{meta['family']}: {l} (termination is C04's subject)"))
        for x in b:
            if x.startswith("MONITOR") and any(k in x for k in ("double-free", "free-unknown", "use-closed", "null-handle")):
                fs.append(Finding("violation", f"{meta['family']}: {x}"))
    if model is not None and meta.get("family") == "huff.tables":
        pi = [b[0].split(" ")[2] != "0" for b in impl if b[0].startswith("prim mdt")]
        pm = [b[0].split(" ")[2] != "0" for b in model if b[0].startswith("prim mdt")]
        if pi != pm and not any(b[0].startswith("CRASH") for b in impl):
            k = next((i for i, (x, y) in enumerate(zip(pi, pm)) if x != y), min(len(pi), len(pm)))
            fs.append(Finding("mismatch", f"make_decode_table accept/reject differs from the model's rule at vector {k} of {meta['shape']} ({len(pi)} vs {len(pm)} answers)"))
        return fs
    if model is not None:
        def proj(blocks):
            out = []
            for b in blocks:
                d = C.kv(b[0])
                if d["_"] in ("open", "extract", "search", "append", "decompress") and "st" in d:
                    out.append((d["_"], d.get("st")))
                elif "unsupported" in b[0] or "FAULT" in b[0]:
                    out.append((d["_"], b[0].split(" ", 1)[1][:40]))
            return out
        pm = proj(model)
        if any("FAULT" in str(x) for x in pm):
            fs.append(Finding("mismatch", f"the model takes a fault outcome on this input: {[x for x in pm if 'FAULT' in str(x)][:2]}"))
        elif not any("unsupported" in str(x) for x in pm) and not any(l[0].startswith(("CRASH", "TIMEOUT")) for l in impl):
            pi = proj(impl)
            if pi != pm:
                fs.append(Finding("mismatch", f"statuses differ: impl={pi[:8]} model={pm[:8]}"))
    return fs

def classify(ctx, meta, finding):
    if meta.get("family") == "kwaj.short" and ("free-unknown" in finding.text or "CRASH" in finding.text): return "D10"
    if meta.get("family") == "cab.salvage-merge-dangling": return "D21"
    if "shift exponent" in finding.text and "chmd.c" in finding.text: return "D14"
    return None
