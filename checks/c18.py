"""C18 — salvage and repair modes only relax: valid data is never changed.

Theorems: Proofs/Props/C18.lean (listing and block delivery are monotone in the relaxation flags).
Correspondence: cab.params (model vs implementation, all four parameter combinations) on valid
cabinets and on cabinets derived from them by the two listed defects.
Oracle on the implementation: for a cabinet valid in strict mode, listing and bytes are identical
under all four combinations; for a cabinet whose only defects are file entries with an invalid
folder index, or blocks with a wrong stored checksum over intact data, salvage mode lists exactly
the remaining members / extracts the original bytes where strict mode refuses."""
import glob, os, struct
from lib import common as C, minicab
from lib.pipeline import Finding
from lib.util import digest
from checks import scenarios

PROP = "C18"
LEVEL = "proof"
THEOREMS = {"Proofs.Props.C18": ["MsPack.Cab.C18_open_monotone", "MsPack.Cab.C18_block_monotone"],
            "Proofs.Props.C18Stored": ["MsPack.Cab.C18_stored_params_irrelevant"],
            "Proofs.Props.C18Decoders": ["MsPack.Cab.C18_feeder_read_relaxed", "MsPack.Cab.C18_feeder_flags", "MsPack.Zip.C18_mszip_decompress_relaxed", "MsPack.Zip.C18_mszip_flags"],
            "Proofs.Props.C18Extract": ["MsPack.Cab.C18_cab_decompress_relaxed", "MsPack.Cab.C18_stored_decompress_relaxed", "MsPack.Cab.C18_cab_memberCheck_relaxed"],
            "Proofs.Props.C18ExtractLift": ["MsPack.Cab.C18_cab_extract_relaxed", "MsPack.Cab.C18_cab_extract_relaxed_cached", "MsPack.Cab.C18_cab_session_relaxed"],
            "Proofs.Props.C18Lzx": ["MsPack.Lzx.C18_lzx_decompress_relaxed"]}
ASSUMPTIONS = ["theorems cover cabd_read_headers, cabd_sys_read_block and, for stored folders, extract() itself (any call sequence gives identical results under any two parameter records); the feeder (C18_feeder_read_relaxed: every read a strict feeder delivers, a feeder with SALVAGE/FIXMSZIP set delivers identically - relaxed checksum and size checks, the end-of-folder case, the LZX length hint) and the whole MSZIP decoder (C18_mszip_decompress_relaxed: an OK strict call is reproduced byte for byte with the flags set, the relation is re-established, hence along any sequence of OK calls - on an OK strict run the flags are never consulted); one decoder call inside cabd_extract for stored and MSZIP folders and the parameter checks (C18Extract: composable along skip phase, output phase and from call to call); and through cabd_extract itself (C18ExtractLift: for stored and MSZIP folders an OK strict extract() is reproduced byte for byte with SALVAGE and/or FIXMSZIP set, caches stay related; C18_cab_session_relaxed: if every call of a strict session is OK the relaxed session returns the same bytes); the LZX decoder itself is done too (C18Lzx: C18_lzx_decompress_relaxed, an OK strict call over the feeder is reproduced byte for byte with the flags set, along any sequence of OK calls) but not yet plugged into the extract plumbing; Quantum (which never read the flags; only their read_input meets the feeder) are validated by differential runs and the parameter-combination oracle",
               "model validated against the C by differential execution"]
RULE = ("cab.params: small generated cabinets (stored/MSZIP, 1-3 blocks, 1-4 members, optional reserves) and the shipped fixtures, each run under "
        "SALVAGE x FIXMSZIP in {0,1}^2; cab.badindex: one or more file entries given a folder index >= number of folders; cab.badcksum: stored checksum of one block "
        "replaced by a wrong non-zero value (data intact); cab.search-params: valid cabinets, most carrying a nested uncompressed cabinet inside a data block, with junk or another cabinet around them, "
        "listed by search() under the four combinations; non-trivial = at least one member extracted; distinct by file hash x parameter combination")

COMBOS = [(0, 0), (0, 1), (1, 0), (1, 1)]

def case_lines(cab, nfiles, salvage, fix):
    lines = [f"file x.cab {cab.hex()}", "new cab", f"param i0 SALVAGE {salvage}", f"param i0 FIXMSZIP {fix}", "open i0 x.cab"]
    lines += [f"extract i0 h0 {i} o{i}" for i in range(nfiles)]
    lines += ["close i0 h0", "destroy i0"]
    return lines

def build_cab(rng, bad_index=(), bad_cksum=None):
    comp = rng.choice([0, 1])
    nblocks = rng.randint(1, 3)
    datas = [bytes(rng.choice(b"abcdefgh \n") for _ in range(rng.choice([1, 10, 100, 1000]))) for _ in range(nblocks)]
    payloads = [(d, len(d)) if comp == 0 else (scenarios.mszip_block(d), len(d)) for d in datas]
    whole = b"".join(datas)
    nf = rng.randint(1, 4)
    cuts = sorted([0, len(whole)] + [rng.randrange(len(whole) + 1) for _ in range(nf - 1)])
    members, files = [], []
    for i in range(nf):
        nm = b"f%d.bin" % i
        members.append((nm, whole[cuts[i]:cuts[i + 1]]))
        files.append(dict(name=nm, length=cuts[i + 1] - cuts[i], offset=cuts[i], folder=(7 if i in bad_index else 0)))
    cab, layout = minicab.build([(comp, payloads)], files, data_res=rng.choice([0, 0, 2]), header_res=rng.choice([None, None, b"hdr"]))
    if bad_cksum is not None:
        off, _ = layout["blocks"][0][bad_cksum % nblocks]
        old = struct.unpack_from("<I", cab, off)[0]
        new = (old ^ 0x5a5a5a5a) or 1
        cab = cab[:off] + struct.pack("<I", new) + cab[off + 4:]
    return cab, members, comp

def generate(ctx):
    rng = ctx.rng
    n = 25 if ctx.tier == "quick" else 400
    for k in range(n):
        cab, members, comp = build_cab(rng)
        for (s, f) in COMBOS:
            yield case_lines(cab, len(members), s, f), dict(family="cab.params", salvage=s, fix=f, expect=[digest(m[1]) for m in members],
                                                            names=[m[0].hex() for m in members], comp=comp, sig=f"{hash(cab)}-{s}{f}")
    for k in range(n):
        nf_bad = rng.sample(range(4), rng.randint(1, 2))
        cab, members, comp = build_cab(rng, bad_index=nf_bad)
        good = [m for i, m in enumerate(members) if i not in nf_bad]
        if not good or len(good) == len(members): continue
        for (s, f) in COMBOS:
            yield case_lines(cab, len(members), s, f), dict(family="cab.badindex", salvage=s, fix=f, expect=[digest(m[1]) for m in good],
                                                            names=[m[0].hex() for m in good], comp=comp, sig=f"{hash(cab)}-{s}{f}")
    for k in range(n):
        cab, members, comp = build_cab(rng, bad_cksum=rng.randrange(3))
        for (s, f) in COMBOS:
            yield case_lines(cab, len(members), s, f), dict(family="cab.badcksum", salvage=s, fix=f, expect=[digest(m[1]) for m in members],
                                                            names=[m[0].hex() for m in members], comp=comp, sig=f"{hash(cab)}-{s}{f}")
    # search(): valid cabinets (some carrying a nested cabinet, uncompressed, inside a data block; some preceded /
    # followed by junk or by a second cabinet) listed under all four combinations in one case
    for k in range(8 if ctx.tier == "quick" else 120):
        inner, _, _ = build_cab(rng)
        nested = rng.random() < 0.7
        other = bytes(rng.choice(b"xyz ") for _ in range(rng.choice([5, 500, 5000])))
        whole = (inner if nested else b"") + other
        blocks = []; pos = 0
        while pos < len(whole):
            n = min(len(whole) - pos, rng.choice([32768, 32768, 1000])); blocks.append((whole[pos:pos + n], n)); pos += n
        files = ([dict(name=b"inner.cab", length=len(inner), offset=0, folder=0)] if nested else []) + \
                [dict(name=b"other.txt", length=len(other), offset=len(inner) if nested else 0, folder=0)]
        outer, _ = minicab.build([(0, blocks)], files)
        blob = rng.choice([b"", b"MZ" + bytes(50)]) + outer + rng.choice([b"", b"junk" * 3, build_cab(rng)[0]])
        lines = [f"file b.bin {blob.hex()}"]
        for j, (sv, fx) in enumerate(COMBOS):
            lines += ["new cab", f"param i{j} SALVAGE {sv}", f"param i{j} FIXMSZIP {fx}", f"param i{j} SEARCHBUF {rng.choice([64, 32768])}", f"search i{j} b.bin"]
        yield lines, dict(family="cab.search-params", salvage=None, fix=None, nested=nested, sig=f"search-{hash(blob)}")
    # shipped fixtures: strict-valid ones must be unchanged by the flags (judged against the strict run of the same file)
    fx = sorted(glob.glob(os.path.join(C.REPO, "cabextract/test/cabs/*.cab")))
    for p in fx[: (6 if ctx.tier == "quick" else len(fx))]:
        if "large" in p or "split" in p: continue
        for (s, f) in COMBOS:
            lines = [f"fileref x.cab {p}", "new cab", f"param i0 SALVAGE {s}", f"param i0 FIXMSZIP {f}", "open i0 x.cab"]
            lines += [f"extract i0 h0 {i} o{i}" for i in range(4)] + ["close i0 h0", "destroy i0"]
            yield lines, dict(family="cab.fixture", salvage=s, fix=f, fixture=os.path.basename(p), sig=f"{p}-{s}{f}")

def listing(blocks):
    for b in blocks or []:
        if b[0].startswith("open"):
            return C.kv(b[0]), [l for l in b[1:] if l.startswith("file ")]
    return None, []

def extracts(blocks):
    return [C.kv(b[0]) for b in (blocks or []) if b and b[0].startswith("extract ") and "st=" in b[0]]

_strict_fixture = {}

def judge(ctx, meta, impl, model):
    fs = []
    fam = meta["family"]
    crash = [b[0] for b in impl if b[0].startswith(("CRASH", "TIMEOUT"))]
    if crash:
        fs.append(Finding("mismatch", "implementation crashed: " + crash[0]))
    head, files = listing(impl)
    ex = extracts(impl)
    names = [C.kv(l).get("name") for l in files]
    s, f = meta["salvage"], meta["fix"]
    if fam == "cab.params":
        if head is None or head.get("st") != "0":
            fs.append(Finding("violation", f"valid cabinet refused by open() under SALVAGE={s} FIXMSZIP={f}: {head}"))
        elif names != meta["names"]:
            fs.append(Finding("violation", f"listing of a valid cabinet differs under SALVAGE={s} FIXMSZIP={f}: {names} vs {meta['names']}"))
        else:
            for k, e in enumerate(ex[:len(meta["expect"])]):
                if e.get("st") != "0" or e.get("out") != meta["expect"][k]:
                    fs.append(Finding("violation", f"valid cabinet, member {k} under SALVAGE={s} FIXMSZIP={f}: st={e.get('st')} out={e.get('out')} expected {meta['expect'][k]}"))
    elif fam == "cab.badindex":
        if s == 0:
            if head is not None and head.get("st") == "0":
                fs.append(Finding("mismatch", "strict mode accepted a file entry with an invalid folder index"))
        else:
            if head is None or head.get("st") != "0":
                fs.append(Finding("violation", f"salvage mode refused a cabinet whose only defect is an invalid folder index: {head}"))
            elif names != meta["names"]:
                fs.append(Finding("violation", f"salvage mode lists {names}, expected exactly the valid members {meta['names']}"))
            else:
                for k, e in enumerate(ex[:len(meta["expect"])]):
                    if e.get("st") != "0" or e.get("out") != meta["expect"][k]:
                        fs.append(Finding("violation", f"salvage mode, remaining member {k}: st={e.get('st')} out={e.get('out')} expected {meta['expect'][k]}"))
    elif fam == "cab.badcksum":
        relaxed = s == 1 or (f == 1 and meta["comp"] == 1)
        for k, e in enumerate(ex[:len(meta["expect"])]):
            if s == 1 and (e.get("st") != "0" or e.get("out") != meta["expect"][k]):
                fs.append(Finding("violation", f"salvage mode, wrong stored checksum over intact data, member {k}: st={e.get('st')} out={e.get('out')} expected original {meta['expect'][k]}"))
    elif fam == "cab.search-params":
        import re
        def norm(b):       # handle numbers differ between the instances of one case
            return [re.sub(r"\bh\d+(\.\.h\d+)?", "h", l.split(" edges=")[0]) for l in b]
        sr = [norm(b) for b in impl if b[0].startswith("search")]
        if sr and " st=0" in sr[0][0]:
            for j, r in enumerate(sr[1:], 1):
                if r != sr[0]:
                    d = next((f"{x!r} vs strict {y!r}" for x, y in zip(r + ["<none>"] * len(sr[0]), sr[0] + ["<none>"] * len(r)) if x != y), "?")
                    fs.append(Finding("violation", f"search() of a valid cabinet lists differently under SALVAGE={COMBOS[j][0]} FIXMSZIP={COMBOS[j][1]} than in strict mode: {d}"))
    elif fam == "cab.fixture":
        key = meta["fixture"]
        proj = (head.get("st") if head else None, names, [(e.get("st"), e.get("out")) for e in ex])
        if (s, f) == (0, 0):
            _strict_fixture[key] = proj
        else:
            st = _strict_fixture.get(key)
            if st and st[0] == "0":
                if proj[0] != "0" or proj[1] != st[1]:
                    fs.append(Finding("violation", f"fixture {key}: listing differs from strict mode under SALVAGE={s} FIXMSZIP={f}"))
                for k, (a, b) in enumerate(zip(st[2], proj[2])):
                    if a[0] == "0" and a != b:
                        fs.append(Finding("violation", f"fixture {key} member {k}: strict {a}, SALVAGE={s} FIXMSZIP={f} gives {b}"))
    if model is not None and fam == "cab.search-params":
        if any(b[0].endswith("unsupported") for b in model): return fs
        pi = [[l.split(" edges=")[0] for l in b] for b in impl if b[0].startswith("search")]
        pm = [b for b in model if b[0].startswith("search")]
        if pi != pm:
            fs.append(Finding("mismatch", f"search results differ: impl={str(pi)[:200]} model={str(pm)[:200]}"))
        return fs
    if model is not None:
        mh, mfiles = listing(model)
        mex = extracts(model)
        if any(b[0].endswith("unsupported") for b in model): return fs
        pi = (head.get("st") if head else None, files, [(e.get("st"), e.get("out")) for e in ex])
        pm = (mh.get("st") if mh else None, mfiles, [(e.get("st"), e.get("out")) for e in mex])
        if pi != pm:
            fs.append(Finding("mismatch", f"model and implementation differ under SALVAGE={s} FIXMSZIP={f}: impl={str(pi)[:300]} model={str(pm)[:300]}"))
    return fs

def classify(ctx, meta, finding):
    return None
