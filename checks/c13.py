"""C13 — cabinet sets join consistently in any order; bad joins change nothing.

Theorems: Proofs/Props/C13.lean (every refusal of cabd_merge leaves the heap unchanged; each
listed refusal condition is refused with the right code).
Correspondence: cab.sets — model vs implementation on the listings reachable from every part
after every call.  Oracle on the implementation: whatever the order of the joins and whether
append or prepend is used, every part ends with the planned file list and every member (also of
folders spanning cabinets) extracts to its planned bytes; refused joins (same cabinet, already
joined, circular, parts of different sets with mismatched split folders) return an error, leave
both listings as they were and both cabinets separately closable (ledger empty at the end)."""
import itertools
from lib import common as C
from lib.pipeline import Finding
from lib.util import digest
from checks import scenarios as S

PROP = "C13"
LEVEL = "proof"
THEOREMS = {"Proofs.Props.C13": ["MsPack.Cab.C13_refused_unchanged", "MsPack.Cab.C13_ok_or_unchanged", "MsPack.Cab.C13_refuses_null",
                                 "MsPack.Cab.C13_refuses_same", "MsPack.Cab.C13_refuses_joined", "MsPack.Cab.C13_refuses_circular",
                                 "MsPack.Cab.C13_refuses_mismatch"],
            "Proofs.Props.C13Order": ["MsPack.Cab.C13_join_order_independent", "MsPack.Cab.C13_any_two_orders_agree"]}
ASSUMPTIONS = ["C13_join_order_independent: for every well-formed set (any number of parts; `WellFormedSet` is stated on the model's heap: distinct parts, each part's tables consistent, and every two adjacent runs of parts acceptable to the model's own canMergeFolders - "
               "a necessary condition, shown sufficient; an executable checker `wellFormedb` is proved sound) every sequence of adjacent joins by append or prepend returns OK at every step and leaves in every part exactly the expected fused folder and file lists; "
               "that the sets a writer produces satisfy `WellFormedSet` is checked on examples (two concrete sets through the checker) and by exhaustive join orders (<= 4 parts) / sampled (5 parts) on generated sets with model agreement after every call",
               "fault-free host (allocation failure inside a join is C09/C10's subject)"]
RULE = ("cab.sets: generated split sets of 2-5 parts (block and folder cuts, all methods); every order of the n-1 joins x append/prepend per join (exhaustive up to 4 parts in the thorough tier, sampled otherwise); "
        "listing of every part dumped after every call; cab.refused: same-cabinet, already-joined, circular and cross-set joins with dumps before/after; non-trivial = a set with a folder spanning two parts; distinct by set bytes + join order")

def gen_set(rng, parts):
    for _ in range(20):
        c = S.vgen_case(rng, "cab", rng.choice(["small", "small", "medium"]), parts=parts, embed=False, avoid_defects=True)
        if len(c["meta"]["order"]) == parts:
            return c
    return None

def generate(ctx):
    rng = ctx.rng
    n = 14 if ctx.tier == "quick" else 200
    for k in range(n):
        parts = rng.choice([2, 2, 3, 3, 4, 5])
        c = gen_set(rng, parts)
        if c is None: continue
        names = c["meta"]["order"]
        edges = list(range(parts - 1))
        orders = list(itertools.permutations(edges))
        if ctx.tier == "quick" or parts > 4:
            orders = rng.sample(orders, min(len(orders), 3))
        for order in orders:
            dirs = [rng.choice(["append", "prepend"]) for _ in edges]
            lines = S.file_lines(c) + ["new cab"] + [f"open i0 {nm}" for nm in names]
            for e in order:
                if dirs[e] == "append": lines.append(f"append i0 h{e} h{e + 1}")
                else: lines.append(f"prepend i0 h{e + 1} h{e}")
                lines += [f"dump i0 h{j}" for j in range(parts)]
            start = rng.randrange(parts)
            lines += [f"extract i0 h{start} {j} o{j}" for j in range(len(c["members"]))]
            lines += ["close i0 h0", "destroy i0"]
            yield lines, dict(family="cab.sets", parts=parts, order=list(order), dirs=dirs, start=start,
                              names=[(m["name"].hex() or "=") for m in c["members"]], lens=[m["length"] for m in c["members"]],
                              digests=[digest(m["data"]) for m in c["members"]], spans=any("block" in x for x in c["meta"].get("cuts", [])),
                              nontrivial=True)
    yield from param_mismatch(ctx)
    yield from one_sided(ctx)
    # refused joins
    for k in range(n):
        a = gen_set(rng, rng.choice([2, 3])); b = gen_set(rng, 2)
        if a is None or b is None: continue
        # "mismatched split folders": both boundaries involved must really split a folder, and no
        # file of one set may coincide (offset, length) with a file of the other
        splitty = all("block" in x for x in a["meta"].get("cuts", ["folder"])) and all("block" in x for x in b["meta"].get("cuts", ["folder"]))
        pa = {(m["offset"], m["length"]) for m in a["members"]}; pb = {(m["offset"], m["length"]) for m in b["members"]}
        cross_ok = splitty and not (pa & pb)
        an = a["meta"]["order"]; bn = b["meta"]["order"]
        lines = [f"file A_{nm} {bts.hex()}" for nm, bts in a["files"].items()] + [f"file B_{nm} {bts.hex()}" for nm, bts in b["files"].items()]
        lines += ["new cab"] + [f"open i0 A_{nm}" for nm in an] + [f"open i0 B_{nm}" for nm in bn]
        na = len(an)
        scen = rng.choice(["same", "joined", "circular"] + (["circular3", "circular3"] if na >= 3 else []) + (["cross", "cross", "cross"] if cross_ok else []))
        if scen == "same":
            pre = []; bad = f"append i0 h0 h0"; watch = [0]
        elif scen == "joined":
            pre = ["append i0 h0 h1"]; bad = rng.choice(["append i0 h0 h1", "prepend i0 h1 h0"]); watch = [0, 1]
        elif scen == "circular":
            pre = ["append i0 h0 h1"]; bad = rng.choice(["append i0 h1 h0", "prepend i0 h0 h1"]); watch = [0, 1]
        elif scen == "circular3":
            # the circle closes over a longer chain, not between direct neighbours
            pre = ["append i0 h0 h1", "append i0 h1 h2"]; bad = rng.choice(["append i0 h2 h0", "prepend i0 h0 h2"]); watch = [0, 2]
        else:
            # last part of set A with the second part of set B (different set: split folders cannot match)
            # first part of set A (its last folder continues) with the second part of set B (its first folder is a continuation)
            pre = []; bad = rng.choice([f"append i0 h0 h{na + 1}", f"prepend i0 h{na + 1} h0"]); watch = [0, na + 1]
        lines += pre + [f"dump i0 h{w}" for w in watch] + [bad] + [f"dump i0 h{w}" for w in watch]
        # both still separately closable
        closes = []
        if scen == "circular3":
            closes = ["close i0 h0"] + [f"close i0 h{j}" for j in range(3, na)] + [f"close i0 h{na + j}" for j in range(len(bn))]
        elif scen in ("joined", "circular"):
            closes = ["close i0 h0"] + [f"close i0 h{j}" for j in range(2, na)] + [f"close i0 h{na + j}" for j in range(len(bn))]
        else:
            closes = [f"close i0 h{j}" for j in range(na)] + [f"close i0 h{na + j}" for j in range(len(bn))]
        lines += closes + ["destroy i0"]
        yield lines, dict(family="cab.refused", scenario=scen, nwatch=len(watch), npre=len(pre), nontrivial=True)

def first_folder_offset(cab):
    """offset of the first CFFOLDER entry of a cabinet file"""
    import struct
    flags = struct.unpack_from("<H", cab, 30)[0]; p = 36
    if flags & 4:
        hres = struct.unpack_from("<H", cab, 36)[0]; p = 40 + hres
    for bit in (1, 2):
        if flags & bit:
            for _ in range(2): p = cab.index(b"\0", p) + 1
    return p

def param_mismatch(ctx):
    """two parts that fit in everything except the parameter bits of the split folder's compression type
    (LZX window size, Quantum window size, unused bits for stored/MSZIP): `mismatched split folders`"""
    import struct
    rng = ctx.rng
    n = 8 if ctx.tier == "quick" else 80
    done = 0
    for _ in range(n * 6):
        if done >= n: break
        c = gen_set(rng, 2)
        if c is None or not all("block" in x for x in c["meta"].get("cuts", ["folder"])): continue
        names = c["meta"]["order"]
        which = rng.choice([0, 1])                    # alter the left half's last folder or the right half's first folder
        cab = bytearray(c["files"][names[which]])
        p = first_folder_offset(cab)
        if which == 0: p += 8 * (struct.unpack_from("<H", cab, 26)[0] - 1)
        (res,) = (struct.unpack_from("<B", cab, 38) if struct.unpack_from("<H", cab, 30)[0] & 4 else (0,))
        if which == 0: p += res * (struct.unpack_from("<H", cab, 26)[0] - 1)
        ct = struct.unpack_from("<H", cab, p + 6)[0]
        method, bits = ct & 15, (ct >> 8) & 31
        if method == 3: nb = rng.choice([b for b in range(15, 22) if b != bits])
        elif method == 2: nb = rng.choice([b for b in range(10, 22) if b != bits])
        else: nb = bits ^ rng.choice([1, 2, 16])
        struct.pack_into("<H", cab, p + 6, (ct & ~0x1F00) | (nb << 8))
        files = dict(c["files"]); files[names[which]] = bytes(cab)
        bad = rng.choice(["append i0 h0 h1", "prepend i0 h1 h0"])
        lines = [f"file {nm} {files[nm].hex()}" for nm in names] + ["new cab"] + [f"open i0 {nm}" for nm in names]
        lines += ["dump i0 h0", "dump i0 h1", bad, "dump i0 h0", "dump i0 h1", "close i0 h0", "close i0 h1", "destroy i0"]
        done += 1
        yield lines, dict(family="cab.refused", scenario="split-folder-params", method=method, bits=[bits, nb], altered=which, nwatch=2, npre=0, nontrivial=True)

def one_sided(ctx):
    """non-fitting pairs in which only ONE side has a split folder: a part that continues joined to a complete
    cabinet, a complete cabinet joined to a part that continues from a previous one, two first parts, two last parts"""
    rng = ctx.rng
    n = 6 if ctx.tier == "quick" else 60
    done = 0
    for _ in range(n * 8):
        if done >= n: break
        a = gen_set(rng, 2); b = gen_set(rng, 1); a2 = gen_set(rng, 2)
        if a is None or b is None or a2 is None: continue
        if not all("block" in x for x in a["meta"].get("cuts", ["folder"])) or not all("block" in x for x in a2["meta"].get("cuts", ["folder"])): continue
        an = a["meta"]["order"]; bn = b["meta"]["order"]; a2n = a2["meta"]["order"]
        files = [f"file A_{nm} {bts.hex()}" for nm, bts in a["files"].items()] + [f"file B_{nm} {bts.hex()}" for nm, bts in b["files"].items()] + \
                [f"file C_{nm} {bts.hex()}" for nm, bts in a2["files"].items()]
        opens = ["new cab", f"open i0 A_{an[0]}", f"open i0 A_{an[1]}", f"open i0 B_{bn[0]}", f"open i0 C_{a2n[0]}", f"open i0 C_{a2n[1]}"]
        # h0 = A first (continues), h1 = A last (continued), h2 = B complete, h3 = C first, h4 = C last
        for (l, r, what) in ((0, 2, "continuing part + complete cabinet"), (2, 1, "complete cabinet + continued part"), (0, 3, "two first parts"), (1, 4, "two last parts")):
            bad = rng.choice([f"append i0 h{l} h{r}", f"prepend i0 h{r} h{l}"])
            lines = files + opens + [f"dump i0 h{l}", f"dump i0 h{r}", bad, f"dump i0 h{l}", f"dump i0 h{r}"] + [f"close i0 h{k}" for k in range(5)] + ["destroy i0"]
            yield lines, dict(family="cab.refused", scenario="one-sided: " + what, nwatch=2, npre=0, nontrivial=True)
        done += 1

def dumps(blocks):
    return [b for b in blocks if b[0].startswith("dump")]

def norm_dump(b):
    """listing without handle numbers: per cabinet line (offset/len/set/idx/counts) + folder/file lines"""
    out = []
    for l in b[1:]:
        if l.startswith("cab "):
            d = C.kv(l); out.append(("cab", d.get("set"), d.get("idx"), d.get("nfolders"), d.get("nfiles")))
        else:
            out.append(l)
    return out

def judge(ctx, meta, impl, model):
    fs = []
    crash = [b[0] for b in impl if b[0].startswith(("CRASH", "TIMEOUT"))]
    if crash:
        return [Finding("violation", "implementation " + crash[0])]
    end = next((C.kv(b[0]) for b in impl if b[0].startswith("end")), {})
    if meta["family"] == "cab.sets":
        joins = [C.kv(b[0]) for b in impl if b[0].startswith(("append", "prepend"))]
        for k, j in enumerate(joins):
            if j.get("st") != "0":
                fs.append(Finding("violation", f"join {k} of a well-formed set (order {meta['order']}, {meta['dirs']}) refused: st={j.get('st')}"))
        ds = dumps(impl)
        final = ds[-meta["parts"]:] if len(ds) >= meta["parts"] else []
        for pi, b in enumerate(final):
            files = [C.kv(l) for l in b[1:] if l.startswith("file ")]
            got = [(f.get("name"), int(f.get("len", -1))) for f in files]
            # only the first cabinet group of the dump is the part itself; lists are shared
            got = got[:len(meta["names"])]
            want = list(zip(meta["names"], meta["lens"]))
            if got != want:
                fs.append(Finding("violation", f"after joining in order {meta['order']} ({meta['dirs']}), part {pi} lists {len(got)} files, differing from the plan ({len(want)} files)"))
                break
        ex = [C.kv(b[0]) for b in impl if b[0].startswith("extract ")]
        for k, (e, dg) in enumerate(zip(ex, meta["digests"])):
            if e.get("st") != "0" or e.get("out") != dg:
                fs.append(Finding("violation", f"member {k} of the joined set (from part {meta['start']}): st={e.get('st')} out={e.get('out')} planned {dg}; join order {meta['order']} {meta['dirs']}"))
                break
    else:
        ds = dumps(impl); nw = meta["nwatch"]
        bad = [C.kv(b[0]) for b in impl if b[0].startswith(("append", "prepend"))][meta["npre"]:]
        if not bad or bad[0].get("st") == "0":
            fs.append(Finding("violation", f"{meta['scenario']} join was not refused: {bad[0] if bad else None}"))
        if len(ds) >= 2 * nw:
            before = [norm_dump(b) for b in ds[:nw]]; after = [norm_dump(b) for b in ds[nw:2 * nw]]
            if before != after:
                fs.append(Finding("violation", f"a refused {meta['scenario']} join changed a listing"))
        if end.get("allocs_live") not in (None, "0") or end.get("handles_live") not in (None, "0") or end.get("monitor") not in (None, "0"):
            fs.append(Finding("violation", f"after a refused {meta['scenario']} join the cabinets were not cleanly closable: {end}"))
    if model is not None and not any("unsupported" in b[0] for b in model):
        def proj(blocks):
            out = []
            for b in blocks:
                w = b[0].split(" ", 1)[0]
                if w == "dump": out.append(norm_dump(b))
                elif w in ("append", "prepend"): out.append((w, C.kv(b[0]).get("st")))
                elif w == "extract":
                    e = C.kv(b[0]); out.append(("extract", e.get("st"), e.get("out")))
            return out
        pi, pm = proj(impl), proj(model)
        if pi != pm:
            k = next((i for i, (x, y) in enumerate(zip(pi, pm)) if x != y), -1)
            fs.append(Finding("mismatch", f"model and implementation differ at step {k}: impl={str(pi[k])[:200] if k >= 0 else len(pi)} model={str(pm[k])[:200] if k >= 0 else len(pm)}"))
    return fs

def classify(ctx, meta, finding):
    return None
